#!/bin/bash
# Build the framework offline from files on disk: regenerate the translated Coq files from /repo and
# compile the whole development (full .vo).  Safe to re-run.
set -u
cd "$(dirname "$0")"
export PYTHONDONTWRITEBYTECODE=1 PYTHONWARNINGS=ignore PYTHONPATH=${ATSIM_REPO:-/repo} PYTHONHASHSEED=0
/venv/bin/python - <<'PY'
import sys, glob, os
sys.path[:0] = ['harness', 'tools']
import core
mods = sorted(os.path.basename(p)[:-3] for p in glob.glob('harness/gen_*.py'))
for r in core.regenerate(mods):
    print('setup: ' + r)
PY
cd coq
coq_makefile -f _CoqProject -o Makefile >/dev/null 2>&1
timeout 3000 make -j16 -k 2>&1 | grep -v -E "^(Closed under|Axioms:|COQDEP|COQC|  |[A-Za-z_.]+ *$|[A-Za-z_.']+ : )" | tail -40
echo "setup: coq build finished (exit ${PIPESTATUS[0]})"
exit 0
