#!/usr/bin/env python3
"""seed_iso.py NAME [PROP ...] : run the check(s) of a seeded change in isolation -- a scratch worktree of /repo with the patch
applied and a scratch copy of /verif pointed at it (ATSIM_REPO) -- so that /repo and /verif stay untouched and several seeds,
or a sweep of the clean tree, can run at the same time.  Results are merged into /verif/seeded/matrix.json.
NAME is a directory under /verif/seeded or a path holding patch.diff + meta.json."""
import json, os, re, shutil, subprocess, sys
V = '/verif'
name = sys.argv[1]; props = sys.argv[2:]
src = name if os.path.isdir(name) else os.path.join(V, 'seeded', name)
name = os.path.basename(src.rstrip('/'))
meta = json.load(open(os.path.join(src, 'meta.json')))
props = props or [meta['property']]
wt = '/tmp/siwt_%s' % name; vc = '/tmp/siv_%s' % name
def sh(cmd, **kw): return subprocess.run(cmd, shell=True, stdout=subprocess.PIPE, stderr=subprocess.STDOUT, text=True, **kw)
sh('git -C /repo worktree remove --force %s' % wt); shutil.rmtree(wt, ignore_errors=True); shutil.rmtree(vc, ignore_errors=True)
out = {}
try:
    assert sh('git -C /repo worktree add -q --detach %s HEAD' % wt).returncode == 0
    ap = sh('git -C %s apply %s' % (wt, os.path.join(src, 'patch.diff')))
    if ap.returncode != 0:
        print(name, 'patch does not apply'); sys.exit(2)
    sh('rsync -a --exclude .git %s/ %s/' % (V, vc))
    for p in props:
        r = sh('./check %s --tier %s' % (p, os.environ.get('TIER', 'quick')), cwd=vc, env=dict(os.environ, ATSIM_REPO=wt))
        line = [l for l in r.stdout.split('\n') if l.startswith('VIOLATION')]
        rep = None
        if line:
            m = re.search(r'replay=(\S+)', line[0])
            try:
                rj = json.load(open(m.group(1).replace(V, vc, 1) if m.group(1).startswith(V) else m.group(1)))
                rep = {'broken': [str(b[1] if isinstance(b, list) else b.get('what'))[:160] for b in rj.get('broken', [])][:2], 'failures': [f[:200] for f in rj.get('failures', [])][:2]}
            except Exception: pass
        out[p] = {'exit': r.returncode, 'violation': line[0] if line else None, 'concrete_input': bool(line) and 'no-failing-input-found' not in line[0], 'detail': rep}
        print(name, p, r.returncode, 'concrete' if out[p]['concrete_input'] else ('broken-only' if line else 'MISSED'), (rep or {}).get('failures', [''])[:1], flush=True)
finally:
    sh('git -C /repo worktree remove --force %s' % wt); shutil.rmtree(wt, ignore_errors=True); shutil.rmtree(vc, ignore_errors=True)
if src.startswith(os.path.join(V, 'seeded')):
    import fcntl
    mpath = os.environ.get('MATRIX', os.path.join(V, 'seeded', 'matrix.json'))
    with open(mpath + '.lock', 'w') as lk:          # several isolated runs may finish at the same time
        fcntl.flock(lk, fcntl.LOCK_EX)
        allm = json.load(open(mpath)) if os.path.exists(mpath) else {}
        allm.setdefault(name, {}).update(out)
        json.dump(allm, open(mpath, 'w'), indent=1, sort_keys=True)
