#!/bin/bash
# harmless_round.sh NAME PATCH : runs all 20 quick checks on a copy of /verif against a scratch worktree of /repo
# with PATCH (a behaviour-preserving refactoring) applied; prints one line per check. Nothing in /verif or /repo changes.
set -u
name=$1; patch=$2
wt=/tmp/hwt_$name; vc=/tmp/hv_$name
git -C /repo worktree remove --force $wt 2>/dev/null; rm -rf $wt $vc
git -C /repo worktree add -q --detach $wt HEAD || exit 2
git -C $wt apply ${APPLY_ARGS:-} $patch || { echo "$name: patch does not apply"; git -C /repo worktree remove --force $wt; exit 2; }
rsync -a --exclude .git /verif/ $vc/
cd $vc
for p in $(seq -f 'C%02g' 1 20); do
  out=$(ATSIM_REPO=$wt ./check $p --tier quick 2>&1)
  echo "$name $(echo "$out" | tail -1)"
  echo "$out" | grep -E "^VIOLATION|^BROKEN|^KNOWN" | sed "s/^/   $name $p /" | cut -c1-260
done
mkdir -p /tmp/hres_$name; cp -r $vc/replays /tmp/hres_$name/ 2>/dev/null
git -C /repo worktree remove --force $wt; rm -rf $vc
