#!/usr/bin/env python3
"""mk_frozen.py : (re)write harness/frozen_glue.json from /repo's current sources.
For every file a property is anchored in (properties.jsonl), every function of at least three statements that no generator /
assertion / harness module refers to by name is recorded with its source (docstrings stripped, ast.unparse).  harness/gen_frozen.py
compares the current source with this record on every run for the files the checked property is anchored in: a change in this
glue cannot go unnoticed (it breaks an obligation; the violation search then looks for a failing input).  Run this tool only
after a deliberate change of /repo (a fix: commit)."""
import ast, glob, json, os, sys
V = os.path.dirname(os.path.dirname(os.path.abspath(__file__)))
sys.path.insert(0, os.path.join(V, 'tools'))
from py2coq import strip_docstring
repo = sys.argv[1] if len(sys.argv) > 1 else '/repo'
files = {}
for l in open(os.path.join(V, 'properties.jsonl')):
    d = json.loads(l)
    for f in d['anchors']['files']: files.setdefault(f, []).append(d['id'])
# "referred to" = named as a whole word in a generator / assertion module (harness/gen_*.py, tools/py2coq.py).  A mention in a p_c*.py
# module (which only *runs* the function) does not pin its body: seeded/C20_m5 changed check_for_duplicate_table_forms unnoticed
# because p_c20.py named it in a comment.
import re
known_text = ''.join(open(p).read() for p in glob.glob(os.path.join(V, 'harness', 'gen_*.py')) if not p.endswith('gen_frozen.py')) \
        + open(os.path.join(V, 'tools', 'py2coq.py')).read()
known = set(re.findall(r'[A-Za-z_][A-Za-z_0-9]*', known_text))
out = {}
for f in sorted(files):
    p = os.path.join(repo, f)
    if not os.path.exists(p): continue
    tree = ast.parse(open(p, encoding='utf-8').read())
    def walk(node, prefix):
        for ch in ast.iter_child_nodes(node):
            if isinstance(ch, (ast.FunctionDef, ast.ClassDef)):
                q = (prefix + '.' if prefix else '') + ch.name
                if isinstance(ch, ast.FunctionDef):
                    body = strip_docstring(ch.body)
                    nst = sum(1 for x in ast.walk(ast.Module(body=body, type_ignores=[])) if isinstance(x, ast.stmt))
                    if nst >= 3 and ch.name not in known:
                        out.setdefault(f, {})[q] = '\n'.join(ast.unparse(st) for st in body)
                walk(ch, q)
    walk(tree, '')
json.dump({'anchored_in': {f: files[f] for f in out}, 'functions': out}, open(os.path.join(V, 'harness', 'frozen_glue.json'), 'w'), indent=1, sort_keys=True)
print(sum(len(v) for v in out.values()), 'functions in', len(out), 'files')
