#!/usr/bin/env python3
"""mk_frozen.py : (re)write harness/frozen_glue.json from /repo's current sources.

For every file a property is anchored in (properties.jsonl) the record holds
  functions : the full source (decorators, signature with its defaults, body; docstrings stripped, ast.unparse) of every function;
  read_by   : for the functions some generator reads through py2coq.load_function / assert_body while regenerating the models,
              the generator modules that do (the registry is taken by actually running every generator module, not by looking
              for names in their text: seeded/C20_m5 and seeded/C01_m4 changed functions that were only *mentioned* somewhere).
              The check of a property compares every function that none of ITS OWN generators reads;
  headers   : decorators and signature of every function, also of those a generator reads (a translator of a body does not see
              `@property` becoming `@cached_property`, nor a mutable default argument);
  statements: the module-level and class-level statements that are not functions, classes, imports or docstrings (constants,
              tables of synonyms, class attributes).
harness/gen_frozen.py compares the current source with this record on every run, for the files the checked property is anchored
in: a change in this glue cannot go unnoticed (it breaks an obligation; the violation search then looks for a failing input).
Run this tool only after a deliberate change of /repo (a fix: commit)."""
import ast, glob, json, os, re, sys
V = os.path.dirname(os.path.dirname(os.path.abspath(__file__)))
sys.path.insert(0, os.path.join(V, 'tools')); sys.path.insert(0, os.path.join(V, 'harness'))
import py2coq
from py2coq import strip_docstring
repo = sys.argv[1] if len(sys.argv) > 1 else '/repo'

def fn_text(fn):
    c = ast.FunctionDef(name=fn.name, args=fn.args, body=strip_docstring(fn.body) or [ast.Pass()], decorator_list=fn.decorator_list, returns=fn.returns, type_comment=None)
    return ast.unparse(ast.fix_missing_locations(c))
def fn_header(fn):
    c = ast.FunctionDef(name=fn.name, args=fn.args, body=[ast.Pass()], decorator_list=fn.decorator_list, returns=fn.returns, type_comment=None)
    return ast.unparse(ast.fix_missing_locations(c))
def is_doc(st): return isinstance(st, ast.Expr) and isinstance(getattr(st, 'value', None), ast.Constant) and isinstance(st.value.value, str)

def snapshot(repo, relfile):
    """(functions {qualname: full text}, headers {qualname: header}, statements {scope: [text]}) of one file"""
    tree = ast.parse(open(os.path.join(repo, relfile), encoding='utf-8').read())
    fns, heads, stmts = {}, {}, {}
    def walk(node, prefix):
        scope = prefix or '<module>'
        for ch in ast.iter_child_nodes(node):
            if isinstance(ch, (ast.FunctionDef, ast.ClassDef)):
                q = (prefix + '.' if prefix else '') + ch.name
                if isinstance(ch, ast.FunctionDef):
                    fns[q] = fn_text(ch); heads[q] = fn_header(ch)
                else:
                    stmts.setdefault(q, []).append('class %s(%s)' % (ch.name, ', '.join(ast.unparse(b) for b in ch.bases)))
                    if ch.decorator_list: stmts[q].append('decorators ' + ', '.join(ast.unparse(d) for d in ch.decorator_list))
                walk(ch, q)
            elif isinstance(node, (ast.Module, ast.ClassDef)) and isinstance(ch, ast.stmt) and not isinstance(ch, (ast.Import, ast.ImportFrom)) and not is_doc(ch):
                stmts.setdefault(scope, []).append(ast.unparse(ch))
    walk(tree, '')
    return fns, heads, stmts

if __name__ == '__main__':
    files = {}
    for l in open(os.path.join(V, 'properties.jsonl')):
        d = json.loads(l)
        for f in d['anchors']['files']: files.setdefault(f, []).append(d['id'])
    # source files no property names as an anchor, attached to the properties whose behaviour runs through them
    for f, pids in {'atsim/potentials/config/_modifier_registry.py': ['C09', 'C16'], 'atsim/potentials/referencedata/_data.py': ['C03'],
                    'atsim/potentials/referencedata/__init__.py': ['C03'], 'atsim/potentials/config/__init__.py': ['C09', 'C16']}.items():
        files.setdefault(f, []).extend(pids)
    # registry: what the generators really read
    LOADED = {}
    CUR = ['?']
    orig = py2coq.load_function
    def rec(r, relfile, qualname):
        LOADED.setdefault((relfile, qualname), set()).add(CUR[0]); return orig(r, relfile, qualname)
    py2coq.load_function = rec
    mods = set()
    for p in glob.glob(os.path.join(V, 'harness', 'p_c*.py')):
        m = re.search(r"GENMODS\s*=\s*\[(.*?)\]", open(p).read(), flags=re.S)
        if m: mods.update(re.findall(r"'(\w+)'", m.group(1)))
    for mn in sorted(mods - {'gen_frozen'}):
        mod = __import__(mn); CUR[0] = mn
        if hasattr(mod, 'load_function'): mod.load_function = rec
        for pid in ['C%02d' % i for i in range(1, 21)]:
            (mod.generate_for(repo, pid) if hasattr(mod, 'generate_for') else mod.generate(repo))      # a refusal here is an error: fix it first
            if not hasattr(mod, 'generate_for'): break
    out = {'anchored_in': {}, 'functions': {}, 'headers': {}, 'statements': {}, 'read_by': {}}
    import subprocess
    allsrc = [f for f in subprocess.check_output(['git', '-C', repo, 'ls-files', 'atsim/**/*.py'], text=True).split() if '/tests' not in f]
    for f in sorted(set(files) | set(allsrc)):
        files.setdefault(f, [])
        if not os.path.exists(os.path.join(repo, f)): continue
        fns, heads, stmts = snapshot(repo, f)
        out['anchored_in'][f] = files[f]
        out['functions'][f] = fns          # every function; 'read_by' names the generator modules that read it (empty: frozen for every property)
        out['read_by'][f] = {q: sorted(LOADED[(f, q)]) for q in fns if (f, q) in LOADED}
        out['headers'][f] = heads
        out['statements'][f] = stmts
    json.dump(out, open(os.path.join(V, 'harness', 'frozen_glue.json'), 'w'), indent=1, sort_keys=True)
    print(sum(1 for f in out['functions'] for q in out['functions'][f] if q not in out['read_by'][f]), 'functions frozen for every property,', sum(len(v) for v in out['headers'].values()), 'headers,',
          sum(len(x) for v in out['statements'].values() for x in v.values()), 'statements in', len(out['functions']), 'files;', len(LOADED), 'functions are read by generators')
