#!/usr/bin/env python3
"""Run the repository's pinned test suite (guard OFF) and compare with /root/.vp/BASELINE.json.
Exit 0 iff every stable_pass test passes."""
import json, os, subprocess, sys, tempfile, xml.etree.ElementTree as ET
base = json.load(open('/root/.vp/BASELINE.json'))
fd, junit = tempfile.mkstemp(suffix='.xml', prefix='atsim_base_'); os.close(fd)
env = dict(os.environ); env.pop('ATSIM_POTENTIALS_VERIF', None)
cmd = base['cmd'].replace('<file>', junit)
if len(sys.argv) > 1:   # run against a scratch worktree instead of /repo
    src = os.path.abspath(sys.argv[1])
    cmd = cmd.replace('cd /repo', 'cd ' + src)
    env['ATSIM_SRC'] = src
    env['PYTHONPATH'] = os.path.join(os.path.dirname(os.path.abspath(__file__)), 'site')
    env['PYTHONDONTWRITEBYTECODE'] = '1'
subprocess.run(cmd, shell=True, env=env, stdout=subprocess.DEVNULL, stderr=subprocess.DEVNULL)
passed = set()
for tc in ET.parse(junit).getroot().iter('testcase'):
    if not any(ch.tag in ('failure', 'error', 'skipped') for ch in tc):
        passed.add('%s::%s' % (tc.get('classname'), tc.get('name')))
os.unlink(junit)
missing = [t for t in base['stable_pass'] if t not in passed]
print('stable_pass expected %d, passing now %d, missing %d' % (len(base['stable_pass']), len(base['stable_pass']) - len(missing), len(missing)))
for m in missing: print('  MISSING', m)
sys.exit(1 if missing else 0)
