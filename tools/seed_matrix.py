#!/usr/bin/env python3
"""Apply every seeded change in /verif/seeded/*/patch.diff to /repo in turn, run the check of its property (and any extra
properties given as NAME:PROP,...), revert, and record what was reported in /verif/seeded/matrix.json.
Usage: seed_matrix.py [tier] [extra NAME:PROP ...]"""
import glob, json, os, re, subprocess, sys
V = '/verif'
tier = sys.argv[1] if len(sys.argv) > 1 else 'quick'
extra = {}
for a in sys.argv[2:]:
    n, p = a.split(':'); extra.setdefault(n, []).append(p)
out = {}
mpath = os.path.join(V, 'seeded', 'matrix.json')
if os.path.exists(mpath): out = json.load(open(mpath))
import shutil, tempfile
# checks rewrite /verif/evidence on every run: keep the clean-tree evidence aside and put it back at the end
_keep = tempfile.mkdtemp(prefix='evidence_keep_'); shutil.copytree(os.path.join(V, 'evidence'), os.path.join(_keep, 'evidence'))
import atexit
def _restore():
    shutil.rmtree(os.path.join(V, 'evidence'), ignore_errors=True); shutil.copytree(os.path.join(_keep, 'evidence'), os.path.join(V, 'evidence')); shutil.rmtree(_keep, ignore_errors=True)
atexit.register(_restore)
assert subprocess.run(['git', '-C', '/repo', 'status', '--porcelain'], capture_output=True, text=True).stdout.strip() == '', '/repo is not clean'
for d in sorted(glob.glob(os.path.join(V, 'seeded', 'C*_m*')) + glob.glob(os.path.join(V, 'seeded', 'R3_*')) + glob.glob(os.path.join(V, 'seeded', 'R5_*')) + glob.glob(os.path.join(V, 'seeded', 'R6_*'))):
    name = os.path.basename(d)
    if os.environ.get('SEEDS') and not re.search(os.environ['SEEDS'], name): continue
    meta = json.load(open(os.path.join(d, 'meta.json')))
    props = ([] if os.environ.get('ONLY_EXTRA') else [meta['property']]) + extra.get(name, [])
    if not props: continue
    if subprocess.run(['git', '-C', '/repo', 'apply', os.path.join(d, 'patch.diff')]).returncode != 0:
        out.setdefault(name, {})['apply'] = 'FAILED'; continue
    try:
        for p in props:
            r = subprocess.run([os.path.join(V, 'check'), p, '--tier', tier], capture_output=True, text=True, cwd=V)
            line = [l for l in r.stdout.split('\n') if l.startswith('VIOLATION')]
            rep = None
            if line:
                m = re.search(r'replay=(\S+)', line[0])
                try:
                    rj = json.load(open(m.group(1)))
                    rep = {'broken': [b[1][:160] for b in rj.get('broken', [])][:2], 'failures': [f[:200] for f in rj.get('failures', [])][:2]}
                except Exception: pass
            out.setdefault(name, {})[p] = {'exit': r.returncode, 'violation': line[0] if line else None, 'concrete_input': bool(line) and 'no-failing-input-found' not in line[0], 'detail': rep}
            print(name, p, r.returncode, 'concrete' if out[name][p]['concrete_input'] else ('broken-only' if line else 'MISSED'), flush=True)
    finally:
        subprocess.run(['git', '-C', '/repo', 'checkout', '--', '.'])
        subprocess.run(['git', '-C', '/repo', 'clean', '-fdq'])
    json.dump(out, open(mpath, 'w'), indent=1, sort_keys=True)
