#!/usr/bin/env python3
"""Regenerate /verif/MANIFEST.json from the table below (one entry per claimed property)."""
import json, os
HERE = os.path.dirname(os.path.dirname(os.path.abspath(__file__)))
CLAIMED = {
 'C08': dict(
   text="Coq theorems over a model whose two decision procedures (_range_defn_cmp, _range_search) are regenerated from the Python source on every run: "
        "for every list of ranges (any length, duplicates included) the selected range contains r, has the greatest start among containing ranges, is an inclusive range at r when one starts at r, "
        "nothing is selected iff no range contains r (defaults returned), value/deriv/deriv2 use the same selection; for distinct (start, marker) keys the selection is the last containing range in key order and is invariant under permutation of the listing. "
        "Tie to the code: translator + vm_compute correspondence against Multi_Range_Potential_Form and potable [Pair] definitions. The statement without the distinct-key hypothesis is refuted in Coq (known finding C08-dupkey).",
   note="Trusted: Coq kernel; tools/py2coq.py printing; floats abstracted by order-isomorphic integers (code only compares); stable-sort model of list.sort; harness generators. No axioms.",
   technique="Coq proof over translated (py2coq) decision procedures + vm_compute correspondence", ref="DESIGN.md section 4 C08"),
}
PENDING_REASON = "check not built yet in this round (planned in DESIGN.md section 4); nothing is claimed for it"
props = [json.loads(l)['id'] for l in open(os.path.join(HERE, 'properties.jsonl'))]
checks = []
for pid in props:
    if pid not in CLAIMED: continue
    c = CLAIMED[pid]
    checks.append({
        'property_id': pid,
        'quick_cmd': './check %s --tier quick' % pid,
        'thorough_cmd': './check %s --tier thorough' % pid,
        'evidence_file': 'evidence/%s.json' % pid,
        'replay_cmd_template': './check %s --replay {path}' % pid,
        'engine': 'coq',
        'level_claimed': {'category': 'proof', 'text': c['text'], 'design_ref': c['ref']},
        'level_note': c['note'],
        'technique': c['technique'],
    })
man = {
    'version': 1,
    'setup_cmd': './setup.sh',
    'hooks': {'guard': 'ATSIM_POTENTIALS_VERIF', 'enable': 'no source hooks are needed: every observable is reachable from outside (callables are user supplied, output is a file object, exceptions propagate); the checks set ATSIM_POTENTIALS_VERIF=1 but /repo does not read it',
              'baseline_off_cmd': 'python3 tools/run_baseline.py', 'source_commits': [], 'add_only': True},
    'engines': [{'name': 'coq', 'path': 'coq/', 'serves_properties': sorted(CLAIMED), 'kind_free_text': 'Coq 8.16.1 development (models, theorems) + Python driver ./check (translator tools/py2coq.py, correspondence harness harness/)'}],
    'checks': checks,
    'not_applicable': [{'property_id': p, 'reason': PENDING_REASON} for p in props if p not in CLAIMED],
    'notes': 'All checks decide their property by machine-checked proof in Coq 8.16.1 over a model tied to /repo by a translator and/or a correspondence check; see DESIGN.md. known_findings.json lists recorded findings and fixed: entries.',
}
json.dump(man, open(os.path.join(HERE, 'MANIFEST.json'), 'w'), indent=1)
print('MANIFEST.json: %d checks, %d not_applicable' % (len(checks), len(man['not_applicable'])))
