#!/usr/bin/env python3
"""Regenerate /verif/MANIFEST.json from the table below (one entry per claimed property)."""
import json, os
HERE = os.path.dirname(os.path.dirname(os.path.abspath(__file__)))
CLAIMED = {
 'C01': dict(
   text="Coq theorems over a layout model of the LAMMPS writer (model/PairTables.v; row formula and dr regenerated from the source): one block per potential in order, headed by its two labels; header N = nr-1 = number of rows, rows numbered 1..N; "
        "r_n = n*dr for every nr >= 3 (first row dr, last row cutoff, no r=0 row); in every row the energy and force cells evaluate the same potential at the same r_n; the force cell is Potential.force = -gradient (analytic derivative, else the secant slope of C07). "
        "Tie: the model's token stream is rendered with the values recording callables returned and compared byte for byte with the file written by LAMMPS_PairTabulation.write / writePotentials; potable route compared at printed precision.",
   note="Trusted: Coq kernel (vm_compute for evaluation); translator printing + exact-body assertions; harness renderer (Python % formatting); exact rationals for grid positions (float rounding of r not modelled, 1.5e-8 print tolerance).",
   technique="Coq proof over a layout model with translated arithmetic + byte-exact vm_compute correspondence", ref="DESIGN.md section 4 C01"),
 'C02': dict(
   text="Coq theorems over the DL_POLY TABLE layout model: header delpot = cutoff/(ngrid-4), cutpot, ngrid; per potential the 8+8 label line, exactly ngrid energies then ngrid force values in records of four; accumulated r_k = k*delpot (induction); "
        "force value = r * Potential.force(r) for the same callable; a row count not divisible by four is rejected before anything is written. Tie: byte-exact correspondence as C01 (API, writePotentials('DL_POLY'), potable DL_POLY/DLPOLY; rejected counts must raise and write nothing).",
   note="As C01. ngrid = 4 (division by zero in delpot) is outside the domain.",
   technique="Coq proof over a layout model with translated arithmetic + byte-exact vm_compute correspondence", ref="DESIGN.md section 4 C02"),
 'C03': dict(
   text="Coq theorems over the setfl layout model (model/EamTables.v) and the builder model (model/EamBuilder.v): each element named once ([EAM-Embed] order then zero-filled species, NoDup proved), per element Nrho values F(i*drho) and Nr values rho(i*dr), "
        "pair blocks for (i, j<=i) in header order holding r*phi of the potential declared in either species order (find_pair symmetric; last declaration), zero when undeclared; header grid = tabulation grid; metadata precedence [Species] > built-in > default. "
        "Tie: byte-exact correspondence with writeSetFL / SetFL_EAMTabulation (recording callables) and potable setfl / lammps_eam_alloy; builder order vs the built tabulation.",
   note="Trusted: Coq kernel; translator printing + exact-body assertions of the builder glue; harness renderer; species ids are ranks of labels. No axioms.",
   technique="Coq proof over layout/builder models + byte-exact vm_compute correspondence", ref="DESIGN.md section 4 C03"),
 'C04': dict(
   text="Coq theorems: in the setfl eam/fs layout the block of element b holds, in order, the functions EAMPotential(o).electronDensityFunction[b] for o in element order, so the consumer's rule (site alpha, neighbour beta -> alpha-th array of beta's block) returns the function declared for central alpha / neighbour beta (c04_lammps_fs); "
        "TABEAM EEAM blocks 'dens A B' and Excel columns 'A->B' hold the function of central A / neighbour B; hence per-atom densities of any cluster agree (c04_cluster); the transposed layout is shown to differ. "
        "Tie: byte-exact correspondence of the three FS writers with an independent recording function per ordered pair; potable A->B entries as distinct constants read back from built objects and files.",
   note="Trusted: Coq kernel; the consumers' indexing rules (spec/Consumers.v) are ASSUMED from the formats' definitions; harness. No axioms.",
   technique="Coq proof over layout models + consumer-rule specification + byte-exact vm_compute correspondence", ref="DESIGN.md section 4 C04"),
 'C05': dict(
   text="Coq theorems over the TABEAM layout model: the number of block headers written equals n(n+1)/2 pair + n embe + n (EAM) or n^2 (EEAM) dens blocks for every number of elements, and the declared counts regenerated from the source (n(n+5)/2, 3n(n+1)/2) equal it (c05_count_eam, c05_count_eeam); "
        "one pair block per unordered pair (zero-filled when undeclared, last declaration in either order), headers n / 0.0 / (n-1)*step, n values at i*step in rows of four. Tie: byte-exact correspondence (writeTABEAM*, tabulation classes, potable DL_POLY_EAM / DL_POLY_EAM_fs).",
   note="Trusted: Coq kernel; translator printing; elements distinct (the pair set is modelled as the sorted triangle of the sorted species); harness. No axioms.",
   technique="Coq proof over layout model with translated count expressions + byte-exact vm_compute correspondence", ref="DESIGN.md section 4 C05"),
 'C06': dict(
   text="Coq theorems `<form>_call = spec_<form>` for all 15 built-in forms (polynomial for every order by induction on the coefficient list; Tang-Toennies as 'exact for the ideal constants' + 'every literal within 1e-13 of its ideal'), "
        "where <form>_call is regenerated from potentialfunctions.py on every run by the translator (which refuses a signature that differs from the documented parameter order) and spec_<form> is the documented closed form. "
        "The four access routes are modelled (model/Routes.v: parameters bound after r, arity check -> configuration error) and compared bit-for-bit in the implementation, including models that use one form several times. "
        "Tie: translator + interval-certified point evaluations of the generated terms against the running code.",
   note="Trusted: Coq kernel; Reals axioms + classic + primitive-int/float axioms (interval); translator printing; floats modelled as reals; spec/Forms.v is a hand transcription of the documentation (ZBL: cited constants); route glue asserted by exact AST match.",
   technique="Coq proof over translated (py2coq) expression kernels + interval-certified point evaluation", ref="DESIGN.md section 4 C06"),
 'C07': dict(
   text="Coq theorems (Coquelicot is_derive): for every built-in form the generated deriv/deriv2 are the derivatives of the generated __call__/deriv for all r in the domain and all parameters (Coulomb with a 1e-13 bound on the rounded literal; ZBL and Tang-Toennies exact for the ideal constants + literal bounds, named _partial); "
        "plus/product/pow/trans at ANY nesting depth by structural induction over expression trees (c07_any_depth), multi-range potentials away from range starts, numerical fallback only for the component without an analytic derivative, num_deriv = secant slope = f'(xi) (mean value theorem), force = -gradient. "
        "Tie: closures regenerated by the translator, wiring asserted on the AST, flags/values of built callables compared with the implementation by vm_compute/interval on generated trees (API and potable routes).",
   note="Trusted: Coq kernel; Reals axioms + classic + primitive-int/float axioms (interval); translator printing; floats modelled as reals (nested central differences compared with 5e-3 tolerance); scipy spline derivatives outside the model (C18).",
   technique="Coq proof (Coquelicot auto_derive/field, structural induction) over translated kernels + interval-certified correspondence", ref="DESIGN.md section 4 C07"),
 'C08': dict(
   text="Coq theorems over a model whose two decision procedures (_range_defn_cmp, _range_search) are regenerated from the Python source on every run: "
        "for every list of ranges (any length, duplicates included) the selected range contains r, has the greatest start among containing ranges, is an inclusive range at r when one starts at r, "
        "nothing is selected iff no range contains r (defaults returned), value/deriv/deriv2 use the same selection; for distinct (start, marker) keys the selection is the last containing range in key order and is invariant under permutation of the listing. "
        "Tie to the code: translator + vm_compute correspondence against Multi_Range_Potential_Form and potable [Pair] definitions. The statement without the distinct-key hypothesis is refuted in Coq (known finding C08-dupkey).",
   note="Trusted: Coq kernel; tools/py2coq.py printing; floats abstracted by order-isomorphic integers (code only compares); stable-sort model of list.sort; harness generators. No axioms.",
   technique="Coq proof over translated (py2coq) decision procedures + vm_compute correspondence", ref="DESIGN.md section 4 C08"),
 'C09': dict(
   text="Coq theorems: (syntax) over model/DefnSyntax.v -- tokens, definition trees (ranges, form instances, nested modifiers), printer and recursive-descent parser -- every tree is what its printed tokens parse to (c09_parse_print) and a token list parses to at most the one tree that prints to it (c09_parse_sound), for every nesting depth (mutual induction, explicit fuel bound); "
        "(modifiers) sum / product / pow of any number of argument potentials, each an expression of any nesting depth, are the pointwise left-to-right sum / product / power, trans(f, as.constant X) is f(r+X) (c09_sum, c09_product, c09_pow, c09_trans: reduce over the regenerated closures = built callable of the left-nested expression, with C07's value theorem); "
        "(formulas) the j-th [Potential-Form] denotes its own formula over the forms before it with positional binding and call-by-value calls (c09_form_meaning, c09_binding) and the implementation's evaluation over the shared mutable symbol tables yields exactly that (c09_forms_evaluate_to_meaning, from C12). "
        "(characters) model/Lexer.v restates how pyparsing cuts the text of a definition into tokens (identifier with dotted parts, the three number expressions in their order, '>=' before '>', brackets, comma, skipped whitespace, and the word-end look-ahead that makes '1.5.3' or '1.5abc' no parameter): lexing any rendering of any token list -- any whitespace before each token and at the end, at least one character between two word-like tokens -- "
        "returns exactly those tokens (c09_lex_render), so two renderings that differ only in whitespace read the same (c09_whitespace_invariant) and every definition tree is read back from every rendering of its printed tokens with every spelling of its labels and numbers (c09_text_roundtrip). "
        "(whitespace in any text) a non-empty run of whitespace may be replaced by any other and whitespace at the ends dropped, so pieces joined by a newline read like pieces joined by a blank (c09_ws_run, c09_ws_ends, c09_continuation_lines); "
        "(lines) model/Ini.v restates configparser's line parser as the repository configures it plus the repository's optionxform: the first '=' or ':' splits an option line whichever is written and whatever blanks surround it (c09_delimiter_choice), blanks and tabs anywhere in a key do not matter (c09_key_blanks), and a one-section one-option file with any indentation, delimiter, blanks and any number of continuation lines yields a value that reads like its pieces on one line (c09_file_value_reading), and a whole file printed from its structure (sections, options, continuation lines; headers and keys in the first column) parses back to exactly that structure (c09_parse_render). "
        "The standard library is outside the repository: model/Ini.v is an assumption about it, compared with _RawConfigParser on generated files on every run; float() of a number spelling and entry order are compared only (partial). "
        "Tie: exact bodies of the grammar, _descend_tree, the reducing modifiers (+ regenerated closures, symbol-table code of C12); parse trees of generated and malformed token lists in arbitrary spellings vs ConfigParser's tuple chains; read_value (lexer + flags + parser) vs _parse_multi_range on renderings, character edits of them, glued lexemes and random strings (accept/reject, labels, float values), pyparsing's number expressions / identifier characters / whitespace and configparser's patterns / flags re-read from the installed libraries; parse_ini vs _RawConfigParser on generated files; thorough tier: all 24 364 strings of a small scope through lexer model and pyparsing; n-ary nested modifiers in [Pair] / [EAM-Embed] / [EAM-Density] (plain and A->B) interval-certified; formulas over + - * / ^ if(), calls, as.polynomial, pymath.* vs the evaluator model by vm_compute.",
   note="Trusted: Coq kernel; hand-written syntax and lexer models tied by AST assertions + parse-tree comparison (ASCII text only); configparser lexing by generation; cexprtk operator semantics and pymath = math module assumed; Reals axioms + classic + funext for the modifier theorems (syntax and formula theorems axiom-free); primitive axioms via interval in the correspondence only.",
   technique="Coq proof (lexer and parser/printer round trips by induction; combinator denotation; evaluator purity) + vm_compute and interval-certified correspondence", ref="DESIGN.md section 4 C09"),
 'C10': dict(
   text="Coq theorems over model/Spline.v with the 6x6 (Exp_Spline) and 10x10 (Buck4_Spline) systems translated entry by entry from the np.array literals: for EVERY solution of the system the exponential spline exp(P5(r))+C takes the value, first and second derivative of the two Spline_Points at detach and attach, "
        "including when non-positive values are shifted (c10_exp_join); the buck4 spline's fifth-order piece matches the start potential at detach, is stationary at r_min, meets the third-order piece there with equal value, slope and curvature, which matches the end potential at attach (c10_buck4_join); "
        "the splined potential equals its start potential (value, deriv, deriv2) for r <= detach and its end potential for r >= attach, and is twice differentiable at both joins and inside the region with deriv / deriv2 its true derivatives (c10_exp_c2, c10_buck4_c2, glue lemma over Coquelicot is_derive); as.buck4 and its documented spline() expansion are the same callable with the same system. "
        "Tie: translator + exact-body assertions of the glue (Spline_Point, shift, region selection, factories, spline() modifier, buck4); per generated case the arguments numpy.linalg.solve received, the residual of the returned coefficients and value/deriv/deriv2 in all regions through the three routes are interval-certified against the model.",
   note="Trusted: Coq kernel; numpy.linalg.solve modelled by its contract (theorems hold for every solution; the returned one is residual-checked per case); translator printing; Reals axioms + classic + funext; primitive axioms via interval in the correspondence only. Domain: end potentials well conditioned at the joins.",
   technique="Coq proof over translated linear systems + callable model (Coquelicot) + interval-certified correspondence", ref="DESIGN.md section 4 C10"),
 'C11': dict(
   text="Coq theorems over _init_cutoff modelled in IEEE binary64 (Flocq BinarySingleNaN): for every k up to 2^40 and every real (hence decimal) step delta in the normal range, with cutoff and dr the floats nearest k*delta and delta, nr = round(cutoff/dr)+1 = k+1 (c11_rows: real-number core by relative-error bounds + interval, lifted through Bdiv_correct / Bnearbyint_correct / Btrunc_correct); "
        "the truncating expression before the repair is refuted (0.3/0.1 -> 3 rows); nr&dr -> cutoff=(nr-1)*dr, cutoff&nr kept, all three / a step alone / non-positive values -> configuration error, defaults. "
        "Tie: exact-body assertions of _init_cutoff, _check_positive, create_cutoff and the factories' defaults; parser results compared bit for bit with the model on decimal lattices (both grids); written row counts on all 11 targets.",
   note="Trusted: Coq kernel; Flocq as the definition of binary64; Python float(str) correctly rounded and round() = half-even (assumed); Reals axioms + classic + primitive axioms (interval).",
   technique="Coq proof over a Flocq binary64 model + bit-exact vm_compute correspondence", ref="DESIGN.md section 4 C11"),
 'C12': dict(
   text="Coq theorems: (purity) for every non-recursive set of custom potential forms, each owning ONE symbol table that is overwritten on every call (model/Evaluator.v, a state machine over the tables), every form evaluates to the substitution semantics of its definition for every argument list and EVERY contents of the tables left by earlier calls -- shared sub-forms called with different arguments included (c12_forms_pure), hence for every order and interleaving of evaluations (c12_history_pure, induction over the history); "
        "(determinism) for every history of build / write / evaluate operations over several tabulation objects with lazy caches, per-model symbol tables and objects shared through default arguments, every observation equals the one of a freshly built object (c12_history_deterministic, invariant by induction over operations, refinement to a stateless spec); "
        "(hash order) the element order of under-specified EAM models is independent of the iteration order of the species set (c12_element_order). "
        "Process-level determinism (fresh process, PYTHONHASHSEED) cannot be a theorem about a model: it is exercised by subprocess runs (partial). "
        "Tie: exact-body assertions of __call__ / _init_symbol_table / register_function / mutual registration / lazy caches / zero-fill loop and a fail-closed static check that shared default objects are never mutated; energies of generated form sets under generated histories compared with the model's run by vm_compute; real build/write/evaluate histories compared observation by observation with fresh processes under other hash seeds; potable under several seeds.",
   note="Trusted: Coq kernel (no axioms); hand-written state machines tied by AST assertions + behavioural comparison; cexprtk assumed to evaluate expressions as written reading variables at evaluation time; non-recursive forms; xlsx compared as sheet contents (zip timestamps).",
   technique="Coq proof (state-machine purity by mutual induction, cache-coherence invariant over operation histories) + vm_compute and fresh-process differential correspondence", ref="DESIGN.md section 4 C12"),
 'C13': dict(
   text="Coq theorems over model/Filter.v with FilteredConfigParser._check_tuple regenerated from the source: include S keeps exactly the entries all of whose species are in S, exclude S those none of whose species is in S; the filtered pair/embedding/density lists equal the parse of the file with the offending lines deleted (order and surviving entries unchanged); "
        "a read through a view depends on that view's own settings only, for every history of creating and reading views (induction over the history); the shared-state behaviour before the repair is refuted in Coq. "
        "Tie: translator + exact-body assertions; every filtered list of generated models/sets/histories compared by vm_compute; potable --include/--exclude-species output vs the hand-edited file.",
   note="Trusted: Coq kernel; translator printing; INI lexing by generation; differential comparison of potable outputs runs in the implementation. No axioms.",
   technique="Coq proof over translated decision procedure + state-machine induction + vm_compute correspondence", ref="DESIGN.md section 4 C13"),
 'C14': dict(
   text="Coq theorems over model/Store.v: for every sequence of override/remove/add operations, applying them to the parsed store equals parsing the hand-edited file, and an operation that cannot be made by hand is a configuration error in both (c14_equiv, induction over the operation list); the potable command line (all overrides, then all removals, then all additions, in the order given, nothing collated) is that sequence of operations (c14_cli_equiv) and an item named by two --remove-item options is refused whatever else is on the command line (c14_cli_remove_twice); down to characters, the hand-edited file printed in any key spelling is read by the line parser (model/Ini.v) as exactly the store the operations produce (c14_edited_file_text, proof/StoreText.v: the model's printer is compared with the harness' printer and text_store with the raw parser on every run); the edited store is duplicate free; keys are addressed irrespective of whitespace; --list-items is complete with one line per item. "
        "Tie: exact-body assertions of _init_config_parser / _make_config_parser / _create_override_tuple; resulting stores of ConfigParser(overrides=, additional=) and --list-items output of the potable CLI compared by vm_compute; outputs of operations vs hand-edited files compared.",
   note="Trusted: Coq kernel; hand-written store model tied by AST assertions + behavioural comparison; INI lexing by generation (stdlib configparser). Reading: removing a section's last item by hand also removes its header. No axioms.",
   technique="Coq proof (commutation by induction over operations) over a store model + vm_compute correspondence", ref="DESIGN.md section 4 C14"),
 'C15': dict(
   text="Coq theorems over model/Variables.v: the file with placeholder values substituted by hand has the same sections, the same keys in the same order, and every value equal to the interpolated value of the templated file (c15_equiv); changing [Variables] does not change keys or templates of any other section (c15_unused_inert); the leak of variable names into other sections' iteration (behaviour before the repair) is refuted. "
        "Tie: the parser's options/has_option/get asserted on the AST; keys iterated and interpolated values of every section compared with the model; templated vs hand-substituted file tabulations compared. ${NAME} resolves to [Variables] first at every nesting level (c15_variables_first; the repaired interpolation class is asserted on the AST).",
   note="Trusted: Coq kernel; the stdlib's ExtendedInterpolation is an oracle whose assumed behaviour is `interp` (compared on every run); partial: the interpolation engine itself is not verified. No axioms.",
   technique="Coq proof over a store/interpolation model + vm_compute correspondence", ref="DESIGN.md section 4 C15"),
 'C16': dict(
   text="Coq theorems over model/Validate.v (potable models after lexing: definitions as trees of ranges, form instances and modifiers with labels resolved against the registered forms -- standard arities regenerated from the signatures -- plus target, sections, key styles and table-form states): "
        "the implementation's checks accept exactly the declarative grammar of the manual (c16_accepts_iff_wf, c16_definitions: mutual induction over nested definitions), so a table is written for every well-formed model, every other model is a configuration error and there is no third outcome (c16_outcome); "
        "every catalogue malformation (unknown form / modifier / target, wrong parameter count, spline keyword outside spline, trans arity and shift, spline part count / type / parameters / r_min range incl. the end points / range order / argument count, missing sections, key styles, unusable table forms) invalidates the piece it hits, "
        "and an invalid piece invalidates whatever contains it at any depth (c16_instances, c16_modifiers, c16_spline_middle, c16_containment, c16_sections, c16_density_keys). "
        "Tie: regenerated arities + assertions of the argument-count check, trans / spline validation, _is_vararg_signature, potable main() and the exception hierarchy; validate compared with Configuration().read on generated well-formed models over all eleven targets and one catalogue mutation of each, a sample through the potable CLI; "
        "text-level malformations (non-numeric tokens, placeholders, not-an-INI-file, signatures, formulas, table data, grid options, [Species]) by the oracle. Text level (model/Ini.v, the line parser of configparser as the repository configures it, compared with it on every run): when the first line that is neither blank nor a comment is not a section header the parse fails (c16_not_ini_text); ConfigParser turns every configparser error into a configuration error (asserted on the AST).",
   note="Trusted: Coq kernel (no axioms); hand-written model tied by generated arities, AST assertions and outcome comparison; lexing by generation; malformations below the model's lexical level are oracle-only (tests, not theorems); numeric failures of well-formed models skipped.",
   technique="Coq proof (decision procedure = declarative grammar, by mutual induction; catalogue lemmas) + vm_compute correspondence on generated models and mutations", ref="DESIGN.md section 4 C16"),
 'C17': dict(
   text="Coq theorem (lib/Effects.v): for a writer whose effects are 'all evaluations, then one write of the whole table', a fault at ANY evaluation position k leaves nothing written, for every layout (instantiated for all targets); a piecewise writer (GULP / ADP before their repair) is refuted in Coq. "
        "Tie: on every run the recorded interleaving of evaluations and write() calls of every writer must be exactly that sequence, a fault is injected at every evaluation position of small generated tables, and potable is run on every target with a formula that leaves its domain part-way (exit status, output file empty or absent).",
   note="Trusted: Coq kernel; that each writer's effects are the modelled sequence is a per-run behavioural check, not a translation; OS-level file behaviour and runtime faults (MemoryError, signals) are outside the model. No axioms.",
   technique="Coq proof over an effect model + exhaustive fault injection correspondence", ref="DESIGN.md section 4 C17"),
 'C18': dict(
   text="Coq theorems over model/TableReader.v: (reader) for every data file whose rows have pairwise different x, whatever the row order and wherever comments and blank lines stand, TableReader returns the tabulated y at every tabulated x (c18_reader_rows), strictly between two neighbouring rows the convex combination of their y values, hence a value between them (c18_reader_between), and 0 outside; "
        "(table form) x/y lists and xy pairs parse to the same data, odd counts / unequal lengths are configuration errors; the table form is zero outside [xmin, xmax] with both derivatives, and deriv / deriv2 are the true derivatives (Coquelicot is_derive) of the interpolant and of deriv at every real x off the knots and the two ends; (plot) exactly `steps` rows at x_i = lowx + i*(highx-lowx)/steps, pairwise different, inside [lowx, highx). "
        "PARTIAL: scipy's spline fit is not modelled -- the table-form model is the piecewise polynomial read back from the fitted object, and that it passes through the data points is checked per case by the oracle only. "
        "Tie: exact-body assertions of getValue / _findIndex / _populate / _parse_xy / _parse_x_y / _parse_data / Cubic_Spline_Table_Form / plotToFile (+ translated plot arithmetic); query sequences on one reader, table-form value/deriv/deriv2, parser outcomes and plot rows compared with the model by vm_compute.",
   note="Trusted: Coq kernel; hand-written rational model tied by AST assertions + behavioural comparison; float rounding not modelled (exact at tabulated x / outside, 1e-9 relative in between); scipy fit outside the model; Reals axioms + classic + funext for the derivative theorems only.",
   technique="Coq proof over a rational/real model of the readers + vm_compute correspondence (scipy fit checked by oracle only: partial)", ref="DESIGN.md section 4 C18"),
 'C19': dict(
   text="Coq theorems over the layout models of the secondary targets: GULP blocks ('spline cubic', 'A B cutoff', nr rows 'energy separation' at r_i = i*cutoff/(nr-1)); ADP = setfl of the same model followed by unscaled dipole then quadrupole blocks for pairs (i, j<=i), zero when undeclared, either order; "
        "funcfl header = grid tabulated and (Z^2 * 27.2 * 0.529 / r = phi) over the reals; Excel sheets with r/rho in the first column on the tabulation grid and every cell the labelled function at that row. Tie: byte-exact / cell-by-cell correspondence for API and potable routes (nrho != nr generated deliberately).",
   note="Trusted: Coq kernel; Reals axioms + classic for the funcfl identity only; translator printing; openpyxl to read workbooks back; harness.",
   technique="Coq proof over layout models + byte-exact vm_compute correspondence", ref="DESIGN.md section 4 C19"),
 'C20': dict(
   text="Coq theorems over model/Duplicates.v: a second definition of the same pair interaction in either species order is rejected and an accepted [Pair] section defines every interaction once; two lines of one section differing only in whitespace are rejected by the parse; "
        "an accepted file binds every pair interaction and every potential-form label (formula or table form) to exactly one definition and shadows no built-in form (c20_unique_binding). "
        "Tie: optionxform/_key_transform/_check_for_duplicate_pairs asserted on the AST; accept/reject verdict of generated models with one entry duplicated in 13 ways compared with Configuration().read. Character level (model/Ini.v): after any well-formed file a second header with the name of an earlier section (other than [Variables]) or a further option of the last section whose key equals an earlier one after optionxform - i.e. up to blanks and tabs anywhere in it (c20_key_blanks) - makes the parse fail (c20_duplicate_section_text, c20_duplicate_option_text); parse_ini is compared with the raw parser of the repository on generated files on every run. Store model and characters agree (proof/StoreText.v): xform (key_text k sp) = canon k for every spelling of every key (c20_key_spellings) and, when Store.parse accepts, the printed file (spellings, either delimiter, continuation lines, empty lines) is read by parse_ini as exactly text_store (c20_store_text); the printer of the model = the printer of the harness and text_store = the raw parser, checked on every generated file.",
   note="Trusted: Coq kernel; hand-written duplicate-check model tied by AST assertions + behavioural comparison; INI lexing by generation. No axioms.",
   technique="Coq proof over a duplicate-check model + vm_compute correspondence", ref="DESIGN.md section 4 C20"),
}
PENDING_REASON = "check not built yet in this round (planned in DESIGN.md section 4); nothing is claimed for it"
props = [json.loads(l)['id'] for l in open(os.path.join(HERE, 'properties.jsonl'))]
checks = []
for pid in props:
    if pid not in CLAIMED: continue
    c = CLAIMED[pid]
    checks.append({
        'property_id': pid,
        'quick_cmd': './check %s --tier quick' % pid,
        'thorough_cmd': './check %s --tier thorough' % pid,
        'evidence_file': 'evidence/%s.json' % pid,
        'replay_cmd_template': './check %s --replay {path}' % pid,
        'engine': 'coq',
        'level_claimed': {'category': 'proof', 'text': c['text'], 'design_ref': c['ref']},
        'level_note': c['note'],
        'technique': c['technique'],
    })
man = {
    'version': 1,
    'setup_cmd': './setup.sh',
    'hooks': {'guard': 'ATSIM_POTENTIALS_VERIF', 'enable': 'no source hooks are needed: every observable is reachable from outside (callables are user supplied, output is a file object, exceptions propagate); the checks set ATSIM_POTENTIALS_VERIF=1 but /repo does not read it',
              'baseline_off_cmd': 'python3 tools/run_baseline.py', 'source_commits': [], 'add_only': True},
    'engines': [{'name': 'coq', 'path': 'coq/', 'serves_properties': sorted(CLAIMED), 'kind_free_text': 'Coq 8.16.1 development (models, theorems) + Python driver ./check (translator tools/py2coq.py, correspondence harness harness/)'}],
    'checks': checks,
    'not_applicable': [{'property_id': p, 'reason': PENDING_REASON} for p in props if p not in CLAIMED],
    'notes': 'All checks decide their property by machine-checked proof in Coq 8.16.1 over a model tied to /repo by a translator and/or a correspondence check; see DESIGN.md. known_findings.json lists recorded findings and fixed: entries.',
}
json.dump(man, open(os.path.join(HERE, 'MANIFEST.json'), 'w'), indent=1)
print('MANIFEST.json: %d checks, %d not_applicable' % (len(checks), len(man['not_applicable'])))
