#!/usr/bin/env python3
"""py2coq: a small, fail-closed translator from a subset of Python (read with the `ast` module from
/repo's current sources) to Coq 8.16 text.

Two front ends share this file:

* `translate_proc`  : small decision procedures (if/elif/else, return, assignments, one level of
                      `for x in xs:` loops with early return, and/or/not, comparisons) -> Gallina
                      functions.  Typed by a per-function environment given in the spec.
* `translate_expr_fn`: arithmetic expression kernels (`return <expr>` bodies, with local `let`s) ->
                      terms over Coq's R (see RExpr below).

Anything outside the subset raises `Refuse` -- the caller counts the proof obligation as broken.
The translator is part of the trusted base only for *printing* what it read; its reading is validated
on every run by the correspondence checks (procedures) and by interval-certified point evaluations
(expression kernels).
"""
import ast, fractions, os, re, sys, textwrap

class Refuse(Exception):
    pass

def load_function(repo, relfile, qualname):
    """Return the ast.FunctionDef for `qualname` ('func', 'Class.method', 'func.inner')."""
    path = os.path.join(repo, relfile)
    try:
        tree = ast.parse(open(path, encoding='utf-8').read(), filename=path)
    except (OSError, SyntaxError) as e:
        raise Refuse('cannot parse %s: %s' % (relfile, e))
    node = tree
    for part in qualname.split('.'):
        found = None
        for ch in ast.walk(node) if isinstance(node, ast.FunctionDef) else ast.iter_child_nodes(node):
            if isinstance(ch, (ast.FunctionDef, ast.ClassDef)) and ch.name == part and ch is not node:
                found = ch
                break
        if found is None:
            raise Refuse('%s: %s not found (looking for %s)' % (relfile, part, qualname))
        node = found
    if not isinstance(node, ast.FunctionDef):
        raise Refuse('%s: %s is not a function' % (relfile, qualname))
    return node

def load_class_constants(repo, relfile, classname):
    """Numeric class attributes `Name = <number>` of a class body."""
    path = os.path.join(repo, relfile)
    tree = ast.parse(open(path, encoding='utf-8').read())
    for n in ast.walk(tree):
        if isinstance(n, ast.ClassDef) and n.name == classname:
            out = {}
            for st in n.body:
                if isinstance(st, ast.Assign) and len(st.targets) == 1 and isinstance(st.targets[0], ast.Name) \
                   and isinstance(st.value, ast.Constant) and isinstance(st.value.value, (int, float)):
                    out[st.targets[0].id] = st.value
            return out
    raise Refuse('class %s not found in %s' % (classname, relfile))

def strip_docstring(body):
    if body and isinstance(body[0], ast.Expr) and isinstance(getattr(body[0], 'value', None), ast.Constant) \
       and isinstance(body[0].value.value, str):
        return body[1:]
    return body

# ----------------------------------------------------------------------------------------------
# Decision procedures
# ----------------------------------------------------------------------------------------------
# Types: 'Ord' (values that are only ever compared; instantiated by Z in Coq), 'Z', 'bool',
# ('enum', name, {python literal: coq constructor}), ('list', t), ('option', t),
# ('rec', coqname, {field: (projection, type)}), 'nat-id' (labels compared for equality only)

def ty_str(t):
    if isinstance(t, str):
        return {'Ord': 'Z', 'Z': 'Z', 'bool': 'bool', 'Id': 'nat'}[t]
    if t[0] == 'enum': return t[1]
    if t[0] == 'rec': return t[1]
    if t[0] == 'list': return '(list %s)' % ty_str(t[1])
    if t[0] == 'option': return '(option %s)' % ty_str(t[1])
    if t[0] == 'result': return '(result %s)' % ty_str(t[1])
    raise Refuse('unknown type %r' % (t,))

class Proc:
    def __init__(self, spec, fn):
        self.spec = spec
        self.fn = fn
        self.ret = spec['ret']
        self.locals = spec.get('locals', {})
        self.selfmap = spec.get('self', {})       # self.<attr> -> parameter name
        self.skip = spec.get('skip_assign_calls', ())
        self.loopn = 0
        self.aux = []
        self.tmpn = 0

    def fresh(self, base):
        self.tmpn += 1
        return '%s_%d' % (base, self.tmpn)

    # -------- expressions --------
    def contains_sub0(self, e):
        for n in ast.walk(e):
            if isinstance(n, ast.Subscript):
                return n
        return None

    def expr(self, e, env):
        """returns (coq text, type)"""
        if isinstance(e, ast.Name):
            if e.id not in env:
                raise Refuse('%s: unknown name %s' % (self.fn.name, e.id))
            return env[e.id]
        if isinstance(e, ast.Constant):
            v = e.value
            if v is None: return ('None', ('option', None))
            if v is True: return ('true', 'bool')
            if v is False: return ('false', 'bool')
            if isinstance(v, int): return ('(%d)%%Z' % v, 'Z')
            if isinstance(v, str): return (v, ('strlit',))
            raise Refuse('%s: constant %r' % (self.fn.name, v))
        if isinstance(e, ast.Attribute):
            if isinstance(e.value, ast.Name) and e.value.id == 'self':
                if e.attr in self.selfmap:
                    return env[self.selfmap[e.attr]]
                raise Refuse('%s: self.%s not mapped' % (self.fn.name, e.attr))
            (o, t) = self.expr(e.value, env)
            if isinstance(t, tuple) and t[0] == 'rec' and e.attr in t[2]:
                proj, ft = t[2][e.attr]
                return ('(%s %s)' % (proj, o), ft)
            raise Refuse('%s: attribute .%s on %r' % (self.fn.name, e.attr, t))
        if isinstance(e, ast.Subscript):
            raise Refuse('%s: subscript outside a comparison' % self.fn.name)
        if isinstance(e, ast.UnaryOp) and isinstance(e.op, ast.USub):
            (x, t) = self.expr(e.operand, env)
            if t != 'Z': raise Refuse('%s: unary minus on %r' % (self.fn.name, t))
            return ('(- %s)%%Z' % x, 'Z')
        if isinstance(e, ast.UnaryOp) and isinstance(e.op, ast.Not):
            return ('(negb %s)' % self.truth(e.operand, env), 'bool')
        if isinstance(e, ast.BoolOp):
            return (self.boolop(e.op, e.values, env), 'bool')
        if isinstance(e, ast.Compare):
            return (self.compare(e, env), 'bool')
        if isinstance(e, ast.BinOp) and isinstance(e.op, (ast.Sub, ast.Add)):
            (a, ta) = self.expr(e.left, env); (b, tb) = self.expr(e.right, env)
            def toz(x, t):
                if t == 'bool': return '(Z.b2z %s)' % x
                if t == 'Z': return x
                raise Refuse('%s: arithmetic on %r' % (self.fn.name, t))
            op = '-' if isinstance(e.op, ast.Sub) else '+'
            return ('(%s %s %s)%%Z' % (toz(a, ta), op, toz(b, tb)), 'Z')
        raise Refuse('%s: unsupported expression %s' % (self.fn.name, ast.dump(e)[:80]))

    def truth(self, e, env):
        (x, t) = self.expr(e, env)
        if t == 'bool': return x
        if isinstance(t, tuple) and t[0] == 'list': return '(negb (is_nil %s))' % x
        if isinstance(t, tuple) and t[0] == 'option': return '(is_some %s)' % x
        raise Refuse('%s: truthiness of %r' % (self.fn.name, t))

    def boolop(self, op, values, env):
        if not values: raise Refuse('empty boolop')
        first, rest = values[0], values[1:]
        if not rest:
            return self.truth(first, env)
        if isinstance(op, ast.And):
            # `x and <rest>` with x an option-typed name: the rest sees x unwrapped
            if isinstance(first, ast.Name) and first.id in env and isinstance(env[first.id][1], tuple) \
               and env[first.id][1][0] == 'option':
                (x, t) = env[first.id]
                xv = self.fresh(first.id + '_v')
                env2 = dict(env); env2[first.id] = (xv, t[1])
                return '(match %s with None => false | Some %s => %s end)' % (x, xv, self.boolop(op, rest, env2))
            return '(%s && %s)' % (self.truth(first, env), self.boolop(op, rest, env))
        if isinstance(op, ast.Or):
            # `not xs or <rest>`: the rest may index xs[0]; handled inside compare()
            return '(%s || %s)' % (self.truth(first, env), self.boolop(op, rest, env))
        raise Refuse('boolop')

    def compare(self, e, env):
        if len(e.ops) != 1:
            raise Refuse('%s: chained comparison' % self.fn.name)
        sub = self.contains_sub0(e)
        if sub is not None:
            # xs[0] inside a comparison: evaluate under `match xs with [] => false | x0 :: _ => .. end`
            # (Python would raise IndexError on []; every use in the translated sources is guarded by a
            #  preceding `not xs or`, so the [] branch is never the deciding one.)
            if not (isinstance(sub.slice, ast.Constant) and sub.slice.value == 0):
                raise Refuse('%s: subscript other than [0]' % self.fn.name)
            (xs, t) = self.expr(sub.value, env)
            if not (isinstance(t, tuple) and t[0] == 'list'):
                raise Refuse('%s: [0] on non-list' % self.fn.name)
            x0 = self.fresh('hd')
            class Repl(ast.NodeTransformer):
                def visit_Subscript(s, n):
                    if ast.dump(n) == ast.dump(sub): return ast.Name(id='__hd__', ctx=ast.Load())
                    return n
            e2 = Repl().visit(ast.parse(ast.unparse(e), mode='eval').body)
            env2 = dict(env); env2['__hd__'] = (x0, t[1])
            return '(match %s with [] => false | %s :: _ => %s end)' % (xs, x0, self.compare(e2, env2))
        op = e.ops[0]
        (a, ta) = self.expr(e.left, env); (b, tb) = self.expr(e.comparators[0], env)
        if isinstance(op, (ast.In, ast.NotIn)):
            if not (isinstance(tb, tuple) and tb[0] == 'list' and tb[1] == ta == 'Id'):
                raise Refuse('%s: `in` on %r / %r' % (self.fn.name, ta, tb))
            r = '(existsb (Nat.eqb %s) %s)' % (a, b)
            return r if isinstance(op, ast.In) else '(negb %s)' % r
        if isinstance(ta, tuple) and ta[0] == 'enum' or isinstance(tb, tuple) and tb[0] == 'enum':
            if isinstance(tb, tuple) and tb[0] == 'strlit': en, lit, other = ta, b, a
            elif isinstance(ta, tuple) and ta[0] == 'strlit': en, lit, other = tb, a, b
            else: raise Refuse('%s: enum compared with non-literal' % self.fn.name)
            if lit not in en[2]: raise Refuse('%s: literal %r not in enum %s' % (self.fn.name, lit, en[1]))
            r = '(%s_eqb %s %s)' % (en[1], other, en[2][lit])
            if isinstance(op, ast.Eq): return r
            if isinstance(op, ast.NotEq): return '(negb %s)' % r
            raise Refuse('%s: ordering on enum' % self.fn.name)
        if ta in ('Ord', 'Z') and tb in ('Ord', 'Z'):
            m = {ast.Lt: '(%s <? %s)%%Z', ast.LtE: '(%s <=? %s)%%Z', ast.Eq: '(%s =? %s)%%Z'}
            if type(op) in m: return m[type(op)] % (a, b)
            if isinstance(op, ast.Gt): return '(%s <? %s)%%Z' % (b, a)
            if isinstance(op, ast.GtE): return '(%s <=? %s)%%Z' % (b, a)
            if isinstance(op, ast.NotEq): return '(negb (%s =? %s)%%Z)' % (a, b)
        if isinstance(op, (ast.Is, ast.IsNot)) and isinstance(tb, tuple) and tb[0] == 'option' and b == 'None':
            if not (isinstance(ta, tuple) and ta[0] == 'option'): raise Refuse('is None on non-option')
            return ('(negb (is_some %s))' if isinstance(op, ast.Is) else '(is_some %s)') % a
        raise Refuse('%s: comparison %s on %r, %r' % (self.fn.name, type(op).__name__, ta, tb))

    def coerce(self, x, t, want):
        if t == want: return x
        if isinstance(want, tuple) and want[0] == 'option':
            if isinstance(t, tuple) and t[0] == 'option' and (t[1] is None or t[1] == want[1]): return x
            if t == want[1]: return '(Some %s)' % x
        raise Refuse('%s: cannot coerce %r to %r' % (self.fn.name, t, want))

    # -------- statements (continuation style) --------
    def block(self, stmts, env, k):
        """k: env -> coq text for `what happens when the block falls through`"""
        if not stmts:
            return k(env)
        st, rest = stmts[0], stmts[1:]
        krest = lambda env2: self.block(rest, env2, k)
        if isinstance(st, ast.Return):
            if st.value is None:
                return self.coerce('None', ('option', None), self.ret)
            (x, t) = self.expr(st.value, env)
            return self.coerce(x, t, self.ret)
        if isinstance(st, ast.Assign):
            if len(st.targets) != 1 or not isinstance(st.targets[0], ast.Name):
                raise Refuse('%s: complex assignment' % self.fn.name)
            name = st.targets[0].id
            (x, t) = self.expr(st.value, env)
            want = self.locals.get(name, t)
            if name in env and name not in self.locals:
                want = env[name][1]
            x = self.coerce(x, t, want)
            cn = self.fresh(name)
            env2 = dict(env); env2[name] = (cn, want)
            return '(let %s := %s in\n %s)' % (cn, x, krest(env2))
        if isinstance(st, ast.If):
            c = self.truth(st.test, env)
            return '(if %s\n then %s\n else %s)' % (c, self.block(st.body, env, krest), self.block(st.orelse, env, krest))
        if isinstance(st, ast.For):
            if st.orelse or not isinstance(st.target, ast.Name):
                raise Refuse('%s: for/else or tuple target' % self.fn.name)
            (xs, t) = self.expr(st.iter, env)
            if not (isinstance(t, tuple) and t[0] == 'list'):
                raise Refuse('%s: for over non-list' % self.fn.name)
            carried = sorted({n.targets[0].id for n in ast.walk(st) if isinstance(n, ast.Assign)
                              and isinstance(n.targets[0], ast.Name)})
            # names first assigned inside the body are per-iteration locals (plain lets); only names that exist
            # before the loop are carried from one iteration to the next
            carried = [c for c in carried if c in env]
            self.loopn += 1
            loop = 'loop%d' % self.loopn
            lxs = self.fresh('xs'); ltl = self.fresh('tl'); lx = self.fresh(st.target.id)
            cnames = {c: self.fresh(c) for c in carried}
            envl = dict(env)
            for c in carried: envl[c] = (cnames[c], env[c][1])
            envb = dict(envl); envb[st.target.id] = (lx, t[1])
            def kbody(env3):
                return '(%s %s %s)' % (loop, ltl, ' '.join(env3[c][0] for c in carried))
            for n in ast.walk(st):
                if isinstance(n, (ast.Break, ast.Continue, ast.While)): raise Refuse('%s: break/continue/while' % self.fn.name)
                if isinstance(n, ast.For) and n is not st: raise Refuse('%s: nested loop' % self.fn.name)
            body = self.block(st.body, envb, kbody)
            after = krest(envl)
            # hoist the loop to a top-level Fixpoint; free variables become leading parameters
            bound = {lxs, ltl, lx} | set(cnames.values())
            free = []
            for (nm, (cn, ct)) in env.items():
                if cn in bound or cn in [f[0] for f in free]: continue
                if re.search(r'(?<![A-Za-z0-9_\'])%s(?![A-Za-z0-9_\'])' % re.escape(cn), body + ' ' + after):
                    free.append((cn, ct))
            lname = '%s_%s' % (self.spec['name'], loop)
            body = body.replace('(%s ' % loop, '(%s %s ' % (lname, ' '.join(f[0] for f in free)) if free else '(%s ' % lname)
            params = ' '.join('(%s : %s)' % (cnames[c], ty_str(env[c][1])) for c in carried)
            fparams = ' '.join('(%s : %s)' % (cn, ty_str(ct)) for (cn, ct) in free)
            self.aux.append('Fixpoint %s %s (%s : %s) %s {struct %s} : %s :=\n match %s with\n | [] => %s\n | %s :: %s => %s\n end.\n'
                    % (lname, fparams, lxs, ty_str(t), params, lxs, ty_str(self.ret), lxs, after, lx, ltl, body))
            return '(%s %s %s %s)' % (lname, ' '.join(f[0] for f in free), xs, ' '.join(env[c][0] for c in carried))
        if isinstance(st, ast.Expr) and isinstance(st.value, ast.Constant):
            return krest(env)
        raise Refuse('%s: unsupported statement %s' % (self.fn.name, type(st).__name__))

def translate_proc(repo, spec):
    fn = load_function(repo, spec['file'], spec['func'])
    p = Proc(spec, fn)
    args = [a.arg for a in fn.args.args]
    if fn.args.vararg or fn.args.kwarg or fn.args.kwonlyargs:
        raise Refuse('%s: varargs' % fn.name)
    env = {}
    params = []
    for (pn, pt) in spec['params']:
        env[pn] = (pn, pt)
        params.append('(%s : %s)' % (pn, ty_str(pt)))
    expected = [a for a in args if a != 'self']
    declared = [pn for (pn, _) in spec['params'] if pn in expected]
    if declared != expected:
        raise Refuse('%s: parameters %r differ from the declared %r' % (fn.name, expected, declared))
    body = strip_docstring(fn.body)
    # implicit `return None` at the end of a Python function
    def kend(env2):
        return p.coerce('None', ('option', None), p.ret)
    text = p.block(body, env, kend)
    return ''.join(a + '\n' for a in p.aux) + 'Definition %s %s : %s :=\n%s.\n' % (spec['name'], ' '.join(params), ty_str(p.ret), text)

# ----------------------------------------------------------------------------------------------
# Expression kernels over R
# ----------------------------------------------------------------------------------------------
def dec_to_frac_text(s):
    """exact decimal rational for a numeric literal as written in the source"""
    f = fractions.Fraction(s)
    if f.denominator == 1:
        return '%d' % f.numerator if f.numerator >= 0 else '(%d)' % f.numerator
    return '(%d / %d)' % (f.numerator, f.denominator)

class RExpr:
    """Translate a Python arithmetic expression to a Coq term over R.
    env: python name -> coq text.  Literals with >= `lift_digits` significant digits are lifted to
    parameters K<i> (their decimal values recorded in self.lifted)."""
    def __init__(self, fname, env, consts=None, lift_digits=None, source=None, calls=None):
        self.fname = fname
        self.env = dict(env)
        self.consts = consts or {}
        self.lift_digits = lift_digits
        self.lifted = []          # list of literal source strings, in source order
        self.source = source
        self.calls = calls or {}  # python callee name -> (coq name, nargs)
        self.side = []            # side conditions: list of coq props (e.g. positivity of Rpower base)

    def lit(self, node):
        seg = ast.get_source_segment(self.source, node) if self.source else None
        v = node.value
        if isinstance(v, bool) or not isinstance(v, (int, float)):
            raise Refuse('%s: literal %r' % (self.fname, v))
        text = seg if seg and re.fullmatch(r'[0-9.eE+-]+', seg) else repr(v)
        digits = len(re.sub(r'[^0-9]', '', text.split('e')[0].split('E')[0]).lstrip('0'))
        if self.lift_digits and isinstance(v, float) and digits >= self.lift_digits:
            if text not in self.lifted:          # one parameter per distinct literal text
                self.lifted.append(text)
            return 'K%d' % self.lifted.index(text)
        return dec_to_frac_text(text)

    def tr(self, e):
        if isinstance(e, ast.Constant):
            return self.lit(e)
        if isinstance(e, ast.Name):
            if e.id in self.env: return self.env[e.id]
            raise Refuse('%s: unknown name %s' % (self.fname, e.id))
        if isinstance(e, ast.Attribute):
            if isinstance(e.value, ast.Name) and e.value.id == 'self' and e.attr in self.consts:
                return self.lit(self.consts[e.attr])
            if isinstance(e.value, ast.Name) and e.value.id == 'math' and e.attr == 'pi':
                return 'PI'
            raise Refuse('%s: attribute %s' % (self.fname, ast.unparse(e)))
        if isinstance(e, ast.UnaryOp):
            if isinstance(e.op, ast.USub): return '(- %s)' % self.tr(e.operand)
            if isinstance(e.op, ast.UAdd): return self.tr(e.operand)
            raise Refuse('%s: unary op' % self.fname)
        if isinstance(e, ast.BinOp):
            if isinstance(e.op, ast.Pow):
                base = self.tr(e.left)
                ex = e.right
                # float(i) wrappers and integer literals -> pow with a nat exponent
                if isinstance(ex, ast.Constant) and isinstance(ex.value, int) and not isinstance(ex.value, bool) and ex.value >= 0:
                    return '(%s ^ %d)' % (base, ex.value)
                exs = self.tr(ex)
                self.side.append('0 < %s' % base)
                return '(Rpower %s %s)' % (base, exs)
            a, b = self.tr(e.left), self.tr(e.right)
            op = {ast.Add: '+', ast.Sub: '-', ast.Mult: '*', ast.Div: '/'}.get(type(e.op))
            if op is None: raise Refuse('%s: operator %s' % (self.fname, type(e.op).__name__))
            return '(%s %s %s)' % (a, op, b)
        if isinstance(e, ast.Call):
            f = e.func
            if isinstance(f, ast.Attribute) and isinstance(f.value, ast.Name) and f.value.id == 'math' and not e.keywords:
                if f.attr == 'exp' and len(e.args) == 1: return '(exp %s)' % self.tr(e.args[0])
                if f.attr == 'sqrt' and len(e.args) == 1: return '(sqrt %s)' % self.tr(e.args[0])
                if f.attr == 'log' and len(e.args) == 1: return '(ln %s)' % self.tr(e.args[0])
            if isinstance(f, ast.Name) and f.id == 'float' and len(e.args) == 1 and not e.keywords:
                return self.tr(e.args[0])
            key = ast.unparse(f)
            if key in self.calls and not e.keywords:
                cn, n = self.calls[key]
                if n is not None and len(e.args) != n: raise Refuse('%s: call arity %s' % (self.fname, key))
                if '%s' in cn: return cn % tuple(self.tr(a) for a in e.args)       # a helper whose asserted body IS this expression
                return '(%s %s)' % (cn, ' '.join(self.tr(a) for a in e.args))
            raise Refuse('%s: call %s' % (self.fname, key))
        raise Refuse('%s: unsupported expression %s' % (self.fname, type(e).__name__))

def translate_expr_fn(repo, relfile, qualname, coqname, params=None, consts=None, lift_digits=None,
                      calls=None, extra_env=None):
    """Function whose body is local assignments followed by `return <expr>` -> Coq Definition over R.
    Returns dict(text=..., lifted=[...], params=[...], side=[...])."""
    fn = load_function(repo, relfile, qualname)
    src = open(os.path.join(repo, relfile), encoding='utf-8').read()
    args = [a.arg for a in fn.args.args if a.arg != 'self']
    if fn.args.vararg or fn.args.kwarg or fn.args.kwonlyargs or fn.args.defaults:
        raise Refuse('%s: unsupported signature' % qualname)
    if params is not None and list(params) != args:
        raise Refuse('%s: parameters are %r, documented order is %r' % (qualname, args, list(params)))
    env = {a: a for a in args}
    env.update(extra_env or {})
    rx = RExpr(qualname, env, consts=consts, lift_digits=lift_digits, source=src, calls=calls)
    lets = []
    body = strip_docstring(fn.body)
    for st in body[:-1]:
        if isinstance(st, ast.Assign) and len(st.targets) == 1 and isinstance(st.targets[0], ast.Name):
            v = rx.tr(st.value)
            nm = st.targets[0].id
            lets.append((nm, v))
            rx.env[nm] = nm
        elif (isinstance(st, ast.Assign) and len(st.targets) == 1 and isinstance(st.targets[0], ast.Tuple)
              and isinstance(st.value, ast.Tuple) and len(st.value.elts) == len(st.targets[0].elts)
              and all(isinstance(x, ast.Name) for x in st.targets[0].elts)
              and len({x.id for x in st.targets[0].elts}) == len(st.targets[0].elts)):
            # a, b = e1, e2 : every right-hand side is evaluated before any name is bound
            vs = [rx.tr(x) for x in st.value.elts]
            for x, v in zip(st.targets[0].elts, vs):
                tmp = '%s__new' % x.id
                lets.append((tmp, v))
            for x in st.targets[0].elts:
                lets.append((x.id, '%s__new' % x.id))
                rx.env[x.id] = x.id
        else:
            raise Refuse('%s: statement %s' % (qualname, type(st).__name__))
    if not body or not isinstance(body[-1], ast.Return) or body[-1].value is None:
        raise Refuse('%s: last statement is not `return <expr>`' % qualname)
    t = rx.tr(body[-1].value)
    for (nm, v) in reversed(lets):
        t = 'let %s := %s in\n  %s' % (nm, v, t)
    ks = ['K%d' % i for i in range(len(rx.lifted))]
    out = {'lifted': rx.lifted, 'params': args, 'side': rx.side, 'name': coqname}
    if ks:
        out['text'] = ('Definition %s_K (%s : R) (%s : R) : R :=\n  %s.\n' % (coqname, ' '.join(ks), ' '.join(args), t)
                       + 'Definition %s_lits : list R := [%s].\n' % (coqname, '; '.join(dec_to_frac_text(x) for x in rx.lifted))
                       + 'Definition %s (%s : R) : R :=\n  %s_K %s %s.\n' % (coqname, ' '.join(args), coqname,
                              ' '.join(dec_to_frac_text(x) for x in rx.lifted), ' '.join(args)))
    else:
        out['text'] = 'Definition %s (%s : R) : R :=\n  %s.\n' % (coqname, ' '.join(args), t)
    return out

def write_if_changed(path, text):
    try:
        if open(path).read() == text:
            return False
    except OSError:
        pass
    os.makedirs(os.path.dirname(path), exist_ok=True)
    with open(path, 'w') as f:
        f.write(text)
    return True

def assert_body(repo, relfile, qualname, expected_src):
    """Fail closed unless the function's body (docstring stripped) is, as an AST, exactly `expected_src`.
    Used for small glue functions whose behaviour the hand-written model states directly."""
    fn = load_function(repo, relfile, qualname)
    got = ast.dump(ast.Module(body=strip_docstring(fn.body), type_ignores=[]))
    want = ast.dump(ast.parse(textwrap.dedent(expected_src)))
    if got != want:
        raise Refuse('%s:%s body differs from the modelled one:\n%s' % (relfile, qualname, ast.unparse(ast.Module(body=strip_docstring(fn.body), type_ignores=[]))[:600]))
    return fn
