#!/bin/bash
# try_seed.sh NAME [tier] : apply /verif/seeded/NAME/patch.diff to /repo, run the property's check, undo.
set -u
name=$1; tier=${2:-quick}
prop=$(python3 -c "import json;print(json.load(open('/verif/seeded/$name/meta.json'))['property'])")
prop=${3:-$prop}
git -C /repo apply /verif/seeded/$name/patch.diff || { echo "patch does not apply"; exit 2; }
cp -r /verif/evidence /tmp/evidence_keep_$$; ( cd /verif && ./check $prop --tier $tier 2>/tmp/try_seed_$name.err | grep -E "VIOLATION|KNOWN|ok tier|FAIL tier" )
rc=$?
git -C /repo checkout -- .; rm -rf /verif/evidence; mv /tmp/evidence_keep_$$ /verif/evidence
exit 0
