#!/usr/bin/env python3
"""validate_seed.py SRC_DIR NAME : confirm a seeded change independently and keep it under /verif/seeded/NAME.
SRC_DIR holds patch.diff, demo.py, meta.json (written by a sub-agent).  In a scratch worktree of /repo HEAD:
demo passes on clean HEAD, patch applies, pinned suite still passes with it, demo fails with it."""
import json, os, shutil, subprocess, sys, tempfile
src, name = sys.argv[1], sys.argv[2]
HERE = os.path.dirname(os.path.abspath(__file__))
wt = tempfile.mkdtemp(prefix='seedwt_', dir='/tmp'); os.rmdir(wt)
def sh(cmd, **kw): return subprocess.run(cmd, shell=True, stdout=subprocess.PIPE, stderr=subprocess.STDOUT, text=True, **kw)
env = dict(os.environ, PYTHONWARNINGS='ignore', PYTHONDONTWRITEBYTECODE='1', PYTHONPATH=os.path.join(HERE, 'site'), ATSIM_SRC=wt)
res = {}
try:
    assert sh('git -C /repo worktree add -q %s HEAD' % wt).returncode == 0
    d0 = sh('/venv/bin/python %s' % os.path.join(src, 'demo.py'), cwd=wt, env=env)
    res['demo_clean_exit'] = d0.returncode
    ap = sh('git -C %s apply %s' % (wt, os.path.join(src, 'patch.diff')))
    res['patch_applies'] = ap.returncode == 0
    st = sh('python3 %s %s' % (os.path.join(HERE, 'run_baseline.py'), wt))
    res['suite_ok'] = st.returncode == 0
    res['suite_line'] = st.stdout.strip().splitlines()[0] if st.stdout.strip() else ''
    d1 = sh('/venv/bin/python %s' % os.path.join(src, 'demo.py'), cwd=wt, env=env)
    res['demo_patched_exit'] = d1.returncode
    res['demo_patched_tail'] = d1.stdout[-600:]
finally:
    sh('git -C /repo worktree remove --force %s' % wt)
    shutil.rmtree(wt, ignore_errors=True)
ok = res.get('demo_clean_exit') == 0 and res.get('patch_applies') and res.get('suite_ok') and res.get('demo_patched_exit') == 1
res['confirmed'] = bool(ok)
print(name, json.dumps(res)[:900])
if ok:
    dst = os.path.join(os.path.dirname(HERE), 'seeded', name)
    os.makedirs(dst, exist_ok=True)
    shutil.copy(os.path.join(src, 'patch.diff'), dst); shutil.copy(os.path.join(src, 'demo.py'), dst)
    meta = json.load(open(os.path.join(src, 'meta.json')))
    meta['confirmed_by'] = 'tools/validate_seed.py: scratch worktree of /repo HEAD; demo exit 0 on clean HEAD; patch applies; pinned suite 162/162 with the patch; demo exit 1 with the patch'
    meta['validation'] = res
    json.dump(meta, open(os.path.join(dst, 'meta.json'), 'w'), indent=1)
sys.exit(0 if ok else 1)
