#!/usr/bin/env python3
"""audit_search.py [PROP ...] : soundness audit of the violation search.  The search (search_cases + oracle) only runs when an
obligation is broken, so a false alarm in it stays invisible on the clean tree.  This tool runs the search streams of the given
properties (default: all) against the CLEAN /repo for several seeds and reports every case the oracle fails on that is not a
known finding: each one is either a genuine defect or an unsound oracle.  Budget: SECONDS per property and seed (env, default 240)."""
import importlib, json, os, random, sys, time
V = os.path.dirname(os.path.dirname(os.path.abspath(__file__)))
os.environ.setdefault('PYTHONHASHSEED', '0'); os.environ.setdefault('PYTHONWARNINGS', 'ignore')
sys.path[:0] = [os.path.join(V, 'harness'), os.path.join(V, 'tools'), os.environ.get('ATSIM_REPO', '/repo')]
import warnings; warnings.simplefilter('ignore')
props = [a.upper() for a in sys.argv[1:]] or ['C%02d' % i for i in range(1, 21)]
budget = float(os.environ.get('SECONDS_PER', '240'))
seeds = [int(x) for x in os.environ.get('SEEDS', '20260930,1,2').split(',')]
bad = 0
for pid in props:
    mod = importlib.import_module('p_' + pid.lower())
    if not hasattr(mod, 'search_cases'): print(pid, 'no search'); continue
    for sd in seeds:
        t0 = time.time(); n = 0; fails = 0
        for c in mod.search_cases(random.Random(sd + 1), 1200):
            if time.time() - t0 > budget: break
            n += 1
            try: f = mod.oracle(c)
            except Exception as e: f = ['oracle crashed: %s: %s' % (type(e).__name__, e)]
            if f and not (hasattr(mod, 'finding_for') and mod.finding_for(c, f)):
                fails += 1; bad += 1
                print('  ALARM', pid, 'seed', sd, 'case', n, f[:1], json.dumps(c, default=str)[:300], flush=True)
                if fails >= 3: break
        print(pid, 'seed', sd, 'cases', n, 'alarms', fails, '%.0fs' % (time.time() - t0), flush=True)
print('TOTAL ALARMS', bad)
