# Redirect the editable install of atsim.potentials (which pins atsim.__path__ to /repo/atsim through a
# .pth file) to another source tree, named by the environment variable ATSIM_SRC.  Used only to run the
# test suite / demonstrations against scratch worktrees; the registered checks always run against /repo.
import os, sys
_src = os.environ.get('ATSIM_SRC')
if _src:
    _m = sys.modules.get('atsim')
    if _m is not None:
        _m.__path__ = [os.path.join(_src, 'atsim')]
    sys.path.insert(0, _src)
