"""C14 -- overrides / additions / removals: model/Store.v (apply_ops, cli_ops, hand_edit, list_items) vs
ConfigParser(overrides=, additional=) and the potable command line; hand-edited file vs operations (output tables)."""
import copy, io, random
import core, layout, store_common as sc
from core import Broken

ID = 'C14'
GENMODS = ['gen_store', 'gen_glue']
TARGET = 'props/C14.vo'
PROOF_FILES = ['proof/C14.v', 'proof/IniProofs.v', 'proof/IniFile.v', 'proof/IniFile2.v', 'proof/StoreText.v', 'proof/C14Label.v', 'props/C14.v']
AXIOMS = []
TRUSTED = [
    'Coq 8.16.1 kernel; vm_compute for the correspondence evaluation; no axioms',
    'model/Store.v is hand written (ConfigParser._init_config_parser, the dictionary semantics of configparser, potable\'s collation of options); the corresponding source is asserted on the AST (harness/gen_store.py) and the model is compared with the implementation\'s resulting store on every run',
    'text level: proof/StoreText.v proves that the printed raw file is parsed (model/Ini.v) into the store; model/Ini.v restates the line parser of the stdlib configparser as the repository configures it - an assumption about a library outside the repository, compared with it on every run (generated files; the model\'s printer against the printer of the harness, text_store against the raw parser)',
    'reading: removing the last item of a section by hand also removes the section header (that is what the code does); an empty [Pair] header would otherwise give an empty table instead of an error',
]
PRE = 'From V Require Import lib.Common model.Store.\nLocal Open Scope nat_scope.\n'

def all_items(model):
    return [(s, e) for (s, es) in model['sections'] for e in es]

def gen_ops(rng, model):
    items = all_items(model)
    ovr, adds = [], []
    for _ in range(rng.choice([0, 1, 1, 2, 3, 4])):
        r = rng.random()
        if r < 0.8 and items:
            s, e = rng.choice(items)
            if rng.random() < 0.6: ovr.append(['override', s, e['key'], rng.randint(0, 4), replacement_value(rng, s, e)])
            else: ovr.append(['remove', s, e['key'], rng.randint(0, 4)])
        else:   # invalid: key that does not exist
            ovr.append(['override', ('Pair',), ('pair', 'Qq', 'Qq'), 0, 'as.constant 1.0'] if rng.random() < 0.5 else ['remove', ('Tabulation',), ('opt', 'nosuch'), 0])
    # two items with the same key in different sections edited on one command line (a species in [EAM-Embed] and [EAM-Density],
    # x / y of two table forms): both edits must take effect
    bykey = {}
    for s, e in items: bykey.setdefault(tuple(e['key']) if not isinstance(e['key'][-1], list) else (e['key'][0], e['key'][1], tuple(e['key'][2])), []).append((s, e))
    shared = [v for v in bykey.values() if len({sc.sect_name(s) for s, _ in v}) > 1]
    if shared and rng.random() < 0.5:
        for s, e in rng.choice(shared)[:2]:
            ovr.append(['override', s, e['key'], rng.randint(0, 4), replacement_value(rng, s, e)] if rng.random() < 0.75 else ['remove', s, e['key'], rng.randint(0, 4)])
    # the same item removed twice / overridden twice / overridden and removed, with the same or another spelling of its key
    if items and rng.random() < 0.25:
        s, e = rng.choice(items); sp = rng.randint(0, 4); sp2 = sp if rng.random() < 0.6 else rng.randint(0, 4)
        kind = rng.choice(['rr', 'oo', 'or'])
        if kind == 'rr': ovr += [['remove', s, e['key'], sp], ['remove', s, e['key'], sp2]]
        elif kind == 'oo': ovr += [['override', s, e['key'], sp, replacement_value(rng, s, e)], ['override', s, e['key'], sp2, replacement_value(rng, s, e)]]
        else: ovr += [['override', s, e['key'], sp, replacement_value(rng, s, e)], ['remove', s, e['key'], sp2]]
    # the very same option text given again after a different one (V1, V2, V1: by hand the item ends up with V1), and the very same
    # addition given twice (by hand the second one finds the item there)
    if items and rng.random() < 0.15:
        s, e = rng.choice(items); sp = rng.randint(0, 4)
        v1 = replacement_value(rng, s, e); v2 = e['val'] if e['val'] != v1 else replacement_value(rng, s, e)
        ovr += [['override', s, e['key'], sp, v1], ['override', s, e['key'], sp, v2], ['override', s, e['key'], sp, v1]]
    if rng.random() < 0.1:
        a = ['add', ('Other', 'Extra'), ('opt', 'twice'), 0, 'v1']; adds += [a, list(a)]
    # remove an item and add it back with another value; the same addition given twice
    if items and rng.random() < 0.2:
        s, e = rng.choice(items)
        ovr.append(['remove', s, e['key'], rng.randint(0, 4)]); adds.append(['add', s, e['key'], rng.randint(0, 4), replacement_value(rng, s, e)])
    if rng.random() < 0.12:
        a = ['add', ('Tabulation',), ('opt', 'dr'), 0, '0.5']; adds += [a, ['add', ('Tabulation',), ('opt', 'dr'), rng.choice([0, 0, 1]), '0.25']]
    for _ in range(rng.choice([0, 0, 1, 1, 2])):
        r = rng.random()
        if r < 0.35: adds.append(['add', ('Pair',), ('pair', 'Zz', rng.choice(['Zz', model['els'][0]])), rng.randint(0, 4), rng.choice(sc.PAIR_DEFS + GE_DEFS)])
        elif r < 0.55: adds.append(['add', ('Other', 'Extra'), ('opt', 'k%d' % rng.randint(0, 2)), 0, rng.choice(['v%d' % rng.randint(0, 3), 'a:b', 'x > 1 ? 2 : 3', 'p=q:r', 'Pair:A-B=1'])])   # values with ':' and '=': the label ends at the FIRST '=' and its section at the first ':'
        elif r < 0.7: adds.append(['add', ('Tabulation',), ('opt', 'dr'), 0, '0.5'])
        elif items:   # invalid: exists already (possibly spelled differently)
            s, e = rng.choice(items); adds.append(['add', s, e['key'], rng.randint(0, 4), e['val']])
    return ovr, adds

GE_DEFS = ['>=0 as.constant 2.0 >=1.5 as.buck 500.0 0.3 10.0', 'as.buck 1633.0 0.327 3.95 >=4.0 as.zero', '>=0.5 as.constant 4.0', 'as.bornmayer 10.0 0.5 >=2.0 as.constant 0.25 >=3.0 as.zero']
def replacement_value(rng, s, e):
    # values with an inclusive range start contain '=': KEY=VALUE on the command line must be split at the FIRST '='
    if s[0] in ('Pair', 'EAM-Embed', 'EAM-Density') and rng.random() < 0.35: return rng.choice(GE_DEFS)
    if s[0] == 'Pair': return rng.choice(sc.PAIR_DEFS)
    if s[0] == 'EAM-Embed': return rng.choice(sc.EMBED_DEFS)
    if s[0] == 'EAM-Density': return rng.choice(sc.DENS_DEFS)
    if s[0] == 'Tabulation': return {'nr': '12', 'cutoff': '7.0', 'nrho': '6', 'cutoff_rho': '20.0'}.get(e['key'][1], e['val'])
    if s[0] in ('Other', 'Variables', 'Species') and rng.random() < 0.4: return ''          # an empty replacement value is a value, not a removal
    if s[0] == 'Potential-Form' and rng.random() < 0.5: return '(%s) + if(r > 100, 1, 0)*0 + (r > 1000 ? 1 : 0)*0' % e['val']      # the same function, written with a ':' in it
    return e['val']

def gen_case(rng):
    m = sc.gen_model(rng)
    ovr, adds = gen_ops(rng, m)
    route = rng.choice(['api', 'api', 'cli'])
    if route == 'cli':
        # the command line lists all overrides, then all removals
        ovr = [o for o in ovr if o[0] == 'override'] + [o for o in ovr if o[0] == 'remove']
    return {'model': m, 'ovr': ovr, 'adds': adds, 'route': route}

def coq_op(o, T):
    if o[0] == 'override': return '(Override %s %s %d)' % (sc.coq_sect(tuple(o[1]), T), sc.coq_key(tuple_key(o[2]), T), T.val(o[4]))
    if o[0] == 'remove': return '(Remove %s %s)' % (sc.coq_sect(tuple(o[1]), T), sc.coq_key(tuple_key(o[2]), T))
    return '(Add %s %s %d)' % (sc.coq_sect(tuple(o[1]), T), sc.coq_key(tuple_key(o[2]), T), T.val(o[4]))

def tuple_key(k):
    k = list(k)
    if k[0] == 'sig': return ('sig', k[1], list(k[2]))
    return tuple(k)

def model_expr(case, T):
    f = sc.coq_rawfile(case['model'], T)
    adds = core.coq_list([coq_op(o, T) for o in case['adds']])
    if case['route'] == 'cli':
        ov = core.coq_list([coq_op(o, T) for o in case['ovr'] if o[0] == 'override'])
        rm = core.coq_list([coq_op(o, T) for o in case['ovr'] if o[0] == 'remove'])
        ops = '(cli_ops %s %s %s)' % (ov, rm, adds)
    else:
        ops = '(%s ++ %s)' % (core.coq_list([coq_op(o, T) for o in case['ovr']]), adds)
    return '(enc_result (apply_ops (forget %s) %s))' % (f, ops)

def impl_api(case):
    from atsim.potentials.config import ConfigParser, ConfigParserOverrideTuple as O
    text = sc.render(case['model'])
    ov = [O(sc.sect_name(tuple(o[1])), sc.key_text(tuple_key(o[2]), o[3]), o[4] if o[0] == 'override' else None) for o in case['ovr']]
    ad = [O(sc.sect_name(tuple(o[1])), sc.key_text(tuple_key(o[2]), o[3]), o[4]) for o in case['adds']]
    return sc.classify(lambda: sc.impl_store(ConfigParser(io.StringIO(text), overrides=ov, additional=ad)))

def cli_args(case):
    args = []
    for o in case['ovr']:
        item = '%s:%s' % (sc.sect_name(tuple(o[1])), sc.key_text(tuple_key(o[2]), o[3]))
        if o[0] == 'override': args += ['--override-item', '%s=%s' % (item, o[4])]
        else: args += ['--remove-item', item]
    for o in case['adds']:
        args += ['--add-item', '%s:%s=%s' % (sc.sect_name(tuple(o[1])), sc.key_text(tuple_key(o[2]), o[3]), o[4])]
    return args

def impl_cli(case):
    """store as reported by --list-items (every item SECTION:KEY=VALUE)"""
    rc, out, err, _ = sc.potable(cli_args(case) + ['--list-items'], sc.render(case['model']))
    if rc != 0:
        return ('CfgErr', err[-120:]) if 'configuration error' in err else ('Internal', err[-200:])
    return ('Ok', out)

def canon_items(st):
    """multiset-free canonical list of 'SECTION:KEY=VALUE' lines, sorted"""
    lines = []
    for (s, es) in st:
        for (k, v) in es: lines.append('%s:%s=%s' % (s, k, v))
    return sorted(lines)

def hand_edit(model, ops):
    """independent implementation of the edit by hand on the structured file; None when an operation is impossible"""
    m = copy.deepcopy(model)
    for o in ops:
        s = tuple(o[1]); k = tuple_key(o[2])
        secs = [x for x in m['sections'] if x[0][:2] == s[:2] and (s[0] != 'Table-Form' or x[0] == s)]
        if o[0] in ('override', 'remove'):
            hit = [(x, e) for x in secs for e in x[1] if tuple_key(e['key']) == k]
            if not hit: return None
            x, e = hit[0]
            if o[0] == 'override': e['val'] = o[4]
            else:
                x[1].remove(e)
                if not x[1]: m['sections'].remove(x)
        else:
            if any(tuple_key(e['key']) == k for x in secs for e in x[1]): return None
            if secs: secs[0][1].append({'key': k, 'val': o[4], 'sp': o[3]})
            else: m['sections'].append((s, [{'key': k, 'val': o[4], 'sp': o[3]}]))
    return m

def ops_in_order(case):
    return case['ovr'] + case['adds']

def correspond(ctx):
    rng = ctx['rng']
    cases = corpus() + [gen_case(rng) for _ in range(260 if ctx['thorough'] else 70)]
    if not ctx['thorough']:
        for c in cases[26:]:
            c['route'] = 'api'            # the command-line route costs a subprocess per case
    dis = []
    exprs, tabs = [], []
    for c in cases:
        T = sc.Tables(); exprs.append(model_expr(c, T)); tabs.append(T)
    res = sc.eval_results('C14', PRE, exprs)
    for c, zs, T in zip(cases, res, tabs):
        kind, st = sc.decode_store(zs, T)
        if c['route'] == 'api':
            ik, ist = impl_api(c)
            if ik != kind: dis.append({'case': c, 'what': 'model says %s, ConfigParser(overrides=, additional=) gives %s %s' % (kind, ik, ist if ik != 'Ok' else '')}); continue
            if kind == 'Ok':
                want = sc.canon_store(st)
                got = [(s, [(sc.norm(k), v) for k, v in es]) for (s, es) in ist]
                wv = [x for x in want if x[0] == 'Variables'] + [x for x in want if x[0] != 'Variables']
                if got != wv: dis.append({'case': c, 'what': 'store after the operations differs: model %r, implementation %r' % (wv, got)})
        else:
            ik, out = impl_cli(c)
            if ik != kind: dis.append({'case': c, 'what': 'model says %s, potable gives %s %s' % (kind, ik, out if ik != 'Ok' else '')}); continue
            if kind == 'Ok':
                want = canon_items(sc.canon_store(st))
                got = sorted(l for l in out.split('\n') if l)
                gotn = sorted('%s:%s=%s' % (l.split(':', 1)[0] if not l.startswith('Table-Form') else ':'.join(l.split(':', 2)[:2]),
                                             sc.norm((l.split(':', 1)[1] if not l.startswith('Table-Form') else l.split(':', 2)[2]).split('=', 1)[0]),
                                             (l.split(':', 1)[1] if not l.startswith('Table-Form') else l.split(':', 2)[2]).split('=', 1)[1]) for l in got)
                if gotn != want: dis.append({'case': c, 'what': '--list-items differs: model %r, potable %r' % (want, gotn)})
    allc = cases
    dist = {'routes': {r: sum(1 for c in cases if c['route'] == r) for r in ('api', 'cli')},
            'ops_per_case': {k: sum(1 for c in cases if len(c['ovr']) + len(c['adds']) == k) for k in range(0, 7)},
            'invalid_expected': sum(1 for zs in res if zs[0] == 1), 'removals': sum(1 for c in cases for o in c['ovr'] if o[0] == 'remove'),
            'models_with_table_form': sum(1 for c in cases if any(s[0] == 'Table-Form' for s, _ in c['model']['sections']))}
    # the command-line label (model/ItemLabel.v) against _create_override_tuple: generated SECTION:KEY=VALUE texts (every section / key
    # spelling of the generator, values with ':' and '='), the same without a value, and strings over the significant characters
    items = []
    for c in cases[:40]:
        for s_, es in c['model']['sections']:
            for e in es[:2]:
                lab = '%s:%s' % (sc.sect_name(tuple(s_)), sc.key_text(tuple_key(e['key']), rng.randint(0, 4)))
                items += [(lab + '=' + rng.choice([e['val'], 'a:b', 'x=y:z', '>=2.0 as.zero', '${Variables:rho}', '']), True), (lab, False)]
    for _ in range(150): items.append((''.join(rng.choice('Tab-le:Form= x') for _ in range(rng.randint(0, 14))), rng.random() < 0.5))
    items += [('Table-Form:tb:x=1:2', True), (' Table-Form :tb:x', False), ('Table-Form:tb=3', True), ('Pair:A-B', True), ('NoColon=1', True), ('Table-Form:a:b:c=d', True)]
    if ctx['thorough']:
        # small scope, exhaustively: every text of up to 5 characters over ':', '=', a letter, a blank and 'T' (and the Table-Form prefix before each)
        import itertools
        for n_ in range(0, 6):
            for t in itertools.product(':=a T', repeat=n_):
                t = ''.join(t); items += [(t, True), (t, False)]
                if n_ <= 4: items += [('Table-Form' + t, True), ('Table-Form' + t, False)]
    items = [(t, hv) for (t, hv) in items if all(ord(ch) < 128 for ch in t)]
    PRE_LAB = 'From Coq Require Import List ZArith.\nFrom V Require Import lib.Common model.Ini model.ItemLabel.\nImport ListNotations.\nLocal Open Scope Z_scope.\n' \
              'Definition enc_s (s : list Z) : list Z := Z.of_nat (length s) :: s.\n' \
              'Definition run_label (t : list Z) (hv : bool) : list Z := match override_tuple t hv with None => [0] | Some (s, k, v) => 1 :: enc_s s ++ enc_s k ++ match v with Some x => 1 :: enc_s x | None => [0] end end.\n'
    lres = sc.eval_results('C14l', PRE_LAB, ['(run_label [%s] %s)' % ('; '.join('%d' % ord(ch) for ch in t), 'true' if hv else 'false') for (t, hv) in items], chunk=400 if ctx['thorough'] else 100)
    from atsim.potentials.tools.potable import _create_override_tuple
    def dec_lab(zs):
        if zs[0] == 0: return None
        i = 1; out = []
        for _ in range(2):
            n = zs[i]; out.append(''.join(chr(x) for x in zs[i + 1:i + 1 + n])); i += 1 + n
        if zs[i] == 1: n = zs[i + 1]; out.append(''.join(chr(x) for x in zs[i + 2:i + 2 + n]))
        else: out.append(None)
        return tuple(out)
    nlab = 0
    for (t, hv), zs in zip(items, lres):
        want = dec_lab(zs)
        try: o = _create_override_tuple(t, hv); got = (o.section, o.key, o.value)
        except ValueError: got = None
        nlab += want is not None
        if want != got: dis.append({'case': {'kind': 'store_text', 'item': t, 'has_value': hv}, 'what': 'the item text %r (value expected: %s) is read as %r by the model and as %r by potable' % (t, hv, want, got)})
    dist.update({'item_labels': len(items), 'item_labels_split': nlab})
    # down to characters (proof/StoreText.v, c14_edited_file_text): the hand-edited files, printed, against the raw parser
    edited = [m for m in (hand_edit(c['model'], ops_in_order(c)) for c in cases) if m is not None]
    tdis, tstats = sc.check_store_text(edited[:(120 if ctx['thorough'] else 30)], 'C14t'); dis += tdis; dist.update(tstats)
    return {'evaluations': len(cases) + tstats['store_text_files'], 'cases': allc, 'nontrivial': core.distinct_count([c for c in cases if c['ovr'] or c['adds']]),
            'rule': 'generated pair/EAM/FS models (shuffled sections, keys printed with varying whitespace) and sequences of 0..6 override/remove/add operations on any section (repeated keys, removal of a section\'s last item, invalid ones) '
                    'through ConfigParser(overrides=, additional=) (resulting store compared) and the potable command line (--list-items output compared); non-trivial = at least one operation',
            'samples': [cases[0]], 'distribution': dist, 'disagreements': dis[:20], 'oracle_cases': cases}

def oracle(case):
    """the property itself: tabulating with the operations == tabulating the hand-edited file"""
    if case.get('kind') in ('ini', 'store_text'): return []      # text-level correspondence cases: no verdict of this property's statement
    from atsim.potentials.config import ConfigParser, ConfigParserOverrideTuple as O
    fails = []
    ops = ops_in_order(case)
    edited = hand_edit(case['model'], ops)
    if case['route'] == 'api': ik, ist = impl_api(case)
    else: ik, ist = impl_cli(case)
    if edited is None:
        return [] if ik == 'CfgErr' else ['an operation that cannot be made by hand (missing item overridden/removed, or existing item added) gave %s %s' % (ik, ist if ik != 'Ok' else '')]
    if ik != 'Ok': return ['operations that can be made by hand were refused: %s' % (ist,)]
    # same output as the hand-edited file
    text = sc.render(case['model'])
    ov = [O(sc.sect_name(tuple(o[1])), sc.key_text(tuple_key(o[2]), o[3]), o[4] if o[0] == 'override' else None) for o in case['ovr']]
    ad = [O(sc.sect_name(tuple(o[1])), sc.key_text(tuple_key(o[2]), o[3]), o[4]) for o in case['adds']]
    a = sc.classify(lambda: sc.tabulate(None, cp=ConfigParser(io.StringIO(text), overrides=ov, additional=ad)))
    b = sc.classify(lambda: sc.tabulate(sc.render(edited)))
    if a[0] != b[0] or (a[0] == 'Ok' and a[1] != b[1]):
        fails.append('tabulating with the operations gives %s, tabulating the hand-edited file gives %s' % (a[0] if a[0] != 'Ok' else 'a table', b[0] if b[0] != 'Ok' else 'a different table' if a[0] == 'Ok' else 'a table'))
    if case['route'] == 'cli' and b[0] == 'Ok':
        # the table potable writes with the operations on its command line is the table of the hand-edited file
        rc, out_, err_, content = sc.potable(cli_args(case), text)
        if rc != 0 or content is None: fails.append('potable with the operations failed (%s) although the hand-edited file tabulates' % err_.strip().split('\n')[-1][:120])
        elif content != b[1]: fails.append('potable with the operations on the command line writes a different table than the hand-edited file')
    if case['route'] == 'cli':
        want = sorted('%s:%s=%s' % (sc.sect_name(s) if s[0] == 'Table-Form' else sc.sect_name(s), sc.norm(sc.key_text(tuple_key(e['key']))), e['val']) for (s, es) in edited['sections'] for e in es)
        got = sorted(l for l in ist.split('\n') if l)
        if len(got) != len(want): fails.append('--list-items prints %d items, the edited file has %d' % (len(got), len(want)))
        else:
            canon = lambda l: (sc.norm(l.split('=', 1)[0]), l.split('=', 1)[1].strip()) if '=' in l else (l, '')
            gs, ws = sorted(map(canon, got)), sorted(map(canon, want))
            if gs != ws:
                d = [(g, w) for g, w in zip(gs, ws) if g != w][0]
                fails.append('--list-items after the operations shows %s=%s, the hand-edited file has %s=%s' % (d[0][0], d[0][1], d[1][0], d[1][1]))
    return fails

def corpus():
    """fixed histories that earlier seeded changes needed (kept so that they run on every search whatever the random stream does)"""
    out = []
    for k, route in ((1, 'cli'), (2, 'cli'), (3, 'api')):
        g = random.Random(1400 + k); m = sc.gen_model(g)
        items = [(s_, e) for s_, es in m['sections'] for e in es if s_[0] in ('Pair', 'Tabulation')]
        s_, e = items[k % len(items)]
        v1 = replacement_value(g, s_, e); v2 = e['val'] if e['val'] != v1 else 'as.zero' if s_[0] == 'Pair' else '9'
        ovr = [['override', s_, e['key'], 0, v1], ['override', s_, e['key'], 0, v2], ['override', s_, e['key'], 0, v1]]      # V1, V2, V1: ends up with V1
        adds = [['add', ('Other', 'Extra'), ('opt', 'twice'), 0, 'v1'], ['add', ('Other', 'Extra'), ('opt', 'twice'), 0, 'v1']] if k != 1 else []   # the same addition twice: refused
        out.append({'model': m, 'ovr': ovr, 'adds': adds, 'route': route})
    # an item emptied (not removed): add it first, then override it with the empty value
    for k, route in ((4, 'api'), (5, 'cli')):
        g = random.Random(1400 + k); m = sc.gen_model(g)
        m['sections'].append((('Other', 'Extra'), [{'key': ('opt', 'k0'), 'val': 'v0', 'sp': 0}, {'key': ('opt', 'k1'), 'val': 'v1', 'sp': 0}]))
        out.append({'model': m, 'ovr': [['override', ('Other', 'Extra'), ('opt', 'k0'), 0, '']], 'adds': [], 'route': route})
    # an entry whose CURRENT value cannot be resolved (a placeholder without a variable): overriding or removing it must not read the old value
    for k, (route, op) in enumerate([('api', 'override'), ('cli', 'remove'), ('cli', 'override')]):
        g = random.Random(1410 + k); m = sc.gen_model(g)
        m['sections'].append((('Other', 'Extra'), [{'key': ('opt', 'k0'), 'val': '${nowhere}', 'sp': 0}, {'key': ('opt', 'k1'), 'val': 'v1', 'sp': 0}]))
        ovr = [['override', ('Other', 'Extra'), ('opt', 'k0'), 0, 'v0']] if op == 'override' else [['remove', ('Other', 'Extra'), ('opt', 'k0'), 0]]
        out.append({'model': m, 'ovr': ovr, 'adds': [], 'route': route})
    # values that contain '=' (an inclusive range start, a comparison) and ':' through the command line: KEY=VALUE ends the key at the FIRST '='
    for k in (6, 7):
        g = random.Random(1400 + k); m = sc.gen_model(g)
        pairs = [(s_, e) for s_, es in m['sections'] for e in es if s_[0] == 'Pair']
        ovr = [['override', pairs[0][0], pairs[0][1]['key'], 0, GE_DEFS[k % len(GE_DEFS)]]] if pairs else []
        adds = [['add', ('Other', 'Extra'), ('opt', 'k0'), 0, 'p=q:r'], ['add', ('Pair',), ('pair', 'Zz', 'Zz'), 0, GE_DEFS[(k + 1) % len(GE_DEFS)]]]
        out.append({'model': m, 'ovr': ovr, 'adds': adds, 'route': 'cli'})
    return out

def search_corpus():
    """fixed histories for the violation search only (twelfth round): an override whose new value uses a [Variables] entry
    that only a later addition creates -- by hand both edits are in the file before anything is resolved"""
    out = []
    for k, route in ((20, 'api'), (21, 'api'), (22, 'api')):      # api route: --list-items prints resolved values, which the cli oracle compares as raw text
        g = random.Random(1400 + k); m = sc.gen_model(g, kind='pair')
        if any(s_[0] == 'Variables' for s_, _ in m['sections']): continue
        pairs = [(s_, e) for s_, es in m['sections'] for e in es if s_[0] == 'Pair']
        if not pairs: continue
        s_, e = pairs[k % len(pairs)]
        if k == 22:      # the pair removed, then added again with the placeholder
            ovr = [['remove', s_, e['key'], 0]]
            adds = [['add', ('Variables',), ('opt', 'a_new'), 0, '1200.0'], ['add', s_, e['key'], 0, 'as.buck ${a_new} 0.3 10.0']]
        else:
            ovr = [['override', s_, e['key'], 0, 'as.buck ${a_new} 0.3 10.0']]
            adds = [['add', ('Variables',), ('opt', 'a_new'), 0, '1200.0']]
        out.append({'model': m, 'ovr': ovr, 'adds': adds, 'route': route})
    return out

def search_cases(rng, n):
    for c in corpus(): yield c
    for c in search_corpus(): yield c
    for k in range(n // 6):
        c = gen_case(rng)
        if k % 3: c['route'] = 'api'          # the command-line route costs a subprocess per case: one case in three
        yield c
def finding_for(case, fails): return None
def replay_finding(f): return False
