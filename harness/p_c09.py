"""C09 -- the potable model language: model/DefnSyntax.v (parser / printer) against ConfigParser's reading of generated definition
texts in arbitrary spellings; n-ary modifiers in every section against the combinator model (interval-certified); custom formulas
(+ - * / ^ if, calls, as.* and pymath.* functions) against model/Evaluator.v; spelling / order invariance and the Python-API
composition as oracles."""
import fractions, io, json, math, random
import core, layout, store_common as sc
import forms_common as fc
import p_c07, p_c12
import ini_common as ic
from layout import q

ID = 'C09'
GENMODS = ['gen_c09', 'gen_forms', 'gen_c12', 'gen_store']
TARGET = 'props/C09.vo'
PROOF_FILES = ['proof/C09Syntax.v', 'proof/C09Lexer.v', 'proof/IniProofs.v', 'proof/IniFile.v', 'proof/C09Ini.v', 'proof/C09Meaning.v', 'proof/C09.v', 'props/C09.v']
AXIOMS = ['reals', 'classic', 'primitives']
TRUSTED = [
    'Coq 8.16.1 kernel; the syntax and formula theorems are axiom-free; the modifier theorems live over R (Reals axioms, classic, funext via Coquelicot imports); primitive axioms only through interval in the correspondence files',
    'model/DefnSyntax.v is hand written: the pyparsing grammar, _descend_tree and the reducing modifiers are asserted on the AST (harness/gen_c09.py); tokens are rendered to text by the harness with arbitrary whitespace, '
    'line continuation, "=" or ":" and number spellings; model/Lexer.v models how pyparsing cuts the text of a definition into tokens (ASCII; its three number expressions, identifier character sets and default whitespace are '
    're-read from the installed pyparsing on every run), configparser\'s own lexing (sections, "=" / ":", continuation lines) is compared, not modelled; float() of a number lexeme is outside the model (numv)',
    'cexprtk is assumed to give + - * / ^ and if() their usual meaning; pymath.* are the math-module functions; the formula model works over exact rationals on inputs where floats are exact',
]
PRE = '''From Coq Require Import QArith Qround Qabs List ZArith.
From V Require Import lib.Common model.DefnSyntax model.Evaluator.
Import ListNotations.
Local Open Scope Z_scope.
Definition enc_st (s : rstart) : list Z := [match fst s with Gt => 1 | Ge => 2 end; snd s].
Fixpoint enc_d (d : rdefn) : list Z :=
  match d with
  | RDefn first p rest => [10] ++ match first with Some s => 1 :: enc_st s | None => [1; 1; 0] end ++ enc_p p ++
      (fix er (l : list (rstart * rpart)) : list Z := match l with [] => [] | (s, x) :: r => 11 :: enc_st s ++ enc_p x ++ er r end) rest ++ [19]
  end
with enc_p (p : rpart) : list Z :=
  match p with
  | RInst l ps => [20; Z.of_nat l; Z.of_nat (length ps)] ++ ps
  | RMod n a args => [30; Z.of_nat n] ++ enc_d a ++ (fix ea (l : list rdefn) : list Z := match l with [] => [] | d :: r => enc_d d ++ ea r end) args ++ [39]
  end.
Definition enc_parse (ts : list tok) : list Z := match parse_value ts with Some d => 1 :: enc_d d | None => [0] end.
Definition enc_q (x : Q) : list Z := let r := Qred x in [Qnum r; Zpos (Qden r)].
Definition enc_qs (l : list Q) : list Z := flat_map enc_q l.
Definition qfloor (x : Q) : Q := inject_Z (Qfloor x).
Definition qceil (x : Q) : Q := inject_Z (Qceiling x).
Definition qif (c a b : Q) : Q := if Qle_bool 0 c then a else b.
Definition qsq (x : Q) : Q := (x * x)%Q.
Definition qcube (x : Q) : Q := (x * x * x)%Q.
Definition qneg (x : Q) : Q := (- x)%Q.
Definition qhalf (x y : Q) : Q := (x / y)%Q.
'''

# ------------------------------------------------------------------------------------------- (a) syntax
IDS = ['as.buck', 'as.lj', 'myform', 'f2', 'sum', 'product', 'pow', 'trans', 'spline', 'exp_spline', 'as.constant', 'tb.x_1', 'A', 'z9']
NUMS = [0.0, 1.0, 2.5, -1.5, 1000.0, 0.3, 32.0, 3.0, 0.125, -0.5, 7.0, 1e-3]
def gen_rdefn(g, depth, first_opt=True):
    nparts = g.choice([1, 1, 1, 2, 3])
    first = [g.choice(['>', '>=']), g.randrange(len(NUMS))] if (g.random() < 0.5 or not first_opt) else None
    parts = []
    for k in range(nparts):
        st = first if k == 0 else [g.choice(['>', '>=']), g.randrange(len(NUMS))]
        parts.append([st, gen_rpart(g, depth)])
    return {'parts': parts}
def gen_rpart(g, depth):
    if depth > 0 and g.random() < 0.45:
        return {'t': 'mod', 'name': g.randrange(len(IDS)), 'args': [gen_rdefn(g, depth - 1) for _ in range(g.choice([1, 2, 2, 3]))]}
    return {'t': 'inst', 'label': g.randrange(len(IDS)), 'params': [g.randrange(len(NUMS)) for _ in range(g.choice([0, 1, 2, 3, 3, 5]))]}

def tokens_of(d):
    out = []
    for (st, p) in d['parts']:
        if st is not None: out += [('m', st[0]), ('n', st[1])]
        if p['t'] == 'inst': out += [('i', p['label'])] + [('n', v) for v in p['params']]
        else:
            out += [('i', p['name']), ('(',)]
            for k, a in enumerate(p['args']):
                if k: out.append((',',))
                out += tokens_of(a)
            out.append((')',))
    return out

def spell_num(g, v):
    r = g.random()
    if v == int(v) and r < 0.3: return '%d' % int(v)
    if r < 0.5: return repr(v)
    if r < 0.65: return '%.6e' % v
    if r < 0.75 and v >= 0: return '+' + repr(v)
    if r < 0.85 and v == int(v): return '%d.' % int(v)
    return repr(v)

def render_tokens(g, toks, wild=True):
    """text of a token list; whitespace is free wherever the lexer allows it and mandatory between word-like tokens"""
    ws = lambda must: (g.choice([' ', '  ', '\t', ' \t ', '\n   ', '\n\t']) if (must or g.random() < 0.4) else '') if wild else (' ' if must else '')
    out = ''
    prev = None
    for t in toks:
        if t[0] == 'm': s = t[1]
        elif t[0] == 'n': s = spell_num(g, NUMS[t[1]]) if wild else repr(NUMS[t[1]])
        elif t[0] == 'i': s = IDS[t[1]]
        else: s = t[0]
        if prev is not None:
            wordy = lambda x: x[0] in ('n', 'i')
            must = wordy(prev) and wordy(t)
            if prev[0] == 'm' and t[0] in ('m',): must = True      # '>' '>=' must not run together
            if prev[0] == 'm' and s[:1] == '=': must = True
            if wordy(prev) and t[0] == 'n' and s[:1] in '+-' and False: must = True
            out += ws(must)
        out += s
        prev = t
    return out

def coq_tokens(toks):
    m = {'(': 'TLp', ')': 'TRp', ',': 'TComma'}
    def one(t):
        if t[0] == 'm': return 'TGt' if t[1] == '>' else 'TGe'
        if t[0] == 'n': return '(TNum %d)' % t[1]
        if t[0] == 'i': return '(TId %d)' % t[1]
        return m[t[0]]
    return '[%s]' % '; '.join(one(t) for t in toks)

def enc_impl(node):
    """the implementation's tuple chain in the model's encoding"""
    out = [10]
    first = True
    while node is not None:
        st = node.start
        # the default start is the parser's own object when no range was written; compare by identity of the written text instead:
        explicit = getattr(node, '_explicit', None)
        mk = 1 if st.range_type == '>' else 2
        sv = NUMS.index(float(st.start)) if float(st.start) in NUMS else -1
        if first: out += [1, mk, sv]
        else: out += [11, mk, sv]
        if hasattr(node, 'modifier'):
            out += [30, IDS.index(node.modifier)]
            for a in node.potential_forms: out += enc_impl(a)
            out += [39]
        else:
            out += [20, IDS.index(node.potential_form), len(node.parameters)] + [NUMS.index(float(v)) for v in node.parameters]
        node = node.next; first = False
    return out + [19]

def normalise_default(zs):
    """the model distinguishes an omitted first range from an explicit '>0'; the implementation's tuples cannot (the default IS '>0'):
    rewrite the model's 'omitted' as '>0.0' before comparing"""
    out = []; i = 0
    while i < len(zs):
        if zs[i] == 10 and zs[i + 1] == 0: out += [10, 1, 1, NUMS.index(0.0)]; i += 2
        else: out.append(zs[i]); i += 1
    return out

def gen_syntax_case(g):
    r = g.random()
    if r < 0.75:
        d = gen_rdefn(g, g.choice([0, 1, 2, 2, 3]))
        toks = tokens_of(d)
        return {'kind': 'syntax', 'tokens': toks, 'wellformed': True, 'delim': g.choice([':', '=', ' : ', ' = ']), 'sub': g.randrange(10 ** 6)}
    # malformed: a random edit of a well-formed token list, or a random token list
    toks = tokens_of(gen_rdefn(g, g.choice([1, 2])))
    e = g.random()
    if e < 0.3 and len(toks) > 1: del toks[g.randrange(len(toks))]
    elif e < 0.6: toks.insert(g.randrange(len(toks) + 1), g.choice([('(',), (')',), (',',), ('m', '>'), ('m', '>='), ('n', 1), ('i', 2)]))
    elif e < 0.8 and len(toks) > 1: i = g.randrange(len(toks) - 1); toks[i], toks[i + 1] = toks[i + 1], toks[i]
    else: toks = [g.choice([('(',), (')',), (',',), ('m', '>'), ('n', 1), ('i', 2), ('i', 5)]) for _ in range(g.randint(1, 6))]
    return {'kind': 'syntax', 'tokens': toks, 'wellformed': None, 'delim': ':', 'sub': g.randrange(10 ** 6)}

def run_syntax_impl(case, wild=True):
    from atsim.potentials.config import ConfigParser
    g = random.Random(case['sub'])
    text = render_tokens(g, [tuple(t) for t in case['tokens']], wild)
    if not text or text[0] in '#;[' or text.lstrip() == '': return ('Skip', text)
    ini = '[Pair]\nA-B%s%s\n' % (case['delim'], text)
    def f():
        cp = ConfigParser(io.StringIO(ini))
        return enc_impl(cp.pair[0].potential_form_instance)
    r = sc.classify(f)
    return r + (text,) if len(r) == 2 else r


# ------------------------------------------------------------------------------------------- (a') characters: model/Lexer.v
PRE_LEX = PRE.replace('model.DefnSyntax model.Evaluator', 'model.DefnSyntax model.Lexer model.Evaluator') + r"""
Definition lexemes (cts : list ctok) : list (list Z) := flat_map (fun t => match t with CId s => [s] | CNum s _ => [s] | _ => [] end) cts.
Fixpoint index_of (tbl : list (list Z)) (s : list Z) (i : nat) : nat := match tbl with [] => i | x :: r => if list_eqb x s then i else index_of r s (S i) end.
Definition enc_ctok (t : ctok) : list Z :=
  match t with CId s => [1; Z.of_nat (length s)] ++ s | CNum s w => [2; if w then 1 else 0; Z.of_nat (length s)] ++ s
  | CGt => [3] | CGe => [4] | CLp => [5] | CRp => [6] | CComma => [7] end.
Definition enc_fst (o : option rstart) : list Z := match o with Some s => 1 :: enc_st s | None => [0] end.
Fixpoint enc_d2 (d : rdefn) : list Z :=
  match d with
  | RDefn first p rest => [10] ++ enc_fst first ++ enc_p2 p ++ [Z.of_nat (length rest)] ++
      (fix er (l : list (rstart * rpart)) : list Z := match l with [] => [] | (s, x) :: r => enc_st s ++ enc_p2 x ++ er r end) rest
  end
with enc_p2 (p : rpart) : list Z :=
  match p with
  | RInst l ps => [20; Z.of_nat l; Z.of_nat (length ps)] ++ ps
  | RMod n a args => [30; Z.of_nat n; Z.of_nat (S (length args))] ++ enc_d2 a ++ (fix ea (l : list rdefn) : list Z := match l with [] => [] | d :: r => enc_d2 d ++ ea r end) args
  end.
Definition run_text (text : list Z) : list Z :=
  match lex text with
  | None => [0]
  | Some cts =>
      let tbl := lexemes cts in
      [1; Z.of_nat (length cts)] ++ flat_map enc_ctok cts ++
      match read_value (fun s => index_of tbl s 0%nat) (fun s => Z.of_nat (index_of tbl s 0%nat)) text with Some d => 1 :: enc_d2 d | None => [0] end
  end.
"""
LEX_ALPHABET = ' \t\n()>,=.+-eE_a1Z9x05'
NUM_SPELLINGS = ['0', '1', '12', '-3', '+7', '1.', '.5', '1.5', '-0.25', '+.5', '1e3', '1E-2', '2.5e+1', '.5e1', '1.e2', '-1.25E-3', '007', '0.0', '10.50']
ID_SPELLINGS = ['as.buck', 'as.lj', 'sum', 'f', 'f2', '_x', 'A.b.c', 'tb.x_1', 'e', 'E1', 'as.zero', 'x9_']
def gen_text_case(g):
    r = g.random()
    if r < 0.5:
        # a printed tree with free spellings and free whitespace
        d = gen_rdefn(g, g.choice([0, 1, 2, 2]))
        toks = tokens_of(d)
        text = render_text(g, toks, g.choice(['wild', 'wild', 'tight', 'single']))
        return {'kind': 'text', 'text': text, 'wellformed': True, 'expect': expect_tree(d)}
    if r < 0.8:
        # the same, then character edits: drop / insert / replace / swap
        toks = tokens_of(gen_rdefn(g, g.choice([0, 1, 1, 2])))
        text = list(render_text(g, toks, g.choice(['wild', 'tight', 'single'])))
        for _ in range(g.choice([1, 1, 2, 3])):
            e = g.random()
            if e < 0.35 and text: del text[g.randrange(len(text))]
            elif e < 0.7: text.insert(g.randrange(len(text) + 1), g.choice(LEX_ALPHABET))
            elif e < 0.9 and text: text[g.randrange(len(text))] = g.choice(LEX_ALPHABET)
            elif len(text) > 1: i = g.randrange(len(text) - 1); text[i], text[i + 1] = text[i + 1], text[i]
        return {'kind': 'text', 'text': ''.join(text), 'wellformed': None}
    if r < 0.9:
        # lexeme soup: spellings glued with and without separators
        parts = [g.choice(NUM_SPELLINGS + ID_SPELLINGS + ['>', '>=', '(', ')', ',']) for _ in range(g.randint(1, 6))]
        return {'kind': 'text', 'text': ''.join(p + g.choice(['', '', ' ', '\t', '\n ']) for p in parts), 'wellformed': None}
    return {'kind': 'text', 'text': ''.join(g.choice(LEX_ALPHABET) for _ in range(g.randint(0, 10))), 'wellformed': None}

def expect_tree(d):
    """the reading a printed tree must have, in the shape of impl_tree (lists instead of tuples: JSON)"""
    out = []
    for k, (st, p) in enumerate(d['parts']):
        s = ['>', 0.0] if st is None else [st[0], float(NUM_SPELLINGS[st[1] % len(NUM_SPELLINGS)])]
        if p['t'] == 'inst': q = ['inst', ID_SPELLINGS[p['label'] % len(ID_SPELLINGS)], [float(NUM_SPELLINGS[v % len(NUM_SPELLINGS)]) for v in p['params']]]
        else: q = ['mod', ID_SPELLINGS[p['name'] % len(ID_SPELLINGS)], [expect_tree(a) for a in p['args']]]
        out.append([s, q])
    return out
def as_lists(x):
    return [as_lists(y) for y in x] if isinstance(x, (list, tuple)) else x

def render_text(g, toks, mode):
    """text of a token list with spellings drawn from the tables; whitespace mandatory only between two word-like tokens"""
    def ws(must):
        if mode == 'single': return ' '
        if mode == 'tight': return ' ' if must else ''
        return g.choice([' ', '  ', '\t', ' \t ', '\n   ', '\r\n', '\n\t']) if (must or g.random() < 0.5) else ''
    out = ws(False) if mode == 'wild' else ''
    prev = None
    for t in toks:
        if t[0] == 'm': s = t[1]
        elif t[0] == 'n': s = NUM_SPELLINGS[t[1] % len(NUM_SPELLINGS)]
        elif t[0] == 'i': s = ID_SPELLINGS[t[1] % len(ID_SPELLINGS)]
        else: s = t[0]
        if prev is not None: out += ws(prev[0] in ('n', 'i') and t[0] in ('n', 'i'))
        out += s; prev = t
    return out + (ws(False) if mode == 'wild' else '')

def coq_text(text):
    return '[%s]' % '; '.join('%d' % ord(ch) for ch in text)

def dec_text_result(zs):
    """run_text's output -> None (lexing failed) or (tokens, tree or None); tree in the shape of impl_tree"""
    if zs[0] == 0: return None
    n = zs[1]; i = 2; toks = []; tbl = []
    for _ in range(n):
        k = zs[i]
        if k == 1:
            ln = zs[i + 1]; s = ''.join(chr(c) for c in zs[i + 2:i + 2 + ln]); toks.append(('id', s)); i += 2 + ln
            tbl.append(s)
        elif k == 2:
            w = zs[i + 1]; ln = zs[i + 2]; s = ''.join(chr(c) for c in zs[i + 3:i + 3 + ln]); toks.append(('num', s, bool(w))); i += 3 + ln
            tbl.append(s)
        else: toks.append(({3: '>', 4: '>=', 5: '(', 6: ')', 7: ','}[k],)); i += 1
    if zs[i] == 0: return (toks, None)
    i += 1
    def first_index(s): return tbl.index(s)
    uniq = {}
    for j, s in enumerate(tbl): uniq.setdefault(j, s)
    lex_of = lambda idx: tbl[idx]          # index_of returns the first position of the lexeme in tbl
    def rd_start(i): return ({1: '>', 2: '>='}[zs[i]], float(lex_of(zs[i + 1]))), i + 2
    def rd_p(i):
        if zs[i] == 20:
            l = lex_of(zs[i + 1]); n = zs[i + 2]
            return ('inst', l, [float(lex_of(z)) for z in zs[i + 3:i + 3 + n]]), i + 3 + n
        assert zs[i] == 30
        nm = lex_of(zs[i + 1]); n = zs[i + 2]; i += 3; args = []
        for _ in range(n):
            a, i = rd_d(i); args.append(a)
        return ('mod', nm, args), i
    def rd_d(i):
        assert zs[i] == 10; i += 1
        if zs[i] == 0: st = ('>', 0.0); i += 1
        else: st, i = rd_start(i + 1)
        p, i = rd_p(i); parts = [(st, p)]
        n = zs[i]; i += 1
        for _ in range(n):
            st, i = rd_start(i); p, i = rd_p(i); parts.append((st, p))
        return parts, i
    d, i = rd_d(i)
    assert i == len(zs), (i, len(zs))
    return (toks, d)

def impl_tree(node):
    out = []
    while node is not None:
        st = (node.start.range_type, float(node.start.start))
        if hasattr(node, 'modifier'): p = ('mod', node.modifier, [impl_tree(a) for a in node.potential_forms])
        else: p = ('inst', node.potential_form, [float(v) for v in node.parameters])
        out.append((st, p)); node = node.next
    return out

_CP = []
def run_text_impl(text):
    from atsim.potentials.config import ConfigParser
    if not _CP: _CP.append(ConfigParser(io.StringIO('[Pair]\n')))
    return sc.classify(lambda: impl_tree(_CP[0]._parse_multi_range('k', text).potential_form_instance))

def library_assumptions():
    """the facts about pyparsing that model/Lexer.v restates (checked on the installed library on every run)"""
    import pyparsing, string
    from pyparsing import pyparsing_common as pc
    bad = []
    pats = [getattr(e, 'pattern', None) for e in getattr(pc.number, 'exprs', [])]
    if pats != [r'[+-]?(?:\d+(?:[eE][+-]?\d+)|(?:\d+\.\d*|\.\d+)(?:[eE][+-]?\d+)?)', r'[+-]?(?:\d+\.\d*|\.\d+)', r'[+-]?\d+']:
        bad.append('pyparsing_common.number is %r' % (pats,))
    asc = lambda cs: ''.join(sorted(c for c in cs if ord(c) < 128))
    if asc(pc.identifier.initChars) != asc(string.ascii_letters + '_'): bad.append('identifier start characters (ASCII) are %r' % asc(pc.identifier.initChars))
    if asc(pc.identifier.bodyChars) != asc(string.ascii_letters + string.digits + '_'): bad.append('identifier body characters (ASCII) are %r' % asc(pc.identifier.bodyChars))
    if set(pyparsing.ParserElement.DEFAULT_WHITE_CHARS) != set(' \t\n\r'): bad.append('default whitespace is %r' % pyparsing.ParserElement.DEFAULT_WHITE_CHARS)
    if asc(pyparsing.alphanums) != asc(string.ascii_letters + string.digits): bad.append('alphanums is %r' % pyparsing.alphanums)
    return bad

# ------------------------------------------------------------------------------------------- (b) modifiers, n-ary, in every section
def gen_nary(g, depth, ranged=False):
    """a p_c07 tree (binary, left nested) together with the n-ary potable spelling"""
    if depth == 0 or g.random() < 0.3:
        l = p_c07.gen_leaf(g, positive=g.random() < 0.5); l['kind'] = 'full'; return l
    op = g.choice(['plus', 'product', 'plus', 'product', 'pow', 'trans'])
    if op == 'trans':
        if ranged and g.random() < 0.5:
            # a negative shift takes the argument below its range: an explicit '>=0' (or '>0.5') range there must give 0, not the bare form
            return {'op': 'trans', 'a': {'op': 'range', 'marker': g.choice(['>=', '>']), 'start': g.choice([0.0, 0.0, 0.5]), 'a': gen_nary(g, depth - 1, False)}, 'X': -fc.grid(g, 0.5, 3.0)}
        return {'op': 'trans', 'a': gen_nary(g, depth - 1, ranged), 'X': fc.grid(g, 0.0, 1.5)}
    if op == 'pow':
        a = p_c07.gen_leaf(g, positive=True); a['kind'] = 'full'; b = p_c07.gen_leaf(g, positive=True); b['kind'] = 'full'
        return {'op': 'pow', 'a': a, 'b': b, 'nary': True}
    n = g.choice([2, 3, 4])
    args = [gen_nary(g, depth - 1, ranged) for _ in range(n)]
    if ranged and g.random() < 0.6:      # an argument restricted to r above a start: it contributes 0 below
        k = g.randrange(1, n)
        args[k] = {'op': 'range', 'marker': g.choice(['>', '>=']), 'start': fc.grid(g, 1.0, 3.5), 'a': args[k]}
    t = args[0]
    for x in args[1:]: t = {'op': op, 'a': t, 'b': x, 'nary_cont': True}
    t['nary_args'] = args
    return t

def nary_text(t):
    if t['op'] == 'leaf': return 'as.%s %s' % (t['form'], ' '.join(repr(p) for p in t['params']))
    if t['op'] == 'trans': return 'trans(%s, as.constant %r)' % (nary_text(t['a']), t['X'])
    if t['op'] == 'range': return '%s%r %s' % (t['marker'], t['start'], nary_text(t['a']))
    if t['op'] == 'chain': return '%s %s%r %s' % (nary_text(t['a']), t['marker'], t['start'], nary_text(t['b']))      # a continuing definition: A from its own start, B from `start` on
    if 'nary_args' in t: return '%s(%s)' % ({'plus': 'sum', 'product': 'product'}[t['op']], ', '.join(nary_text(a) for a in t['nary_args']))
    return '%s(%s, %s)' % ({'plus': 'sum', 'product': 'product', 'pow': 'pow'}[t['op']], nary_text(t['a']), nary_text(t['b']))

def strip(t):
    return {k: (strip(v) if isinstance(v, dict) else v) for k, v in t.items() if k not in ('nary_args', 'nary_cont', 'nary')}

def gen_sem_case(g):
    ranged = g.random() < 0.35
    return {'kind': 'sem', 'tree': gen_nary(g, g.choice([1, 2, 2, 3]), ranged), 'r': fc.grid(g, 0.75, 4.0), 'section': g.choice(['Pair', 'Pair', 'EAM-Embed', 'EAM-Density', 'EAM-Density-FS']), 'ranged': ranged}

def sem_text(case, defn=None):
    d = defn or nary_text(case['tree'])
    s = case['section']
    if s == 'Pair': return '[Tabulation]\ntarget : LAMMPS\nnr : 5\ncutoff : 1.0\n[Pair]\nAl-Cu : %s\n' % d
    t = '[Tabulation]\ntarget : %s\nnr : 5\ncutoff : 1.0\nnrho : 5\ncutoff_rho : 1.0\n[Pair]\n' % ('setfl_fs' if s.endswith('FS') else 'setfl')
    if s == 'EAM-Embed': return t + '[EAM-Embed]\nAl : %s\n[EAM-Density]\nAl : as.zero\n' % d
    if s == 'EAM-Density': return t + '[EAM-Embed]\nAl : as.zero\n[EAM-Density]\nAl : %s\n' % d
    return t + '[EAM-Embed]\nAl : as.zero\nCu : as.zero\n[EAM-Density]\nAl->Cu : %s\nCu->Al : as.zero\nAl->Al : as.zero\nCu->Cu : as.zero\n' % d

def sem_callable(case, text=None):
    from atsim.potentials.config import Configuration
    tab = Configuration().read(io.StringIO(text or sem_text(case)))
    s = case['section']
    if s == 'Pair': return tab.potentials[0].potentialFunction
    al = [e for e in tab.eam_potentials if e.species == 'Al'][0]
    if s == 'EAM-Embed': return al.embeddingFunction
    if s == 'EAM-Density': return al.electronDensityFunction
    return al.electronDensityFunction['Cu']

# ------------------------------------------------------------------------------------------- (b') from the characters to the value
PRE_TM = """From Coq Require Import Reals List ZArith.
From Interval Require Import Tactic.
From V Require Import lib.Common lib.RLib gen.PotFuncs gen.Combinators model.DefnSyntax model.Lexer model.Meaning model.Ini model.TextInterp.
Definition file_value (lines : list (list Z)) (sect key : list Z) : option (list Z) := match parse_ini lines with Some st => match sect_of sect st with Some os => opt_of key os | None => None end | None => None end.
Import ListNotations.
Fixpoint index_of (tbl : list (list Z)) (s : list Z) (i : nat) : nat := match tbl with [] => i | x :: r => if list_eqb x s then i else index_of r s (S i) end.
Ltac expose_tm := cbv beta iota zeta delta [%s isum isum_aux skipn INR Nat.sub denote_s fold_left map op_of].
"""
def tm_goal(i, case, value, tol):
    """the whole chain inside Coq: the characters of the definition -> tokens -> tree -> sexpr -> real function, within tol of the value the
    implementation gives; None when the tree is outside the fragment (explicit ranges)"""
    t = case['tree']
    if '"range"' in json.dumps(t): return None
    text = nary_text(t)
    if not all(ord(c) < 128 for c in text): return None
    ids, nums, arity = [], [], {}
    def walk(t):
        if t['op'] == 'leaf':
            n = 'as.' + t['form']; arity[t['form']] = len(t['params'])
            if n not in ids: ids.append(n)
            for p_ in t['params']:
                if repr(p_) not in nums: nums.append(repr(p_))
        elif t['op'] == 'trans':
            if 'trans' not in ids: ids.append('trans')
            if 'as.constant' not in ids: ids.append('as.constant')
            if repr(t['X']) not in nums: nums.append(repr(t['X']))
            walk(t['a'])
        else:
            n = {'plus': 'sum', 'product': 'product', 'pow': 'pow'}[t['op']]
            if n not in ids: ids.append(n)
            for a in (t['nary_args'] if 'nary_args' in t else [t['a'], t['b']]): walk(a)
    walk(t)
    zs = lambda x: '[%s]%%Z' % '; '.join('%d' % ord(c) for c in x)
    mkc = {'sum': 'MKSum', 'product': 'MKProduct', 'pow': 'MKPow', 'trans': 'MKTrans'}
    forms = []
    for j, n in enumerate(ids):
        if n in mkc: continue
        fname = n[3:]; k = arity.get(fname, 1) if fname != 'polynomial' else None
        if k is None: forms.append('  | %d%%nat, ps => polynomial_call r (map NUM%d ps)' % (j, i))
        else:
            vs = ['p%d' % q for q in range(k)]
            forms.append('  | %d%%nat, [%s] => %s_call r %s' % (j, '; '.join(vs), fname, ' '.join('(NUM%d %s)' % (i, v) for v in vs)))
    d = ['Definition ids%d : list (list Z) := [%s].' % (i, '; '.join(zs(x) for x in ids)),
         'Definition nums%d : list (list Z) := [%s].' % (i, '; '.join(zs(x) for x in nums)),
         'Definition mk%d (n : nat) : option mkind := match n with %s | _ => None end.' % (i, ' '.join('| %d%%nat => Some %s' % (j, mkc[n]) for j, n in enumerate(ids) if n in mkc)),
         'Definition isc%d (n : nat) : bool := %s.' % (i, 'Nat.eqb n %d' % ids.index('as.constant') if 'as.constant' in ids else 'false'),
         'Definition NUM%d (z : Z) : R := (match z with %s | _ => 0 end)%%R.' % (i, ' '.join('| %d%%Z => %s' % (j, fc.rq(float(x))) for j, x in enumerate(nums))),
         'Definition FORM%d (l : nat) (ps : list Z) (r : R) : R := (match l, ps with\n%s\n  | _, _ => 0 end)%%R.' % (i, '\n'.join(forms)),
         'Definition lines%d : list (list Z) := [%s].' % (i, '; '.join(zs(l) for l in sem_text(case).split('\n')[:-1]))]
    sect_key = {'Pair': ('Pair', 'Al-Cu'), 'EAM-Embed': ('EAM-Embed', 'Al'), 'EAM-Density': ('EAM-Density', 'Al'), 'EAM-Density-FS': ('EAM-Density', 'Al->Cu')}[case['section']]
    # the very file the implementation reads: lines -> sections (model/Ini.v) -> the entry's value -> tokens -> tree -> meaning
    chain = ('match file_value lines%d %s %s with Some v => option_map (to_sexpr mk%d isc%d) (read_value (fun s => index_of ids%d s 0%%nat) (fun s => Z.of_nat (index_of nums%d s 0%%nat)) v) | None => None end'
             % (i, zs(sect_key[0]), zs(sect_key[1]), i, i, i, i))
    g = ('Goal True. Proof. first [ assert (exists E, %s = Some (Some E)) by (vm_compute; eexists; reflexivity); '
         'assert (forall E, %s = Some (Some E) -> (Rabs (denote_s FORM%d NUM%d E %s - %s) <= %s)%%R) by (intros E HE; vm_compute in HE; injection HE as <-; cbv beta iota delta [FORM%d NUM%d]; expose_tm; interval with (i_prec 120, i_depth 5)) '
         '| idtac "PFAIL %d" ]. exact I. Qed.' % (chain, chain, i, i, fc.rq(case['r']), fc.rq(value), fc.rq(tol), i, i, i))
    return '\n'.join(d) + '\n' + g

# ------------------------------------------------------------------------------------------- (c) custom formulas
def gen_fexpr(g, depth, nvars, arities):
    r = g.random()
    if depth == 0 or r < 0.18:
        return ['var', g.randrange(nvars)] if g.random() < 0.7 else ['const', g.choice([-2.0, -1.0, 0.5, 1.0, 2.0, 3.0, 0.25])]
    if r < 0.5: return [g.choice(['add', 'sub', 'mul']), gen_fexpr(g, depth - 1, nvars, arities), gen_fexpr(g, depth - 1, nvars, arities)]
    if r < 0.58: return ['div2', gen_fexpr(g, depth - 1, nvars, arities), g.choice([2.0, 4.0, 0.5])]
    if r < 0.66: return [g.choice(['sq', 'cube', 'neg']), gen_fexpr(g, depth - 1, nvars, arities)]
    if r < 0.74: return ['if', gen_fexpr(g, depth - 1, nvars, arities), gen_fexpr(g, depth - 1, nvars, arities), gen_fexpr(g, depth - 1, nvars, arities)]
    if r < 0.82: return [g.choice(['floor', 'ceil', 'fabs']), gen_fexpr(g, depth - 1, nvars, arities)]
    if r < 0.88: return ['poly', gen_fexpr(g, depth - 1, nvars, arities), g.choice([0.5, 1.0, -1.0]), g.choice([2.0, 0.25]), g.choice([1.0, -0.5])]
    if not arities: return ['var', g.randrange(nvars)]
    j = g.randrange(len(arities))
    return ['call', j, [gen_fexpr(g, depth - 1, nvars, arities) for _ in range(arities[j])]]

def ftext(e, names):
    t = e[0]
    if t == 'var': return names[e[1]]
    if t == 'const': return '(%r)' % e[1]
    if t == 'call': return '%s(%s)' % (p_c12.NAMES[e[1]], ', '.join(ftext(x, names) for x in e[2]))
    if t in ('add', 'sub', 'mul'): return '(%s %s %s)' % (ftext(e[1], names), {'add': '+', 'sub': '-', 'mul': '*'}[t], ftext(e[2], names))
    if t == 'div2': return '((%s) / %r)' % (ftext(e[1], names), e[2])
    if t == 'sq': return '((%s)^2)' % ftext(e[1], names)
    if t == 'cube': return '((%s)^3)' % ftext(e[1], names)
    if t == 'neg': return '(-(%s))' % ftext(e[1], names)
    if t == 'if': return 'if((%s) >= 0, %s, %s)' % (ftext(e[1], names), ftext(e[2], names), ftext(e[3], names))
    if t in ('floor', 'ceil', 'fabs'): return 'pymath.%s(%s)' % (t, ftext(e[1], names))
    if t == 'poly': return 'as.polynomial(%s, %r, %r, %r)' % (ftext(e[1], names), e[2], e[3], e[4])
    raise ValueError(t)
def fcoq(e):
    t = e[0]
    if t == 'var': return '(Var %d)' % e[1]
    if t == 'const': return '(Const %s)' % q(e[1])
    if t == 'call':
        a = 'ENil'
        for x in reversed(e[2]): a = '(ECons %s %s)' % (fcoq(x), a)
        return '(Call %d %s)' % (e[1], a)
    if t in ('add', 'sub', 'mul'): return '(%s %s %s)' % ({'add': 'Add', 'sub': 'Sub', 'mul': 'Mul'}[t], fcoq(e[1]), fcoq(e[2]))
    if t == 'div2': return '(Bin qhalf %s (Const %s))' % (fcoq(e[1]), q(e[2]))
    if t in ('sq', 'cube', 'neg'): return '(Un %s %s)' % ({'sq': 'qsq', 'cube': 'qcube', 'neg': 'qneg'}[t], fcoq(e[1]))
    if t == 'if': return '(Tern qif %s %s %s)' % (fcoq(e[1]), fcoq(e[2]), fcoq(e[3]))
    if t in ('floor', 'ceil'): return '(Un %s %s)' % ({'floor': 'qfloor', 'ceil': 'qceil'}[t], fcoq(e[1]))
    if t == 'fabs': return '(Un Qabs %s)' % fcoq(e[1])
    if t == 'poly':       # c0 + c1 x + c2 x^2
        x = fcoq(e[1])
        return '(Add (Const %s) (Add (Mul (Const %s) %s) (Mul (Const %s) (Un qsq %s))))' % (q(e[2]), q(e[3]), x, q(e[4]), x)
    raise ValueError(t)

def gen_formula_case(g):
    nf = g.choice([1, 2, 3, 3])
    arities, bodies = [], []
    for j in range(nf):
        nv = g.choice([1, 2, 2, 3])
        bodies.append(gen_fexpr(g, g.choice([1, 2, 2, 3]), nv, arities)); arities.append(nv)
    pots = []
    for (a, b) in g.sample([('A', 'A'), ('A', 'B'), ('B', 'B'), ('A', 'C'), ('B', 'C')], g.randint(2, 4)):
        j = g.randrange(nf)
        pots.append({'a': a, 'b': b, 'form': j, 'params': [g.choice([-1.0, 0.5, 1.0, 2.0, 3.0]) for _ in range(arities[j] - 1)]})
    hist = [[g.randrange(len(pots)), g.choice([0.5, 1.0, 1.5, 2.0, 0.25, 3.0])] for _ in range(g.randint(3, 8))]
    return {'kind': 'formula', 'arities': arities, 'bodies': bodies, 'pots': pots, 'history': hist, 'sub': g.randrange(10 ** 6)}

def formula_text(case, spelling=None):
    g = random.Random(spelling) if spelling is not None else None
    d = (lambda: g.choice([' : ', ' = ', ':', '=', '\t=\t'])) if g else (lambda: ' = ')
    def sp(s):
        if not g: return s
        s = s.replace(', ', g.choice([',', ', ', ' , ', ',\n    '])).replace(' + ', g.choice([' + ', '+', '\n     + ', ' // so far\n     + ']))     # an end-of-line comment ends at the line break
        gap = g.choice(['', ' ', '  ', '\t', '\n    '])            # blanks between a function name and its parenthesis
        for nm in p_c12.NAMES + ['as.polynomial', 'pymath.floor', 'pymath.ceil', 'pymath.fabs', 'if']:
            s = s.replace(nm + '(', nm + gap + '(')
        k = g.random()
        if k < 0.2:          # the formula language resolves names whatever their case
            for nm in ['as.polynomial', 'pymath.floor', 'pymath.ceil', 'pymath.fabs']: s = s.replace(nm, g.choice([nm.upper(), nm.title(), nm[:3] + nm[3:].capitalize()]))
        elif k < 0.4:        # several statements: ' ; ' separates them, the last one is the value
            s = 'var v0 := (%s) ; var v1 := v0 ; v1' % s
        return s
    forms = []
    for j, (nv, b) in enumerate(zip(case['arities'], case['bodies'])):
        names = ['r'] + ['p%d' % i for i in range(1, nv)]
        key = ', '.join(names).replace(', ', g.choice([',', ', ', ' , '])) if g else ', '.join(names)     # a continuation line is only possible in a value
        forms.append('%s(%s)%s%s\n' % (p_c12.NAMES[j], key, d(), sp(ftext(b, names))))
    pairs = ['%s%s%s%s %s\n' % (p['a'], g.choice(['-', ' - ', ' -']) if g else '-', p['b'], d().replace('=', ':') if not g else d(), (g.choice([' ', '  ', '\n   ']) if g else ' ').join([p_c12.NAMES[p['form']]] + [repr(v) for v in p['params']])) for p in case['pots']]
    secs = [('[Tabulation]\n', ['target%sLAMMPS\n' % d(), 'nr%s5\n' % d(), 'cutoff%s2.0\n' % d()]), ('[Potential-Form]\n', forms), ('[Pair]\n', pairs)]
    if g:
        for _, items in secs: g.shuffle(items)
        g.shuffle(secs)
    return ''.join(h + ''.join(items) + ('\n' if g and g.random() < 0.5 else '') for h, items in secs)

def run_formula_impl(case, spelling=None):
    from atsim.potentials.config import Configuration
    tab = Configuration().read(io.StringIO(formula_text(case, spelling)))
    ps = [p_c12.find_pot(tab, p['a'], p['b']) for p in case['pots']]
    return [ps[k].energy(r) for (k, r) in case['history']]

def formula_model_expr(case):
    bodies = '[%s]' % '; '.join(fcoq(b) for b in case['bodies'])
    h = '[%s]' % '; '.join('(%d%%nat, [%s])' % (case['pots'][k]['form'], '; '.join(q(v) for v in [r] + case['pots'][k]['params'])) for (k, r) in case['history'])
    return '(enc_qs (fst (Evaluator.run (build_calls %s) %s (repeat [] %d))))' % (bodies, h, len(case['bodies']))

# ------------------------------------------------------------------------------------------- driver
def gen_case(g):
    r = g.random()
    if r < 0.3: return gen_syntax_case(g)
    if r < 0.55: return gen_text_case(g)
    if r < 0.75: return gen_sem_case(g)
    return gen_formula_case(g)

def corpus():
    c1 = {'kind': 'syntax', 'tokens': [['i', 4], ['('], ['i', 0], ['n', 4], ['n', 5], ['n', 6], [','], ['m', '>='], ['n', 1], ['i', 1], ['n', 1], ['n', 2], [')'], ['m', '>'], ['n', 7], ['i', 10], ['n', 0]], 'wellformed': True, 'delim': ' = ', 'sub': 3}
    c2 = {'kind': 'sem', 'section': 'EAM-Density-FS', 'r': 1.5, 'tree': {'op': 'plus', 'a': {'op': 'plus', 'a': {'op': 'leaf', 'form': 'bornmayer', 'params': [2.0, 0.5], 'kind': 'full'}, 'b': {'op': 'leaf', 'form': 'constant', 'params': [1.5], 'kind': 'full'}, 'nary_cont': True},
          'b': {'op': 'leaf', 'form': 'bornmayer', 'params': [2.0, 0.5], 'kind': 'full'}, 'nary_cont': True,
          'nary_args': [{'op': 'leaf', 'form': 'bornmayer', 'params': [2.0, 0.5], 'kind': 'full'}, {'op': 'leaf', 'form': 'constant', 'params': [1.5], 'kind': 'full'}, {'op': 'leaf', 'form': 'bornmayer', 'params': [2.0, 0.5], 'kind': 'full'}]}}
    c3 = {'kind': 'formula', 'arities': [2, 2], 'bodies': [['add', ['mul', ['var', 0], ['var', 1]], ['const', 1.0]], ['sub', ['call', 0, [['var', 0], ['var', 1]]], ['if', ['sub', ['var', 0], ['const', 1.0]], ['call', 0, [['var', 0], ['const', 2.0]]], ['floor', ['div2', ['var', 1], 2.0]]]]],
          'pots': [{'a': 'A', 'b': 'A', 'form': 1, 'params': [3.0]}, {'a': 'A', 'b': 'B', 'form': 0, 'params': [5.0]}], 'history': [[0, 2.0], [1, 0.5], [0, 0.5], [0, 2.0]], 'sub': 5}
    texts = [">1x 2", "as.buck 1.5.3", "as.buck 1-2", "a.5", "as.buck.5", "f(a,b)3", "sum(as.buck 1 2 3,>=1e0as.lj 1 2)", ">=.5e1e 1", "a 1e", "a 1e+", "a 1.e5", "a .", "a 1 .5",
             "a 1.5e3.2", ">> 1 a", ">=>1 a", "a>1b>=2c", "a(b)(c)", "a.b.", "a..b", "a 1_", "a 1._", ">1.a", ">1 .a", "a +1", "a + 1", "a 1,", "f(a 1,)", "f(,a)", "", " ", "a\r\n\t1",
             "as.buck 1000.0 0.3 32.0", " sum (\n as.buck\t1.5 -2e0 ,>=3 f)  "]
    c4 = {'kind': 'sem', 'section': 'Pair', 'r': 1.0, 'ranged': True,
          'tree': {'op': 'trans', 'X': -2.0, 'a': {'op': 'range', 'marker': '>=', 'start': 0.0, 'a': {'op': 'leaf', 'form': 'polynomial', 'params': [1.0, 2.0], 'kind': 'full'}}}}
    # a shifted potential inside an inclusive range, evaluated AT the start of that range (the first row of a table that starts at r = 0)
    c5 = {'kind': 'sem', 'section': 'Pair', 'r': 0.0, 'ranged': True,
          'tree': {'op': 'range', 'marker': '>=', 'start': 0.0, 'a': {'op': 'trans', 'X': 1.5, 'a': {'op': 'leaf', 'form': 'bornmayer', 'params': [2.0, 0.5], 'kind': 'full'}}}}
    # a modifier nested in a modifier of the same kind, the inner one restricted to a range: below that start only the outer terms count
    def leaf(form, params): return {'op': 'leaf', 'form': form, 'params': params, 'kind': 'full'}
    def nary(op, args):
        t = args[0]
        for x in args[1:]: t = {'op': op, 'a': t, 'b': x, 'nary_cont': True}
        t['nary_args'] = args
        return t
    c6 = {'kind': 'sem', 'section': 'Pair', 'r': 0.5, 'ranged': True,
          'tree': nary('plus', [leaf('constant', [1.0]), {'op': 'range', 'marker': '>=', 'start': 2.0, 'a': nary('plus', [leaf('constant', [10.0]), leaf('polynomial', [0.0, 100.0])])}])}
    c7 = {'kind': 'sem', 'section': 'EAM-Density', 'r': 1.5, 'ranged': True,
          'tree': nary('product', [leaf('constant', [3.0]), {'op': 'range', 'marker': '>', 'start': 1.5, 'a': nary('product', [leaf('constant', [2.0]), leaf('polynomial', [1.0, 1.0])])}, leaf('bornmayer', [2.0, 0.5])])}
    # two constants of one sum / product restricted to the same start, one inclusively and one exclusively: AT the start only the inclusive one counts
    c8 = {'kind': 'sem', 'section': 'Pair', 'r': 1.0, 'ranged': True,
          'tree': nary('plus', [leaf('bornmayer', [1000.0, 0.3]), {'op': 'range', 'marker': '>=', 'start': 1.0, 'a': leaf('constant', [2.0])}, {'op': 'range', 'marker': '>', 'start': 1.0, 'a': leaf('constant', [5.0])}])}
    c9 = {'kind': 'sem', 'section': 'Pair', 'r': 1.5, 'ranged': True,
          'tree': nary('product', [{'op': 'range', 'marker': '>=', 'start': 1.5, 'a': leaf('constant', [3.0])}, leaf('polynomial', [1.0, 2.0]), {'op': 'range', 'marker': '>', 'start': 1.5, 'a': leaf('constant', [0.5])}])}
    return [c1, c2, c3, c4, c5, c6, c7, c8, c9] + [{'kind': 'text', 'text': t, 'wellformed': None} for t in texts]

def correspond(ctx):
    g = ctx['rng']
    n = 900 if ctx['thorough'] else 200
    cases = corpus() + [gen_case(g) for _ in range(n)]
    dis = []
    syn = [c for c in cases if c['kind'] == 'syntax']; sem = [c for c in cases if c['kind'] == 'sem']; fo = [c for c in cases if c['kind'] == 'formula']
    res = sc.eval_results('C09', PRE, ['(enc_parse %s)' % coq_tokens([tuple(t) for t in c['tokens']]) for c in syn] + [formula_model_expr(c) for c in fo])
    nacc = 0
    for c, zs in zip(syn, res[:len(syn)]):
        got = run_syntax_impl(c)
        if got[0] == 'Skip': continue
        if zs[0] == 1:
            nacc += 1
            want = zs[1:]      # an omitted first range is encoded as '>0.0' (NUMS[0]): the implementation's tuples cannot tell them apart
            if got[0] != 'Ok': dis.append({'case': c, 'what': 'the model parses %r, the implementation refuses it: %s' % (got[-1], got[1])})
            elif got[1] != want: dis.append({'case': c, 'what': 'parse trees differ for %r: model %r, implementation %r' % (got[-1], want, got[1])})
            if c['wellformed'] and False: pass
        else:
            if c['wellformed']: dis.append({'case': c, 'what': 'the model does not parse its own printed tree'})
            if got[0] == 'Ok': dis.append({'case': c, 'what': 'the model rejects the token list but the implementation reads %r as %r' % (got[-1], got[1])})
            elif got[0] == 'Internal': dis.append({'case': c, 'what': 'malformed definition %r raised %s' % (got[-1], got[1])})
    for c, zs in zip(fo, res[len(syn):]):
        want = [fractions.Fraction(zs[i], zs[i + 1]) for i in range(0, len(zs), 2)]
        try: got = run_formula_impl(c)
        except Exception as e:
            dis.append({'case': c, 'what': 'evaluating the generated formulas raised %s: %s' % (type(e).__name__, str(e)[:150])}); continue
        for i, (w, v) in enumerate(zip(want, got)):
            if abs(float(w) - v) > 1e-12 * max(1.0, abs(float(w))):
                dis.append({'case': c, 'what': 'evaluation %d (potential %d at r = %r): model %r, implementation %r' % (i, c['history'][i][0], c['history'][i][1], float(w), v)}); break
    # characters: lexing + parsing of whole texts (model/Lexer.v) against _parse_multi_range
    txt = [c for c in cases if c['kind'] == 'text']
    if ctx['thorough']:
        # small scope, exhaustively: every string of up to 3 characters over the alphabet of significant characters and every string of
        # 4 characters over its core (the model and pyparsing must agree on all of them, not on a sample)
        import itertools
        core_alpha = ' a1.e+>=(),'
        for n in (1, 2, 3):
            txt += [{'kind': 'text', 'text': ''.join(t), 'wellformed': None, 'exhaustive': True} for t in itertools.product(LEX_ALPHABET, repeat=n)]
        txt += [{'kind': 'text', 'text': ''.join(t), 'wellformed': None, 'exhaustive': True} for t in itertools.product(core_alpha, repeat=4)]
    for b in library_assumptions(): dis.append({'case': None, 'what': 'pyparsing differs from what model/Lexer.v restates: ' + b})
    tres = sc.eval_results('C09t', PRE_LEX, ['(run_text %s)' % coq_text(c['text']) for c in txt], chunk=300 if ctx['thorough'] else 40)
    tacc = tlexfail = 0
    for c, zs in zip(txt, tres):
        m = dec_text_result(zs); got = run_text_impl(c['text'])
        if got[0] == 'Internal': dis.append({'case': c, 'what': 'text %r raised %s' % (c['text'], got[1])}); continue
        if m is None or m[1] is None:
            tlexfail += m is None
            if c['wellformed']: dis.append({'case': c, 'what': 'the model does not read the rendering %r of a printed tree' % c['text']})
            if got[0] == 'Ok': dis.append({'case': c, 'what': 'the model rejects %r (%s) but the implementation reads it as %r' % (c['text'], 'no token at some position' if m is None else 'tokens %r' % (m[0],), got[1])})
        else:
            tacc += 1
            if got[0] != 'Ok': dis.append({'case': c, 'what': 'the model reads %r as %r, the implementation refuses it: %s' % (c['text'], m[1], got[1])})
            elif got[1] != m[1]: dis.append({'case': c, 'what': 'readings of %r differ: model %r, implementation %r' % (c['text'], m[1], got[1])})
    # lines: model/Ini.v against the repository's raw parser (sections, keys after optionxform, joined raw values; or an error)
    for b in ic.library_assumptions(): dis.append({'case': None, 'what': 'configparser differs from what model/Ini.v restates: ' + b})
    inis = [{'kind': 'ini', 'lines': ic.gen_ini_lines(g)} for _ in range(600 if ctx['thorough'] else 120)]
    ires = sc.eval_results('C09i', ic.PRE_INI, ['(run_ini %s)' % ic.coq_lines(c['lines']) for c in inis], chunk=100 if ctx['thorough'] else 40)
    iacc = 0
    for c, zs in zip(inis, ires):
        m = ic.dec_ini(zs); im = ic.impl_ini(c['lines']); iacc += m is not None
        if not ic.compare(m, im): dis.append({'case': c, 'what': 'the lines %r: model %r, parser %r' % (c['lines'], m, im)})
    # modifiers: interval-certified against the combinator model
    goals, kept = [], []
    for c in sem:
        if '"range"' in json.dumps(c['tree']): continue          # ranged arguments: oracle only
        try: f = sem_callable(c); o = p_c07.observe(f, c['r'])
        except (OverflowError, ZeroDivisionError, ValueError): continue
        except Exception as e:
            dis.append({'case': c, 'what': 'building %s in [%s] raised %s: %s' % (nary_text(c['tree']), c['section'], type(e).__name__, str(e)[:120])}); continue
        if not p_c07.all_finite(o) or abs(o['v']) > 1e8: continue
        kept.append(c)
        term = '(build %s)' % p_c07.coq_tree(strip(c['tree']))
        scale = max([1.0] + [abs(o[k]) for k in ('v', 'd', 'd2') if k in o])
        goals.append(fc.point_goal(len(kept) - 1, '(cf %s %s)' % (term, fc.rq(c['r'])), o['v'], 1e-9 * scale))
        if o['has_d']: goals.append(fc.point_goal(len(kept) - 1, '(match cd %s with Some d => d %s | None => 0 end)' % (term, fc.rq(c['r'])), o['d'], 1e-9 * scale))
        if o['has_d2']: goals.append(fc.point_goal(len(kept) - 1, '(match cd2 %s with Some d => d %s | None => 0 end)' % (term, fc.rq(c['r'])), o['d2'], 1e-9 * scale))
    # ... and the same values from the characters: text -> tokens -> tree -> meaning, inside Coq (model/Meaning.v)
    tm, tm_cases = [], []
    for c in kept:
        try: o = p_c07.observe(sem_callable(c), c['r'])
        except Exception: continue
        gtxt = tm_goal(len(tm_cases), c, o['v'], 1e-9 * max(1.0, abs(o['v'])))
        if gtxt is not None: tm.append(gtxt); tm_cases.append(c)
    tm_pre = PRE_TM % ' '.join(fc.unfold_list())
    bodies = ['\n'.join(tm[k:k + 12]) for k in range(0, len(tm), 12)]
    from concurrent.futures import ThreadPoolExecutor
    import re as _re
    with ThreadPoolExecutor(max_workers=8) as ex:
        outs = list(ex.map(lambda ib: core.coq_eval('C09m_%d' % ib[0], tm_pre, ib[1], timeout=1200), enumerate(bodies)))
    for o_ in outs:
        for m_ in _re.findall(r'PFAIL (\d+)', o_):
            c = tm_cases[int(m_)]
            dis.append({'case': c, 'what': 'from the characters: the text %r read, resolved and evaluated in Coq at r = %r is not the value the implementation gives' % (nary_text(c['tree']), c['r'])})
    for i in sorted(set(fc.run_point_goals('C09s', goals, chunk=30))):
        dis.append({'case': kept[i], 'what': 'the value/deriv/deriv2 of %s in [%s] at r = %r is not the pointwise meaning' % (nary_text(kept[i]['tree']), kept[i]['section'], kept[i]['r'])})
    dist = {'kinds': {'syntax': len(syn), 'text': len(txt), 'modifiers': len(sem), 'formulas': len(fo), 'ini_files': len(inis)}, 'ini_accepted': iacc, 'ini_with_continuation': sum(1 for c in inis if any(l[:1] in (' ', '\t') and l.strip() for l in c['lines'])), 'syntax_accepted': nacc, 'syntax_rejected': len(syn) - nacc,
            'text_accepted': tacc, 'text_rejected': len(txt) - tacc, 'text_without_token_cut': tlexfail, 'text_max_len': max([len(c['text']) for c in txt] or [0]),
            'max_tokens': max(len(c['tokens']) for c in syn), 'modifier_cases_certified': len(kept), 'text_to_value_chains': len(tm_cases), 'sections': {s: sum(1 for c in kept if c['section'] == s) for s in ('Pair', 'EAM-Embed', 'EAM-Density', 'EAM-Density-FS')},
            'nary': sum(1 for c in kept if 'nary_args' in json.dumps(c['tree'])), 'formula_ops': {k: sum(1 for c in fo if '"%s"' % k in json.dumps(c['bodies'])) for k in ('call', 'if', 'div2', 'sq', 'floor', 'fabs', 'poly')}}
    nex = sum(1 for c in txt if c.get('exhaustive'))
    dist['text_exhaustive_small_scope'] = nex
    return {'evaluations': len(cases) + nex + len(inis), 'cases': cases, 'nontrivial': core.distinct_count([c for c in cases if c['kind'] != 'syntax' or len(c['tokens']) > 2]),
            'rule': 'syntax: definition trees to depth 3 (ranges, instances with 0..5 parameters, modifiers with 1..3 arguments) printed to tokens and rendered with free whitespace, tabs, line continuation, "=" / ":" and several number spellings, plus '
                    'edited / random token lists: parse_value vs the tuple chain ConfigParser builds (accept/reject and the tree); text: renderings of printed trees with 19 number and 12 identifier spellings and free whitespace, character edits of '
                    'them (drop / insert / replace / swap over an alphabet of the significant characters), glued lexemes and random strings: read_value (lexer + flags + parser, model/Lexer.v) vs _parse_multi_range (accept/reject, labels, float values); lines: generated files (both delimiters, blanks and tabs in keys, indentation, continuation / blank / comment lines inside values, repeated sections and keys, stray and malformed lines): parse_ini (model/Ini.v) vs the _RawConfigParser of the repository (sections, transformed keys, raw values, or an error); modifiers: sum/product with 2..4 arguments, pow, trans, nested to depth 3 over the built-in forms, placed in [Pair], '
                    '[EAM-Embed], [EAM-Density] (plain and A->B): value/deriv/deriv2 interval-certified against the left-nested combinator model; formulas: 1..3 forms over + - * / ^ if(), calls with different arguments, as.polynomial and '
                    'pymath.floor/ceil/fabs: energies under generated histories vs the evaluator model (exact rationals)',
            'samples': cases[:3], 'distribution': dist, 'disagreements': dis[:20], 'oracle_cases': sem[:25] + fo[:40] + syn[:40] + txt[:60] + inis[:40]}

# ------------------------------------------------------------------------------------------- the statement as an oracle
def oracle(case):
    k = case['kind']; fails = []
    if k == 'syntax':
        a = run_syntax_impl(case, wild=True); b = run_syntax_impl(case, wild=False)
        if a[0] == 'Skip' or b[0] == 'Skip': return []
        if 'Internal' in (a[0], b[0]): return ['definition %r raised %s' % (a[-1], a[1] if a[0] == 'Internal' else b[1])]
        if a[0] != b[0] or (a[0] == 'Ok' and a[1] != b[1]): fails.append('spelling changes the reading: %r gives %s, %r gives %s' % (a[-1], a[1] if a[0] == 'Ok' else a[0], b[-1], b[1] if b[0] == 'Ok' else b[0]))
        if case['wellformed'] and a[0] != 'Ok': fails.append('a well-formed definition %r is refused: %s' % (a[-1], a[1]))
        return fails
    if k == 'ini':
        # the statement's spelling clauses on the parser itself: '=' for ':' and a blank inside every key change nothing
        import re
        a = ic.impl_ini(case['lines'])
        def respell(l):
            m = re.match(r'^()([^=:\[#;\s][^=:]*?)(\s*)([=:])(.*)$', l)       # unindented lines only: they cannot be continuation lines
            if not m: return l
            key = m.group(2)
            return m.group(1) + key[:1] + ' ' + key[1:] + m.group(3) + ('=' if m.group(4) == ':' else ':') + m.group(5)
        b = ic.impl_ini([respell(l) for l in case['lines']])
        if (a is None) != (b is None) or (a is not None and a != b): return ['respelling (other delimiter, a blank in each key) changes what the parser holds: %r vs %r' % (a, b)]
        return []
    if k == 'text':
        a = run_text_impl(case['text'])
        if a[0] == 'Internal': return ['text %r raised %s' % (case['text'], a[1])]
        if case.get('wellformed') and a[0] != 'Ok': return ['the rendering %r of a well-formed definition is refused: %s' % (case['text'], a[1])]
        if case.get('expect') is not None and as_lists(a[1]) != case['expect']: return ['%r reads as %r, not as the definition it spells: %r' % (case['text'], a[1], case['expect'])]
        # whitespace is insignificant: every run of whitespace collapsed to one space reads the same
        import re
        t2 = re.sub(r'[ \t\r\n]+', ' ', case['text'])
        b = run_text_impl(t2)
        if a[0] != b[0] or (a[0] == 'Ok' and a[1] != b[1]): return ['whitespace changes the reading: %r gives %s, %r gives %s' % (case['text'], a[1] if a[0] == 'Ok' else a[0], t2, b[1] if b[0] == 'Ok' else b[0])]
        return []
    if k == 'sem':
        t = case['tree']; r = case['r']
        try: f = sem_callable(case)
        except (OverflowError, ZeroDivisionError, ValueError): return []
        except Exception as e: return ['building %s in [%s] raised %s: %s' % (nary_text(t), case['section'], type(e).__name__, str(e)[:120])]
        # pointwise meaning from the leaves evaluated on their own
        import atsim.potentials.potentialforms as pfm
        def mean(t, r, in_range=False):
            if not in_range and t['op'] != 'range' and r <= 0: return 0.0          # a definition without an explicit range is '>0 ...'
            if t['op'] == 'leaf': return getattr(pfm, t['form'])(*t['params'])(r)
            if t['op'] == 'trans': return mean(t['a'], r + t['X'])
            if t['op'] == 'range': return mean(t['a'], r, True) if (r > t['start'] or (r == t['start'] and t['marker'] == '>=')) else 0.0
            if t['op'] == 'chain': return mean(t['b'], r, True) if (r > t['start'] or (r == t['start'] and t['marker'] == '>=')) else mean(t['a'], r, in_range)
            a, b = mean(t['a'], r), mean(t['b'], r)
            return a + b if t['op'] == 'plus' else (a * b if t['op'] == 'product' else a ** b)
        try: want = mean(t, r); got = f(r)
        except (OverflowError, ZeroDivisionError, ValueError): return []
        if not (math.isfinite(want) and math.isfinite(got)): return []
        if abs(want - got) > 1e-9 * max(1.0, abs(want)): fails.append('%s in [%s] at r = %r evaluates to %r, its pointwise meaning is %r' % (nary_text(t), case['section'], r, got, want))
        # the same pieces through the Python API
        try:
            if '"range"' in json.dumps(t) or '"chain"' in json.dumps(t): raise ValueError('ranges are a potable notion')
            api = p_c07.py_build(strip(t)); av = api(r)
            if abs(av - got) > 1e-9 * max(1.0, abs(av)): fails.append('potable gives %r, the Python API composition %r' % (got, av))
        except (OverflowError, ZeroDivisionError, ValueError): pass
        # spelling of the definition
        txt2 = sem_text(case, nary_text(t).replace(', ', ' ,\n      ').replace('(', '(  '))
        try:
            g2 = sem_callable(case, txt2)(r)
            if g2 != got: fails.append('whitespace / continuation lines change the value: %r vs %r' % (got, g2))
        except Exception as e: fails.append('the re-spelled definition raised %s: %s' % (type(e).__name__, str(e)[:100]))
        return fails
    # formula: spelling, order and '=' / ':' do not matter; equal to the substitution semantics computed in Python
    try: base = run_formula_impl(case)
    except Exception as e: return ['evaluating the generated formulas raised %s: %s' % (type(e).__name__, str(e)[:150])]
    for sp in (case['sub'], case['sub'] + 1):
        try: alt = run_formula_impl(case, sp)
        except Exception as e: fails.append('the re-spelled model (seed %d) raised %s: %s' % (sp, type(e).__name__, str(e)[:120])); continue
        if alt != base: fails.append('spelling / entry order changes the energies: %r vs %r' % (base[:4], alt[:4]))
    def ev(e, env):
        t = e[0]
        if t == 'var': return env[e[1]]
        if t == 'const': return e[1]
        if t == 'call': return ev(case['bodies'][e[1]], [ev(x, env) for x in e[2]])
        if t == 'add': return ev(e[1], env) + ev(e[2], env)
        if t == 'sub': return ev(e[1], env) - ev(e[2], env)
        if t == 'mul': return ev(e[1], env) * ev(e[2], env)
        if t == 'div2': return ev(e[1], env) / e[2]
        if t == 'sq': return ev(e[1], env) ** 2
        if t == 'cube': return ev(e[1], env) ** 3
        if t == 'neg': return -ev(e[1], env)
        if t == 'if': return ev(e[2], env) if ev(e[1], env) >= 0 else ev(e[3], env)
        if t == 'floor': return float(math.floor(ev(e[1], env)))
        if t == 'ceil': return float(math.ceil(ev(e[1], env)))
        if t == 'fabs': return abs(ev(e[1], env))
        if t == 'poly': x = ev(e[1], env); return e[2] + e[3] * x + e[4] * x * x
    for (kk, r), v in zip(case['history'], base):
        p = case['pots'][kk]; want = ev(case['bodies'][p['form']], [r] + p['params'])
        if abs(want - v) > 1e-12 * max(1.0, abs(want)): fails.append('potential %d at r = %r is %r, the formula with the parameters substituted gives %r' % (kk, r, v, want)); break
    return fails[:5]

def search_corpus():
    """fixed definitions for the violation search only (twelfth round): a CONTINUING definition (`A >s B`) as an argument of
    sum() / product(), next to other constants -- every argument keeps its own later ranges"""
    def leaf(form, params): return {'op': 'leaf', 'form': form, 'params': params, 'kind': 'full'}
    def nary(op, args):
        t = args[0]
        for x in args[1:]: t = {'op': op, 'a': t, 'b': x, 'nary_cont': True}
        t['nary_args'] = args
        return t
    def chain(a, marker, start, b): return {'op': 'chain', 'a': a, 'marker': marker, 'start': start, 'b': b}
    trees = [
        (nary('plus', [leaf('bornmayer', [1000.0, 0.3]), chain(leaf('constant', [1.0]), '>', 2.05, leaf('constant', [0.25])), leaf('constant', [0.5])]), (1.0, 2.05, 2.1)),
        (nary('plus', [leaf('constant', [0.5]), leaf('bornmayer', [1000.0, 0.3]), chain(leaf('constant', [1.0]), '>=', 2.0, leaf('polynomial', [0.0, 1.0]))]), (1.0, 2.0, 3.0)),
        (nary('product', [leaf('polynomial', [1.0, 2.0]), leaf('constant', [2.0]), chain(leaf('constant', [3.0]), '>=', 3.0, leaf('constant', [1.0]))]), (1.5, 3.0, 3.5)),
        (nary('product', [chain(leaf('constant', [3.0]), '>', 1.5, leaf('constant', [0.5])), chain(leaf('constant', [2.0]), '>', 2.5, leaf('constant', [4.0])), leaf('polynomial', [1.0, 1.0])]), (1.0, 2.0, 3.0)),
    ]
    return [{'kind': 'sem', 'section': sec, 'r': r, 'ranged': True, 'tree': t} for (t, rs) in trees for r in rs for sec in ('Pair', 'EAM-Density')]

def search_cases(rng, n):
    for c in corpus(): yield c
    for c in search_corpus(): yield c
    for _ in range(n): yield gen_case(rng)
def finding_for(case, fails): return None
def replay_finding(f): return False
