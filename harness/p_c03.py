"""C03 -- setfl (eam/alloy): layout model vs writeSetFL, SetFL_EAMTabulation.write and potable
(setfl / lammps_eam_alloy); builder model (element order, zero filling, metadata precedence); oracle."""
import io, math
import core, layout, eam_common as ec, p_c01
from core import Broken
from layout import q

ID = 'C03'
GENMODS = ['gen_layout', 'gen_eam']
TARGET = 'props/C03.vo'
PROOF_FILES = ['proof/C03.v', 'props/C03.v']
AXIOMS = []
TRUSTED = [
    'Coq 8.16.1 kernel; vm_compute for the correspondence evaluation; no axioms',
    'translator harness/gen_layout.py (sample positions i*step, drho, dr, default cutoff nr*dr) + harness/gen_eam.py (exact bodies of the builder glue, Reference_Data.get translated); loop structure of _writeSetFL* modelled by hand (model/EamTables.v) and compared byte for byte',
    'correspondence harness harness/layout.py + eam_common.py: recording callables, rendering with Python %-formatting; species ids are ranks of the labels',
    'potable route: element list and metadata taken from the built tabulation and compared with model/EamBuilder.v; function values recomputed at the model positions, compared at printed precision',
]

def run_recorded(case, fault_at=None):
    from atsim.potentials import writeSetFL
    from atsim.potentials.eam_tabulation import SetFL_EAMTabulation
    rec = layout.Recorder(); rec.fault_at = fault_at; rec.zero_every = case.get('zero_every')
    eam, pots = ec.build_objects(case, rec)
    out = layout.RecFile(rec)
    if case['route'] == 'writeSetFL':
        kw = {}
        if case.get('comments') is not None: kw['comments'] = case['comments']
        if case.get('hdr_cutoff') is not None: kw['cutoff'] = case['hdr_cutoff']
        writeSetFL(case['nrho'], case['drho'], case['nr'], case['dr'], eam, pots, out, **kw)
    else:
        SetFL_EAMTabulation(pots, eam, case['cutoff'], case['nr'], case['cutoff_rho'], case['nrho']).write(out)
    return rec, out.getvalue()

def model_expr(case):
    ids = ec.label_ids(case)
    els, prs = ec.coq_elements(case), ec.coq_pairs(case['pairs'], case)
    if case.get('route') == 'writeSetFL':
        com = case.get('comments')
        com3 = (list(com) + ['', '', ''])[:3] if com is not None else ['', '', '']
        return '(write_setfl false %s %s %s %d %s %d %s %s)' % (core.coq_list([str(ids[c]) for c in com3]), els, prs, case['nrho'], q(case['drho']), case['nr'], q(case['dr']),
                                                               'None' if not case.get('hdr_cutoff') else '(Some %s)' % q(case['hdr_cutoff']))
    return '(setfl_tabulation false %s %s %s %d %s %d %d)' % (els, prs, q(case['cutoff']), case['nr'], q(case['cutoff_rho']), case['nrho'], ids[''])

def gen_case(rng, thorough=False):
    c = ec.gen_eam_case(rng, False, thorough)
    c['route'] = rng.choice(['writeSetFL', 'class', 'class'])
    if c['route'] == 'writeSetFL':
        c['drho'] = rng.choice([0.5, 0.05, round(rng.uniform(0.01, 2), 4)]); c['dr'] = rng.choice([0.1, 0.01, round(rng.uniform(0.001, 0.5), 4)])
        c['comments'] = rng.choice([None, ['comment one', 'second comment line', 'third'], ['comment one'], ['comment one', 'second comment line', 'third', 'a title']])
        c['hdr_cutoff'] = rng.choice([None, None, 6.5, 0.0])
    return c

def run_potable(case):
    from atsim.potentials.config import Configuration
    if case.get('exclude') is not None:
        # seen through --exclude-species with labels the model does not use: nothing is deleted, the [Species] data of every species stays
        from atsim.potentials.config import ConfigParser
        from atsim.potentials.config._filtered_config_parser import FilteredConfigParser
        tab = Configuration().read_from_parser(FilteredConfigParser(ConfigParser(io.StringIO(ec.potable_eam_text(case))), exclude=list(case['exclude'])))
    else:
        tab = Configuration().read(io.StringIO(ec.potable_eam_text(case)))
    out = io.StringIO(); tab.write(out)
    return tab, out.getvalue()

def potable_corpus():
    """fixed potable models (whatever the random stream does): a zero-valued [Species] override; species labels that are element symbols
    in another case ('NI', 'al': species of their own, described by [Species] alone) next to a real element"""
    base = {'potable_eam': True, 'fs': False, 'nr': 5, 'nrho': 4, 'cutoff': 6.0, 'cutoff_rho': 50.0}
    return [dict(base, target='setfl', embed=[('Ni', ec.EMBED[0]), ('Al', ec.EMBED[1])], dens=[('Al', ec.DENS[0]), ('Ni', ec.DENS[1])], ppairs=[(('Ni', 'Al'), ec.PAIRD[0])],
                 species={'Ni.atomic_mass': '0.0', 'Al.atomic_number': '0', 'Al.lattice_constant': '4.05'}),
            dict(base, target='setfl', embed=[('NI', ec.EMBED[0]), ('Al', ec.EMBED[1])], dens=[('Al', ec.DENS[0]), ('NI', ec.DENS[1])], ppairs=[(('NI', 'Al'), ec.PAIRD[1])],
                 species={'NI.atomic_number': '28', 'NI.atomic_mass': '57.9353', 'NI.lattice_constant': '3.52', 'NI.lattice_type': 'bcc'}),
            dict(base, target='setfl', exclude=['C', 'N', 'i'], embed=[('Cu', ec.EMBED[0]), ('Ni', ec.EMBED[1])], dens=[('Ni', ec.DENS[0]), ('Cu', ec.DENS[1])], ppairs=[(('Ni', 'Cu'), ec.PAIRD[0])],
                 species={'Cu.atomic_mass': '62.9296', 'Cu.lattice_constant': '3.615', 'Cu.lattice_type': 'bcc', 'Ni.lattice_constant': '3.52'}),
            dict(base, target='lammps_eam_alloy', embed=[('al', ec.EMBED[2]), ('Cu', ec.EMBED[0])], dens=[('Cu', ec.DENS[2]), ('al', ec.DENS[0])], ppairs=[(('al', 'al'), ec.PAIRD[2])],
                 species={'al.atomic_number': '13', 'al.atomic_mass': '1.5', 'Cu.lattice_constant': '3.61', 'Cu.atomic_mass': '65.0'})]

def correspond(ctx):
    rng = ctx['rng']
    cases = [gen_case(rng, ctx['thorough']) for _ in range(200 if ctx['thorough'] else 45)]
    pcases = potable_corpus() + [ec.gen_potable_eam(rng, False, rng.choice(['setfl', 'lammps_eam_alloy'])) for _ in range(40 if ctx['thorough'] else 10)]
    dis = []
    runs = []
    for c in cases:
        try: runs.append(run_recorded(c))
        except Exception as e: runs.append(None); dis.append({'case': c, 'what': 'writer raised %s: %s' % (type(e).__name__, str(e)[:100])})
    exprs = [model_expr(c) for c in cases]
    pruns = []
    for c in pcases:
        try:
            tab, text = run_potable(c); wc = ec.case_from_tabulation(c, tab); wc['route'] = 'class'
            pruns.append((tab, text, wc)); exprs.append(model_expr(wc))
        except Exception as e:
            pruns.append(None); exprs.append('([] : list item)'); dis.append({'case': c, 'what': 'potable EAM model raised %s: %s' % (type(e).__name__, str(e)[:120])})
    models = layout.eval_models('C03', ec.PRE, exprs)
    for c, r, (toks, tr) in zip(cases, runs, models):
        if r is None: continue
        d = ec.check(c, r[0], r[1], toks, tr)
        if d: dis.append({'case': c, 'what': d})
    for c, r, (toks, tr) in zip(pcases, pruns, models[len(cases):]):
        if r is None: continue
        tab, text, wc = r
        d = p_c01.compare_numeric(toks, ec.synth_eam_events(tr, tab), wc['labels'], text, tol=1e-12)
        if d: dis.append({'case': c, 'what': 'potable route: ' + d})
    # builder: element order, zero filling, metadata precedence
    import gen_eam
    bdis, nb = gen_eam.builder_correspondence(pcases, [r[0] if r else None for r in pruns], 'C03b')
    dis += bdis
    allc = cases + pcases
    dist = {'recorded': len(cases), 'potable': len(pcases), 'n_elements': {k: sum(1 for c in cases if len(c['elements']) == k) for k in (1, 2, 3, 4)},
            'pairs_declared_reversed': sum(1 for c in cases for (a, b) in c['pairs'] if a > b), 'undeclared_pairs': sum(len(c['elements']) * (len(c['elements']) + 1) // 2 - len(c['pairs']) for c in cases),
            'nr_min': min(c['nr'] for c in allc), 'nrho_min': min(c['nrho'] for c in allc), 'builder_models': nb}
    # how the numbers are printed (coq/model/NumFormat.v): the cells rendered in this run, edge values and random doubles
    import fmt_common
    nfmt, fdis, fdist = fmt_common.check_formats('C03', ctx['rng'], [8, 9, 10], ctx['thorough'])
    dis = fdis + dis
    return {'number_format_cells': nfmt, 'number_format': fdist, 'evaluations': nfmt + len(allc) + nb, 'cases': allc, 'nontrivial': core.distinct_count([c for c in cases if len(c['elements']) >= 2]) + core.distinct_count(pcases),
            'rule': 'EAM models with 1..4 elements in shuffled declaration order, random subsets of pair potentials declared in either species order, nr/nrho from 2, recording callables through writeSetFL '
                    '(explicit steps, comments, header cutoff) and SetFL_EAMTabulation; potable models (setfl, lammps_eam_alloy) with [Species] overrides: builder output vs model/EamBuilder.v and file vs layout model; '
                    'whole file text compared; non-trivial = two or more elements, or a potable model; distinct by canonical JSON',
            'samples': cases[:2] + pcases[:1], 'distribution': dist, 'disagreements': dis[:20], 'oracle_cases': allc}

# ------------------------------------------------------------------ oracle
def parse_setfl(text, fs=False):
    lines = text.split('\n')
    hdr = lines[3].split(); n = int(hdr[0]); names = hdr[1:]
    if len(names) != n: raise ValueError('ntypes %d but %d names' % (n, len(names)))
    g = lines[4].split(); nrho, drho, nr, dr, cut = int(g[0]), float(g[1]), int(g[2]), float(g[3]), float(g[4])
    vals = lines[5:]
    pos = 0
    els = []
    for i in range(n):
        h = vals[pos].split(); pos += 1
        F = [float(x) for x in vals[pos:pos + nrho]]; pos += nrho
        nd = n if fs else 1
        rho = [[float(x) for x in vals[pos + k * nr:pos + (k + 1) * nr]] for k in range(nd)]; pos += nd * nr
        els.append({'Z': int(h[0]), 'mass': float(h[1]), 'a0': float(h[2]), 'lat': h[3], 'F': F, 'rho': rho})
    pairs = {}
    for i in range(n):
        for j in range(i + 1):
            pairs[(i, j)] = [float(x) for x in vals[pos:pos + nr]]; pos += nr
    rest = [x for x in vals[pos:] if x.strip()]
    return {'names': names, 'nrho': nrho, 'drho': drho, 'nr': nr, 'dr': dr, 'cutoff': cut, 'els': els, 'pairs': pairs, 'rest': rest}

def close(a, b, tol=1e-12):
    return abs(a - b) <= tol * max(1.0, abs(a), abs(b))

def oracle_values(case, f, names_expected, meta, F_at, rho_at, phi_at, fs=False):
    fails = []
    if f['names'] != names_expected: fails.append('header names %r, expected %r' % (f['names'], names_expected)); return fails
    if len(set(f['names'])) != len(f['names']): fails.append('an element is named twice')
    for i, e in enumerate(f['els']):
        Z, mass, a0, lat = meta(i)
        if (e['Z'], e['lat']) != (Z, lat) or not close(e['mass'], mass) or not close(e['a0'], a0):
            fails.append('element %s metadata %r, expected %r' % (f['names'][i], (e['Z'], e['mass'], e['a0'], e['lat']), (Z, mass, a0, lat)))
        if len(e['F']) != f['nrho'] or any(len(x) != f['nr'] for x in e['rho']): fails.append('element %s: wrong number of values' % f['names'][i]); continue
        for k in range(f['nrho']):
            if not close(e['F'][k], F_at(i, k * f['drho'])): fails.append('element %s: embedding value %d is %r, F(i*drho)=%r' % (f['names'][i], k, e['F'][k], F_at(i, k * f['drho']))); break
        for d, col in enumerate(e['rho']):
            for k in range(f['nr']):
                w = rho_at(i, d, k * f['dr'])
                if not close(col[k], w): fails.append('element %s: density %d value %d is %r, expected %r' % (f['names'][i], d, k, col[k], w)); break
    for (i, j), col in f['pairs'].items():
        for k in range(f['nr']):
            r = k * f['dr']; w = phi_at(i, j, r)
            if not close(col[k], r * w): fails.append('pair block (%s,%s) value %d is %r, r*phi(r)=%r' % (f['names'][i], f['names'][j], k, col[k], r * w)); break
    if f['rest']: fails.append('%d unexpected trailing lines' % len(f['rest']))
    return fails

def oracle(case):
    if case.get('potable_eam'):
        try: tab, text = run_potable(case)
        except Exception as e: return ['valid EAM model raised %s: %s' % (type(e).__name__, str(e)[:100])]
        try: f = parse_setfl(text)
        except Exception as e: return ['unparseable setfl file: %s' % e]
        import gen_eam
        exp = gen_eam.expected_elements(case)          # independent restatement of the builder rules
        names = [e['sp'] for e in exp]
        eps = {ep.species: ep for ep in tab.eam_potentials}
        fails = []
        if (f['nrho'], f['nr']) != (case['nrho'], case['nr']) or not close(f['drho'], case['cutoff_rho'] / (case['nrho'] - 1)) or not close(f['dr'], case['cutoff'] / (case['nr'] - 1)):
            fails.append('header grid %r, expected nrho=%d drho=%r nr=%d dr=%r' % ((f['nrho'], f['drho'], f['nr'], f['dr']), case['nrho'], case['cutoff_rho'] / (case['nrho'] - 1), case['nr'], case['cutoff'] / (case['nr'] - 1)))
        pd = {}
        for p in tab.potentials: pd[tuple(sorted([p.speciesA, p.speciesB]))] = p
        declared = {tuple(sorted(k)) for k, _ in case['ppairs']}
        def phi(i, j, r):
            k = tuple(sorted([names[i], names[j]]))
            return pd[k].energy(r) if k in declared and k in pd else 0.0
        emb = dict(case['embed']); den = dict(case['dens'])
        def F_at(i, x): return eps[names[i]].embeddingFunction(x) if names[i] in emb else 0.0
        def rho_at(i, d, x): return eps[names[i]].electronDensityFunction(x) if names[i] in den else 0.0
        return fails + oracle_values(case, f, names, lambda i: (exp[i]['Z'], exp[i]['mass'], exp[i]['a0'], exp[i]['lat']), F_at, rho_at, phi)
    try: rec, text = run_recorded(case)
    except Exception as e: return ['writer raised %s: %s' % (type(e).__name__, str(e)[:100])]
    try: f = parse_setfl(text)
    except Exception as e: return ['unparseable setfl file: %s' % e]
    fails = []
    if case['route'] == 'class':
        if (f['nrho'], f['nr']) != (case['nrho'], case['nr']) or not close(f['drho'], case['cutoff_rho'] / (case['nrho'] - 1)) or not close(f['dr'], case['cutoff'] / (case['nr'] - 1)):
            fails.append('header grid %r is not the tabulation grid' % ((f['nrho'], f['drho'], f['nr'], f['dr']),))
    else:
        if (f['nrho'], f['nr']) != (case['nrho'], case['nr']) or not close(f['drho'], case['drho']) or not close(f['dr'], case['dr']):
            fails.append('header grid %r is not the grid passed in' % ((f['nrho'], f['drho'], f['nr'], f['dr']),))
    evs = rec.evals()
    def val(fn, x):
        for e in evs:
            if e[1] == fn and abs(e[3] - x) <= 1e-9 * max(1.0, abs(x)): return e[4]
        return float('nan')
    els = case['elements']
    lastpair = {}
    for k, (a, b) in enumerate(case['pairs']): lastpair[tuple(sorted([a, b]))] = k
    def phi(i, j, r):
        k = lastpair.get(tuple(sorted([els[i]['sp'], els[j]['sp']])))
        return 0.0 if k is None else val((0, k, 0), r)
    return fails + oracle_values(case, f, [e['sp'] for e in els], lambda i: (els[i]['Z'], els[i]['mass'], els[i]['a0'], els[i]['lat']),
                                 lambda i, x: val((3, i, 0), x), lambda i, d, x: val((4, i, 0), x), phi)

def search_cases(rng, n):
    for c in potable_corpus(): yield c
    for k in range(n // 4):
        yield gen_case(rng)
        if k % 5 == 0: yield ec.gen_potable_eam(rng, False, 'setfl')
def finding_for(case, fails): return None
def replay_finding(f): return False
