"""Shared machinery of the /verif/check driver: regeneration of the Coq model from /repo, the Coq
build and its gates, evaluation of correspondence cases inside Coq, evidence and replay files."""
import fcntl, fractions, glob, hashlib, json, os, random, re, shutil, subprocess, sys, time

VERIF = os.path.dirname(os.path.dirname(os.path.abspath(__file__)))
REPO = os.environ.get('ATSIM_REPO', '/repo')
COQ = os.path.join(VERIF, 'coq')
COQFLAGS = ['-Q', '.', 'V']
sys.path[:0] = [os.path.join(VERIF, 'tools'), os.path.join(VERIF, 'harness')]
import py2coq
from py2coq import Refuse

FORBIDDEN = re.compile(r'\b(Admitted|admit|Axiom|Axioms|Parameter|Parameters|Conjecture|Conjectures|Abort All)\b'
                       r'|Unset\s+Guard|bypass_check|Admit\s+Obligations|type-in-type|impredicative-set'
                       r'|Unset\s+Positivity|Unset\s+Universe')

# axioms that may appear under `Print Assumptions` (all declared by the Coq standard library or by
# the listed libraries; none by this development).  Per-property allow-lists are subsets, by group.
AXIOM_GROUPS = {
    'reals': {'ClassicalDedekindReals.sig_forall_dec', 'ClassicalDedekindReals.sig_not_dec',
              'FunctionalExtensionality.functional_extensionality_dep'},
    'classic': {'Classical_Prop.classic'},
    'eps': {'Epsilon.epsilon_statement', 'ClassicalEpsilon.constructive_indefinite_description',
            'ProofIrrelevance.proof_irrelevance', 'PropExtensionality.propositional_extensionality'},
}
PRIMITIVE_PREFIXES = ('Uint63.', 'PrimInt63.', 'PrimFloat.', 'FloatAxioms.', 'FloatOps.', 'Sint63.', 'SpecFloat.',
                      'CarryType.', 'PrimString.', 'Uint63Axioms.', 'PrimInt63Notations.')

class Broken(Exception):
    """a proof obligation / translation / correspondence that no longer checks"""
    def __init__(self, kind, what, detail=''):
        Exception.__init__(self, '%s: %s' % (kind, what))
        self.kind, self.what, self.detail = kind, what, detail

def log(*a):
    print(*a, file=sys.stderr, flush=True)

# ---------------------------------------------------------------------------------- Coq literals
def q(x):
    """exact rational literal for a float / Fraction / int"""
    f = fractions.Fraction(x)
    return '(%d # %d)' % (f.numerator, f.denominator)

def z(n):
    return '(%d)%%Z' % n

def nat(n):
    return '%d%%nat' % n

def coq_list(items):
    return '[' + '; '.join(items) + ']'

def coq_opt(x, f=str):
    return 'None' if x is None else '(Some %s)' % f(x)

def coq_bool(b):
    return 'true' if b else 'false'

def coq_str(s):
    return '"%s"%%string' % s.replace('"', '""')

# ---------------------------------------------------------------------------------- generation
def regenerate(genmods, pid=None):
    """Run the generator modules; write coq/gen files when their text changed.
    Returns list of refusals (strings)."""
    refusals = []
    for modname in genmods:
        mod = __import__(modname)
        try:
            files = mod.generate_for(REPO, pid) if hasattr(mod, 'generate_for') else mod.generate(REPO)
        except Refuse as e:
            refusals.append('%s: translator refused: %s' % (modname, e))
            continue
        except Exception as e:      # fail closed
            refusals.append('%s: translator failed: %s: %s' % (modname, type(e).__name__, e))
            continue
        for rel, text in files.items():
            py2coq.write_if_changed(os.path.join(COQ, rel), text)
    return refusals

class BuildLock:
    def __enter__(self):
        self.f = open(os.path.join(COQ, '.lock'), 'w')
        fcntl.flock(self.f, fcntl.LOCK_EX)
    def __exit__(self, *a):
        fcntl.flock(self.f, fcntl.LOCK_UN); self.f.close()

def ensure_makefile():
    mk = os.path.join(COQ, 'Makefile')
    cp = os.path.join(COQ, '_CoqProject')
    if not os.path.exists(mk) or os.path.getmtime(mk) < os.path.getmtime(cp):
        subprocess.run(['coq_makefile', '-f', '_CoqProject', '-o', 'Makefile'], cwd=COQ, check=True,
                       stdout=subprocess.DEVNULL, stderr=subprocess.DEVNULL)

def build(targets, clean=False, timeout=1500):
    """make the given .vo targets (full .vo compilation).  Returns (ok, output)."""
    with BuildLock():
        ensure_makefile()
        for t in targets:          # property files are always recompiled so Print Assumptions is fresh
            for ext in ('', 's', 'k'):
                try: os.unlink(os.path.join(COQ, t + ext)) if ext else os.unlink(os.path.join(COQ, t))
                except OSError: pass
        if clean:
            subprocess.run(['make', 'clean'], cwd=COQ, stdout=subprocess.DEVNULL, stderr=subprocess.DEVNULL)
            ensure_makefile()
        try:
            p = subprocess.run(['timeout', str(timeout), 'make', '-j16', '-k'] + targets, cwd=COQ,
                               stdout=subprocess.PIPE, stderr=subprocess.STDOUT, text=True)
        except Exception as e:
            return False, str(e)
        return p.returncode == 0, p.stdout

def parse_assumptions(output):
    """axioms listed by the `Print Assumptions` commands in a coqc run.  Returns set of names."""
    axioms = set()
    inblock = False
    for line in output.splitlines():
        if line.startswith('Axioms:'):
            inblock = True; continue
        if line.startswith('Closed under the global context'):
            inblock = False; continue
        if inblock:
            m = re.match(r'^([A-Za-z_][\w.\']*)\s*(:|$)', line)
            if m and not line.startswith(' '):
                axioms.add(m.group(1))
            elif line and not line.startswith(' ') and not m:
                inblock = False
    return axioms

def check_axioms(axioms, allowed_groups):
    allowed = set()
    for g in allowed_groups:
        allowed |= AXIOM_GROUPS.get(g, set())
    bad = []
    for a in axioms:
        if a in allowed: continue
        if 'primitives' in allowed_groups and a.startswith(PRIMITIVE_PREFIXES): continue
        bad.append(a)
    return sorted(bad)

def grep_gate():
    """forbidden constructs anywhere in the development"""
    hits = []
    for path in glob.glob(os.path.join(COQ, '**', '*.v'), recursive=True):
        if os.sep + 'cases' + os.sep in path: continue
        txt = open(path).read()
        # strip comments (non-nested approximation is enough: we only look for tokens)
        code = re.sub(r'\(\*.*?\*\)', ' ', txt, flags=re.S)
        for m in FORBIDDEN.finditer(code):
            hits.append('%s: %s' % (os.path.relpath(path, COQ), m.group(0)))
        # Variable/Hypothesis outside a Section
        depth = 0
        for line in code.splitlines():
            s = line.strip()
            if re.match(r'^(Section|Module)\b', s): depth += 1
            elif re.match(r'^End\b', s): depth = max(0, depth - 1)
            elif re.match(r'^(Variable|Variables|Hypothesis|Hypotheses|Context)\b', s) and depth == 0:
                hits.append('%s: %s outside a section' % (os.path.relpath(path, COQ), s.split()[0]))
    return hits

def count_obligations(files):
    n = 0
    names = []
    for rel in files:
        try: txt = open(os.path.join(COQ, rel)).read()
        except OSError: continue
        code = re.sub(r'\(\*.*?\*\)', ' ', txt, flags=re.S)
        for m in re.finditer(r'^\s*(?:Local\s+|Global\s+|#\[[^\]]*\]\s*)*(Theorem|Lemma|Corollary|Example|Fact|Remark|Proposition)\s+([\w\']+)', code, flags=re.M):
            n += 1; names.append('%s:%s' % (rel, m.group(2)))
    return n, names

# ---------------------------------------------------------------------------------- cases
def coq_eval(tag, preamble, body, timeout=600):
    """Write coq/cases/<tag>.v = preamble + body, compile it, return its stdout.
    The body prints its answers with `Eval vm_compute in ...`."""
    d = os.path.join(COQ, 'cases')
    os.makedirs(d, exist_ok=True)
    path = os.path.join(d, tag + '.v')
    with open(path, 'w') as f:
        f.write(preamble + '\n' + body + '\n')
    # large literals (thorough tier) overflow coqc's default 8 MB stack while being parsed / printed: lift the limit for the child
    import shlex
    cmd = 'ulimit -s unlimited 2>/dev/null || ulimit -s 1000000 2>/dev/null; exec ' + ' '.join(shlex.quote(x) for x in ['timeout', str(timeout), 'coqc'] + COQFLAGS + [os.path.join('cases', tag + '.v')])
    p = subprocess.run(['bash', '-c', cmd], cwd=COQ, stdout=subprocess.PIPE, stderr=subprocess.PIPE, text=True)
    for ext in ('.vo', '.vok', '.vos', '.glob'):
        try: os.unlink(os.path.join(d, tag + ext))
        except OSError: pass
    try: os.unlink(os.path.join(d, '.' + tag + '.aux'))
    except OSError: pass
    if p.returncode != 0:
        raise Broken('correspondence', 'cases file %s does not compile' % tag, (p.stdout + p.stderr)[-3000:])
    return p.stdout

def parse_nat_lists(out):
    """all `= [..] : list nat` answers in a coqc output, in order"""
    res = []
    for m in re.finditer(r'=\s*(\[[^\]]*\])\s*:\s*list nat', out.replace('\n', ' ')):
        body = m.group(1).strip('[] ').replace('%nat', '')
        res.append([int(x) for x in body.split(';') if x.strip()])
    return res

def run_shards(tag, preamble, shard_bodies, timeout=600):
    """Evaluate shards in parallel (each body ends with one Eval ... printing a `list nat` of failing
    indices local to the shard).  Returns list of lists."""
    from concurrent.futures import ThreadPoolExecutor
    def one(i_body):
        i, body = i_body
        out = coq_eval('%s_%d' % (tag, i), preamble, body, timeout)
        ls = parse_nat_lists(out)
        if len(ls) != 1:
            raise Broken('correspondence', 'cases file %s_%d printed %d answers' % (tag, i, len(ls)), out[-2000:])
        return ls[0]
    with ThreadPoolExecutor(max_workers=8) as ex:
        return list(ex.map(one, enumerate(shard_bodies)))

# ---------------------------------------------------------------------------------- evidence
def write_json(path, obj):
    os.makedirs(os.path.dirname(path), exist_ok=True)
    tmp = path + '.tmp'
    with open(tmp, 'w') as f:
        json.dump(obj, f, indent=1, sort_keys=True, default=str)
        f.write('\n')
    os.replace(tmp, path)

def canon(obj):
    return json.dumps(obj, sort_keys=True, default=str)

def distinct_count(cases):
    return len({hashlib.sha1(canon(c).encode()).hexdigest() for c in cases})

def known_findings():
    try:
        return json.load(open(os.path.join(VERIF, 'known_findings.json')))
    except OSError:
        return {'findings': [], 'fixed': []}

def silence_impl_logging():
    import logging, warnings
    logging.disable(logging.CRITICAL)
    warnings.simplefilter('ignore')
