"""C12: exact bodies of the stateful pieces that model/Evaluator.v and model/History.v restate (symbol-table rebinding,
mutual registration, lazy caches), and a fail-closed static check that the objects shared through default arguments
(Reference_Data(), extra_data = {}, overrides = [], additional = []) are never mutated."""
import ast, os
from py2coq import assert_body, load_function, strip_docstring, Refuse

MUTATORS = {'append', 'extend', 'insert', 'remove', 'pop', 'clear', 'sort', 'reverse', 'update', 'setdefault', 'popitem', 'add', 'discard', '__setitem__', '__delitem__'}

def _is(node, text):
    try: return ast.unparse(node) == text
    except Exception: return False

def never_mutated(tree, expr_text, where):
    """no statement in `tree` stores into / deletes from / calls a mutating method on the object denoted by expr_text"""
    for n in ast.walk(tree):
        if isinstance(n, (ast.Assign, ast.AugAssign, ast.AnnAssign, ast.Delete)):
            tg = n.targets if isinstance(n, (ast.Assign, ast.Delete)) else [n.target]
            for t in tg:
                for sub in ast.walk(t):
                    if isinstance(sub, (ast.Subscript, ast.Attribute)) and _is(sub.value, expr_text) and not (isinstance(n, ast.Assign) and sub is t and isinstance(sub, ast.Attribute) and False):
                        raise Refuse('%s: `%s` is written through `%s`' % (where, expr_text, ast.unparse(n)[:80]))
                if isinstance(n, ast.AugAssign) and _is(t, expr_text):
                    raise Refuse('%s: `%s` is modified in place by `%s`' % (where, expr_text, ast.unparse(n)[:80]))
        if isinstance(n, ast.Call) and isinstance(n.func, ast.Attribute) and n.func.attr in MUTATORS and _is(n.func.value, expr_text):
            raise Refuse('%s: `%s.%s(...)` mutates a shared object' % (where, expr_text, n.func.attr))

def generate(repo):
    X = 'atsim/potentials/config/_cexprtk_potential_function.py'
    assert_body(repo, X, '_Cexptrk_Potential_Function.__init__', '''
        self._potential_form_tuple = potential_form_tuple
        self._local_symbol_table = self._init_symbol_table()
        self._expression = None
    ''')
    assert_body(repo, X, '_Cexptrk_Potential_Function._init_symbol_table', '''
        local_symbol_table = cexprtk.Symbol_Table({}, add_constants = True)
        parameter_names = self._potential_form_tuple.signature.parameter_names
        for pn in parameter_names:
          local_symbol_table.variables[pn] = 1.0
        return local_symbol_table
    ''')
    assert_body(repo, X, '_Cexptrk_Potential_Function.register_function', '''
        label = func._potential_form_tuple.signature.label
        try:
          self._local_symbol_table.functions[label] = func
        except cexprtk._exceptions.NameShadowException as e:
          msg = "Name clash for potential-form '{}': {}".format(label, str(e))
          raise Potential_Form_Exception(msg)
    ''')
    assert_body(repo, X, '_Cexptrk_Potential_Function.__call__', '''
        parameter_names = self._potential_form_tuple.signature.parameter_names
        assert len(args) == len(parameter_names)
        for (pn, v) in zip(parameter_names, args):
          self._local_symbol_table.variables[pn] = v

        try:
          if not self._expression:
            try:
              self._expression = cexprtk.Expression(self._potential_form_tuple.expression, self._local_symbol_table)
            except cexprtk.ParseException as pe:
              raise Potential_Form_Exception("mathematical expression couldn't be parsed {}".format(pe))
          retval = self._expression()
          return retval
        except Potential_Form_Exception as e:
          msg = e.args[0]
          sig = ",".join(self._potential_form_tuple.signature.parameter_names)
          sig = "{label}({sig})".format(label = self._potential_form_tuple.signature.label, sig = sig)
          msg = "In potential-form '{sig} = {expression}': {msg}".format(
            msg = msg,
            sig = sig,
            expression = self._potential_form_tuple.expression)
          raise Potential_Form_Exception(msg)
    ''')
    R = 'atsim/potentials/config/_potential_form_registry.py'
    assert_body(repo, R, 'Potential_Form_Registry._register_with_each_other', '''
        pairs = list(itertools.permutations(self._potential_forms.values(), 2))
        for a,b in pairs:
          a.potential_function.register_function(b.potential_function)
    ''')
    assert_body(repo, R, 'Potential_Form_Registry._build_potential_forms', '''
        potential_forms = {}
        for d in definitions:
          if d.signature.label in potential_forms or d.signature.label in self._potential_forms:
            raise Potential_Form_Registry_Exception("Two potential forms have the same label in [Potential-Form] section: '{0}'".format(d.signature.label))
          func = _Cexptrk_Potential_Function(d)
          pf = Potential_Form(func)
          potential_forms[d.signature.label] = pf
        return potential_forms
    ''')
    # lazy caches
    B = 'atsim/potentials/config/_pair_potential_builder.py'
    assert_body(repo, B, 'Pair_Potentials_From_Tuples_Builder.potentials', '''
        if self._potlist is None:
          self._potlist = self._init_potentials()
        return self._potlist
    ''')
    assert_body(repo, B, 'Pair_Potential_Builder.potentials', 'return self._tuple_pot_builder.potentials')
    T = 'atsim/potentials/pair_tabulation.py'
    assert_body(repo, T, 'Excel_PairTabulation.workbook', '''
        if self._workbook is None:
          self._workbook = self._build_workbook()
        return self._workbook
    ''')
    assert_body(repo, T, 'Excel_PairTabulation._build_workbook', '''
        from openpyxl import Workbook
        wb = Workbook()
        wb.remove(wb.active)
        self._add_worksheets(wb)
        return wb
    ''')
    E = 'atsim/potentials/eam_tabulation.py'
    assert_body(repo, E, 'Excel_EAMTabulation.workbook', '''
        if self._inner_tabulation is None:
          self._build_workbook()
        return self._inner_tabulation.workbook
    ''')
    assert_body(repo, E, 'Excel_EAMTabulation._build_workbook', '''
        self._inner_tabulation = Excel_PairTabulation(self.potentials, self.cutoff, self.nr)
        wb = self._inner_tabulation.workbook
        self._add_sheets(wb)
    ''')
    # element order of zero-filled species
    EB = 'atsim/potentials/config/_eam_potential_builder.py'
    assert_body(repo, EB, 'EAM_Potential_Builder._add_null_embedding_functions', '''
        defined = set(embed_dict.keys())
        density = self._extract_density(cp)
        density_species = self._density_species(density)
        null_embed_species = density_species - defined
        null = zero()
        for s in sorted(null_embed_species):
          embed_dict[s] = null
    ''')
    # objects shared through default arguments are never mutated
    def tree_of(rel): return ast.parse(open(os.path.join(repo, rel), encoding='utf-8').read())
    fn = load_function(repo, EB, 'EAM_Potential_Builder.__init__')
    d = fn.args.defaults
    if [ast.unparse(x) for x in d] != ['Reference_Data()', 'True']: raise Refuse('EAM_Potential_Builder.__init__ defaults changed: %r' % [ast.unparse(x) for x in d])
    never_mutated(tree_of(EB), 'reference_data', EB); never_mutated(tree_of(EB), 'self._reference_data', EB)
    never_mutated(tree_of(EB), 'self._reference_data.extra_data', EB)
    RD = 'atsim/potentials/referencedata/_reference_data.py'
    fn = load_function(repo, RD, 'Reference_Data.__init__')
    if [ast.unparse(x) for x in fn.args.defaults] != ['{}']: raise Refuse('Reference_Data.__init__ defaults changed')
    assert_body(repo, RD, 'Reference_Data.__init__', 'self.extra_data = extra_data')
    never_mutated(tree_of(RD), 'self.extra_data', RD); never_mutated(tree_of(RD), 'extra_data', RD)
    CP = 'atsim/potentials/config/_config_parser.py'
    fn = load_function(repo, CP, 'ConfigParser.__init__')
    if [ast.unparse(x) for x in fn.args.defaults] != ['[]', '[]']: raise Refuse('ConfigParser.__init__ defaults changed')
    for nm in ('overrides', 'additional'):
        never_mutated(load_function(repo, CP, 'ConfigParser.__init__'), nm, CP + ':ConfigParser.__init__')
        never_mutated(load_function(repo, CP, 'ConfigParser._init_config_parser'), nm, CP + ':ConfigParser._init_config_parser')
    # no other mutable default argument anywhere in the package
    W = 'atsim/potentials/_lammpsWriteEAM.py'
    for q in ('writeSetFL', 'writeSetFLFinnisSinclair', '_writeSetFLHeader'):
        fnw = load_function(repo, W, q)
        never_mutated(fnw, 'comments', W + ':' + q)
    allowed = {(EB, 'EAM_Potential_Builder.__init__'), (RD, 'Reference_Data.__init__'), (CP, 'ConfigParser.__init__'), (W, 'writeSetFL'), (W, 'writeSetFLFinnisSinclair')}
    root = os.path.join(repo, 'atsim', 'potentials')
    for dp, dn, fns in os.walk(root):
        for f in fns:
            if not f.endswith('.py'): continue
            rel = os.path.relpath(os.path.join(dp, f), repo)
            try: tr = ast.parse(open(os.path.join(dp, f), encoding='utf-8').read())
            except SyntaxError as e: raise Refuse('cannot parse %s: %s' % (rel, e))
            for cls in [n for n in ast.walk(tr) if isinstance(n, ast.ClassDef)] + [tr]:
                for n in cls.body:
                    if isinstance(n, ast.FunctionDef):
                        for dflt in n.args.defaults + [k for k in n.args.kw_defaults if k is not None]:
                            if isinstance(dflt, (ast.List, ast.Dict, ast.Set, ast.Call)) and not (isinstance(dflt, ast.Call) and ast.unparse(dflt.func) in ('float', 'int', 'str', 'tuple', 'frozenset')):
                                q = (cls.name + '.' if isinstance(cls, ast.ClassDef) else '') + n.name
                                if (rel, q) not in allowed:
                                    raise Refuse('%s:%s has a mutable default argument %s that the model does not cover' % (rel, q, ast.unparse(dflt)))
    return {}
