"""C02 -- DL_POLY TABLE: layout model vs DLPoly_PairTabulation.write, writePotentials('DL_POLY', ..), potable."""
import io, math, random
import core, layout, p_c01
from core import Broken
from layout import q

ID = 'C02'
GENMODS = ['gen_layout', 'gen_forms']
TARGET = 'props/C02.vo'
PROOF_FILES = ['proof/C02.v', 'props/C02.v']
AXIOMS = ['reals', 'classic']
TRUSTED = p_c01.TRUSTED[:1] + [
    'translator: meshResolution formula, exact bodies of DLPoly_PairTabulation.write and _calculateForce; loop structure of _writePotential/_writeTableHeader/writePotentials modelled by hand (model/PairTables.v), compared byte for byte',
] + p_c01.TRUSTED[2:]

PRE = p_c01.PRE

def gen_case(rng, thorough=False):
    c = p_c01.gen_case(rng, thorough)
    c['nr'] = rng.choice([8, 8, 12, 16, 20, 40, 8, 12, rng.randint(2, 25) * 4, rng.choice([5, 6, 7, 9, 10, 13, 22, 1002 if thorough else 14])])
    c['route'] = rng.choice(['class', 'writePotentials'])
    if rng.random() < 0.07: c['pots'] = []
    return c

def run_recorded(case, fault_at=None):
    from atsim.potentials import writePotentials
    from atsim.potentials.pair_tabulation import DLPoly_PairTabulation
    rec = layout.Recorder(); rec.fault_at = fault_at; rec.zero_every = case.get('zero_every')
    pots = p_c01.build_potentials(case, rec)
    out = layout.RecFile(rec)
    try:
        if case['route'] == 'writePotentials': writePotentials('DL_POLY', pots, case['cutoff'], case['nr'], out)
        else: DLPoly_PairTabulation(pots, case['cutoff'], case['nr']).write(out)
    except Exception as e:
        if isinstance(e, layout.InjectedFault) or (layout.FAULT_CLASS[0] is not None and isinstance(e, layout.FAULT_CLASS[0])): raise
        return rec, out.getvalue(), type(e).__name__
    return rec, out.getvalue(), None

def model_expr(case, pots=None):
    ids = {l: i for i, l in enumerate(case['labels'])}
    return '(match dlpoly_file %s %s %d with Some f => f | None => [ILit 999] end)' % (p_c01.coq_pots(pots if pots is not None else case['pots'], ids), q(case['cutoff']), case['nr'])

def potable_corpus():
    """fixed cases: both spellings of the target with row counts that are / are not divisible by four"""
    out = []
    for k, (t, nr) in enumerate([('DL_POLY', 13), ('DLPOLY', 10), ('DL_POLY', 12), ('DLPOLY', 8), ('DL_POLY', 6)]):
        c = p_c01.gen_potable_case(random.Random(200 + k)); c['nr'] = nr; c['target'] = t; out.append(c)
    return out

def gen_potable_case(rng):
    c = p_c01.gen_potable_case(rng)
    c['nr'] = rng.choice([8, 12, 20, 24, 28, 10, 13])
    c['target'] = rng.choice(['DL_POLY', 'DLPOLY'])
    return c

def run_potable(case):
    from atsim.potentials.config._common import ConfigurationException
    try:
        tab, text = p_c01.run_potable(case, case['target'])
        return tab, text, None
    except ConfigurationException as e: return None, '', 'CfgErr'
    except Exception as e:
        if not isinstance(e, Broken): return None, '', 'failed: %s: %s' % (type(e).__name__, str(e)[:120])
        b = e
        return None, '', 'CfgErr' if 'configuration error' in b.detail else 'failed: ' + b.detail[-200:]
    except Broken as b:
        return None, '', 'CfgErr' if 'configuration error' in b.detail else 'failed: ' + b.detail[-200:]

def correspond(ctx):
    rng = ctx['rng']
    cases = [gen_case(rng, ctx['thorough']) for _ in range(220 if ctx['thorough'] else 50)]
    pcases = potable_corpus() + [gen_potable_case(rng) for _ in range(24 if ctx['thorough'] else 5)]
    dis = []
    runs = [run_recorded(c) for c in cases]
    exprs = [model_expr(c) for c in cases]
    pruns = []
    for c in pcases:
        r = run_potable(c); pruns.append(r)
        hd = [hasattr(p.potentialFunction, 'deriv') for p in r[0].potentials] if r[0] else [False] * len(c['potable'])
        exprs.append(model_expr(c, [(a, b, h) for (a, b, _), h in zip(c['potable'], hd)]))
    models = layout.eval_models('C02', PRE, exprs)
    for c, (rec, text, exc), (toks, tr) in zip(cases, runs, models):
        rejected = (len(toks) == 1 and toks[0][:2] == (0, 999))
        if rejected:
            if exc != 'WritePotentialException' or text != '' or any(e[0] == 'write' for e in rec.events):
                dis.append({'case': c, 'what': 'model rejects (ngrid %% 4 != 0) but the implementation %s and wrote %d characters' % ('raised ' + exc if exc else 'did not raise', len(text))})
            continue
        if exc:
            dis.append({'case': c, 'what': 'implementation raised %s, model accepts' % exc}); continue
        d = layout.compare_trace(tr, rec.evals()) or layout.render_and_compare(toks, rec.evals(), c['labels'], text)
        if d: dis.append({'case': c, 'what': d})
    for c, (tab, text, exc), (toks, tr) in zip(pcases, pruns, models[len(cases):]):
        rejected = (len(toks) == 1 and toks[0][:2] == (0, 999))
        if rejected or c['nr'] % 4:
            if exc != 'CfgErr': dis.append({'case': c, 'what': 'potable: row count %d should be a configuration error, got %r' % (c['nr'], exc)})
            continue
        if exc: dis.append({'case': c, 'what': 'potable: valid model gave %s' % exc}); continue
        d = p_c01.compare_numeric(toks, synth_accumulated(tr, tab.potentials, c), c['labels'], text, tol=2e-7)
        if d: dis.append({'case': c, 'what': 'potable route: ' + d})
    allc = cases + pcases
    dist = {'recorded_cases': len(cases), 'potable_cases': len(pcases), 'rejected_row_counts': sum(1 for c in allc if c['nr'] % 4),
            'nr_values': sorted({c['nr'] for c in allc})[:30], 'empty_potential_lists': sum(1 for c in cases if not c['pots']),
            'targets': {t: sum(1 for c in pcases if c['target'] == t) for t in ('DL_POLY', 'DLPOLY')}}
    # how the numbers are printed (coq/model/NumFormat.v): the cells rendered in this run, edge values and random doubles
    import fmt_common
    nfmt, fdis, fdist = fmt_common.check_formats('C02', ctx['rng'], [4, 5], ctx['thorough'])
    dis = fdis + dis
    return {'number_format_cells': nfmt, 'number_format': fdist, 'evaluations': nfmt + len(allc), 'cases': allc, 'nontrivial': core.distinct_count([c for c in allc if c.get('pots', c.get('potable'))]),
            'rule': 'as C01 with row counts both divisible and not divisible by four (rejected ones must raise and write nothing), API and potable (DL_POLY and DLPOLY targets); '
                    'whole file text compared with the rendered model; non-trivial = at least one potential; distinct by canonical JSON',
            'samples': cases[:2] + pcases[:1], 'distribution': dist, 'disagreements': dis[:20], 'oracle_cases': allc + custom_h_corpus()}

def synth_accumulated(trace, pots, case):
    """the model's evaluations on the real Potential objects, at the separations the writer really reaches: it accumulates
    r += delpot in binary64, which at a multi-range boundary lying on the grid can fall an ulp to either side of the exact k*delpot
    (the model is over exact rationals; which side is taken is the implementation's rounding, not part of the property)"""
    import fractions
    nr = case['nr']; cutoff = float(case['cutoff'])
    mesh = cutoff / (nr - 4.0)
    meshq = fractions.Fraction(case['cutoff']) / (nr - 4)
    acc = [0.0]
    for _ in range(nr): acc.append(acc[-1] + mesh)
    evs = []
    for (fn, kind, qarg) in trace:
        k = int(round(qarg / meshq))
        off = qarg - k * meshq
        x = acc[k] if off == 0 else acc[k] + float(off)
        p = pots[fn[1]]
        v = p.potentialFunction.deriv(x) if kind == 1 else p.energy(x)
        evs.append(('eval', tuple(fn), kind, x, v))
    return evs

def parse_dlpoly(text):
    lines = text.split('\n')
    if lines[-1] == '': lines = lines[:-1]
    if len(lines) < 2 or lines[0] != ' ' * 80: raise ValueError('first line is not 80 blanks')
    h = lines[1]
    if len(h) != 40: raise ValueError('header line has %d characters' % len(h))
    delpot, cutpot, ngrid = float(h[:15]), float(h[15:30]), int(h[30:40])
    blocks = []
    i = 2
    while i < len(lines):
        lab = lines[i]
        if len(lab) != 16: raise ValueError('label line %r is not two 8-character fields' % lab)
        a, b = lab[:8].strip(), lab[8:].strip()
        nrec = ngrid // 4
        vals = []
        for ln in lines[i + 1:i + 1 + 2 * nrec]:
            if len(ln) != 60: raise ValueError('record %r is not four 15-character fields' % ln)
            vals += [float(ln[k:k + 15]) for k in range(0, 60, 15)]
        if len(vals) != 2 * ngrid: raise ValueError('block %s-%s has %d values, expected %d' % (a, b, len(vals), 2 * ngrid))
        blocks.append({'a': a, 'b': b, 'e': vals[:ngrid], 'f': vals[ngrid:]})
        i += 1 + 2 * nrec
    return delpot, cutpot, ngrid, blocks

def custom_h_corpus():
    """Potential objects built from plain callables (no .deriv) with a step h of their own: the force block is -r times the central
    difference taken with THAT step (the documented meaning of Potential(..., h=...)); h is large enough to tell it from the default"""
    return [{'custom_h': True, 'h': 0.5, 'nr': 12, 'cutoff': 4.0, 'route': 'class'}, {'custom_h': True, 'h': 0.02, 'nr': 8, 'cutoff': 6.0, 'route': 'writePotentials'}]

def check_custom_h(case):
    import math
    from atsim.potentials import Potential, writePotentials
    from atsim.potentials.pair_tabulation import DLPoly_PairTabulation
    f = lambda r: 5.0 * math.exp(-r / 1.5) + 0.25 * r * r
    pots = [Potential('Ar', 'Kr', f, h=case['h']), Potential('Kr', 'Kr', lambda r: 2.0 * f(r))]       # the second one with the default step
    out = io.StringIO()
    try:
        if case['route'] == 'class': DLPoly_PairTabulation(pots, case['cutoff'], case['nr']).write(out)
        else: writePotentials('DL_POLY', pots, case['cutoff'], case['nr'], out=out)
        delpot, cutpot, ngrid, blocks = parse_dlpoly(out.getvalue())
    except Exception as e: return ['Potential(..., h=%r): %s: %s' % (case['h'], type(e).__name__, str(e)[:100])]
    fails = []
    mesh = case['cutoff'] / (case['nr'] - 4)
    for bi, (h, g) in enumerate([(case['h'], f), (1e-6, lambda r: 2.0 * f(r))]):
        for k in range(1, case['nr'] + 1):
            x = k * mesh
            want = -x * (g(x + h / 2) - g(x - h / 2)) / h
            got = blocks[bi]['f'][k - 1]
            if abs(got - want) > 2e-7 * max(1.0, abs(want)) + (1e-4 * abs(want) if h == 1e-6 else 0.0):
                fails.append('block %d (Potential built with h=%r): force value %d is %r, -r times the central difference with that step is %r' % (bi, h, k, got, want)); break
    return fails

def oracle(case):
    fails = []
    if case.get('custom_h'): return check_custom_h(case)
    if 'potable' in case:
        tab, text, exc = run_potable(case)
        if case['nr'] % 4:
            return [] if exc == 'CfgErr' else ['row count %d not divisible by four was not rejected as a configuration error (%r)' % (case['nr'], exc)]
        if exc: return ['valid model: %s' % exc]
        species = [(a, b) for (a, b, _) in case['potable']]
        pots = tab.potentials
        # the writer accumulates r in binary64: on a range boundary lying on the grid it may be an ulp to either side of k*delpot
        en = lambda bi, x: (pots[bi].energy(x), pots[bi].energy(x * (1 - 1e-12) - 1e-300), pots[bi].energy(x * (1 + 1e-12) + 1e-300))
        def fr(bi, x, f):
            num = -x * p_c01.richardson(pots[bi].energy, x, 1e-4)
            try:
                e = pots[bi].energy; l = (e(x) - e(x - 2e-4)) / 2e-4; r_ = (e(x + 2e-4) - e(x)) / 2e-4
                if abs(l - r_) > 1e-2 * max(1.0, abs(num)): return None
            except Exception: return None
            return None if abs(f - num) <= 2e-5 * max(1.0, abs(num)) + 1e-7 else 'force value %r is not -r dV/dr = %r at r=%r' % (f, num, x)
    else:
        rec, text, exc = run_recorded(case)
        if case['nr'] % 4 and case['pots']:
            ok = exc is not None and text == ''
            return [] if ok else ['row count %d not divisible by four: %s, %d characters written' % (case['nr'], exc or 'no exception', len(text))]
        if exc: return ['valid input raised %s' % exc]
        species = [(a, b) for (a, b, _) in case['pots']]
        evs = rec.evals()
        def find(bi, kind, x):
            for e in evs:
                if e[1] == (0, bi, 0) and e[2] == kind and abs(e[3] - x) <= 1e-9 * max(1.0, abs(x)): return e
        def en(bi, x):
            e = find(bi, 0, x); return (e[4] if e else float('nan'),)
        def fr(bi, x, f):
            if case['pots'][bi][2]:
                e = find(bi, 1, x)
                if e is None: return 'no derivative evaluation at r=%r' % x
                want = x * -e[4]
            else:
                a, b = find(bi, 0, x + 0.5e-6), find(bi, 0, x - 0.5e-6)
                if a is None or b is None: return 'no central-difference evaluations around r=%r' % x
                want = x * -((a[4] - b[4]) / (a[3] - b[3]))
            return None if abs(f - want) <= 6e-8 * max(1.0, abs(want)) else 'force value %r is not r * force = %r' % (f, want)
    try: delpot, cutpot, ngrid, blocks = parse_dlpoly(text)
    except Exception as e: return ['unparseable TABLE: %s' % e]
    nr, cutoff = case['nr'], case['cutoff']
    if ngrid != nr: fails.append('header ngrid %d, row count %d' % (ngrid, nr))
    if nr != 4 and abs(delpot - cutoff / (nr - 4)) > 1e-8 * max(1.0, delpot): fails.append('header delpot %r, expected cutoff/(ngrid-4) = %r' % (delpot, cutoff / (nr - 4)))
    if abs(cutpot - cutoff) > 1e-8 * cutoff: fails.append('header cutpot %r, cutoff %r' % (cutpot, cutoff))
    if len(blocks) != len(species): fails.append('%d blocks for %d potentials' % (len(blocks), len(species))); return fails
    if nr == 4: return fails
    mesh = cutoff / (nr - 4)
    for bi, (b, (sa, sb)) in enumerate(zip(blocks, species)):
        if (b['a'], b['b']) != (sa, sb): fails.append('block %d labelled %s %s, potential is %s %s' % (bi, b['a'], b['b'], sa, sb))
        for k in range(1, nr + 1):
            x = k * mesh
            ee = en(bi, x)
            if not any(abs(b['e'][k - 1] - e1) <= 6e-8 * max(1.0, abs(e1)) for e1 in ee): fails.append('block %d: energy %d is %r, V(k*delpot)=%r' % (bi, k, b['e'][k - 1], ee[0])); break
            m = fr(bi, x, b['f'][k - 1])
            if m: fails.append('block %d value %d: %s' % (bi, k, m)); break
    return fails

def search_cases(rng, n):
    for c in potable_corpus(): yield c
    for c in custom_h_corpus(): yield c
    for k in range(n // 3):
        yield gen_case(rng)
        if k % 6 == 0: yield gen_potable_case(rng)
def finding_for(case, fails): return None
def replay_finding(f): return False
