"""Shared by C06/C07/C10: sampling of the built-in forms, exact rational literals over R, and
interval-certified point evaluations of generated Coq terms against the running implementation."""
import fractions, json, math, os, re
import core
from core import Broken

def rq(x):
    """exact rational literal in R_scope for a float/int"""
    f = fractions.Fraction(x)
    if f.denominator == 1:
        return '%d' % f.numerator if f.numerator >= 0 else '(%d)' % f.numerator
    return '(%d / %d)' % (f.numerator, f.denominator) if f.numerator >= 0 else '(- (%d / %d))' % (-f.numerator, f.denominator)

def grid(rng, lo, hi, step=0.125):
    """a float with a short exact binary/decimal representation in [lo, hi]"""
    n0, n1 = math.ceil(lo / step), math.floor(hi / step)
    return rng.randint(n0, n1) * step

# form -> (parameter sampler, r sampler).  All values are multiples of 1/8 or short decimals so that they
# survive text round trips exactly; domains keep the evaluation well conditioned.
ZEROABLE = {'buck': [0, 2], 'bornmayer': [0], 'coul': [0, 1], 'constant': [0], 'exponential': [0], 'hbnd': [0, 1], 'lj': [0], 'morse': [2], 'sqrt': [0],
            'tang_toennies': [0, 2, 3, 4], 'exp_spline': [1, 2, 3, 4, 5, 6], 'polynomial': None}
def sample_params(name, rng):
    """parameters and a separation; one time in four a coefficient-like parameter is exactly zero (a term that drops out)"""
    ps, r = _sample_params(name, rng)
    if rng.random() < 0.25 and ps:
        idx = ZEROABLE.get(name, [])
        if idx is None: idx = list(range(len(ps)))
        idx = [i for i in idx if i < len(ps)]
        if idx:
            ps = list(ps)
            for i in rng.sample(idx, rng.randint(1, min(2, len(idx)))): ps[i] = 0.0
    return ps, r

def _sample_params(name, rng):
    g = lambda lo, hi, st=0.125: grid(rng, lo, hi, st)
    if name == 'buck': return [g(-500, 3000, 0.5), rng.choice([g(0.125, 0.75), -g(0.25, 0.75)]), g(-20, 120, 0.5)], g(0.75, 6)
    if name == 'bornmayer': return [g(-500, 3000, 0.5), rng.choice([g(0.125, 0.75), -g(0.25, 0.75)])], g(0.75, 6)
    if name == 'coul': return [g(-3, 3), g(-3, 3)], g(0.5, 8)
    if name == 'constant': return [g(-10, 10)], g(0.125, 8)
    if name == 'exponential': return [g(-5, 5), rng.choice([-2.5, -1.0, 0.0, 0.5, 1.0, 2.0, 3.25, 6.0, -0.125])], g(0.25, 6)
    if name == 'hbnd': return [g(-10, 500, 0.5), g(-10, 300, 0.5)], g(0.75, 5)
    if name == 'lj': return [g(-1, 2), g(0.5, 3.5)], g(0.75, 6)
    if name == 'morse': return [g(0.25, 3), g(0.5, 3), g(-2, 5)], g(0.25, 6)
    if name == 'sqrt': return [g(-5, 5)], g(0.125, 9)
    if name == 'tang_toennies': return [g(10, 100, 0.5), g(1.5, 3), g(1, 50, 0.5), g(10, 500, 0.5), g(100, 5000, 1.0)], g(2.0, 6)
    if name == 'zbl': return [rng.choice([1.0, 2.0, 8.0, 13.0, 26.0, 54.0, 92.0, 6.5]), rng.choice([1.0, 8.0, 14.0, 79.0, 92.0, 3.25])], g(0.125, 3)
    if name == 'zero': return [], g(0.0, 8)
    if name == 'exp_spline': return [g(-2, 2), g(-1, 1), g(-0.5, 0.5), g(-0.25, 0.25), g(-0.125, 0.125, 0.015625), g(-0.0625, 0.0625, 0.015625), g(-5, 5)], g(0.25, 3)
    if name == 'polynomial':
        order = rng.randint(0, 8)
        return [g(-3, 3) for _ in range(order + 1)], g(-2, 3)
    raise KeyError(name)

FORM_NAMES = ['buck', 'bornmayer', 'coul', 'constant', 'exponential', 'hbnd', 'lj', 'morse', 'sqrt', 'tang_toennies',
              'zbl', 'zero', 'exp_spline', 'polynomial']
METHODS = [('__call__', 'call'), ('deriv', 'deriv'), ('deriv2', 'deriv2')]

def coq_apply(name, suffix, r, params):
    if name == 'polynomial':
        return '(polynomial_%s %s [%s])' % (suffix, rq(r), '; '.join(rq(p) for p in params))
    return '(%s_%s %s)' % (name, suffix, ' '.join([rq(r)] + [rq(p) for p in params]))

UNFOLD = None
def unfold_list():
    """every constant defined in the generated files (to expose arithmetic to `interval`)"""
    global UNFOLD
    if UNFOLD is None:
        names = []
        for f in ('gen/PotFuncs.v', 'gen/Combinators.v'):
            try: txt = open(os.path.join(core.COQ, f)).read()
            except OSError: continue
            names += re.findall(r'^Definition\s+([\w\']+)', txt, flags=re.M)
        UNFOLD = [n for n in names if not n.endswith('_lits')]
    return UNFOLD

POINT_PRE = '''From Coq Require Import Reals List.
From Interval Require Import Tactic.
From V Require Import lib.RLib gen.PotFuncs gen.Combinators model.Callable.
Import ListNotations.
Local Open Scope R_scope.
Ltac expose := cbv beta iota zeta delta [%s isum isum_aux skipn INR Nat.sub build c_plus c_product c_pow c_trans comb3 gradient gradient_h
   has_d has_d2 cf cd cd2 orb andb option_map force reduce fold_left central_diff].
'''

def point_goal(idx, term, value, tol):
    """`term` must be within tol of the float `value` (exact rational of the float)"""
    # a goal whose certification does not finish within its time limit (a deep tree of numerical fallbacks unfolds into a term that grows
    # exponentially with the nesting) is UNDECIDED, not a disagreement: "PSKIP n" (counted in SKIPPED, left out of the evaluations)
    return ('Goal True. Proof. first [ timeout %d (first [ assert (Rabs (%s - %s) <= %s) by (expose; interval with (i_prec 120, i_depth 5)) | idtac "PFAIL %d" ]) | idtac "PSKIP %d" ]. exact I. Qed.'
            % (GOAL_TIMEOUT, term, rq(value), rq(tol), idx, idx))
GOAL_TIMEOUT = 60
SKIPPED = []      # indices of undecided goals of the last run_point_goals call

def run_point_goals(tag, goals, chunk=60):
    """goals: list of coq goal texts built by point_goal (indices embedded).  Returns failing indices."""
    pre = POINT_PRE % ' '.join(unfold_list())
    bodies = ['\n'.join(goals[k:k + chunk]) for k in range(0, len(goals), chunk)]
    from concurrent.futures import ThreadPoolExecutor
    def one(ib):
        i, body = ib
        return core.coq_eval('%s_%d' % (tag, i), pre, body, timeout=1200)
    with ThreadPoolExecutor(max_workers=10) as ex:
        outs = list(ex.map(one, enumerate(bodies)))
    fails = []
    del SKIPPED[:]
    for o in outs:
        fails += [int(m) for m in re.findall(r'PFAIL (\d+)', o)]
        SKIPPED.extend(int(m) for m in re.findall(r'PSKIP (\d+)', o))
    return sorted(fails)

def impl_form(name):
    import atsim.potentials.potentialfunctions as pf
    return getattr(pf, name)
