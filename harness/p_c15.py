"""C15 -- [Variables]: model/Variables.v (options = own keys, interpolation) vs the parser; templated file vs the file
with the placeholder values substituted by hand (output tables)."""
import copy, io, random, re
import core, store_common as sc

ID = 'C15'
GENMODS = ['gen_store']
TARGET = 'props/C15.vo'
PROOF_FILES = ['proof/C15.v', 'proof/IniProofs.v', 'proof/C15Text.v', 'props/C15.v']
AXIOMS = []
TRUSTED = [
    'Coq 8.16.1 kernel; vm_compute for the correspondence evaluation; no axioms',
    "Python's configparser.ExtendedInterpolation is an oracle: model/Variables.v `interp` states what it is assumed to do (${NAME}: own section then [Variables]; ${SECTION:KEY}; nested); compared with the parser on every generated file",
    '_RawConfigParser.options / has_option / get (visibility of [Variables]) are asserted on the AST to be the repaired ones and compared behaviourally (keys iterated per section)',
    'tabulation outputs of templated and hand-substituted files are compared in the implementation (differential)',
]
PRE = 'From V Require Import lib.Common model.Store model.Variables.\nLocal Open Scope nat_scope.\n'
NUM = re.compile(r'(?<![\w.])-?\d+\.\d+(?![\w.])')
VARNAMES = ['A', 'rho', 'C6', 'nr', 'x', 'y', 'target', 'cutoff', 'Al', 'myf', 'dr']

def templatise(rng, model):
    """lift some numeric literals into [Variables]; returns templated model whose values are fragment lists"""
    m = copy.deepcopy(model)
    variables = []          # (name, fragments)
    used = set()
    def fresh():
        for n in rng.sample(VARNAMES, len(VARNAMES)) + ['v%d' % i for i in range(50)]:
            if n not in used: used.add(n); return n
    for s, es in m['sections']:
        for e in es:
            txt = e['val']; frags = []; pos = 0
            if s[0] == 'Potential-Form' or s[0] == 'Table-Form':
                e['frags'] = [('lit', txt)]; continue
            for mt in NUM.finditer(txt):
                if rng.random() < 0.45:
                    if mt.start() > pos: frags.append(('lit', txt[pos:mt.start()]))
                    r = rng.random()
                    if r < 0.75 or not variables:
                        name = fresh(); variables.append((name, [('lit', mt.group(0))])); frags.append(('var', name))
                    elif r < 0.9:
                        # nested: a variable defined through another one
                        base = rng.choice(variables)[0]
                        name = fresh(); variables.append((name, [('var', base)])); frags.append(('var', name))
                        # the base variable must hold this literal: redefine value through a fresh literal variable
                        variables[-1] = (name, [('lit', mt.group(0))])
                    else:
                        name = fresh(); variables.append((name, [('lit', mt.group(0))])); frags.append(('ref', ('Variables',), ('opt', name)))
                    pos = mt.end()
            if pos < len(txt): frags.append(('lit', txt[pos:]))
            e['frags'] = frags or [('lit', txt)]
    # a ${SECTION:KEY} reference to a real section
    tab = [es for s, es in m['sections'] if s[0] == 'Tabulation'][0]
    cut = [e for e in tab if e['key'][1] == 'cutoff']
    crho = [e for e in tab if e['key'][1] == 'cutoff_rho']
    if cut and crho and rng.random() < 0.5:
        crho[0]['frags'] = [('ref', ('Tabulation',), ('opt', 'cutoff'))]; crho[0]['val'] = cut[0]['val']
    # a user-defined library section whose entries use a bare ${NAME} of their own section, referenced as ${Lib:KEY}
    prs = [es for s, es in m['sections'] if s[0] == 'Pair']
    if prs and prs[0] and rng.random() < 0.35:
        lib = (('Other', 'Lib'), [{'key': ('opt', 'rho'), 'frags': [('lit', '0.32')], 'val': '0.32'},
                                  {'key': ('opt', 'short'), 'frags': [('lit', 'as.buck 1000.0 '), ('var', 'rho'), ('lit', ' 0.0')], 'val': None}])
        m['sections'].append(lib)
        e = rng.choice(prs[0]); e['frags'] = [('ref', ('Other', 'Lib'), ('opt', 'short'))]
        if rng.random() < 0.5 and 'rho' not in used:
            used.add('rho'); variables.append(('rho', [('lit', '0.5')]))      # a [Variables] rho: ${rho} inside the library entry is this one (variables first)
    # unused variables, some with names that resemble keys of other sections
    for _ in range(rng.choice([0, 1, 2, 3])):
        name = fresh(); variables.append((name, [('lit', rng.choice(['7', '0.125', 'LAMMPS', 'as.buck 1 2 3']))]))
    if variables and rng.random() < 0.4:
        a, b = rng.sample(variables, 2) if len(variables) > 1 else (variables[0], variables[0])
        if a is not b and a[1] == [('lit', a[1][0][1])] and rng.random() < 0.5:
            name = fresh(); variables.append((name, [('var', a[0])]))      # unused alias of another variable
    vsec = (('Variables',), [{'key': ('opt', n), 'frags': fr, 'val': None} for n, fr in variables])
    if variables: m['sections'].insert(rng.randint(0, len(m['sections'])), vsec)
    return m

def frag_text(fr):
    if fr[0] == 'lit': return fr[1]
    if fr[0] == 'var': return '${%s}' % fr[1]
    return '${%s:%s}' % (sc.sect_name(fr[1]), sc.key_text(fr[2]))

def render_templated(m):
    mm = {'sections': [(s, [dict(e, val=''.join(frag_text(f) for f in e['frags'])) for e in es]) for s, es in m['sections']]}
    return sc.render(mm)

def resolve(m, s, frags, depth=0):
    if depth > 10: raise ValueError('depth')
    out = []
    secs = {sc.sect_name(x): es for x, es in m['sections']}
    for f in frags:
        if f[0] == 'lit': out.append(f[1])
        elif f[0] == 'var':
            # ${NAME} is the [Variables] entry; a name [Variables] does not define is an option of the section the text belongs to
            src = [e for e in secs.get('Variables', []) if e['key'] == ('opt', f[1])] or [e for e in secs.get(sc.sect_name(s), []) if e['key'][0] in ('opt', 'sp') and len(e['key']) == 2 and e['key'][1] == f[1]]
            out.append(resolve(m, s, src[0]['frags'], depth + 1))
        else:
            src = [e for e in secs[sc.sect_name(f[1])] if tuple(e['key']) == tuple(f[2])]
            out.append(resolve(m, f[1], src[0]['frags'], depth + 1))
    return ''.join(out)

def substitute_by_hand(m):
    """the file with every placeholder replaced by its value; the [Variables] section is kept (its entries are inert)"""
    return {'sections': [(s, [dict(e, val=resolve(m, s, e['frags'])) for e in es]) for s, es in m['sections']]}

def gen_case(rng):
    base = sc.gen_model(rng)
    return {'model': templatise(rng, base)}

def corpus():
    """fixed cases: a model with a table form next to unused [Variables] entries named like the keys of a table-form section (x, y, xy,
    interpolation) and like options of [Tabulation]: defining variables that are not referenced changes no section"""
    out = []
    for k, names in enumerate([('x', 'interpolation'), ('xy', 'y'), ('nr', 'target', 'x')]):
        g = random.Random(1500 + k)
        base = sc.gen_model(g, kind='pair', with_table=True)
        m = templatise(g, base)
        vs = [x for x in m['sections'] if x[0][0] == 'Variables']
        if not vs: m['sections'].insert(0, (('Variables',), [])); vs = [m['sections'][0]]
        have = {e['key'][1] for e in vs[0][1]}
        for n in names:
            if n not in have: vs[0][1].append({'key': ('opt', n), 'frags': [('lit', '7')], 'val': None})
        out.append({'model': m})
    # a variable defined through another variable, used twice in one value (and a second alias with the same text)
    for k in range(1):
        m = sc.gen_model(random.Random(1540 + k), kind='pair')
        for s_, es in m['sections']:
            for e in es: e['frags'] = [('lit', e['val'])]
        ps = [es for s_, es in m['sections'] if s_[0] == 'Pair'][0]
        if ps:
            ps[0]['frags'] = [('lit', 'sum(as.buck 1000.0 '), ('var', 'rho_OO'), ('lit', ' 32.0, as.buck 250.0 '), ('var', 'rho_OO'), ('lit', ' 0.0, as.bornmayer 10.0 '), ('var', 'rho_b'), ('lit', ')')]
            ps[0]['val'] = 'sum(as.buck 1000.0 0.3 32.0, as.buck 250.0 0.3 0.0, as.bornmayer 10.0 0.3)'
            m['sections'].insert(0, (('Variables',), [{'key': ('opt', 'rho'), 'frags': [('lit', '0.3')], 'val': None}, {'key': ('opt', 'rho_OO'), 'frags': [('var', 'rho')], 'val': None},
                                                      {'key': ('opt', 'rho_b'), 'frags': [('var', 'rho')], 'val': None}]))
            out.append({'model': m})
    # the same bare ${NAME} written in two sections, NAME not a variable: in each section it is that section's own entry NAME
    for k in range(2):
        g = random.Random(1520 + k)
        for t in range(40):
            base = sc.gen_model(random.Random(1520 + k + 100 * t), kind='eam')
            emb = [es for s_, es in base['sections'] if s_[0] == 'EAM-Embed'][0]; den = [es for s_, es in base['sections'] if s_[0] == 'EAM-Density'][0]
            common = [sp for sp in [e['key'][1] for e in emb] if sp in [e['key'][1] for e in den]]
            if len(emb) >= 2 and len(den) >= 2 and common: break
        else: continue
        m = copy.deepcopy(base)
        for s_, es in m['sections']:
            for e in es: e['frags'] = [('lit', e['val'])]
        a = common[0]
        for sec in ('EAM-Embed', 'EAM-Density'):
            es = [es for s_, es in m['sections'] if s_[0] == sec][0]
            src = [e for e in es if e['key'][1] == a][0]; dst = [e for e in es if e['key'][1] != a][0]
            dst['frags'] = [('var', a)]; dst['val'] = src['val']
        out.append({'model': m})
    return out

def coq_tstore(m, T, L):
    def fr(f):
        if f[0] == 'lit':
            if f[1] not in L: L.append(f[1])
            return '(Lit %d)' % L.index(f[1])
        if f[0] == 'var': return '(Var %d)' % T.lab(f[1])
        return '(Ref %s %s)' % (sc.coq_sect(f[1], T), sc.coq_key(f[2], T))
    return core.coq_list(['(%s, %s)' % (sc.coq_sect(s, T), core.coq_list(['(%s, %s)' % (sc.coq_key(e['key'], T), core.coq_list([fr(f) for f in e['frags']])) for e in es]))
                          for (s, es) in m['sections']])

def correspond(ctx):
    rng = ctx['rng']
    cases = corpus() + [gen_case(rng) for _ in range(300 if ctx['thorough'] else 80)]
    exprs, meta, dis = [], [], []
    for c in cases:
        T = sc.Tables(); L = []
        st = coq_tstore(c['model'], T, L)
        # for every section: 997, then per key: 996, interpolated literal ids (or 995 when unresolved)
        exprs.append('(let st := %s in flat_map (fun se => (997%%Z) :: flat_map (fun k => (996%%Z) :: match get 12 st (fst se) k with Some l => map Z.of_nat l | None => [995%%Z] end) (options st (fst se))) st)' % st)
        meta.append((T, L))
    res = sc.eval_results('C15', PRE, exprs)
    for c, zs, (T, L) in zip(cases, res, meta):
        from atsim.potentials.config import ConfigParser
        try:
            cp = ConfigParser(io.StringIO(render_templated(c['model'])))
            raw = cp.raw_config_parser
            got = []
            for (s, es) in c['model']['sections']:
                name = sc.sect_name(s)
                keys = list(raw[name]) if name != 'Variables' else list(raw.defaults())
                def g(k):
                    try: return raw.get(name, k)
                    except Exception: return None          # unresolvable / recursive placeholder
                got.append((name, [(k, g(k)) for k in keys]))
        except Exception as e:
            dis.append({'case': c, 'what': 'parser raised %s: %s' % (type(e).__name__, str(e)[:100])}); continue
        secs = []; cur = None
        for z in zs:
            if z == 997: cur = []; secs.append(cur)
            elif z == 996: cur.append([])
            else: cur[-1].append(z)
        want = []
        for (s, es), vals in zip(c['model']['sections'], secs):
            want.append((sc.sect_name(s), [(sc.norm(sc.key_text(e['key'])), ''.join(L[i] for i in v) if 995 not in v else None) for e, v in zip(es, vals)]))
            if len(vals) != len(es): want[-1] = (sc.sect_name(s), 'model lists %d keys' % len(vals))
        gotn = [(n, [(sc.norm(k), v) for k, v in kv]) for n, kv in got]
        if gotn != want: dis.append({'case': c, 'what': 'keys/values seen through the parser differ: model %r, implementation %r' % (want, gotn)})
    dist = {'with_variables': sum(1 for c in cases if any(s[0] == 'Variables' for s, _ in c['model']['sections'])),
            'section_refs': sum(1 for c in cases for s, es in c['model']['sections'] for e in es for f in e['frags'] if f[0] == 'ref'),
            'variables_named_like_keys': sum(1 for c in cases for s, es in c['model']['sections'] if s[0] == 'Variables' for e in es if e['key'][1] in ('nr', 'x', 'y', 'target', 'cutoff', 'dr', 'Al'))}
    # characters (model/TextInterp.v): every value of generated files with placeholders (nested, shadowed names, ${SECTION:KEY}, "$$",
    # malformed "$") through parse_ini + tget against the parser's get()
    import ini_common as ic
    idis, istats = ic.check_interp(ctx, 600 if ctx['thorough'] else 150, 'C15i'); dis += idis; dist.update(istats)
    return {'evaluations': len(cases) + istats['template_files'], 'cases': cases, 'nontrivial': core.distinct_count([c for c in cases if any(s[0] == 'Variables' for s, _ in c['model']['sections'])]),
            'rule': 'generated pair/EAM/FS models with random numeric literals lifted into [Variables] (${NAME}, nested, ${SECTION:KEY}), unused variables and variables named like keys of other sections (nr, x, y, target, cutoff, dr, Al): '
                    'keys iterated per section and interpolated values compared with the model; non-trivial = the file has a [Variables] section',
            'samples': cases[:1], 'distribution': dist, 'disagreements': dis[:20], 'oracle_cases': cases}

def oracle(case):
    if case.get('kind') in ('ini', 'store_text'): return []      # text-level correspondence cases
    m = case['model']
    a = sc.classify(lambda: sc.tabulate(render_templated(m)))
    sub = substitute_by_hand(m)
    b = sc.classify(lambda: sc.tabulate(sc.render(sub)))
    nov = {'sections': [x for x in sub['sections'] if x[0][0] != 'Variables']}
    c = sc.classify(lambda: sc.tabulate(sc.render(nov)))
    fails = []
    if a[0] != b[0] or (a[0] == 'Ok' and a[1] != b[1]):
        if a[0] == 'Ok' and b[0] == 'Ok':
            la, lb = str(a[1]).split('\n'), str(b[1]).split('\n')
            k = next((i for i, (x, y) in enumerate(zip(la, lb)) if x != y), min(len(la), len(lb)))
            fails.append('the templated file and the file with the values substituted by hand both tabulate, but to different tables: line %d is %r vs %r' % (k + 1, (la + [''])[k][:60], (lb + [''])[k][:60]))
        else:
            fails.append('the templated file gives %s, the file with the values substituted by hand gives %s' % (a[0] + (' ' + str(a[1]) if a[0] != 'Ok' else ''), b[0] + (' ' + str(b[1]) if b[0] != 'Ok' else '')))
    if b[0] != c[0] or (b[0] == 'Ok' and b[1] != c[1]):
        fails.append('removing the (now unreferenced) [Variables] section changes the result: %s vs %s' % (b[0] + (' ' + str(b[1]) if b[0] != 'Ok' else ''), c[0] + (' ' + str(c[1]) if c[0] != 'Ok' else '')))
    return fails

def search_cases(rng, n):
    for c in corpus(): yield c
    for _ in range(n // 4): yield gen_case(rng)
def shadowed(case):
    """a ${NAME} placeholder used in a section that itself has an option called NAME"""
    variables = {e['key'][1] for s, es in case['model']['sections'] if s[0] == 'Variables' for e in es}
    for s, es in case['model']['sections']:
        own = {e['key'][1] for e in es if e['key'][0] in ('opt', 'sp')} & variables
        if s[0] in ('Variables', 'Other'): continue
        for e in es:
            if any(f[0] == 'var' and f[1] in own for f in e['frags']): return True
    return False

def finding_for(case, fails): return None
def replay_finding(f): return False
