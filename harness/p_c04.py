"""C04 -- Finnis-Sinclair routing: setfl eam/fs, TABEAM EEAM, Excel; API (EAMPotential dictionaries) and potable (A->B)."""
import random
import io, itertools
import core, layout, eam_common as ec, p_c01, p_c03, p_c05
from layout import q

ID = 'C04'
GENMODS = ['gen_layout', 'gen_eam']
TARGET = 'props/C04.vo'
PROOF_FILES = ['proof/C04.v', 'props/C04.v']
AXIOMS = []
TRUSTED = [
    'Coq 8.16.1 kernel; vm_compute for the correspondence evaluation; no axioms',
    'spec/Consumers.v: how LAMMPS eam/fs, DL_POLY EEAM and the Excel sheet index the density functions -- ASSUMED from the formats\' definitions (neither code is installed)',
    'writer models model/EamTables.v / ExcelTables.v (hand written, compared byte for byte with the implementation, independent recording function for every ordered pair)',
    'potable route: every declared A->B entry is a distinct constant, so the slot it landed in is readable from the built tabulation and the file',
]

def run_recorded(case, fault_at=None):
    from atsim.potentials import writeSetFLFinnisSinclair, writeTABEAMFinnisSinclair
    from atsim.potentials.eam_tabulation import SetFL_FS_EAMTabulation, TABEAM_FinnisSinclair_EAMTabulation, Excel_FinnisSinclair_EAMTabulation
    rec = layout.Recorder(); rec.fault_at = fault_at; rec.zero_every = case.get('zero_every')
    eam, pots = ec.build_objects(case, rec)
    w = case['writer']
    if w == 'excel_fs':
        out = ec.RecBytesFile(rec)
        Excel_FinnisSinclair_EAMTabulation(pots, eam, case['cutoff'], case['nr'], case['cutoff_rho'], case['nrho']).write(out)
        return rec, ec.workbook_text(out.getvalue())
    out = layout.RecFile(rec)
    if w == 'setfl_fs_fn': writeSetFLFinnisSinclair(case['nrho'], case['drho'], case['nr'], case['dr'], eam, pots, out)
    elif w == 'setfl_fs': SetFL_FS_EAMTabulation(pots, eam, case['cutoff'], case['nr'], case['cutoff_rho'], case['nrho']).write(out)
    elif w == 'tabeam_fs_fn': writeTABEAMFinnisSinclair(case['nrho'], case['drho'], case['nr'], case['dr'], eam, pots, out)
    elif w == 'tabeam_fs': TABEAM_FinnisSinclair_EAMTabulation(pots, eam, case['cutoff'], case['nr'], case['cutoff_rho'], case['nrho']).write(out)
    return rec, out.getvalue()

def model_expr(case):
    ids = ec.label_ids(case)
    els, prs = ec.coq_elements(case), ec.coq_pairs(case['pairs'], case)
    w = case['writer']
    grid = '%s %d %s %d' % (q(case['cutoff']), case['nr'], q(case['cutoff_rho']), case['nrho'])
    if w == 'setfl_fs_fn': return '(write_setfl true [%d; %d; %d] %s %s %d %s %d %s None)' % (ids[''], ids[''], ids[''], els, prs, case['nrho'], q(case['drho']), case['nr'], q(case['dr']))
    if w == 'setfl_fs': return '(setfl_tabulation true %s %s %s %d)' % (els, prs, grid, ids[''])
    if w == 'tabeam_fs_fn': return '(tabeam_file true %s %s %d %s %d %s)' % (els, prs, case['nrho'], q(case['drho']), case['nr'], q(case['dr']))
    if w == 'tabeam_fs': return '(tabeam_file true %s %s %d (eam_drho %s %d) %d (pair_dr %s %d))' % (els, prs, case['nrho'], q(case['cutoff_rho']), case['nrho'], case['nr'], q(case['cutoff']), case['nr'])
    if w == 'excel_fs': return '(excel_eam_file true %s %s %s)' % (els, prs, grid)
    raise KeyError(w)

def gen_case(rng, thorough=False):
    c = ec.gen_eam_case(rng, True, thorough)
    c['writer'] = rng.choice(['setfl_fs_fn', 'setfl_fs', 'tabeam_fs_fn', 'tabeam_fs', 'excel_fs'])
    c['drho'] = rng.choice([0.5, 0.05]); c['dr'] = rng.choice([0.1, 0.25])
    if c['writer'] == 'excel_fs': c['nr'] = min(c['nr'], 12); c['nrho'] = min(c['nrho'], 12)
    return c

# ---------------------------------------------------------------------- potable: A->B entries as distinct constants
def gen_potable(rng):
    n = rng.choice([1, 2, 2, 3, 3, 4])
    els = rng.sample(ec.POOL, n)
    embed = [e for e in els if rng.random() < 0.85] or [els[0]]
    rng.shuffle(embed)
    dens = [(a, b) for a in els for b in els if rng.random() < 0.7] or [(els[0], els[0])]
    rng.shuffle(dens)
    const = {'%s->%s' % k: 10.0 + 7 * i for i, k in enumerate(sorted(dens))}
    c = {'potable_fs': True, 'els': els, 'embed': embed, 'dens': [list(k) for k in dens], 'const': const,
            'target': rng.choice(['setfl_fs', 'DL_POLY_EAM_fs', 'excel_eam_fs']), 'nr': rng.choice([3, 4, 6]), 'nrho': rng.choice([2, 3, 5]), 'include_all': rng.random() < 0.3}
    if rng.random() < 0.25: c = same_but_cut(c, rng)
    return c

def potable_corpus():
    out = []
    for k, t in enumerate(['setfl_fs', 'DL_POLY_EAM_fs', 'excel_eam_fs']):
        c = gen_potable(random.Random(400 + k)); c['target'] = t; c['include_all'] = True
        if (c['els'][0], c['els'][0]) not in [tuple(x) for x in c['dens']]:      # make sure a self entry A->A is declared
            c['dens'].append([c['els'][0], c['els'][0]]); c['const']['%s->%s' % (c['els'][0], c['els'][0])] = 3.5
        out.append(c)
    for k, t in enumerate(['setfl_fs', 'DL_POLY_EAM_fs']):
        for j in range(20):
            c = gen_potable(random.Random(450 + 10 * k + j))
            if len(c['dens']) >= 3: break
        c['target'] = t; c['include_all'] = False
        out.append(same_but_cut(c, random.Random(460 + k)))
    return out

def potable_text(c):
    t = '[Tabulation]\ntarget : %s\nnr : %d\ncutoff : 5.0\nnrho : %d\ncutoff_rho : 10.0\n\n' % (c['target'], c['nr'], c['nrho'])
    t += '[EAM-Embed]\n' + ''.join('%s : as.constant %r\n' % (e, 100.0 + i) for i, e in enumerate(c['embed'])) + '\n[EAM-Density]\n'
    t += ''.join('%s->%s : as.constant %r%s\n' % (a, b, c['const']['%s->%s' % (a, b)], ' >=%r as.zero' % c['cut']['%s->%s' % (a, b)] if '%s->%s' % (a, b) in c.get('cut', {}) else '')
                 for a, b in c['dens']) + '\n[Pair]\n'
    return t

def expected_density(c, a, b):
    """the value at the second grid row (r = dr): the constant, or 0 when the entry is cut off ('>=S as.zero') at or below that row"""
    k = '%s->%s' % (a, b); v = c['const'].get(k, 0.0); S = c.get('cut', {}).get(k)
    return 0.0 if (S is not None and 5.0 / (c['nr'] - 1) >= S) else v

def same_but_cut(c, rng):
    """two entries with the SAME form and parameters that differ only in where they are cut off: one below the second grid row, one above it"""
    if len(c['dens']) < 2: return c
    (a1, b1), (a2, b2) = rng.sample([tuple(x) for x in c['dens']], 2)
    r1 = 5.0 / (c['nr'] - 1)
    c['const']['%s->%s' % (a2, b2)] = c['const']['%s->%s' % (a1, b1)]
    c['cut'] = {'%s->%s' % (a1, b1): r1 / 2, '%s->%s' % (a2, b2): 2 * r1}
    return c

def potable_expected_order(c):
    order = []
    for e in c['embed']:
        if e not in order: order.append(e)
    ds = set(x for k in c['dens'] for x in k)
    return order + sorted(ds - set(order))

def run_potable(c):
    from atsim.potentials.config import Configuration
    if c.get('include_all'):
        # the same model seen through --include-species with EVERY species listed: nothing is deleted, every A->B (A->A too) keeps its slot
        from atsim.potentials.config import ConfigParser
        from atsim.potentials.config._filtered_config_parser import FilteredConfigParser
        tab = Configuration().read_from_parser(FilteredConfigParser(ConfigParser(io.StringIO(potable_text(c))), include=list(c['els'])))
    else:
        tab = Configuration().read(io.StringIO(potable_text(c)))
    if c['target'] == 'excel_eam_fs':
        out = io.BytesIO(); tab.write(out); return tab, ec.workbook_text(out.getvalue())
    out = io.StringIO(); tab.write(out); return tab, out.getvalue()

def read_slots(c, text, names):
    """density value stored for (site alpha, neighbour beta), read from the output by the consumer's rule"""
    n = len(names); slots = {}
    if c['target'] == 'setfl_fs':
        f = p_c03.parse_setfl(text, fs=True)
        if f['names'] != names: raise ValueError('header names %r, expected %r' % (f['names'], names))
        for bi, b in enumerate(names):
            for ai, a in enumerate(names):
                slots[(a, b)] = f['els'][bi]['rho'][ai][1]        # alpha-th array of element beta's block
    elif c['target'] == 'DL_POLY_EAM_fs':
        declared, blocks = p_c05.parse_tabeam(text)
        for bl in blocks:
            if bl['kind'] == 'dens': slots[tuple(bl['species'])] = bl['vals'][1]
    else:
        sheets = text.split('#sheet ')
        dsh = [s for s in sheets if s.startswith('EAM-Density')][0].split('\n')
        head = dsh[1].split('\t'); row = dsh[3].split('\t')
        for h, v in zip(head[1:], row[1:]):
            a, b = h.split('->'); slots[(a, b)] = float(v)
    return slots

def correspond(ctx):
    rng = ctx['rng']
    cases = [gen_case(rng, ctx['thorough']) for _ in range(150 if ctx['thorough'] else 40)]
    pcases = potable_corpus() + [gen_potable(rng) for _ in range(60 if ctx['thorough'] else 18)]
    dis = []
    runs = []
    for c in cases:
        try: runs.append(run_recorded(c))
        except Exception as e: runs.append(None); dis.append({'case': c, 'what': 'writer raised %s: %s' % (type(e).__name__, str(e)[:100])})
    models = layout.eval_models('C04', ec.PRE, [model_expr(c) for c in cases])
    for c, r, (toks, tr) in zip(cases, runs, models):
        if r is None: continue
        d = ec.check(c, r[0], r[1], toks, tr)
        if d: dis.append({'case': c, 'what': d})
    for c in pcases:
        f = oracle(c)
        if f: dis.append({'case': c, 'what': 'potable A->B routing: ' + '; '.join(f)[:300]})
    allc = cases + pcases
    dist = {'writers': {w: sum(1 for c in cases if c['writer'] == w) for w in ('setfl_fs_fn', 'setfl_fs', 'tabeam_fs_fn', 'tabeam_fs', 'excel_fs')},
            'potable_targets': {t: sum(1 for c in pcases if c['target'] == t) for t in ('setfl_fs', 'DL_POLY_EAM_fs', 'excel_eam_fs')},
            'n_elements': {k: sum(1 for c in cases if len(c['elements']) == k) for k in (1, 2, 3, 4)},
            'undeclared_combinations': sum(len(c['els']) ** 2 - len(c['dens']) for c in pcases)}
    return {'evaluations': len(allc), 'cases': allc, 'nontrivial': core.distinct_count([c for c in cases if len(c['elements']) >= 2]) + core.distinct_count([c for c in pcases if len(c['els']) >= 2]),
            'rule': 'Finnis-Sinclair models over 1..4 species with an independent recording function for every ordered pair, shuffled declaration order, through the three FS writers (function and class routes) '
                    '-- whole output compared with the rendered model; potable models whose A->B entries are distinct constants in shuffled order with undeclared combinations -- every slot read back by the consumer\'s rule; '
                    'non-trivial = two or more species',
            'samples': cases[:2] + pcases[:1], 'distribution': dist, 'disagreements': dis[:20], 'oracle_cases': cases}

def oracle(case):
    fails = []
    if case.get('potable_fs'):
        try: tab, text = run_potable(case)
        except Exception as e: return ['valid Finnis-Sinclair model raised %s: %s' % (type(e).__name__, str(e)[:100])]
        names = potable_expected_order(case)
        got = [ep.species for ep in tab.eam_potentials]
        if got != names: return ['element order %r, expected %r' % (got, names)]
        for ep in tab.eam_potentials:
            for b in names:
                v = ep.electronDensityFunction[b](5.0 / (case['nr'] - 1))        # at the second grid row, where expected_density is stated
                if v != expected_density(case, ep.species, b): fails.append('EAMPotential(%s).electronDensityFunction[%s] is %r, the entry %s->%s declares %r' % (ep.species, b, v, ep.species, b, expected_density(case, ep.species, b)))
        try: slots = read_slots(case, text, names)
        except Exception as e: return fails + ['unreadable output: %s' % e]
        for a in names:
            for b in names:
                if slots.get((a, b)) != expected_density(case, a, b):
                    fails.append('%s: density at an %s site from a %s neighbour reads %r from the file, the model declares %r' % (case['target'], a, b, slots.get((a, b)), expected_density(case, a, b)))
        # toy cluster: every atom sees one neighbour of every species at the second grid point
        for a in names:
            dens_file = sum(slots.get((a, b), float('nan')) for b in names); dens_model = sum(expected_density(case, a, b) for b in names)
            if dens_file != dens_model: fails.append('cluster: embedding density of the %s atom is %r from the file, %r from the model' % (a, dens_file, dens_model))
        return fails
    # recorded API cases: read the slots by the consumer's rule and compare with the recorded value of FDensFS(alpha, beta)
    try: rec, text = run_recorded(case)
    except Exception as e: return ['writer raised %s: %s' % (type(e).__name__, str(e)[:100])]
    names = [e['sp'] for e in case['elements']]
    evs = rec.evals()
    w = case['writer']
    if w.startswith('setfl'): step = case['dr'] if w.endswith('_fn') else case['cutoff'] / (case['nr'] - 1); c2 = dict(case, target='setfl_fs')
    elif w.startswith('tabeam'): step = case['dr'] if w.endswith('_fn') else case['cutoff'] / (case['nr'] - 1); c2 = dict(case, target='DL_POLY_EAM_fs')
    else: step = case['cutoff'] / (case['nr'] - 1); c2 = dict(case, target='excel_eam_fs')
    try: slots = read_slots(c2, text, names)
    except Exception as e: return ['unreadable output: %s' % e]
    for ai, a in enumerate(names):
        for bi, b in enumerate(names):
            want = [e[4] for e in evs if e[1] == (5, ai, bi) and abs(e[3] - step) <= 1e-9]
            if not want: fails.append('the function declared for central %s / neighbour %s was never evaluated at r=%r' % (a, b, step)); continue
            got = slots.get((a, b))
            tol = 1e-6 if c2['target'] == 'DL_POLY_EAM_fs' else 1e-12
            if got is None or abs(got - want[0]) > tol * max(1.0, abs(want[0])):
                fails.append('%s: slot (site %s, neighbour %s) holds %r, the declared function gives %r' % (w, a, b, got, want[0]))
    return fails

def search_cases(rng, n):
    for c in potable_corpus(): yield c
    for k in range(n // 4):
        yield gen_case(rng)
        yield gen_potable(rng)
def finding_for(case, fails): return None
def replay_finding(f): return False
