"""Glue on a property's path that no model restates line by line (harness/frozen_glue.json, written by tools/mk_frozen.py): for the
files the checked property is anchored in, the recorded functions must still have the recorded source, every function its
recorded decorators and signature, and the module- and class-level statements their recorded text (fail closed).  Since round 9 the
whole package is compared for every property (not only the files the property is anchored in)."""
import json, os, sys
from py2coq import Refuse
HERE = os.path.dirname(os.path.abspath(__file__))
sys.path.insert(0, os.path.join(os.path.dirname(HERE), 'tools'))

def generate_for(repo, pid):
    import mk_frozen
    rec = json.load(open(os.path.join(HERE, 'frozen_glue.json')))
    import re
    m = re.search(r"GENMODS\s*=\s*\[(.*?)\]", open(os.path.join(HERE, 'p_%s.py' % pid.lower())).read(), flags=re.S)
    mine = set(re.findall(r"'(\w+)'", m.group(1))) if m else set()
    for f in sorted(rec['functions']):
        # every source file of the package, for every property: a model read by potable runs through the parser, the builders, the
        # registries and the writers whatever the property is anchored in (round 9: four seeds changed a file anchored in *another*
        # property and went unnoticed by the check of the property they broke)
        try: fns, heads, stmts = mk_frozen.snapshot(repo, f)
        except (OSError, SyntaxError) as e: raise Refuse('cannot parse %s: %s' % (f, e))
        for q, src in sorted(rec['functions'][f].items()):
            if mine & set(rec['read_by'][f].get(q, [])): continue        # read (translated / asserted) by this property's own generators
            if q not in fns: raise Refuse('%s:%s no longer exists (frozen glue)' % (f, q))
            if fns[q] != src: raise Refuse('%s:%s differs from the recorded source (frozen glue):\n%s' % (f, q, fns[q][:600]))
        for q, h in sorted(rec['headers'][f].items()):
            if q not in heads: raise Refuse('%s:%s no longer exists' % (f, q))
            if heads[q] != h: raise Refuse('%s:%s decorators / signature changed: %s  (recorded: %s)' % (f, q, heads[q][:200], h[:200]))
        new = sorted(set(heads) - set(rec['headers'][f]))
        if new: raise Refuse('%s: new function(s) %s (frozen glue records every function of the file)' % (f, ', '.join(new[:5])))
        if stmts != rec['statements'][f]:
            for scope in sorted(set(stmts) | set(rec['statements'][f])):
                a, b = stmts.get(scope, []), rec['statements'][f].get(scope, [])
                if a != b:
                    d = [x for x in a if x not in b] or [x for x in b if x not in a] or a
                    raise Refuse('%s: statements of %s changed: %s' % (f, scope, d[0][:300]))
    return {}
def generate(repo): return {}
