"""Glue on a property's path that no model restates line by line (harness/frozen_glue.json, written by tools/mk_frozen.py): for the
files the checked property is anchored in, the recorded functions must still have the recorded source (fail closed)."""
import json, os
from py2coq import assert_body
HERE = os.path.dirname(os.path.abspath(__file__))
def generate_for(repo, pid):
    rec = json.load(open(os.path.join(HERE, 'frozen_glue.json')))
    for f, fns in sorted(rec['functions'].items()):
        if pid not in rec['anchored_in'].get(f, []): continue
        for q, src in sorted(fns.items()):
            assert_body(repo, f, q, src)
    return {}
def generate(repo): return {}
