"""C08 -- multi-range selection: correspondence of model/MultiRange.v (over the regenerated
_range_defn_cmp/_range_search) with Multi_Range_Potential_Form and with potable definitions; oracle."""
import io, itertools, math, random
import core
from core import z, nat, coq_list, Broken

ID = 'C08'
GENMODS = ['gen_c08']
TARGET = 'props/C08.vo'
PROOF_FILES = ['lib/Sorting.v', 'proof/C08.v', 'props/C08.v']
AXIOMS = []          # expected axiom-free
TRUSTED = [
    'Coq 8.16.1 kernel (coqc; coqchk -o in the thorough tier); vm_compute for witnesses and correspondence evaluation',
    'translator tools/py2coq.py (prints what it reads of _range_defn_cmp, _range_search, the default range start); validated by the correspondence run',
    'floats are abstracted by order-isomorphic integers (the translated code only compares starts and r); NaN excluded',
    "Python's list.sort is a stable sort (modelled by lib/Sorting.v insertion sort); compared on every generated list",
    'correspondence harness: generators, rank mapping, recording callables',
]

def _impl_eval(ranges, r, plain=(), share=False):
    """value/deriv/deriv2 of the real Multi_Range_Potential_Form for ranges [(marker, start, id)]; the ranges whose id is in
    `plain` are bare callables without .deriv/.deriv2: their derivative is the numerical one of that range's own (constant)
    function, i.e. exactly 0.0"""
    from atsim.potentials._multi_range_potential_form import create_Multi_Range_Potential_Form, Multi_Range_Defn
    class F(object):
        def __init__(self, i): self.i = i
        def __call__(self, r): return 1000.0 + self.i
        def deriv(self, r): return 2000.0 + self.i
        def deriv2(self, r): return 3000.0 + self.i
    class P(object):
        def __init__(self, i): self.i = i
        def __call__(self, r): return 1000.0 + self.i
    defs = [Multi_Range_Defn(m, s, (P(i) if i in plain else F(i))) for (m, s, i) in ranges]
    mr = create_Multi_Range_Potential_Form(*defs)
    if share:
        # other potentials built AFTERWARDS from some of the same definition objects (every other one plus a new range; all but the last
        # one, listed backwards): a definition used in two potentials belongs to neither
        fin = [s for (_, s, _) in ranges if s == s and abs(s) != float('inf')] or [0.0]
        create_Multi_Range_Potential_Form(*([d for k, d in enumerate(defs) if k % 2 == 0] + [Multi_Range_Defn('>=', min(fin) + 0.125, F(99))]))
        create_Multi_Range_Potential_Form(*(defs[::-1][1:] or defs))
    def at(x):
        d = mr.deriv(x) if hasattr(mr, 'deriv') else 0.0
        d2 = mr.deriv2(x) if hasattr(mr, 'deriv2') else 0.0
        return [mr(x), d, d2]
    if r is None: return at           # the object itself, for histories of queries
    return at(r)

def _impl_eval_config(ranges, r):
    """the same through a potable definition: `[Pair] A-B : >=s1 as.constant v1 >s2 as.constant v2 ...`
    (first range printed without a marker when it is ('>', 0.0): the parser's default)"""
    from atsim.potentials.config import Configuration
    parts = []
    for k, (m, s, i) in enumerate(ranges):
        mark = '%s%r ' % (m, s)
        if k == 0 and m == '>' and s == 0.0 and i % 2 == 0:
            mark = ''
        parts.append('%sas.constant %d' % (mark, 1000 + i))
    txt = '[Tabulation]\ntarget : LAMMPS\nnr : 5\ncutoff : 1.0\n[Pair]\nA-B : %s\n' % ' '.join(parts)
    tab = Configuration().read(io.StringIO(txt))
    pf = tab.potentials[0].potentialFunction
    v = pf(r)
    if pf.deriv(r) != 0.0 or pf.deriv2(r) != 0.0:
        raise AssertionError('derivative of a piecewise constant is not 0')
    # as.constant has zero derivatives, so on this route only the value identifies the selected range
    return [v, v + 1000.0 if v else 0.0, v + 2000.0 if v else 0.0]

def gen_case(rng, maxn=6, allow_inf=True):
    n = rng.choice([1, 1, 2, 2, 3, 3, 4, 5, maxn])
    pool = rng.sample([-2.5, -1.0, 0.0, 0.5, 1.0, 1.5, 2.0, 3.0, 4.25, 7.0, 1e-9, 30.0], rng.choice([1, 2, 3, 4, 5]))
    if allow_inf and rng.random() < 0.1: pool.append(float('-inf'))
    ranges = []
    for i in range(n):
        ranges.append([rng.choice(['>', '>=']), rng.choice(pool), i])
    starts = sorted({s for (_, s, _) in ranges if s != float('-inf')})
    cands = list(starts)
    for a, b in zip(starts, starts[1:]): cands.append((a + b) / 2)
    lo = starts[0] if starts else 0.0
    hi = starts[-1] if starts else 0.0
    cands += [lo - 1.0, hi + 1.0, lo - 1e-12, hi + 1e-12]
    r = rng.choice(cands)
    route = 'api'
    if all(s != float('-inf') for (_, s, _) in ranges) and rng.random() < 0.3:
        route = 'config'
    plain = sorted(i for i in range(n) if rng.random() < 0.35) if (route == 'api' and rng.random() < 0.4) else []
    return {'ranges': ranges, 'r': r, 'route': route, 'plain': plain}

def dup_key(case):
    keys = [(m, s) for (m, s, _) in case['ranges']]
    return len(set(keys)) != len(keys)

def _ranks(case):
    vals = sorted({s for (_, s, _) in case['ranges']} | {case['r']})
    return {v: k for k, v in enumerate(vals)}

def run_impl(case):
    rs = [tuple(x) for x in case['ranges']]
    try:
        if case['route'] == 'config':
            return _impl_eval_config(rs, case['r'])
        return _impl_eval(rs, case['r'], tuple(case.get('plain', [])))
    except Exception as e:
        return ['EXC', type(e).__name__, str(e)[:80]]

PRE = '''From V Require Import lib.Common lib.RangeTypes gen.GenC08 model.MultiRange.
Local Open Scope Z_scope.
(* ranges whose id is in `plain` have no analytic derivative: gradient(form) of their constant function is 0 *)
Definition ev (rs : list rdef) (r : Z) (plain : list nat) : Z * Z * Z :=
  let an (base : Z) (i : nat) := if existsb (Nat.eqb i) plain then 0 else base + Z.of_nat i in
  (mr_eval 0 (fun i => 1000 + Z.of_nat i) rs r, mr_eval 0 (an 2000) rs r, mr_eval 0 (an 3000) rs r).
Definition agree (c : list rdef * Z * list nat) (o : Z * Z * Z) : bool :=
  let '(a, b, d) := ev (fst (fst c)) (snd (fst c)) (snd c) in let '(a', b', d') := o in (a =? a') && (b =? b') && (d =? d').
'''

def coq_case(case):
    rk = _ranks(case)
    rs = coq_list(['{| r_type := %s; r_start := %s; r_id := %s |}' % ('GE' if m == '>=' else 'GT', z(rk[s]), nat(i))
                   for (m, s, i) in case['ranges']])
    return '(%s, %s, (%s : list nat))' % (rs, z(rk[case['r']]), coq_list([nat(i) for i in case.get('plain', [])]))

def correspond(ctx):
    rng = ctx['rng']
    n = 6000 if ctx['thorough'] else 900
    cases = []
    # exhaustive small block first: all lists of 1..3 ranges over 2 starts x 2 markers, r in 5 positions
    ex = []
    for k in (1, 2, 3):
        for combo in itertools.product([('>', 1.0), ('>=', 1.0), ('>', 2.0), ('>=', 2.0)], repeat=k):
            for r in (0.5, 1.0, 1.5, 2.0, 2.5):
                ex.append({'ranges': [[m, s, i] for i, (m, s) in enumerate(combo)], 'r': r, 'route': 'api'})
    cases += ex if ctx['thorough'] else rng.sample(ex, 150)
    for _ in range(n):
        cases.append(gen_case(rng, maxn=8 if ctx['thorough'] else 6))
    observed = [run_impl(c) for c in cases]
    dis = []
    good, goodobs = [], []
    for c, o in zip(cases, observed):
        if o and o[0] == 'EXC':
            dis.append({'case': c, 'what': 'implementation raised %s: %s' % (o[1], o[2])})
        elif any(v != int(v) for v in o):
            dis.append({'case': c, 'what': 'implementation returned a non-integral value %r' % (o,)})
        else:
            good.append(c); goodobs.append(o)
    shards = []
    S = 400
    for k in range(0, len(good), S):
        ins = coq_list([coq_case(c) for c in good[k:k + S]])
        obs = coq_list(['(%s, %s, %s)' % tuple(z(int(v)) for v in o) for o in goodobs[k:k + S]])
        shards.append('Definition ins := %s.\nDefinition obs := %s.\nEval vm_compute in (failing agree ins obs).' % (ins, obs))
    res = core.run_shards('C08', PRE, shards)
    for si, fl in enumerate(res):
        for j in fl:
            c = good[si * S + j]
            dis.append({'case': c, 'what': 'selection differs: implementation %r' % (goodobs[si * S + j],)})
    nontriv = [c for c in cases if len(c['ranges']) >= 2]
    dist = {'n_ranges': {}, 'route': {}, 'dup_key': sum(1 for c in cases if dup_key(c)),
            'r_at_a_start': sum(1 for c in cases if any(s == c['r'] for (_, s, _) in c['ranges'])),
            'selected_none': sum(1 for o in observed if o and o[0] == 0.0)}
    for c in cases:
        dist['n_ranges'][len(c['ranges'])] = dist['n_ranges'].get(len(c['ranges']), 0) + 1
        dist['route'][c['route']] = dist['route'].get(c['route'], 0) + 1
    return {'evaluations': len(cases), 'cases': cases, 'nontrivial': core.distinct_count(nontriv),
            'rule': 'range lists (1..%d ranges, starts from a pool with repeats, both markers, -inf sometimes) x r at/between/outside the starts; '
                    'API route (Multi_Range_Defn objects) and potable route ([Pair] definition); plus an exhaustive block over 2 starts x 2 markers; '
                    'non-trivial = at least two ranges; distinct by canonical JSON of the case' % (8 if ctx['thorough'] else 6),
            'samples': cases[150:153] + cases[-2:], 'distribution': dist, 'disagreements': dis[:20],
            'oracle_cases': cases if ctx['thorough'] else cases[:600]}

# ------------------------------------------------------------------------------- oracle
def oracle(case):
    """The property, restated directly over the implementation's observable behaviour."""
    fails = []
    ranges = [tuple(x) for x in case['ranges']]
    r = case['r']
    o = run_impl(case)
    if o and o[0] == 'EXC':
        return ['evaluation raised %s: %s' % (o[1], o[2])]
    v, d, d2 = o
    cont = [(m, s, i) for (m, s, i) in ranges if (r > s or (m == '>=' and r >= s))]
    if not cont:
        if (v, d, d2) != (0.0, 0.0, 0.0):
            fails.append('no range contains r=%r but value/derivs are %r' % (r, (v, d, d2)))
        return fails
    if v == 0.0:
        return ['ranges %r contain r=%r but nothing was selected' % (cont, r)]
    sel = int(v - 1000)
    want_d = (0.0, 0.0) if sel in case.get('plain', []) else (2000.0 + sel, 3000.0 + sel)
    if (d, d2) != want_d:
        fails.append('derivatives come from a different range than the value: %r' % ((v, d, d2),))
    selr = [x for x in ranges if x[2] == sel]
    if not selr or selr[0] not in cont:
        fails.append('selected range %r does not contain r=%r' % (selr, r)); return fails
    (m, s, i) = selr[0]
    gs = max(x[1] for x in cont)
    if s != gs:
        fails.append('selected start %r is not the greatest containing start %r' % (s, gs))
    if any(x[0] == '>=' and x[1] == r for x in ranges) and not (m == '>=' and s == r):
        fails.append('r=%r is the start of an inclusive range but %r was selected' % (r, selr[0]))
    # the selection is a function of r alone: one object asked at several separations in any order (inside a range, then exactly at
    # its start; descending; back again) answers each query like a fresh object
    if case['route'] == 'api':
        starts = sorted({x[1] for x in ranges})
        qs = [x + 0.25 for x in starts] + starts + [r] + [x - 0.25 for x in starts]
        qs = [x for x in qs if x == x and abs(x) != float('inf')] or [0.0]
        qs = [qs[(7 * k) % len(qs)] for k in range(len(qs))] + sorted(qs, reverse=True)[:6] + ([r] if r == r and abs(r) != float('inf') else [])
        same = lambda u, v: len(u) == len(v) and all(p_ == q_ or (p_ != p_ and q_ != q_) for p_, q_ in zip(u, v))
        try:
            at = _impl_eval(list(ranges), None, tuple(case.get('plain', [])), share=True)
            for x in qs:
                a = at(x); b = _impl_eval(list(ranges), x, tuple(case.get('plain', [])))
                if not same(a, b):
                    fails.append('the same object (its range definitions also used by two potentials built after it) asked at r=%r after other separations gives %r, a fresh object gives %r (queries so far: %r)' % (x, a, b, qs[:qs.index(x) + 1][-4:])); break
        except Exception as e:
            fails.append('a history of queries raised %s: %s' % (type(e).__name__, str(e)[:80]))
    # order independence (only determined by the statement when keys are distinct)
    if not dup_key(case) and case['route'] == 'api' and len(ranges) <= 6:
        perms = list(itertools.permutations(ranges))
        if len(perms) > 24:
            perms = random.Random(len(ranges)).sample(perms, 24)
        for p in perms:
            o2 = _impl_eval(list(p), r, tuple(case.get('plain', [])))
            if o2 != o:
                fails.append('result depends on listing order: %r gives %r, %r gives %r' % (ranges, o, list(p), o2)); break
    return fails

def search_cases(rng, n):
    for _ in range(n):
        yield gen_case(rng, maxn=5)

def finding_for(case, fails):
    # C08-dupkey: two ranges with identical (start, marker): listing-order dependence only
    if dup_key(case) and all('listing order' in f for f in fails):
        return 'C08-dupkey'
    return None

def replay_finding(f):
    if f.get('id') == 'C08-dupkey':
        a = _impl_eval([('>=', 1.0, 0), ('>=', 1.0, 1)], 1.0)
        b = _impl_eval([('>=', 1.0, 1), ('>=', 1.0, 0)], 1.0)
        return a != b
    return False

def shrink(case, fails):
    cur = case
    changed = True
    while changed and len(cur['ranges']) > 1:
        changed = False
        for k in range(len(cur['ranges'])):
            c2 = dict(cur); c2['ranges'] = cur['ranges'][:k] + cur['ranges'][k + 1:]
            f2 = oracle(c2)
            if f2 and not finding_for(c2, f2):
                cur, fails, changed = c2, f2, True
                break
    return cur, fails
