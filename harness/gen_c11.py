"""C11: exact bodies of _TabulationCutoff._init_cutoff / _check_positive / _get_or_none and of the factories' defaults
(fail closed) -- model/TabCutoff.v restates them over binary64."""
from py2coq import assert_body, load_function, Refuse
import ast
C = 'atsim/potentials/config/_config_parser.py'
def generate(repo):
    assert_body(repo, C, '_TabulationCutoff._init_cutoff', '''
        nr = _get_or_none(self._nr_attr, cp_tabulation_section, int)
        dr = _get_or_none(self._dr_attr, cp_tabulation_section, float)
        cutoff = _get_or_none(self._cutoff_attr, cp_tabulation_section, float)

        self._check_positive(nr, dr, cutoff)

        if not nr is None and not dr is None and not cutoff is None:
          raise ConfigParserException("'{cutoff}', '{nr}' and '{dr}' cannot all be spcified in [Tabulation] section of potential definition.".format(**self._template_dict))
        elif not nr is None and not dr is None:
          cutoff = (nr-1)*dr
        elif not cutoff is None and not dr is None:
          nr = int(round(cutoff/dr)) + 1
        elif not dr is None:
          raise ConfigParserException("'{dr}' cannot be specified without either '{nr}' or '{cutoff}' in [Tabulation] section of potential definition.".format(**self._template_dict))

        self._check_positive(nr, dr, cutoff)
        return nr, cutoff
    ''')
    assert_body(repo, C, '_TabulationCutoff._check_positive', '''
        if not nr is None and nr < 2:
          raise ConfigParserException("'{nr}' in [Tabulation] section of potential definition cannot be less than 2 (one row does not define a grid).".format(**self._template_dict))
        if not dr is None and not (0 < dr < float("inf")):
          raise ConfigParserException("'{dr}' in [Tabulation] section of potential definition cannot be 0 (zero), negative or not a finite number.".format(**self._template_dict))
        if not cutoff is None and not (0 < cutoff < float("inf")):
          raise ConfigParserException("'{cutoff}' in [Tabulation] section of potential definition cannot be 0 (zero), negative or not a finite number.".format(**self._template_dict))
    ''')
    assert_body(repo, C, '_TabulationCutoff.create_cutoff', '''
        tclass = collections.namedtuple(self._cutoff_name, [self._nr_attr, self._cutoff_attr])
        nr = None
        cutoff = None
        if cp_tabulation_section:
          nr,cutoff = self._init_cutoff(cp_tabulation_section)
        return tclass(nr, cutoff)
    ''')
    src = ast.unparse(load_function(repo, C, '_TabulationSection._init_cutoff'))
    for needle in ("r_cutoff = _TabulationCutoff('R_Cutoff').create_cutoff(tabulation_section)",
                   "density_cutoff = _TabulationCutoff('Density_Cutoff', 'nrho', 'drho', 'cutoff_rho').create_cutoff(tabulation_section)"):
        if needle not in src: raise Refuse('_TabulationSection._init_cutoff changed')
    F = 'atsim/potentials/config/_tabulation_factories.py'
    src = ast.unparse(load_function(repo, F, 'PairTabulationFactory.extract_cutoffs'))
    for needle in ('if cp.tabulation.cutoff is None:\n        cutoff = 10.0', 'if cp.tabulation.nr is None:\n        nr = 1001', 'return RCutoffTuple(cutoff, nr)'):
        if needle not in src: raise Refuse('PairTabulationFactory.extract_cutoffs changed')
    src = ast.unparse(load_function(repo, F, 'EAMTabulationFactory.extract_cutoffs'))
    for needle in ('if cp.tabulation.cutoff_rho is None:\n        cutoff_rho = 100.0', 'if cp.tabulation.nrho is None:\n        nrho = 1001', 'return R_Rho_CutoffTuple(r_cutoff.cutoff, r_cutoff.nr, cutoff_rho, nrho)'):
        if needle not in src: raise Refuse('EAMTabulationFactory.extract_cutoffs changed')
    assert_body(repo, F, 'DLPOLY_PairTabulationFactory.extract_cutoffs', '''
        cutoffs = super(DLPOLY_PairTabulationFactory, self).extract_cutoffs(cp)
        if cutoffs.nr % 4 != 0 or cutoffs.nr < 8:
          raise ConfigurationException("The number of rows in a DL_POLY TABLE file needs to be divisible by 4 (and at least 8). Number of rows specified = {} ".format(cutoffs.nr))
        return cutoffs
    ''')
    assert_body(repo, F, 'LAMMPS_PairTabulationFactory.extract_cutoffs', '''
        cutoffs = super(LAMMPS_PairTabulationFactory, self).extract_cutoffs(cp)
        if cutoffs.nr < 3:
          raise ConfigurationException("A LAMMPS table needs at least two rows, that is nr >= 3 (the r = 0 row is not written). Number of rows specified = {} ".format(cutoffs.nr))
        return cutoffs
    ''')
    return {}
