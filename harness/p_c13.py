"""C13 -- species filtering: model/Filter.v (check_tuple regenerated) vs FilteredConfigParser views, histories of views,
and potable --include-species / --exclude-species vs the hand-edited file."""
import copy, io, random
import core, store_common as sc

ID = 'C13'
GENMODS = ['gen_store', 'gen_glue']
TARGET = 'props/C13.vo'
PROOF_FILES = ['proof/C13.v', 'proof/IniProofs.v', 'proof/IniFile.v', 'proof/IniFile2.v', 'proof/StoreText.v', 'props/C13.v']
AXIOMS = []
TRUSTED = [
    'Coq 8.16.1 kernel; vm_compute for the correspondence evaluation; no axioms',
    'translator tools/py2coq.py: FilteredConfigParser._check_tuple regenerated on every run; the four filtered properties and __init__ asserted on the AST (settings stored with the _self_ prefix, i.e. on the proxy)',
    'model/Filter.v (views as filters, histories of views) is hand written and compared with the implementation on generated models, species sets (empty, partial, full, unknown labels) and histories',
    'potable route: output of --include-species / --exclude-species compared with the output for the hand-edited file (differential, in the implementation)',
    'text level: proof/StoreText.v (printed raw file -> store through model/Ini.v, which restates the stdlib line parser as configured by the repository: an assumption about a library outside the repository, compared with it on every run)',
]
PRE = 'From V Require Import lib.Common model.Store gen.GenFilter model.Filter.\nLocal Open Scope nat_scope.\n'

def gen_species_set(rng, els):
    r = rng.random()
    if r < 0.12: return []
    if r < 0.24: return list(els)
    s = [e for e in els if rng.random() < 0.5]
    if rng.random() < 0.3: s.append('Qq')
    rng.shuffle(s)
    return s

def gen_case(rng):
    m = sc.gen_model(rng, kind=rng.choice(['pair', 'eam', 'fs', 'fs']))
    n = rng.choice([1, 1, 2, 3, 4])
    views = [[rng.choice(['include', 'exclude']), gen_species_set(rng, m['els'])] for _ in range(n)]
    hist = [['create', i] for i in range(n)]
    reads = [['read', rng.randrange(n)] for _ in range(rng.randint(1, 4))]
    # interleave: a read of view i only after its creation
    ops = []
    created = 0
    pending = list(reads)
    while created < n or pending:
        if created < n and (not pending or rng.random() < 0.5):
            ops.append(['create', created]); created += 1
        else:
            r = pending.pop(0)
            if r[1] < created: ops.append(r)
            elif created < n: pending.insert(0, r); ops.append(['create', created]); created += 1
    return {'model': m, 'views': views, 'ops': ops}

def view_corpus():
    """fixed view cases: a Finnis-Sinclair model with a species that only occurs in [EAM-Density] entries (no pair, no embedding function),
    looked at through an include set that leaves it out and through an exclude set that names it"""
    out = []
    for k, (mode, pick) in enumerate([('include', 'first'), ('exclude', 'extra'), ('include', 'all_but_extra')]):
        g = random.Random(1350 + k); m = sc.gen_model(g, kind='fs')
        dsec = [es for s_, es in m['sections'] if s_[0] == 'EAM-Density'][0]
        a = m['els'][0]
        dsec.append({'key': ('fs', 'Zz', a), 'val': 'as.bornmayer 2.0 0.5', 'sp': k}); dsec.append({'key': ('fs', a, 'Zz'), 'val': 'as.bornmayer 3.0 0.5', 'sp': 0})
        S = {'first': [a], 'extra': ['Zz'], 'all_but_extra': list(m['els'])}[pick]
        out.append({'model': m, 'views': [[mode, S]], 'ops': [['create', 0], ['read', 0]]})
    # a species label with a hyphen in it ('Cu-b') in [EAM-Embed] / [EAM-Density]: one label, not two species
    for k, (mode, S) in enumerate([('include', ['Cu-b']), ('exclude', ['Cu-b']), ('exclude', ['Cu']), ('include', ['Cu', 'b'])]):
        m = sc.gen_model(random.Random(1360 + k), kind='eam')
        for sec in ('EAM-Embed', 'EAM-Density'):
            es = [es for s_, es in m['sections'] if s_[0] == sec][0]
            es.append({'key': ('sp', 'Cu-b'), 'val': 'as.constant 1.5', 'sp': 0})
        out.append({'model': m, 'views': [[mode, S]], 'ops': [['create', 0], ['read', 0]]})
    # labels are compared literally: 'O*', 'Al[b]' and 'U?' are species of their own, not patterns
    for k, (mode, S) in enumerate([('include', ['U', 'O*']), ('exclude', ['Al[b]']), ('include', ['U?']), ('exclude', ['O*'])]):
        m = sc.gen_model(random.Random(1370 + k), kind='pair')
        ps = [es for s_, es in m['sections'] if s_[0] == 'Pair'][0]
        del ps[:]
        for a, b in [('U', 'U'), ('U', 'O'), ('O', 'O'), ('U', 'O*'), ('O*', 'O*'), ('Alb', 'Alb'), ('Al[b]', 'U'), ('U?', 'UO'), ('UO', 'UO')]:
            ps.append({'key': ('pair', a, b), 'val': 'as.constant 1.0', 'sp': 0})
        m['els'] = ['U', 'O', 'O*', 'Alb', 'Al[b]', 'U?', 'UO']
        out.append({'model': m, 'views': [[mode, S]], 'ops': [['create', 0], ['read', 0]]})
    return out

def which_prop(m):
    return {'pair': ['pair'], 'eam': ['pair', 'eam_embed', 'eam_density'], 'fs': ['pair', 'eam_embed', 'eam_density_fs']}[m['kind']]

def keytext_of_tuple(p, prop):
    if prop == 'pair': return '%s-%s' % (p.species.species_a, p.species.species_b)
    if prop == 'eam_density_fs': return '%s->%s' % (p.species.from_species, p.species.to_species)
    return p.species

def run_impl(case):
    from atsim.potentials.config import ConfigParser, FilteredConfigParser
    cp = ConfigParser(io.StringIO(sc.render(case['model'])))
    views = []
    outs = []
    for o in case['ops']:
        if o[0] == 'create':
            mode, S = case['views'][o[1]]
            views.append(FilteredConfigParser(cp, **{mode: list(S)}))
        else:
            v = views[o[1]]
            outs.append({p: [keytext_of_tuple(x, p) for x in getattr(v, p)] for p in which_prop(case['model'])})
    return outs

SECT_OF = {'pair': 'Pair', 'eam_embed': 'EAM-Embed', 'eam_density': 'EAM-Density', 'eam_density_fs': 'EAM-Density'}
def correspond(ctx):
    rng = ctx['rng']
    cases = view_corpus() + [gen_case(rng) for _ in range(300 if ctx['thorough'] else 90)]
    pcases = potable_corpus() + [gen_potable(rng) for _ in range(60 if ctx['thorough'] else 14)]
    exprs, tabs, dis = [], [], []
    for c in cases:
        T = sc.Tables()
        f = sc.coq_rawfile(c['model'], T)
        vs = ['{| v_exclude := %s; v_species := %s |}' % (core.coq_bool(mode == 'exclude'), core.coq_list([str(T.lab(x)) for x in S])) for mode, S in c['views']]
        ops = core.coq_list(['(Create %s)' % vs[o[1]] if o[0] == 'create' else '(Read %d)' % o[1] for o in c['ops']])
        # outputs of all reads, per filterable section, encoded as stores
        exprs.append('(flat_map (fun s => (999%%Z) :: flat_map (fun o => (998%%Z) :: match o with Some es => enc_store [(s, es)] | None => [] end) '
                     '(vrun (vstep (match section s (forget %s) with Some es => es | None => [] end)) [] %s)) [SPair; SEmbed; SDensity])' % (f, ops))
        tabs.append(T)
    res = sc.eval_results('C13', PRE, exprs)
    for c, zs, T in zip(cases, res, tabs):
        try: outs = run_impl(c)
        except Exception as e:
            dis.append({'case': c, 'what': 'implementation raised %s: %s' % (type(e).__name__, str(e)[:100])}); continue
        # split the model answer: per section (999), per op (998)
        secs = []
        cur = None
        for z in zs:
            if z == 999: cur = []; secs.append(cur)
            elif z == 998: cur.append([])
            else: cur[-1].append(z)
        want = {}
        for sname, per_op in zip(['Pair', 'EAM-Embed', 'EAM-Density'], secs):
            reads = [x for x, o in zip(per_op, c['ops']) if o[0] == 'read']
            want[sname] = [[k for (k, v) in (sc.decode_store([0] + r, T)[1][0][1] if r else [])] for r in reads]
        for ri, out in enumerate(outs):
            for prop, keys in out.items():
                w = [sc.norm(sc.key_text(k)) for k in want[SECT_OF[prop]][ri]]
                if [sc.norm(k) for k in keys] != w:
                    dis.append({'case': c, 'what': 'read %d of the history, %s: model %r, implementation %r' % (ri, prop, w, keys)}); break
    for c in pcases:
        f = oracle(c)
        if f: dis.append({'case': c, 'what': '; '.join(f)[:300]})
    allc = cases + pcases
    dist = {'histories_with_several_views': sum(1 for c in cases if len(c['views']) > 1), 'empty_sets': sum(1 for c in cases for v in c['views'] if not v[1]),
            'unknown_labels': sum(1 for c in cases for v in c['views'] if 'Qq' in v[1]), 'kinds': {k: sum(1 for c in cases if c['model']['kind'] == k) for k in ('pair', 'eam', 'fs')},
            'potable_cases': len(pcases)}
    # down to characters (proof/StoreText.v, c13_deleted_file_text): the files with the offending lines deleted, printed, against the raw parser
    tdis, tstats = sc.check_store_text([hand_delete(c['model'], c['mode'], c['S']) for c in pcases] + [hand_delete(c['model'], v[0], v[1]) for c in cases[:20] for v in c['views'][:1]], 'C13t')
    dis += tdis; dist.update(tstats)
    return {'evaluations': len(allc) + tstats['store_text_files'], 'cases': allc, 'nontrivial': core.distinct_count([c for c in cases if any(v[1] for v in c['views'])]) + core.distinct_count(pcases),
            'rule': 'generated pair/EAM/FS models; 1..4 include/exclude views (empty, partial, full sets, unknown labels) created and read in interleaved histories through FilteredConfigParser: every filtered list compared with the model; '
                    'potable --include-species/--exclude-species output compared with the output for the hand-edited file, all targets of the generator; non-trivial = a non-empty species set',
            'samples': cases[:1] + pcases[:1], 'distribution': dist, 'disagreements': dis[:20], 'oracle_cases': cases[:40]}

# ------------------------------------------------------------------ potable vs hand-edited file
def hand_delete(model, mode, S):
    m = copy.deepcopy(model)
    for s, es in m['sections']:
        if s[0] not in ('Pair', 'EAM-Embed', 'EAM-Density'): continue
        def species(k): return [k[1], k[2]] if k[0] in ('pair', 'fs') else [k[1]]
        if mode == 'include': es[:] = [e for e in es if all(x in S for x in species(e['key']))]
        else: es[:] = [e for e in es if not any(x in S for x in species(e['key']))]
    return m

def potable_corpus():
    """fixed command-line cases (whatever the random stream does): the empty include / exclude set, an unknown label, the full set"""
    out = []
    for k, (mode, pick) in enumerate([('include', 'none'), ('exclude', 'none'), ('include', 'unknown'), ('include', 'all'), ('exclude', 'all')]):
        g = random.Random(1300 + k); m = sc.gen_model(g, kind=['pair', 'eam', 'fs'][k % 3])
        S = {'none': [], 'unknown': ['Qq'], 'all': list(m['els'])}[pick]
        out.append({'potable_filter': True, 'model': m, 'mode': mode, 'S': S, 'route': 'cli'})
    return out

def gen_potable(rng):
    m = sc.gen_model(rng, kind=rng.choice(['pair', 'eam', 'fs']))
    return {'potable_filter': True, 'model': m, 'mode': rng.choice(['include', 'exclude']), 'S': gen_species_set(rng, m['els']), 'route': rng.choice(['cli', 'api', 'api'])}

def oracle(case):
    if case.get('kind') in ('ini', 'store_text'): return []      # text-level correspondence cases
    if not case.get('potable_filter'):
        # histories of views: every read must be the list of the file with the offending lines deleted, for THAT view's set
        try: outs = run_impl(case)
        except Exception as e: return ['creating/reading filtered views raised %s: %s' % (type(e).__name__, str(e)[:100])]
        fails = []
        reads = [o for o in case['ops'] if o[0] == 'read']
        for ri, (o, out) in enumerate(zip(reads, outs)):
            mode, S = case['views'][o[1]]
            ed = hand_delete(case['model'], mode, S)
            for prop, keys in out.items():
                sec = [es for s, es in ed['sections'] if s[0] == SECT_OF[prop]]
                want = [sc.norm(sc.key_text(tuple(e['key']) if e['key'][0] != 'sig' else e['key'])) for e in (sec[0] if sec else [])]
                if [sc.norm(k) for k in keys] != want:
                    fails.append('view %d (%s %r), read after %d views were created: .%s is %r, deleting the unwanted entries by hand gives %r' % (o[1], mode, S, sum(1 for x in case['ops'][:case['ops'].index(o)] if x[0] == 'create'), prop, keys, want)); break
        return fails
    from atsim.potentials.config import ConfigParser, FilteredConfigParser
    text = sc.render(case['model'])
    edited = sc.render(hand_delete(case['model'], case['mode'], case['S']))
    b = sc.classify(lambda: sc.tabulate(edited))
    if case['route'] == 'cli':
        rc, out, err, content = sc.potable(['--%s-species' % case['mode']] + list(case['S']), text)
        a = ('Ok', content) if rc == 0 else (('CfgErr', err[-100:]) if 'configuration error' in err else ('Internal', err[-200:]))
    else:
        a = sc.classify(lambda: sc.tabulate(None, cp=FilteredConfigParser(ConfigParser(io.StringIO(text)), **{case['mode']: list(case['S'])})))
    if a[0] != b[0]: return ['--%s-species %s gives %s %s, the hand-edited file gives %s %s' % (case['mode'], ' '.join(case['S']), a[0], a[1] if a[0] != 'Ok' else '', b[0], b[1] if b[0] != 'Ok' else '')]
    if a[0] == 'Ok' and a[1] != b[1]: return ['--%s-species %s: output differs from the output for the hand-edited file' % (case['mode'], ' '.join(case['S']))]
    return []

def search_cases(rng, n):
    for c in view_corpus(): yield c
    for c in potable_corpus(): yield c
    for k in range(n // 4):
        yield gen_case(rng)
        if k % 4 == 0: yield gen_potable(rng)
def finding_for(case, fails): return None
def replay_finding(f): return False
