"""C01 -- LAMMPS pair table: layout model (model/PairTables.v) vs LAMMPS_PairTabulation.write,
writePotentials('LAMMPS', ..) and potable; property-level oracle on the written file."""
import io, math, os, random, subprocess, sys, tempfile
import core, layout
from core import Broken
from layout import q

ID = 'C01'
GENMODS = ['gen_layout', 'gen_forms']
TARGET = 'props/C01.vo'
PROOF_FILES = ['proof/C01.v', 'props/C01.v']
AXIOMS = ['reals', 'classic']
TRUSTED = [
    'Coq 8.16.1 kernel; vm_compute for the correspondence evaluation; Reals axioms + classic only through the force lemmas shared with C07',
    'translator tools/py2coq.py + harness/gen_layout.py: row formula, dr, and exact-body assertions of LAMMPS_PairTabulation.write / Potential.energy / Potential.force; the loop structure of _writeSinglePotential/writePotentials is modelled by hand (model/PairTables.v) and compared with the implementation byte for byte',
    'correspondence harness harness/layout.py: recording callables, Python %-formatting to render the model tokens, tolerance 1.5e-8 on printed grid positions (floats vs exact rationals)',
    'grid positions are exact rationals in the model (float rounding of r not modelled); potable route: values recomputed from the built Potential objects at the model positions, compared at printed precision',
]

PRE = 'From V Require Import lib.Common lib.Layout gen.GridArith model.PairTables.\nLocal Open Scope Z_scope.\n'

def coq_pots(pots, ids):
    return core.coq_list(['{| p_a := %d; p_b := %d; p_hasd := %s |}' % (ids[a], ids[b], core.coq_bool(h)) for (a, b, h) in pots])

def gen_case(rng, thorough=False):
    n = rng.choice([1, 1, 2, 3, 4])
    labs, ids, srt = layout.pick_species(rng, rng.randint(1, 4))
    pots = [[rng.choice(labs), rng.choice(labs), rng.random() < 0.5] for _ in range(n)]
    cutoff = rng.choice([rng.choice([1.0, 2.5, 6.5, 10.0, 12.0, 0.3, 9.99, 8.0]), round(rng.uniform(0.5, 15.0), rng.choice([1, 2, 3])), rng.uniform(0.5, 15.0)])
    nr = rng.choice([3, 4, 5, 6, 7, rng.randint(3, 80), rng.randint(3, 80), rng.choice([30, 54, 94, 100, 101])])
    if thorough and rng.random() < 0.1: nr = rng.randint(200, 1500)
    # some potentials are exactly zero at some grid points while their slope there is not (a node of the potential on the grid)
    return {'pots': pots, 'cutoff': cutoff, 'nr': nr, 'route': rng.choice(['class', 'writePotentials']), 'labels': srt, 'zero_every': rng.choice([None, None, None, 2, 3, 7])}

def build_potentials(case, rec):
    from atsim.potentials import Potential
    return [Potential(a, b, layout.rec_fn(rec, (0, i, 0), h)) for i, (a, b, h) in enumerate(case['pots'])]

def run_recorded(case, fault_at=None):
    from atsim.potentials import writePotentials
    from atsim.potentials.pair_tabulation import LAMMPS_PairTabulation
    rec = layout.Recorder(); rec.fault_at = fault_at; rec.zero_every = case.get('zero_every')
    pots = build_potentials(case, rec)
    out = layout.RecFile(rec)
    if case['route'] == 'writePotentials':
        writePotentials('LAMMPS', pots, case['cutoff'], case['nr'], out)
    else:
        LAMMPS_PairTabulation(pots, case['cutoff'], case['nr']).write(out)
    return rec, out.getvalue()

def model_expr(case):
    ids = {l: i for i, l in enumerate(case['labels'])}
    return '(lammps_file %s %s %d)' % (coq_pots(case['pots'], ids), q(case['cutoff']), case['nr'])

# ---------------------------------------------------------------- potable route (real functions)
DEFS = ['as.buck 1000.0 0.3 32.0', 'as.morse 1.5 2.0 0.75', 'as.lj 0.25 2.5', 'myform 2.0 0.5', 'sum(as.bornmayer 800.0 0.25, as.polynomial 0.5 -0.25)',
        '>=0 as.constant 2.0 >=1.5 as.buck 500.0 0.3 10.0 >3.0 as.zero', 'as.zbl 8 92 >=0.8 as.polynomial 1.0 2.0',
        '>=0 myform 2.0 0.5 >=2.0 as.buck 500.0 0.3 10.0', 'as.bornmayer 900.0 0.3 >=3.0 myform 1.0 2.0 >=5.0 as.constant 0.5',
        '>0 as.lj 0.5 2.0 >1.0 myform 3.0 0.75',
        'spline(>0 as.zbl 92 8 >=0.6 exp_spline >=1.2 as.buck 1761.775 0.35 0.0)', 'as.buck4 1000.0 0.3 30.0 1.2 2.0 2.6', 'tabf', 'product(as.exponential 2.0 1.5, myform 1.0 1.0)',
        'product(as.polynomial -2.0 1.0, as.buck 1000.0 0.3 32.0)', 'product(myform 1.0 1.0, as.polynomial -3.0 1.0)', 'sum(as.polynomial -1.0 1.0, as.constant 0.0)']
import math as _math
# definitions with their meaning written out by hand (ranges, the default '>0' range, a shift below a range, sums)
INDEPENDENT = {
    'trans(>=0 as.polynomial 1.0 2.0, as.constant -2.0)': lambda r: 0.0 if r - 2.0 < 0.0 else 1.0 + 2.0 * (r - 2.0),
    'trans(as.polynomial 1.0 2.0, as.constant -1.5)': lambda r: 0.0 if r - 1.5 <= 0.0 else 1.0 + 2.0 * (r - 1.5),
    '>=0 as.constant 2.0 >=1.5 as.polynomial 0.5 -0.25 >3.0 as.zero': lambda r: 2.0 if r < 1.5 else (0.5 - 0.25 * r if r <= 3.0 else 0.0),
    'sum(as.polynomial 0.5 -0.25, >=2.0 as.constant 1.0)': lambda r: 0.5 - 0.25 * r + (1.0 if r >= 2.0 else 0.0),
    'product(as.polynomial -2.0 1.0, as.bornmayer 3.0 0.5)': lambda r: (-2.0 + r) * 3.0 * _math.exp(-r / 0.5),
    # custom forms written as several statements (' ; ' separates statements, the last one is the value) and over several lines with an
    # end-of-line comment on a line that is not the last: the whole text is the formula
    'screened 1000.0 0.3 -2.0': lambda r: 1000.0 * _math.exp(-r / 0.3) + (-2.0) / r,
    'lincom 2.0 0.5': lambda r: 2.0 * r + 0.5,
}
DEFS += sorted(INDEPENDENT)
def independent_corpus():
    ds = sorted(k for k in INDEPENDENT if k.split()[0] not in ('screened', 'lincom'))
    return [{'potable': [['Al', 'Al', ds[0]], ['Al', 'Cu', ds[1]], ['Cu', 'Cu', ds[2]]], 'cutoff': 4.0, 'nr': 9, 'labels': ['Al', 'Cu'], 'route': 'configuration'},
            {'potable': [['Fe', 'Fe', ds[3]], ['Fe', 'Ni', ds[4]]], 'cutoff': 4.0, 'nr': 9, 'labels': ['Fe', 'Ni'], 'route': 'potable'},
            {'potable': [['Mg', 'Mg', 'screened 1000.0 0.3 -2.0'], ['Mg', 'O', 'lincom 2.0 0.5']], 'cutoff': 4.0, 'nr': 9, 'labels': ['Mg', 'O'], 'route': 'potable'},
            {'potable': [['Mg', 'O', 'screened 1000.0 0.3 -2.0'], ['O', 'O', 'lincom 2.0 0.5']], 'cutoff': 3.0, 'nr': 7, 'labels': ['Mg', 'O'], 'route': 'configuration'}]
def gen_potable_case(rng):
    n = rng.choice([1, 2, 3])
    labs, ids, srt = layout.pick_species(rng, rng.randint(1, 3))
    pairs = []
    seen = set()
    for _ in range(n):
        a, b = rng.choice(labs), rng.choice(labs)
        if (a, b) in seen or (b, a) in seen: continue
        seen.add((a, b)); pairs.append([a, b, rng.choice(DEFS)])
    cutoff = rng.choice([6.5, 10.0, 4.0, 8.25])
    nr = rng.choice([5, 11, 14, 27, 30, 54])
    return {'potable': pairs, 'cutoff': cutoff, 'nr': nr, 'labels': srt, 'route': rng.choice(['potable', 'configuration'])}

def potable_text(case, target='LAMMPS'):
    txt = '[Tabulation]\ntarget : %s\ncutoff : %r\nnr : %d\n\n[Potential-Form]\nmyform(r, a, b) = a*exp(-r/b) + 0.01*r^2\nscreened(r, A, rho, q) = var sr := A*exp(-r/rho) ; var lr := q/r ; sr + lr\nlincom(r, A, B) = A*r // the linear part\n    + B\n\n' % (target, case['cutoff'], case['nr'])
    txt += '[Table-Form:tabf]\nx : 0.0 1.0 2.0 3.0 4.5 6.0 12.0\ny : 5.0 2.0 0.5 -0.25 -0.125 -0.01 0.0\n\n[Pair]\n'
    for a, b, d in case['potable']:
        txt += '%s-%s : %s\n' % (a, b, d)
    return txt

def run_potable(case, target='LAMMPS'):
    """returns (tabulation, output text) -- through the potable CLI (subprocess) or Configuration().read + write"""
    from atsim.potentials.config import Configuration
    txt = potable_text(case, target)
    tab = Configuration().read(io.StringIO(txt))
    if case['route'] == 'configuration':
        out = io.StringIO(); tab.write(out); return tab, out.getvalue()
    d = tempfile.mkdtemp(prefix='c01_')
    try:
        inp = os.path.join(d, 'm.aspot'); outp = os.path.join(d, 'out.table')
        open(inp, 'w').write(txt)
        p = subprocess.run([sys.executable, '-c', 'from atsim.potentials.tools.potable import main; main()', inp, outp],
                           stdout=subprocess.PIPE, stderr=subprocess.PIPE, text=True, env=dict(os.environ))
        if p.returncode != 0:
            raise Broken('correspondence', 'potable failed on a valid model', p.stderr[-800:])
        return tab, open(outp).read()
    finally:
        import shutil; shutil.rmtree(d, ignore_errors=True)

def synth_events(trace, pots):
    """evaluate the model's expected evaluations on the real Potential objects"""
    evs = []
    for (fn, kind, qarg) in trace:
        x = float(qarg); p = pots[fn[1]]
        v = p.potentialFunction.deriv(x) if kind == 1 else p.energy(x)
        evs.append(('eval', tuple(fn), kind, x, v))
    return evs

def compare_numeric(tokens, evs, labels, actual, tol=3e-8):
    """like layout.render_and_compare but every number is compared numerically (potable route)"""
    exp = []
    for t in tokens:
        if t[0] == 0: exp.append(layout.LIT[t[1]])
        elif t[0] == 1: exp.append(layout.fmt(t[1], labels[t[2]]))
        elif t[0] == 2: exp.append(layout.fmt(t[1], t[2]))
        elif t[0] == 3:
            import fractions
            exp.append(layout.fmt(t[1], float(fractions.Fraction(t[2], t[3]))))
        else: exp.append(layout.fmt(t[1], layout.value_of(t[3], t[4], t[2], evs)))
    et = ''.join(exp)
    if et == actual: return None
    el, al = et.split('\n'), actual.split('\n')
    if len(el) != len(al): return 'model expects %d lines, file has %d' % (len(el), len(al))
    for i, (x, y) in enumerate(zip(el, al)):
        if x == y: continue
        xt, yt = x.split(), y.split()
        if len(xt) != len(yt): return 'line %d: model %r, file %r' % (i + 1, x, y)
        for a, b in zip(xt, yt):
            if a == b: continue
            try: fa, fb = float(a), float(b)
            except ValueError: return 'line %d: model %r, file %r' % (i + 1, x, y)
            if abs(fa - fb) > tol * max(1.0, abs(fa)) + 2e-8: return 'line %d: model %r, file %r' % (i + 1, x, y)
    return None

def correspond(ctx):
    rng = ctx['rng']
    n = 260 if ctx['thorough'] else 60
    cases = [gen_case(rng, ctx['thorough']) for _ in range(n)]
    # corpus first: multi-range potentials mixing analytic and non-analytic ranges, with grid rows exactly on the range starts
    pcases = [{'potable': [['Al', 'Al', '>=0 myform 2.0 0.5 >=2.0 as.buck 500.0 0.3 10.0'], ['Al', 'Cu', 'as.bornmayer 900.0 0.3 >=3.0 myform 1.0 2.0 >=5.0 as.constant 0.5']],
               'cutoff': 10.0, 'nr': 11, 'labels': ['Al', 'Cu'], 'route': 'configuration'},
              {'potable': [['Fe', 'Fe', '>0 as.lj 0.5 2.0 >1.0 myform 3.0 0.75'], ['Fe', 'Ni', '>=0 myform 2.0 0.5 >=2.0 as.buck 500.0 0.3 10.0']],
               'cutoff': 4.0, 'nr': 5, 'labels': ['Fe', 'Ni'], 'route': 'potable'},
              # a factor of a product with a root on a grid row (r = 2): the product's slope there is not zero
              {'potable': [['Al', 'Al', 'product(as.polynomial -2.0 1.0, as.buck 1000.0 0.3 32.0)'], ['Al', 'Cu', 'product(myform 1.0 1.0, as.polynomial -3.0 1.0)']],
               'cutoff': 4.0, 'nr': 5, 'labels': ['Al', 'Cu'], 'route': 'configuration'}] + independent_corpus()
    pcases += [gen_potable_case(rng) for _ in range(30 if ctx['thorough'] else 8)]
    dis = []
    runs = []
    for c in cases:
        try: runs.append(run_recorded(c))
        except Exception as e:
            runs.append(None); dis.append({'case': c, 'what': 'writer raised %s: %s' % (type(e).__name__, str(e)[:100])})
    pruns = []
    for c in pcases:
        try:
            tab, text = run_potable(c)
            for (a, b, _), p in zip(c['potable'], tab.potentials):
                if (p.speciesA, p.speciesB) != (a, b): raise Broken('correspondence', 'potable potentials are not in [Pair] order')
            c['_hasd'] = [hasattr(p.potentialFunction, 'deriv') for p in tab.potentials]
            pruns.append((tab, text))
        except Broken: raise
        except Exception as e:
            pruns.append(None); dis.append({'case': c, 'what': 'potable route raised %s: %s' % (type(e).__name__, str(e)[:100])})
    exprs = [model_expr(c) for c in cases]
    for c in pcases:
        ids = {l: i for i, l in enumerate(c['labels'])}
        hd = c.get('_hasd', [False] * len(c['potable']))
        exprs.append('(lammps_file %s %s %d)' % (coq_pots([(a, b, h) for (a, b, _), h in zip(c['potable'], hd)], ids), q(c['cutoff']), c['nr']))
    models = layout.eval_models('C01', PRE, exprs)
    for c, r, (toks, tr) in zip(cases, runs, models[:len(cases)]):
        if r is None: continue
        rec, text = r
        d = layout.compare_trace(tr, rec.evals()) or layout.render_and_compare(toks, rec.evals(), c['labels'], text)
        if d: dis.append({'case': c, 'what': d})
        writes = [e for e in rec.events if e[0] == 'write']
    for c, r, (toks, tr) in zip(pcases, pruns, models[len(cases):]):
        if r is None: continue
        tab, text = r
        d = compare_numeric(toks, synth_events(tr, tab.potentials), c['labels'], text)
        if d: dis.append({'case': {k: v for k, v in c.items() if not k.startswith('_')}, 'what': 'potable route: ' + d})
    for c in pcases: c.pop('_hasd', None)
    allc = cases + pcases
    dist = {'recorded_cases': len(cases), 'potable_cases': len(pcases), 'nr_min': min(c['nr'] for c in allc), 'nr_max': max(c['nr'] for c in allc),
            'with_deriv': sum(1 for c in cases for p in c['pots'] if p[2]), 'without_deriv': sum(1 for c in cases for p in c['pots'] if not p[2]),
            'routes': {r: sum(1 for c in allc if c['route'] == r) for r in ('class', 'writePotentials', 'potable', 'configuration')},
            'rows_total': sum((c['nr'] - 1) * len(c.get('pots', c.get('potable'))) for c in allc)}
    # how the numbers are printed (coq/model/NumFormat.v): the cells rendered in this run, edge values and random doubles
    import fmt_common
    nfmt, fdis, fdist = fmt_common.check_formats('C01', ctx['rng'], [3], ctx['thorough'])
    dis = fdis + dis
    return {'number_format_cells': nfmt, 'number_format': fdist, 'evaluations': nfmt + len(allc), 'cases': allc, 'nontrivial': core.distinct_count([c for c in allc if c['nr'] >= 4]),
            'rule': '1..4 potentials over 1..4 species labels (with/without analytic derivative, recording callables), cutoffs from a decimal lattice and random floats, nr 3..80 (thorough: to 1500), '
                    'through LAMMPS_PairTabulation.write and writePotentials; plus potable models (built-in, custom, modified, multi-range, splined, table forms) through the CLI and Configuration; '
                    'the whole file text is compared with the rendered model; non-trivial = nr >= 4; distinct by canonical JSON',
            'samples': cases[:2] + pcases[:1], 'distribution': dist, 'disagreements': dis[:20], 'oracle_cases': allc}

# ---------------------------------------------------------------- oracle (independent of the Coq model)
def parse_lammps(text):
    blocks = []
    lines = text.split('\n')
    i = 0
    while i < len(lines):
        if not lines[i].strip(): i += 1; continue
        title = lines[i].strip(); hdr = lines[i + 1].split()
        if len(hdr) != 5 or hdr[0] != 'N' or hdr[2] != 'R': raise ValueError('bad header line %r' % lines[i + 1])
        N = int(hdr[1]); lo, hi = float(hdr[3]), float(hdr[4])
        if lines[i + 2].strip(): raise ValueError('no blank line after header')
        rows = []
        j = i + 3
        while j < len(lines) and lines[j].strip():
            t = lines[j].split()
            if len(t) != 4: raise ValueError('bad row %r' % lines[j])
            rows.append((int(t[0]), float(t[1]), float(t[2]), float(t[3]))); j += 1
        blocks.append({'title': title, 'N': N, 'lo': lo, 'hi': hi, 'rows': rows}); i = j
    return blocks

def richardson(f, x, h=1e-3):
    d1 = (f(x + h) - f(x - h)) / (2 * h); d2 = (f(x + h / 2) - f(x - h / 2)) / h
    return (4 * d2 - d1) / 3

def check_blocks(blocks, species, cutoff, nr, energy_at, force_ok):
    fails = []
    if len(blocks) != len(species): return ['%d blocks for %d potentials' % (len(blocks), len(species))]
    dr = cutoff / (nr - 1)
    for bi, (b, (sa, sb)) in enumerate(zip(blocks, species)):
        if b['title'] != '%s-%s' % (sa, sb): fails.append('block %d is titled %r, potential is %s-%s' % (bi, b['title'], sa, sb))
        if b['N'] != nr - 1: fails.append('block %d: header N=%d, expected nr-1=%d' % (bi, b['N'], nr - 1))
        if len(b['rows']) != b['N']: fails.append('block %d: header N=%d but %d rows' % (bi, b['N'], len(b['rows'])))
        if abs(b['lo'] - dr) > 2e-8 or abs(b['hi'] - cutoff) > 2e-8: fails.append('block %d: header R %r %r, expected %r %r' % (bi, b['lo'], b['hi'], dr, cutoff))
        for k, (n, r, e, f) in enumerate(b['rows']):
            if n != k + 1: fails.append('block %d: row %d is numbered %d' % (bi, k + 1, n)); break
            if abs(r - (k + 1) * dr) > 2e-8: fails.append('block %d row %d: r=%r, expected %r' % (bi, n, r, (k + 1) * dr)); break
            x = (k + 1) * dr
            ee = energy_at(bi, x)
            if ee is not None and abs(e - ee) > 1.5e-8 + 1e-7 * abs(ee) * 0 + 5e-9 * max(1.0, abs(ee)): fails.append('block %d row %d: energy %r, potential gives %r at r=%r' % (bi, n, e, ee, x)); break
            m = force_ok(bi, x, f)
            if m: fails.append('block %d row %d: %s' % (bi, n, m)); break
    return fails

def oracle(case):
    if 'potable' in case:
        try:
            tab, text = run_potable(case)
        except Broken as b: return [b.what + ' ' + b.detail[-200:]]
        except Exception as e: return ['valid model raised %s: %s' % (type(e).__name__, str(e)[:100])]
        try: blocks = parse_lammps(text)
        except Exception as e: return ['unparseable LAMMPS table: %s' % e]
        pots = tab.potentials
        def energy_at(bi, x): return pots[bi].energy(x)
        def force_ok(bi, x, f):
            e = pots[bi].energy
            try: num = -richardson(e, x, 1e-4)
            except Exception: return None
            # skip rows within a Richardson stencil of a range boundary / kink
            try:
                left = -(e(x) - e(x - 2e-4)) / 2e-4; right = -(e(x + 2e-4) - e(x)) / 2e-4
            except Exception: return None
            if abs(left - right) > 1e-2 * max(1.0, abs(num)):
                # a kink / range boundary on this row: the force must be minus a one-sided slope of the energy
                def one_sided(sgn):
                    h = 1e-4
                    return -sgn * (-3 * e(x) + 4 * e(x + sgn * h) - e(x + 2 * sgn * h)) / (2 * h)
                try: cands = [one_sided(+1), one_sided(-1)]
                except Exception: return None
                if any(abs(f - c) <= 1e-3 * max(1.0, abs(c)) for c in cands): return None
                return 'force %r at the range boundary r=%r is neither one-sided slope of the energy (%r, %r)' % (f, x, cands[0], cands[1])
            if abs(f - num) > 2e-5 * max(1.0, abs(num)) + 2e-8: return 'force %r is not minus the slope of the energy (%r) at r=%r' % (f, num, x)
            return None
        fails = check_blocks(blocks, [(a, b) for (a, b, _) in case['potable']], case['cutoff'], case['nr'], energy_at, force_ok)
        # definitions whose meaning is written out here independently of the implementation: the energy column must be that function
        for bi, (a, b, d) in enumerate(case['potable']):
            if d in INDEPENDENT and bi < len(blocks):
                for (n_, r_, e_, f_) in blocks[bi]['rows']:
                    w = INDEPENDENT[d](r_)
                    if abs(e_ - w) > 1e-7 * max(1.0, abs(w)): fails.append('%s-%s : %s -- the row at r=%r holds the energy %r, the definition means %r' % (a, b, d, r_, e_, w)); break
        return fails
    try: rec, text = run_recorded(case)
    except Exception as e: return ['writer raised %s: %s' % (type(e).__name__, str(e)[:100])]
    try: blocks = parse_lammps(text)
    except Exception as e: return ['unparseable LAMMPS table: %s' % e]
    evs = rec.evals()
    def find(bi, kind, x):
        for e in evs:
            if e[1] == (0, bi, 0) and e[2] == kind and abs(e[3] - x) <= 1e-9 * max(1.0, abs(x)): return e
        return None
    def energy_at(bi, x):
        e = find(bi, 0, x)
        return e[4] if e else float('nan')
    def force_ok(bi, x, f):
        if case['pots'][bi][2]:
            e = find(bi, 1, x)
            if e is None: return 'no derivative evaluation of this potential at r=%r' % x
            return None if abs(f + e[4]) <= 1.5e-8 else 'force %r is not minus the derivative value %r' % (f, e[4])
        a, b = find(bi, 0, x + 0.5e-6), find(bi, 0, x - 0.5e-6)
        if a is None or b is None: return 'no central-difference evaluations of this potential around r=%r' % x
        want = -((a[4] - b[4]) / (a[3] - b[3]))
        return None if abs(f - want) <= 1.5e-8 + 1e-9 * abs(want) else 'force %r is not minus the secant slope %r' % (f, want)
    return check_blocks(blocks, [(a, b) for (a, b, _) in case['pots']], case['cutoff'], case['nr'], energy_at, force_ok)

def search_cases(rng, n):
    for c in independent_corpus(): yield c
    for k in range(n // 3):
        yield gen_case(rng)
        if k % 6 == 0: yield gen_potable_case(rng)

def finding_for(case, fails): return None
def replay_finding(f): return False
