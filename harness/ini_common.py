"""Text level of potable files: model/Ini.v (configparser's line parser as configured by _RawConfigParser, plus the repository's
optionxform) against the real parser on generated texts."""
import io, random
import core, store_common as sc

PRE_INI = '''From Coq Require Import List ZArith.
From V Require Import lib.Common model.Ini.
Import ListNotations.
Local Open Scope Z_scope.
Definition enc_s (s : list Z) : list Z := Z.of_nat (length s) :: s.
Definition run_ini (lines : list (list Z)) : list Z :=
  match parse_ini lines with
  | None => [0]
  | Some ss => 1 :: Z.of_nat (length ss) :: flat_map (fun sc => enc_s (fst sc) ++ Z.of_nat (length (snd sc)) :: flat_map (fun o => enc_s (fst o) ++ enc_s (snd o)) (snd sc)) ss
  end.
'''
KEYS = ['A-B', 'A - B', 'nr', 'cutoff', 'f(r, a)', 'f( r,a )', 'Al->Cu', 'x', 'y', 'tar get', 'a\tb', 'K', '[k]', 'a]b', '#k', 'k;']
VALS = ['as.buck 1000.0 0.3 32.0', '12', '', 'a = b', 'x:y', 'sum(as.buck 1 2 3,', 'as.lj 1 2)', '>=0 as.zero', '[v]', '# not a comment', '1 2 3', 'v ;x']
SECTS = ['Pair', 'Tabulation', 'Variables', 'Potential-Form', 'Table-Form:tb', 'EAM-Embed', 'A]B', ' Spaced ', 'Pair ']
def gen_ini_lines(g):
    """a list of lines (no terminators): mostly well-formed files, with continuation lines, blank lines, comments, both delimiters,
    odd indentation; sometimes a malformed line"""
    lines = []
    nsec = g.randint(0, 4)
    if g.random() < 0.1: lines.append(g.choice(['k = v', '  ', '# c', 'stray']))
    used = []
    for _ in range(nsec):
        s = g.choice(SECTS) if g.random() < 0.85 else g.choice(used or SECTS)
        used.append(s)
        ind0 = g.choice(['', '', '', ' ', '\t'])
        lines.append(ind0 + '[' + s + ']' + g.choice(['', '', ' ', ' junk', ']']))
        for _ in range(g.randint(0, 4)):
            r = g.random()
            ind = g.choice(['', '', '', ' ', '  ', '\t'])
            if r < 0.7:
                k = g.choice(KEYS); d = g.choice(['=', ':', ' = ', ' : ', '\t=\t', '=  ', '  :'])
                lines.append(ind + k + d + g.choice(VALS) + g.choice(['', '', ' ', '\t']))
                # continuation lines
                for _ in range(g.choice([0, 0, 0, 1, 2, 3])):
                    c = g.random()
                    if c < 0.6: lines.append(ind + g.choice([' ', '  ', '\t', '    ']) + g.choice(VALS) + g.choice(['', ' ']))
                    elif c < 0.75: lines.append(g.choice(['', ' ', '\t']))
                    elif c < 0.9: lines.append(g.choice(['', ' ', '   ']) + g.choice(['#', ';']) + ' comment')
                    else: lines.append(ind + g.choice(VALS))                  # not indented deeper: a new (possibly bad) line
            elif r < 0.8: lines.append(ind + g.choice(['#', ';', '# ', ';;']) + 'comment = 1')
            elif r < 0.88: lines.append(g.choice(['', ' ', '\t ']))
            elif r < 0.94: lines.append(ind + g.choice(['no delimiter here', '= 5', ' : v', '[', '[]', ']']))
            else: lines.append(ind + g.choice(KEYS) + g.choice(['=', ':']))
    return lines

def coq_lines(lines):
    return '[%s]' % '; '.join('[%s]' % '; '.join('%d' % ord(ch) for ch in l) for l in lines)

def dec_ini(zs):
    if zs[0] == 0: return None
    i = 2; out = []
    def rd_s(i):
        n = zs[i]; return ''.join(chr(c) for c in zs[i + 1:i + 1 + n]), i + 1 + n
    for _ in range(zs[1]):
        name, i = rd_s(i); n = zs[i]; i += 1; opts = []
        for _ in range(n):
            k, i = rd_s(i); v, i = rd_s(i); opts.append((k, v))
        out.append((name, opts))
    assert i == len(zs)
    return out

def impl_ini(lines):
    """what the repository's raw parser holds after reading the text: None on any configparser error"""
    import configparser
    from atsim.potentials.config._config_parser import _RawConfigParser
    cp = _RawConfigParser()
    try:
        cp.read_file(io.StringIO(''.join(l + '\n' for l in lines)))
    except configparser.Error:
        return None
    out = [(s, [(k, v) for k, v in cp._sections[s].items()]) for s in cp._sections]
    return out, [(k, v) for k, v in cp._defaults.items()]

def compare(model, impl):
    """model: ordered sections including Variables at its first position; impl: (sections without Variables, defaults)"""
    if model is None or impl is None: return (model is None) == (impl is None)
    secs, defaults = impl
    m_secs = [(n, o) for (n, o) in model if n != 'Variables']
    m_def = [o for (n, o) in model if n == 'Variables']
    m_def = m_def[0] if m_def else []
    return m_secs == secs and m_def == defaults

def library_assumptions():
    import configparser
    from atsim.potentials.config._config_parser import _RawConfigParser
    cp = _RawConfigParser(); bad = []
    if cp._delimiters != ('=', ':'): bad.append('delimiters %r' % (cp._delimiters,))
    if tuple(cp._comment_prefixes) != ('#', ';'): bad.append('comment prefixes %r' % (cp._comment_prefixes,))
    if tuple(cp._inline_comment_prefixes or ()) != (): bad.append('inline comment prefixes %r' % (cp._inline_comment_prefixes,))
    if not cp._strict: bad.append('not strict')
    if not cp._empty_lines_in_values: bad.append('empty lines end values')
    if cp._allow_no_value: bad.append('allow_no_value')
    if cp.default_section != 'Variables': bad.append('default section %r' % cp.default_section)
    import re
    squeeze = lambda pat: re.sub(r'\s+', '', re.sub(r'#.*', '', pat))
    if squeeze(cp.SECTCRE.pattern) != r'\[(?P<header>.+)\]': bad.append('SECTCRE %r' % cp.SECTCRE.pattern)
    if squeeze(cp._optcre.pattern) != r'(?P<option>.*?)\s*(?P<vi>=|:)\s*(?P<value>.*)$': bad.append('option pattern %r' % squeeze(cp._optcre.pattern))
    if cp.NONSPACECRE.pattern != r'\S': bad.append('NONSPACECRE %r' % cp.NONSPACECRE.pattern)
    return bad


def check_ini(ctx, n, tag):
    """model/Ini.v against the raw parser of the repository on n generated files; returns (disagreements, stats)"""
    g = ctx['rng']; dis = []
    for b in library_assumptions(): dis.append({'case': None, 'what': 'configparser differs from what model/Ini.v restates: ' + b})
    inis = [{'kind': 'ini', 'lines': gen_ini_lines(g)} for _ in range(n)]
    if ctx.get('thorough'):
        # small scope, exhaustively: every file of up to 3 lines over a set of line shapes (header, option with either delimiter, indented and
        # unindented continuation, blank, comment, stray text, repeated header / key, [Variables])
        import itertools
        shapes = ['[S]', '[S]', '[Variables]', 'k = v', 'k : w', ' k2=v', '  more', '\tx = y', '', '# c', ' ; c', 'stray', '[T] junk', '= v', 'K]=[v']
        for n_ in (1, 2, 3):
            for combo in itertools.product(shapes, repeat=n_): inis.append({'kind': 'ini', 'lines': list(combo), 'exhaustive': True})
    res = sc.eval_results(tag, PRE_INI, ['(run_ini %s)' % coq_lines(c['lines']) for c in inis], chunk=300 if len(inis) > 1000 else (100 if n > 200 else 40))
    acc = 0
    for c, zs in zip(inis, res):
        m = dec_ini(zs); im = impl_ini(c['lines']); acc += m is not None
        if not compare(m, im): dis.append({'case': c, 'what': 'the lines %r: model %r, parser %r' % (c['lines'], m, im)})
    return dis, {'ini_files': len(inis), 'ini_exhaustive_small_scope': sum(1 for c in inis if c.get('exhaustive')), 'ini_accepted': acc, 'ini_with_continuation': sum(1 for c in inis if any(l[:1] in (' ', '\t') and l.strip() for l in c['lines']))}, inis


# ------------------------------------------------------------------ placeholders (model/TextInterp.v)
PRE_INTERP = PRE_INI.replace('model.Ini.', 'model.Ini model.TextInterp.') + '''
Definition run_get (lines : list (list Z)) : list Z :=
  match parse_ini lines with
  | None => [0]
  | Some st => 1 :: flat_map (fun sc => flat_map (fun o => match tget st (fst sc) (fst o) with Some v => 1 :: enc_s v | None => [0] end) (snd sc)) st
  end.
'''
I_NAMES = ['a', 'b', 'rho', 'A', 'x y', 'cut']
I_SECTS = ['Variables', 'Pair', 'Tabulation', 'Lib']
def gen_template_value(g):
    parts = []
    for _ in range(g.randint(1, 3)):
        r = g.random()
        if r < 0.35: parts.append(g.choice(['1.5', 'as.buck', ' ', 'v', '2']))
        elif r < 0.6: parts.append('${%s}' % g.choice(I_NAMES))
        elif r < 0.8: parts.append('${%s:%s}' % (g.choice(I_SECTS + ['Nowhere', ' Pair']), g.choice(I_NAMES)))
        elif r < 0.88: parts.append('$$')
        else: parts.append(g.choice(['$', '${', '${}', '$x', '${a:b:c}', '${a}}', '}$${']))
    return ''.join(parts)
def gen_template_file(g):
    lines = []
    for s in g.sample(I_SECTS, g.randint(1, 4)):
        lines.append('[%s]' % s)
        for k in g.sample(I_NAMES, g.randint(0, 4)):
            lines.append('%s %s %s' % (k, g.choice(':='), gen_template_value(g)))
    return lines
def impl_get_all(lines):
    """cp.get of every option of every section, in file order (None where it is refused); None when the file is not read"""
    import configparser
    from atsim.potentials.config._config_parser import _RawConfigParser
    from atsim.potentials.config._common import ConfigurationException
    cp = _RawConfigParser()
    try: cp.read_file(io.StringIO(''.join(l + '\n' for l in lines)))
    except (configparser.Error, ValueError): return None
    order = []
    for l in lines:
        if l.startswith('['):
            n = l[1:l.rindex(']')]
            if n not in order: order.append(n)
    out = []
    for s in order:
        for k in (list(cp._defaults) if s == 'Variables' else list(cp._sections[s])):
            try: out.append(cp.get(s, k))
            except (configparser.Error, ConfigurationException, ValueError): out.append(None)
    return out
def check_interp(ctx, n, tag):
    g = ctx['rng']; dis = []
    files = [gen_template_file(g) for _ in range(n)]
    res = sc.eval_results(tag, PRE_INTERP, ['(run_get %s)' % coq_lines(f) for f in files], chunk=60)
    nvals = nres = 0
    for f, zs in zip(files, res):
        if zs[0] == 0: m = None
        else:
            m = []; i = 1
            while i < len(zs):
                if zs[i] == 0: m.append(None); i += 1
                else:
                    k = zs[i + 1]; m.append(''.join(chr(c) for c in zs[i + 2:i + 2 + k])); i += 2 + k
            nvals += len(m); nres += sum(1 for x in m if x is not None)
        im = impl_get_all(f)
        if m != im: dis.append({'case': {'kind': 'ini', 'lines': f}, 'what': 'values of %r: model %r, parser.get %r' % (f, m, im)})
    return dis, {'template_files': n, 'template_values': nvals, 'template_values_resolved': nres}
