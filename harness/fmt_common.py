"""Tie of coq/model/NumFormat.v (how the writers print numbers) to the formatting the implementation uses (Python's % and
format, i.e. the C library's exact decimal conversion): the Coq function is evaluated on the binary representation of the
values printed in this run, on a fixed corpus of edge values (zeros of both signs, ties, carries into the next power of ten,
subnormals, the largest double) and on random doubles, and its text is compared character by character."""
import math, random, struct
import core, layout, store_common

PRE = '''From Coq Require Import ZArith List.
From V Require Import model.NumFormat.
Import ListNotations.
Local Open Scope Z_scope.
Definition o (x : option (list Z)) : list Z := match x with Some l => l | None => [0] end.
Definition rd (t : list Z) : list Z := match read_number t with Some p => [if p_neg p then 1 else 0; p_all p; Z.of_nat (p_nfrac p); p_exp p] | None => [] end.
'''
FLOAT_CODES = [3, 4, 5, 8, 9, 10, 11]
INT_CODES = [2, 6]

def decompose(x):
    neg = (struct.pack('>d', x)[0] & 0x80) != 0
    n, d = abs(x).as_integer_ratio()
    return neg, n, -(d.bit_length() - 1)

CORPUS = [0.0, -0.0, 1.0, -1.0, 0.5, 0.125, 0.375, 2.5e-9, 5e-9, 1.5e-8, -1e-12, 1e22, 123456789.125, 9.99999999999, 0.999999995,
          9.9999999999999999e5, 5e-324, 2.2250738585072014e-308, 1.7976931348623157e308, 0.1, 1 / 3.0, 2 / 3.0, 1e-5, 1e-7, 99999.99999999999,
          0.000999999999999, 9.9999999e-5, 9.99999995e-5, 0.99999999999999989, 1e15, 1e16, 1e17, 123456789012345678.0, 0.5e-6, 1.5e-6, 2.5e-6,
          0.5e-10, 1.5e-10, 9.5, 99.5, 0.95, 8.5e-8, 1e-10, 1e-100, 1e100, 1e-300] + [1e-8 * k + 5e-9 for k in range(6)] + [2.0 ** -k for k in range(1, 30, 3)]

def random_double(rng):
    k = rng.random()
    if k < .3: return rng.uniform(-100, 100)
    if k < .55: return rng.uniform(-1, 1) * 10 ** rng.randint(-30, 30)
    if k < .7:
        while True:
            x = struct.unpack('>d', struct.pack('>Q', rng.getrandbits(64)))[0]
            if x == x and abs(x) != float('inf'): return x
    if k < .85: return rng.randint(-10 ** 6, 10 ** 6) / 2.0 ** rng.randint(0, 40)
    # a decimal with exactly d+1 digits ending in 5: near-ties of the decimal rounding
    d = rng.choice([6, 8, 10]); return (rng.randint(0, 10 ** 6) * 10 + 5) / 10.0 ** (d + 1)

def check_formats(tag, rng, codes, thorough=False):
    """returns (number of cells evaluated, disagreements, distribution)"""
    codes = [c for c in codes if c in FLOAT_CODES]
    seen = [(c, x) for (c, x) in layout.CELLS if c in codes and isinstance(x, float) and x == x and abs(x) != float('inf')]
    rng2 = random.Random(rng.random())
    rng2.shuffle(seen)
    seen = seen[:600 if thorough else 150]
    cases = list(seen)
    for x in CORPUS + [-v for v in CORPUS[2:12]]:
        for c in codes: cases.append((c, x))
    for _ in range(1500 if thorough else 200):
        cases.append((rng2.choice(codes), random_double(rng2)))
    exprs = []
    for c, x in cases:
        neg, m, e = decompose(x)
        t = '(o (fmt_float %d %s %d (%d)))' % (c, 'true' if neg else 'false', m, e)
        exprs.append('(let t := %s in t ++ 0 :: rd t)' % t)
    ints = [(c, n) for c in INT_CODES for n in [0, 7, 10, 99, 100, 1000, 123456, 9999999999, 12345678901, -5, -100] + [rng2.randint(-10 ** 6, 10 ** 9) for _ in range(10)]]
    for c, n in ints:
        exprs.append('(o (fmt_int %d (%d)) ++ [0])' % (c, n))
    res = store_common.eval_results(tag + '_fmt', PRE, exprs, chunk=120)
    dis = []
    for (c, x), r in zip(cases + ints, res):
        k = r.index(0); text = ''.join(chr(v) for v in r[:k]); back = r[k + 1:]
        want = layout.fmt(c, x)
        if text != want:
            dis.append({'case': {'format': layout.FMT[c], 'value': repr(x)}, 'what': 'number format: the model prints %r, the implementation\'s formatting gives %r' % (text, want)})
        elif isinstance(x, float):
            # the model's reader agrees with float(): sign, digits, exponent describe the same decimal
            if len(back) != 4: dis.append({'case': {'format': layout.FMT[c], 'value': repr(x)}, 'what': 'number format: the printed text %r does not read back' % text}); continue
            ng, allv, nf, ex = back
            import fractions
            v = fractions.Fraction(allv) * fractions.Fraction(10) ** (ex - nf) * (-1 if ng else 1)
            if float(v) != float(text) or ng != (1 if text.strip().startswith('-') else 0):
                dis.append({'case': {'format': layout.FMT[c], 'value': repr(x)}, 'what': 'number format: %r reads back as %s' % (text, v)})
    dist = {'cells_from_this_run': len(seen), 'corpus': len(CORPUS) * len(codes), 'random': len(cases) - len(seen) - (len(CORPUS) + 10) * len(codes), 'integers': len(ints),
            'formats': [layout.FMT[c] for c in codes]}
    return len(exprs), dis, dist
