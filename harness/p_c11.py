"""C11 -- any two of nr/dr/cutoff: model/TabCutoff.v (binary64, Flocq) vs the parser, bit for bit; row counts of written tables."""
import fractions, io, random
import core, layout, store_common as sc

ID = 'C11'
GENMODS = ['gen_c11', 'gen_layout']
TARGET = 'props/C11.vo'
PROOF_FILES = ['proof/C11.v', 'props/C11.v']
AXIOMS = ['reals', 'classic', 'primitives']
TRUSTED = [
    'Coq 8.16.1 kernel; Reals axioms + classic (Flocq/Interval), primitive int/float axioms used by the interval tactic; vm_compute evaluates Flocq binary64 operations for the correspondence',
    'Flocq 4 BinarySingleNaN as the definition of IEEE-754 binary64 (Bdiv, Bmult, Bnearbyint, Btrunc and their _correct theorems); Python float(str) is assumed to be correctly rounded, int(round(x)) = round-half-even',
    'model/TabCutoff.v is hand written; _init_cutoff / _check_positive / create_cutoff / the factories\' defaults are asserted on the AST and the model is compared bit for bit (exact rational of the float) on decimal lattices',
]
PRE = '''From Coq Require Import ZArith.
From Flocq Require Import Core BinarySingleNaN.
From V Require Import lib.Common model.TabCutoff.
Local Open Scope Z_scope.
Definition encf (x : b64) : list Z := match x with B754_finite s m e _ => [1; (if s then - Zpos m else Zpos m); e] | B754_zero _ => [1; 0; 0] | B754_infinity s => [2; (if s then -1 else 1); 0] | B754_nan => [3; 0; 0] end.
Definition enc (r : result (option Z * option b64)) : list Z :=
  match r with Ok (n, c) => [0] ++ match n with Some v => [1; v] | None => [0; 0] end ++ match c with Some v => encf v | None => [0; 0; 0] end | CfgErr => [1] | Internal => [2] end.
'''

def b64(x):
    """Coq term for the float x"""
    import math
    if x != x: return '(B754_nan : b64)'
    if math.isinf(x): return '(B754_infinity %s : b64)' % ('true' if x < 0 else 'false')
    n, d = x.as_integer_ratio()
    return '(of_Z2 (%d) (%d))' % (n, -(d.bit_length() - 1))

STEPS = ['0.1', '0.01', '0.001', '0.0001', '0.5', '0.25', '0.2', '0.05', '0.005', '0.02', '0.0125', '0.3', '0.07', '0.0003', '0.125']
def gen_case(rng):
    grid = rng.choice(['r', 'rho'])
    r = rng.random()
    step = rng.choice(STEPS)
    k = rng.choice([1, 2, 3, 7, 10, 29, 63, 100, 1000, rng.randint(1, 20000), rng.randint(1, 200)])
    cut = str(fractions.Fraction(step) * k)
    if '/' in cut: cut = repr(float(fractions.Fraction(step) * k))
    else: cut = cut + '.0'
    from decimal import Decimal
    cut = str(Decimal(step) * k)
    nr = str(k + 1)
    vals = {}
    if r < 0.45: vals = {'cutoff': cut, 'dr': step}
    elif r < 0.6: vals = {'nr': nr, 'dr': step}
    elif r < 0.7: vals = {'nr': nr, 'cutoff': cut}
    elif r < 0.76: vals = {'nr': nr, 'dr': step, 'cutoff': cut}
    elif r < 0.82: vals = {'dr': step}
    elif r < 0.9:
        vals = rng.choice([{'nr': '0', 'dr': step, 'cutoff': cut}, {'nr': nr, 'dr': step, 'cutoff': '0'}, {'nr': '-3', 'cutoff': cut}, {'dr': '-0.1', 'cutoff': cut}, {'dr': '0', 'cutoff': cut},
                           {'cutoff': '-1.5', 'nr': nr}, {'nr': '0'}, {'cutoff': '0.0'}, {'dr': '0.0', 'nr': nr}, {'nr': '1', 'dr': step}, {'nr': '1', 'cutoff': cut}, {'nr': '1'}, {'cutoff': '0.04', 'dr': '0.1'}, {'cutoff': '0.06', 'dr': '0.1'}, {'nr': '2', 'cutoff': cut}])
    elif r < 0.93: vals = rng.choice([{}, {'nr': nr}, {'cutoff': cut}])
    elif r < 0.96: vals = rng.choice([{'cutoff': 'nan'}, {'cutoff': 'inf', 'dr': step}, {'cutoff': cut, 'dr': 'nan'}, {'dr': 'inf', 'nr': nr}, {'cutoff': '-inf', 'nr': nr}, {'cutoff': 'nan', 'dr': 'nan'}])
    else: vals = {'cutoff': repr(rng.uniform(0.5, 20)), 'dr': repr(rng.uniform(0.001, 0.5))}     # not a multiple
    return {'grid': grid, 'vals': vals}

def text_of(case, target='GULP'):
    suf = {'r': {'nr': 'nr', 'dr': 'dr', 'cutoff': 'cutoff'}, 'rho': {'nr': 'nrho', 'dr': 'drho', 'cutoff': 'cutoff_rho'}}[case['grid']]
    t = '[Tabulation]\ntarget : %s\n' % target + ''.join('%s : %s\n' % (suf[k], v) for k, v in case['vals'].items() if k not in case.get('added', ()))
    return t

def added_items(case):
    """options of the case that arrive as added items (`--add-item Tabulation:dr=..`) instead of lines of the file"""
    from atsim.potentials.config import ConfigParserOverrideTuple as O
    suf = {'r': {'nr': 'nr', 'dr': 'dr', 'cutoff': 'cutoff'}, 'rho': {'nr': 'nrho', 'dr': 'drho', 'cutoff': 'cutoff_rho'}}[case['grid']]
    return [O('Tabulation', suf[k], case['vals'][k]) for k in case.get('added', ())]

def run_impl(case):
    from atsim.potentials.config import ConfigParser
    def f():
        cp = ConfigParser(io.StringIO(text_of(case)), additional=added_items(case)) if case.get('added') else ConfigParser(io.StringIO(text_of(case)))
        t = cp.tabulation
        return (t.nr, t.cutoff) if case['grid'] == 'r' else (t.nrho, t.cutoff_rho)
    return sc.classify(f)

def model_expr(case):
    v = case['vals']
    nr = '(Some (%d))' % int(v['nr']) if 'nr' in v else 'None'
    dr = '(Some %s)' % b64(float(v['dr'])) if 'dr' in v else 'None'
    cut = '(Some %s)' % b64(float(v['cutoff'])) if 'cutoff' in v else 'None'
    return '(enc (init_cutoff %s %s %s))' % (nr, dr, cut)

def _quot(vals):
    """cutoff/dr for the input-distribution summary; None where either is not a finite positive float or the quotient is not finite"""
    import math
    try:
        c, d = float(vals['cutoff']), float(vals['dr'])
    except (ValueError, OverflowError):
        return None
    if not (math.isfinite(c) and math.isfinite(d) and d > 0): return None
    try:
        q = c / d
    except (ZeroDivisionError, OverflowError):
        return None
    return q if math.isfinite(q) else None

def correspond(ctx):
    rng = ctx['rng']
    cases = [gen_case(rng) for _ in range(1500 if ctx['thorough'] else 350)]
    res = sc.eval_results('C11', PRE, [model_expr(c) for c in cases])
    dis = []
    for c, zs in zip(cases, res):
        got = run_impl(c)
        want = {0: 'Ok', 1: 'CfgErr', 2: 'Internal'}[zs[0]]
        if got[0] != want: dis.append({'case': c, 'what': 'model %s, parser %s %s' % (want, got[0], got[1] if got[0] != 'Ok' else '')}); continue
        if want == 'Ok':
            nr, cut = got[1]
            mnr = zs[2] if zs[1] == 1 else None
            if zs[3] == 0: mcut = None
            elif zs[3] == 1: mcut = fractions.Fraction(zs[4]) * fractions.Fraction(2) ** zs[5]
            else: mcut = 'nonfinite'
            icut = None if cut is None else fractions.Fraction(cut)
            if mnr != nr or mcut != icut: dis.append({'case': c, 'what': 'model (nr=%r, cutoff=%r), parser (nr=%r, cutoff=%r)' % (mnr, float(mcut) if isinstance(mcut, fractions.Fraction) else mcut, nr, cut)})
    # written tables: the row count and grid of a commensurate cutoff/dr pair, through the pair and EAM targets
    tcases = [c for c in cases if set(c['vals']) == {'cutoff', 'dr'} and float(c['vals']['dr']) > 0 and float(c['vals']['cutoff']) > 0 and float(c['vals']['cutoff']) / float(c['vals']['dr']) < 400][: (60 if ctx['thorough'] else 12)]
    for c in tcases:
        f = oracle(dict(c, table=True))
        if f: dis.append({'case': c, 'what': '; '.join(f)[:300]})
    # every tabulation target writes the grid fixed by the two given values (nr != nrho on purpose)
    ntargets = 0
    for target in ALL_TARGETS:
        for (k, krho) in ([(8 - 1, 5)] if not ctx['thorough'] else [(8 - 1, 5), (12 - 1, 3), (16 - 1, 9)]) + ([(14 - 1, 6), (11 - 1, 5)] if target.startswith('DL_POLY_EAM') else []):     # TABEAM: row counts that leave a last line of 1, 2 and 3 values
            ntargets += 1
            try: got = target_grid(target, k, krho)
            except Exception as e:
                dis.append({'case': {'target': target, 'k': k, 'krho': krho}, 'what': 'tabulating target %s raised %s: %s' % (target, type(e).__name__, str(e)[:100])}); continue
            want = (k + 1, krho + 1 if target not in ('LAMMPS', 'DL_POLY', 'GULP', 'excel') else None)
            if got != want: dis.append({'case': {'target': target, 'k': k, 'krho': krho}, 'what': 'target %s wrote (nr, nrho) = %r, the [Tabulation] section fixes %r' % (target, got, want)})
    for fam in ('pair', 'eam', 'nosection', 'emptysection', 'dlpoly_default'):
        try: f = check_defaults(fam)
        except Exception as e: f = ['tabulating with default grids raised %s: %s' % (type(e).__name__, str(e)[:100])]
        if f: dis.append({'case': {'defaults_after': fam}, 'what': f[0]})
    dist = {'targets_checked': ntargets, 'combinations': {k: sum(1 for c in cases if '+'.join(sorted(c['vals'])) == k) for k in ('cutoff+dr', 'dr+nr', 'cutoff+nr', 'cutoff+dr+nr', 'dr', '', 'nr', 'cutoff')},
            'grids': {g: sum(1 for c in cases if c['grid'] == g) for g in ('r', 'rho')}, 'written_tables': len(tcases),
            'max_rows': max([int(q) for q in (_quot(c['vals']) for c in cases if set(c['vals']) == {'cutoff', 'dr'}) if q is not None] or [0])}
    return {'evaluations': len(cases) + len(tcases), 'cases': cases, 'nontrivial': core.distinct_count([c for c in cases if len(c['vals']) >= 2]),
            'rule': 'decimal steps 1e-4..0.5 x row counts 1..20000 (cutoff = k*step as an exact decimal), every two-of-three combination for the separation and the density grid, all-three / step-alone / non-positive inputs, '
                    'non-multiples: (nr, cutoff) of the parser compared bit for bit with the binary64 model; row counts of written GULP/setfl tables for commensurate pairs; non-trivial = at least two values given',
            'samples': cases[:3], 'distribution': dist, 'disagreements': dis[:20], 'oracle_cases': cases[:200]}

def defaults_after(family):
    """rows / steps written for a model that omits nr, cutoff (nrho, cutoff_rho) after a model of the same family that set them"""
    eam = family == 'eam'
    body = '[Pair]\nAl-Al : as.constant 1.0\n' + ('[EAM-Embed]\nAl : as.constant 2.0\n[EAM-Density]\nAl : as.constant 3.0\n' if eam else '')
    first = '[Tabulation]\ntarget : %s\nnr : 8\ncutoff : 2.0\n' % ('setfl' if eam else 'GULP') + ('nrho : 5\ncutoff_rho : 3.0\n' if eam else '') + body
    second = '[Tabulation]\ntarget : %s\n' % ('setfl' if eam else 'GULP') + body
    sc.tabulate(first)
    out = sc.tabulate(second)
    if eam:
        h = out.split('\n')[4].split()
        return {'nrho': int(h[0]), 'drho': float(h[1]), 'nr': int(h[2]), 'dr': float(h[3])}
    rows = out.split('\n')[2:-1]
    return {'nr': len(rows), 'dr': float(rows[1].split()[1])}

def defaults_after_nosection(variant):
    """the grid of a model that has no [Tabulation] section at all ('nosection') or an empty one ('emptysection'), read after a model that set
    nr / cutoff / nrho / cutoff_rho in the same process"""
    from atsim.potentials.config import Configuration
    first = '[Tabulation]\ntarget : setfl\nnr : 8\ncutoff : 2.0\nnrho : 5\ncutoff_rho : 3.0\n[Pair]\nAl-Al : as.constant 1.0\n[EAM-Embed]\nAl : as.constant 2.0\n[EAM-Density]\nAl : as.constant 3.0\n'
    sc.tabulate(first)
    sc.tabulate('[Tabulation]\ntarget : GULP\ncutoff : 2.0\ndr : 0.5\n[Pair]\nAl-Al : as.constant 1.0\n')
    second = ('[Tabulation]\n' if variant == 'emptysection' else '') + '[Pair]\nAl-Al : as.constant 1.0\n'
    tab = Configuration().read(io.StringIO(second))
    return {'nr': tab.nr, 'cutoff': tab.cutoff}

def check_defaults(family):
    if family == 'dlpoly_default':
        # the documented default (1001 rows) is not a row count a DL_POLY TABLE can have: the model that leaves nr out is refused, the
        # default is not quietly replaced by another number
        r = sc.classify(lambda: sc.tabulate('[Tabulation]\ntarget : DL_POLY\ncutoff : 10.0\n[Pair]\nAl-Al : as.constant 1.0\n'))
        return [] if r[0] == 'CfgErr' else ['target DL_POLY with nr left out: expected a configuration error (the default 1001 rows cannot be a DL_POLY TABLE), got %s %s' % (r[0], str(r[1])[:60] if r[0] != 'Ok' else '(a table was written)')]
    if family in ('nosection', 'emptysection'):
        got = defaults_after_nosection(family); want = {'nr': 1001, 'cutoff': 10.0}
        return [] if got == want else ['a model with %s, read after other models in the same process, gets the grid %r instead of the documented defaults %r' % (
            'no [Tabulation] section' if family == 'nosection' else 'an empty [Tabulation] section', got, want)]
    got = defaults_after(family)
    want = {'nr': 1001, 'dr': 0.01} if family == 'pair' else {'nr': 1001, 'dr': 0.01, 'nrho': 1001, 'drho': 0.1}
    bad = [k for k in want if (got[k] != want[k] if isinstance(want[k], int) else abs(got[k] - want[k]) > 1e-12)]
    return [] if not bad else ['a %s model that omits its grid options, tabulated after another model in the same process, was written with %r instead of the documented defaults %r' % (family, got, want)]

def oracle(case):
    """the statement, on the parser and on written tables"""
    import decimal
    if 'defaults_after' in case:
        try: return check_defaults(case['defaults_after'])
        except Exception as e: return ['tabulating with default grids raised %s: %s' % (type(e).__name__, str(e)[:100])]
    if 'target' in case:
        try: got = target_grid(case['target'], case['k'], case['krho'])
        except Exception as e: return ['tabulating target %s raised %s: %s' % (case['target'], type(e).__name__, str(e)[:100])]
        want = (case['k'] + 1, case['krho'] + 1 if case['target'] not in ('LAMMPS', 'DL_POLY', 'GULP', 'excel') else None)
        return [] if got == want else ['target %s wrote (nr, nrho) = %r, but cutoff/dr and cutoff_rho/drho fix %r' % (case['target'], got, want)]
    v = case['vals']; fails = []
    got = run_impl(case)
    D = decimal.Decimal
    def pos(x):
        import math
        return 0 < float(x) < math.inf
    keys = set(v)
    bad = (keys == {'nr', 'dr', 'cutoff'}) or keys == {'dr'} or any(not pos(x) for x in v.values()) or ('nr' in v and int(v['nr']) < 2)   # one row defines no grid
    if not bad and keys == {'cutoff', 'dr'} and round(float(v['cutoff']) / float(v['dr'])) < 1: bad = True      # less than half a step: a single row
    if bad:
        return [] if got[0] == 'CfgErr' else ['[Tabulation] with %r should be a configuration error, got %s %s' % (v, got[0], got[1])]
    if got[0] != 'Ok': return ['valid [Tabulation] %r refused: %s' % (v, got[1])]
    nr, cut = got[1]
    if keys == {'cutoff', 'dr'}:
        q = D(v['cutoff']) / D(v['dr'])
        if q == q.to_integral_value() and nr != int(q) + 1: fails.append('cutoff %s is %d steps of %s but nr = %r (expected %d rows)' % (v['cutoff'], int(q), v['dr'], nr, int(q) + 1))
        if cut != float(v['cutoff']): fails.append('cutoff changed to %r' % cut)
    if keys == {'nr', 'dr'}:
        want = float((int(v['nr']) - 1) * D(v['dr']))
        if nr != int(v['nr']) or abs(cut - want) > 1e-12 * max(1.0, want): fails.append('nr %s with dr %s gives cutoff %r (expected %r)' % (v['nr'], v['dr'], cut, want))
    if keys == {'nr', 'cutoff'} and (nr != int(v['nr']) or cut != float(v['cutoff'])): fails.append('nr/cutoff not kept: %r' % ((nr, cut),))
    if case.get('table') and keys == {'cutoff', 'dr'} and (D(v['cutoff']) / D(v['dr'])) == (D(v['cutoff']) / D(v['dr'])).to_integral_value():
        # (the statement is about commensurate pairs: otherwise the step actually used is cutoff/(nr-1), not dr)
        q = int(D(v['cutoff']) / D(v['dr']))
        if case['grid'] == 'r':
            txt = text_of(case, 'GULP') + '[Pair]\nA-A : as.constant 1.0\n'
            out = sc.classify(lambda: sc.tabulate(txt))
            if out[0] != 'Ok': return fails + ['GULP tabulation failed: %s' % out[1]]
            rows = out[1].split('\n')[2:-1]
            if len(rows) != q + 1: fails.append('GULP table has %d rows, expected %d' % (len(rows), q + 1))
            else:
                last = float(rows[-1].split()[1]); second = float(rows[1].split()[1])
                if abs(last - float(v['cutoff'])) > 1e-9 or abs(second - float(v['dr'])) > 1e-9: fails.append('GULP grid: second row at %r, last at %r (dr %s, cutoff %s)' % (second, last, v['dr'], v['cutoff']))
        else:
            txt = text_of(case, 'setfl') + 'nr : 3\ncutoff : 2.0\n[Pair]\n[EAM-Embed]\nAl : as.constant 1.0\n[EAM-Density]\nAl : as.constant 2.0\n'
            out = sc.classify(lambda: sc.tabulate(txt))
            if out[0] != 'Ok': return fails + ['setfl tabulation failed: %s' % out[1]]
            h = out[1].split('\n')[4].split()
            if int(h[0]) != q + 1 or abs(float(h[1]) - float(v['drho'] if 'drho' in v else v['dr'])) > 1e-12: fails.append('setfl header Nrho drho = %s %s, expected %d %s' % (h[0], h[1], q + 1, v['dr']))
    return fails

ALL_TARGETS = ['LAMMPS', 'DL_POLY', 'GULP', 'excel', 'setfl', 'setfl_fs', 'DL_POLY_EAM', 'DL_POLY_EAM_fs', 'eam_adp', 'excel_eam', 'excel_eam_fs']
def target_grid(target, k, krho, step='0.25', steprho='0.5'):
    """rows / grid actually written for 'cutoff = k*step, dr = step' and 'cutoff_rho = krho*steprho, drho = steprho'"""
    from decimal import Decimal as D
    import eam_common as ec
    eam = target not in ('LAMMPS', 'DL_POLY', 'GULP', 'excel')
    t = '[Tabulation]\ntarget : %s\ncutoff : %s\ndr : %s\n' % (target, D(step) * k, step)
    if eam: t += 'cutoff_rho : %s\ndrho : %s\n' % (D(steprho) * krho, steprho)
    t += '[Pair]\nAl-Al : as.constant 1.0\n'
    if eam and target.startswith('DL_POLY_EAM'):
        # two species, the pairs Al-Cu and Cu-Cu (and the cross densities) not declared: their blocks are zero-filled on the same grid
        t += '[EAM-Embed]\nAl : as.constant 2.0\nCu : as.constant 2.5\n[EAM-Density]\n' + ('Al->Al : as.constant 3.0\nCu->Cu : as.constant 3.5\n' if target.endswith('_fs') else 'Al : as.constant 3.0\nCu : as.constant 3.5\n')
    elif eam:
        t += '[EAM-Embed]\nAl : as.constant 2.0\n[EAM-Density]\n' + ('Al->Al : as.constant 3.0\n' if target.endswith('_fs') else 'Al : as.constant 3.0\n')
    if target == 'eam_adp': t += '[EAM-ADP-Dipole]\nAl-Al : as.constant 4.0\n[EAM-ADP-Quadrupole]\nAl-Al : as.constant 5.0\n'
    out = sc.tabulate(t)
    nr = nrho = None
    if target == 'LAMMPS': nr = int(out.split('\n')[1].split()[1]) + 1
    elif target == 'DL_POLY': nr = int(out.split('\n')[1][30:40])
    elif target == 'GULP': nr = len(out.split('\n')) - 3
    elif target in ('setfl', 'setfl_fs', 'eam_adp'):
        h = out.split('\n')[4].split(); nrho, nr = int(h[0]), int(h[2])
        body = [l for l in out.split('\n')[6:] if l.strip()]
        want = nrho + nr + nr + (2 * nr if target == 'eam_adp' else 0)
        if len(body) != want: return ('body has %d values, header implies %d' % (len(body), want), None)
    elif target.startswith('DL_POLY_EAM'):
        import p_c05
        declared, blocks = p_c05.parse_tabeam(out)
        for b in blocks:
            if len(b['vals']) != b['n']: return ('block %s %s announces %d values and holds %d' % (b['kind'], ' '.join(b['species']), b['n'], len(b['vals'])), None)
            if b['kind'] == 'embe': nrho = b['n'] if nrho in (None, b['n']) else -1
            else: nr = b['n'] if nr in (None, b['n']) else -1
    else:
        txt = ec.workbook_text(out)
        sheets = {x.split('\n')[0]: x.split('\n')[1:-1] for x in txt.split('#sheet ')[1:]}
        nr = len(sheets['Pair']) - 1
        if eam:
            nrho = len(sheets['EAM-Embed']) - 1
            if len(sheets['EAM-Density']) - 1 != nr: return ('EAM-Density sheet has %d rows, Pair sheet %d' % (len(sheets['EAM-Density']) - 1, nr), None)
    return (nr, nrho)

def search_cases(rng, n):
    yield {'defaults_after': 'pair'}
    yield {'defaults_after': 'eam'}
    yield {'defaults_after': 'nosection'}
    yield {'defaults_after': 'emptysection'}
    yield {'defaults_after': 'dlpoly_default'}
    # twelfth round: the options count the same whether they are lines of the file or added items (--add-item Tabulation:dr=..)
    for grid in ('r', 'rho'):
        for added in (['dr'], ['nr'], ['cutoff'], ['dr', 'cutoff']):
            yield {'grid': grid, 'vals': {'nr': '11', 'cutoff': '5.0', 'dr': '0.25'}, 'added': added}         # all three: refused
        yield {'grid': grid, 'vals': {'nr': '11', 'cutoff': '5.0'}, 'added': ['cutoff']}
        yield {'grid': grid, 'vals': {'cutoff': '5.0', 'dr': '0.25'}, 'added': ['dr']}
        yield {'grid': grid, 'vals': {'nr': '11', 'dr': '0.25'}, 'added': ['nr', 'dr']}
    for _ in range(n): yield gen_case(rng)
def finding_for(case, fails): return None
def replay_finding(f): return False
