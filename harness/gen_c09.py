"""C09: exact bodies of the definition grammar, of the conversion of its parse tree into tuple chains, and of the reducing
modifiers -- model/DefnSyntax.v and the reduce / c_trans definitions of model/Callable.v restate them."""
import ast
from py2coq import assert_body, load_function, strip_docstring, Refuse
G = 'atsim/potentials/config/_multi_range_parser.py'
C = 'atsim/potentials/config/_config_parser.py'
M = 'atsim/potentials/_modifiers.py'
def generate(repo):
    assert_body(repo, G, '_grammar', '''
        from pyparsing import pyparsing_common
        number = pyparsing_common.number
        identifier = Combine(pyparsing_common.identifier+ZeroOrMore(Literal(".")+pyparsing_common.identifier))

        range_start = Group((Literal(u">=") | Literal(u">"))("range_type") + number("start"))("range_start")

        modified = Forward()
        parameter = number + WordEnd(alphanums + "._")
        potential_description = Group(identifier("potential_label") + Group(ZeroOrMore(parameter))("potential_parameters"))("potential_description")
        potential_definition =  modified | potential_description

        multi_range = Group(Optional(range_start) + potential_definition + ZeroOrMore(range_start + potential_definition))("multi_range")

        lpar = Literal('(').suppress()
        rpar = Literal(')').suppress()

        modifier_parameters = delimitedList(multi_range)

        modified << Group(identifier("modifier_label") + lpar +  Group(modifier_parameters)("modifier_parameters") + rpar)("modifier")
        return  multi_range
    ''')
    assert_body(repo, C, 'ConfigParser._descend_tree', '''
        try:
          first = next(tree_it)
        except StopIteration:
          return None

        name = first.getName()

        if name == 'range_start':
          range_defn = MultiRangeDefinitionTuple(
            range_type = first['range_type'],
            start = first['start'])
          pot = next(tree_it)
        else:
          range_defn = self._default_range_start
          pot = first

        if pot.getName() == 'modifier':
          return self._descend_potential_modifier(pot, tree_it, range_defn)

        if pot.getName() == 'potential_description':
          return self._descend_potential_description(pot, tree_it, range_defn)

        raise Exception("Unknown node type when parsing potential instance description: {}".format(pot.getName()))
    ''')
    assert_body(repo, C, 'ConfigParser._descend_potential_modifier', '''
        modifier_label = modifier_node['modifier_label']

        params = []
        modifier_parameters = modifier_node['modifier_parameters']
        for p in modifier_parameters:
          ptuple = self._descend_tree(iter(p))
          params.append(ptuple)

        n = self._descend_tree(sibling_iterator)

        ret_tuple = PotentialModifierTuple(modifier = modifier_label,
          potential_forms = params,
          start = range_defn,
          next = n)

        return ret_tuple
    ''')
    assert_body(repo, C, 'ConfigParser._descend_potential_description', '''
        potential = curr_node['potential_label']
        parameters = [p for p in curr_node['potential_parameters']]
        n = self._descend_tree(sibling_iterator)
        ret_tuple = PotentialFormInstanceTuple(
          potential_form = potential,
          parameters = parameters,
          start = range_defn,
          next = n)
        return ret_tuple
    ''')
    assert_body(repo, C, 'ConfigParser._parse_multi_range', '''
        species = k
        value = value.strip()

        try:
          parse_tree = multi_range_parser.parseString(value, parseAll = True)
        except pyparsing.ParseException as exc:
          msg = "Error when defining potential instance: '{value}' for species = {species}. {msg} (at char: {loc}).".format(
            species = species,
            value = value,
            loc = exc.loc,
            msg = exc.msg)
          raise ConfigParserException(msg)

        tree_it = iter(parse_tree[0])
        potform_instance = self._descend_tree(tree_it)
        return tuple_type(species, potform_instance)
    ''')
    assert_body(repo, M, '_modifier_from_func_reduce', '''
        logger = logging.getLogger(__name__).getChild(logger_name)

        logger.debug("Creating '{}' modifier for:".format(logger_name))
        pot_callables = []
        for i,pfi in enumerate(potential_forms):
          logger.debug("  {}: {}".format(i+1, pfi))
          pot_callable = potential_form_builder.create_potential_function(pfi)
          pot_callables.append(pot_callable)

        mod = functools.reduce(func, pot_callables)

        return mod
    ''')
    assert_body(repo, M, 'sum', 'mod = _modifier_from_func_reduce("sum", plus, potential_forms, potential_form_builder)\nreturn mod')
    assert_body(repo, M, 'product', 'from atsim.potentials import product\nmod = _modifier_from_func_reduce("product", product, potential_forms, potential_form_builder)\nreturn mod')
    assert_body(repo, M, 'pow', 'from atsim.potentials import pow\nmod = _modifier_from_func_reduce("pow", pow, potential_forms, potential_form_builder)\nreturn mod')
    src = open(repo + '/' + M, encoding='utf-8').read()
    if 'from . import plus' not in src and 'from atsim.potentials import plus' not in src and 'import plus' not in src: raise Refuse('_modifiers: plus is not the package-level plus')
    return {}
