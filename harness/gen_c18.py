"""C18: exact bodies of the legacy TableReader, of the [Table-Form] data parsers, of Cubic_Spline_Table_Form and of the
plot helpers (fail closed) -- model/TableReader.v restates them; plot_step / plot_x are translated by gen_layout."""
from py2coq import assert_body, load_function, Refuse
import ast
T = 'atsim/potentials/_tablereaders.py'
C = 'atsim/potentials/config/_config_parser.py'
I = 'atsim/potentials/__init__.py'
F = 'atsim/potentials/tableforms.py'
def generate(repo):
    assert_body(repo, T, 'TableReaderBase.getValue', '''
        lowidx = self._findIndex(x)
        if lowidx == None:
          return 0.0

        lx, ly = self[lowidx]
        if lx == x:
          return ly

        highidx = lowidx +1
        if highidx == len(self):
          return 0.0

        hx,hy = self[highidx]

        m = (hy-ly)/(hx - lx)
        c = ly - (m*lx)
        return (m*x) + c
    ''')
    assert_body(repo, T, 'TableReaderBase._findIndex', '''
        if x< self[0][0] or x> self[-1][0]:
          return None

        idx = bisect.bisect_left(self.xproxy, x)
        if self[idx][0] == x:
          return idx
        else:
          return idx-1
    ''')
    assert_body(repo, T, 'TableReaderBase.__init__', '''
        self._populate(fileobj)
        self.xproxy = _XProxy(self)

        if inputConvert == None and outputConvert == None:
          return

        if inputConvert == None:
          inputConvert = lambda x: x

        if outputConvert == None:
          outputConvert = lambda x: x

        for (i, (x,y)) in enumerate(self):
          self[i] = (inputConvert(x), outputConvert(y))
    ''')
    assert_body(repo, T, '_XProxy.__getitem__', 'return self._wrapped[idx][0]')
    assert_body(repo, T, '_XProxy.__len__', 'return len(self._wrapped)')
    assert_body(repo, T, '_XProxy.__init__', 'self._wrapped = wrapped')
    assert_body(repo, T, 'DatReader._populate', '''
        splitre = re.compile(r'\\s+')
        results = []
        for line in fileobj:
          line = line.strip()
          if len(line) == 0 or line[0] == '#':
            continue
          (x,y) = splitre.split(line)[:2]

          results.append( (float(x), float(y) ))
        results.sort()
        self.extend(results)
    ''')
    assert_body(repo, I, 'TableReader.__init__', 'self._tablereader = _tablereaders.DatReader(fileobject)')
    assert_body(repo, I, 'TableReader.__call__', 'return self._tablereader.getValue(separation)')
    assert_body(repo, I, 'plotToFile', '''
        step = (highx - lowx) / float(steps)

        for i in range(steps):
          v = lowx + float(i)*step
          y = func(v)

          fileobj.write("{0} {1}\\n".format(v,y))
    ''')
    assert_body(repo, I, 'plot', '''
        with open(filename, 'w') as outfile:
          plotToFile(outfile, lowx, highx, func, steps)
    ''')
    assert_body(repo, I, 'plotPotentialObjectToFile', '''
        def f(r):
          return potentialObject.energy(r)
        plotToFile(fileobj, lowx, highx, f, steps)
    ''')
    assert_body(repo, I, 'plotPotentialObject', '''
        with open(filename, 'w') as outfile:
          plotPotentialObjectToFile(outfile, lowx, highx, potentialObject, steps)
    ''')
    assert_body(repo, C, '_TableFormSection._parse_xy', '''
        xy_string = section["xy"]

        try:
          xy = [float(v) for v in xy_string.split()]
        except ValueError as e:
          raise ConfigParserException("Error converting value into a float whilst parsing the 'xy' entry of '{}': {}".format(section_name, e.args[0]))

        if len(xy) % 2 != 0:
          raise ConfigParserException("The number of data items in 'xy' is not even for '{}'. This indicates a different number of 'x' and 'y' items".format(section_name))

        even = True
        x = []
        y = []
        for v in xy:
          if even:
            x.append(v)
          else:
            y.append(v)
          even = not even

        return (x,y)
    ''')
    assert_body(repo, C, '_TableFormSection._parse_x_y', '''
        x_string = section["x"]
        y_string = section["y"]

        try:
          x = [float(v) for v in x_string.split()]
        except ValueError as e:
          raise ConfigParserException("Error converting value into a float whilst parsing the 'x' entry of '{}': {}".format(section_name, e.args[0]))

        try:
          y = [float(v) for v in y_string.split()]
        except ValueError as e:
          raise ConfigParserException("Error converting value into a float whilst parsing the 'y' entry of '{}': {}".format(section_name, e.args[0]))

        if len(x) != len(y):
          raise ConfigParserException("The number of data items given in the  'x' and 'y' entries of '{}' do not match ({} != {})".format(section_name, len(x), len(y)))

        return (x,y)
    ''')
    assert_body(repo, C, '_TableFormSection._parse_data', '''
        if "x" in section or "y" in section:
          if not ("x" in section and "y" in section):
            raise ConfigParserException("Did not find both 'x' and 'y' entries whilst parsing the data for section '{}'".format(section_name))

          if "xy" in section:
            raise ConfigParserException("Data in a {} section can either be given using 'xy' or 'x' and 'y' entries. Not both. For section '{}'".format(self._section_name_prefix, section_name))

          data = self._parse_x_y(section_name,section)
        elif "xy" in section:
          if "x" in section or "y" in section:
            raise ConfigParserException("Data in a {} section can either be given using 'xy' or 'x' and 'y' entries. Not both. For section '{}'".format(self._section_name_prefix, section_name))

          data = self._parse_xy(section_name, section)
        else:
          raise ConfigParserException("Could not parse data from '{}', neither 'xy' or 'x' and 'y' entries found.".format(section_name))

        for values in data:
          for v in values:
            if not (float("-inf") < v < float("inf")):
              raise ConfigParserException("The data of '{}' must be finite numbers, found: {}".format(section_name, v))

        return data
    ''')
    assert_body(repo, C, '_TableFormSection._parse_name', '''
        m = cls._section_name_regex.match(section_name)
        name = m.groups()[0]
        name = name.strip()
        if not name:
          raise ConfigParserException("A table form needs a name: [{}:NAME]. Section found: [{}]".format(cls._section_name_prefix, section_name))
        return name
    ''')
    assert_body(repo, C, '_TableFormSection._parse_section', '''
        name = self._parse_name(section_name)
        section = self._cfg_parser[section_name]

        interpolation = section.get(u"interpolation", u"cubic_spline")
        x,y = self._parse_data(section_name, section)

        table_tuple = TableFormTuple(
          name = name,
          interpolation = interpolation,
          x = x,
          y = y)

        return table_tuple
    ''')
    assert_body(repo, F, 'Cubic_Spline_Table_Form.__init__', '''
        from scipy.interpolate import InterpolatedUnivariateSpline
        # ext =1 means that a value of zero is returned outside the data range.
        self._interpolant = InterpolatedUnivariateSpline(x_data, y_data, ext =1)
        self._deriv = self._interpolant.derivative()
        self._deriv2 = self._deriv.derivative()
    ''')
    assert_body(repo, F, 'Cubic_Spline_Table_Form.__call__', 'return float(self._interpolant(x))')
    assert_body(repo, F, 'Cubic_Spline_Table_Form.deriv', 'return float(self._deriv(x))')
    assert_body(repo, F, 'Cubic_Spline_Table_Form.deriv2', 'return float(self._deriv2(x))')
    assert_body(repo, 'atsim/potentials/config/_table_form_builder.py', 'Table_Form_Factory.__init__', 'self._obj = table_form_cls(table_form_tuple.x, table_form_tuple.y)')
    assert_body(repo, 'atsim/potentials/config/_table_form_builder.py', 'Table_Form_Factory.__call__', 'return self._obj')
    return {}
