"""C06 -- built-in forms evaluate their documented formula through all access routes."""
import decimal, io, math, random
from decimal import Decimal as D
import core, forms_common as fc
from core import Broken

ID = 'C06'
GENMODS = ['gen_forms']
TARGET = 'props/C06.vo'
PROOF_FILES = ['proof/C06.v', 'proof/C07TT.v', 'model/Routes.v', 'props/C06.v']
AXIOMS = ['reals', 'classic', 'primitives']
TRUSTED = [
    'Coq 8.16.1 kernel; Coq Reals axioms (sig_forall_dec, sig_not_dec, functional_extensionality_dep), Classical_Prop.classic (Coquelicot), primitive int/float axioms used by the interval tactic',
    'translator tools/py2coq.py + harness/gen_forms.py (expression kernels of potentialfunctions.py -> terms over R; exact decimal rationals for literals; refuses a signature that differs from the documented parameter order); validated on every run by interval-certified point evaluations against the running code',
    'floats are modelled as reals (rounding error not modelled); spec/Forms.v is a hand transcription of docs/reference/potential_forms.rst (ZBL: the cited universal constants = _as_sympy, not the LAMMPS variant printed in the .rst)',
    'tools/tt_ideal.py is proof search only: its constants are checked by field/interval in proof/C07TT.v',
    'access routes (_rpartial, _FunctionFactory, Potential_Form, _Python_Potential_Function) are modelled by model/Routes.v and compared bit-for-bit in the implementation on every run',
]

decimal.getcontext().prec = 60

def dexp(x): return x.exp()
def dpow(x, y):
    if y == y.to_integral_value():
        return x ** int(y)
    return (y * x.ln()).exp()

def documented(name, r, p):
    """documented closed forms (docs/reference/potential_forms.rst), evaluated with 60 digits"""
    r = D(r); p = [D(x) for x in p]
    if name == 'bornmayer': return p[0] * dexp(-r / p[1])
    if name == 'buck': return p[0] * dexp(-r / p[1]) - p[2] / r ** 6
    if name == 'constant': return p[0]
    if name == 'coul':
        pi = D('3.14159265358979323846264338327950288419716939937510582097494')
        return p[0] * p[1] / (4 * pi * D('0.0055264') * r)
    if name == 'exponential': return p[0] * dpow(r, p[1])
    if name == 'exp_spline': return dexp(p[0] + p[1] * r + p[2] * r ** 2 + p[3] * r ** 3 + p[4] * r ** 4 + p[5] * r ** 5) + p[6]
    if name == 'hbnd': return p[0] / r ** 12 - p[1] / r ** 10
    if name == 'lj': return 4 * p[0] * (p[1] ** 12 / r ** 12 - p[1] ** 6 / r ** 6)
    if name == 'morse': return p[2] * (dexp(-2 * p[0] * (r - p[1])) - 2 * dexp(-p[0] * (r - p[1])))
    if name == 'polynomial': return sum((c * (r ** i if i else D(1)) for i, c in enumerate(p)), D(0))
    if name == 'sqrt': return p[0] * r.sqrt()
    if name == 'zero': return D(0)
    if name == 'tang_toennies':
        A, b, C6, C8, C10 = p
        R = r / D('0.5292')
        def f2n(x, n):
            s = D(0); t = D(1)
            for k in range(2 * n + 1):
                if k > 0: t = t * x / k
                s += t
            return 1 - dexp(-x) * s
        return (A * dexp(-b * R) - (f2n(b * R, 3) * C6 / R ** 6 + f2n(b * R, 4) * C8 / R ** 8 + f2n(b * R, 5) * C10 / R ** 10)) * D('27.211')
    if name == 'zbl':
        z1, z2 = p
        a = D('0.8854') * D('0.529') / (dpow(z1, D('0.23')) + dpow(z2, D('0.23')))
        x = r / a
        phi = D('0.1818') * dexp(-D('3.2') * x) + D('0.5099') * dexp(-D('0.9423') * x) + D('0.2802') * dexp(-D('0.4029') * x) + D('0.02817') * dexp(-D('0.2016') * x)
        return D('14.39942') * z1 * z2 / r * phi
    raise KeyError(name)

def _fmt(x):
    return repr(float(x))

def routes(name, r, params):
    """value through the four routes; returns dict route -> float or ('EXC', class)"""
    import atsim.potentials.potentialfunctions as pfn
    import atsim.potentials.potentialforms as pfm
    from atsim.potentials.config import Configuration
    out = {}
    def guard(k, thunk):
        try: out[k] = thunk()
        except Exception as e: out[k] = ('EXC', type(e).__name__, str(e)[:100])
    guard('function', lambda: getattr(pfn, name)(r, *params))
    guard('factory', lambda: getattr(pfm, name)(*params)(r))
    def potable_form():
        txt = '[Tabulation]\ntarget : LAMMPS\nnr : 5\ncutoff : 1.0\n[Pair]\nA-B : >=-1000.0 as.%s %s\n' % (name, ' '.join(_fmt(p) for p in params))
        tab = Configuration().read(io.StringIO(txt))
        return tab.potentials[0].energy(r)
    guard('potable_form', potable_form)
    def potable_call():
        ps = ['p%d' % i for i in range(len(params))]
        # the formula language resolves names whatever their case: as.ZBL(...), as.Zbl(...) and as.zbl(...) are the same call
        nm = [name, name.upper(), name.capitalize()][(len(params) + int(abs(float(r)) * 8)) % 3]
        txt = ('[Tabulation]\ntarget : LAMMPS\nnr : 5\ncutoff : 1.0\n[Potential-Form]\ng(%s) = as.%s(%s)\n[Pair]\nA-B : >=-1000.0 g %s\n'
               % (', '.join(['r'] + ps), nm, ', '.join(['r'] + ps), ' '.join(_fmt(p) for p in params)))
        tab = Configuration().read(io.StringIO(txt))
        return tab.potentials[0].energy(r)
    guard('potable_call', potable_call)
    return out

def arity_probe(name, params, delta):
    """potable routes with one parameter too many / too few -> class of the outcome"""
    from atsim.potentials.config import Configuration
    from atsim.potentials.config._common import ConfigurationException
    ps = list(params) + [1.0] if delta > 0 else list(params)[:-1]
    res = {}
    txt = '[Tabulation]\ntarget : LAMMPS\nnr : 5\ncutoff : 1.0\n[Pair]\nA-B : >=-1000.0 as.%s %s\n' % (name, ' '.join(_fmt(p) for p in ps))
    try:
        Configuration().read(io.StringIO(txt)).potentials[0].energy(1.5); res['potable_form'] = 'Ok'
    except ConfigurationException: res['potable_form'] = 'CfgErr'
    except Exception as e: res['potable_form'] = 'Internal:' + type(e).__name__
    names = ['p%d' % i for i in range(len(ps))]
    txt = ('[Tabulation]\ntarget : LAMMPS\nnr : 5\ncutoff : 1.0\n[Potential-Form]\ng(%s) = as.%s(%s)\n[Pair]\nA-B : >=-1000.0 g %s\n'
           % (', '.join(['r'] + names), name, ', '.join(['r'] + names), ' '.join(_fmt(p) for p in ps)))
    try:
        Configuration().read(io.StringIO(txt)).potentials[0].energy(1.5); res['potable_call'] = 'Ok'
    except ConfigurationException: res['potable_call'] = 'CfgErr'
    except Exception as e: res['potable_call'] = 'Internal:' + type(e).__name__
    return res

def gen_multi(rng):
    """one model using the same form several times with parameter vectors that differ in one coordinate"""
    name = rng.choice([n for n in fc.FORM_NAMES if n not in ('zero',)])
    params, r = fc.sample_params(name, rng)
    entries = [list(params)]
    for _ in range(rng.randint(1, 3)):
        q = list(rng.choice(entries))
        k = rng.randrange(len(q))
        if name in ('exponential', 'zbl', 'tang_toennies', 'lj', 'morse', 'buck', 'bornmayer', 'sqrt', 'hbnd') and name != 'coul' and k == (1 if name in ('buck', 'bornmayer') else -99):
            q[k] = q[k] * 2
        else:
            q[k] = {-1.0: -2.0, -2.0: -1.0}.get(q[k], q[k] + rng.choice([0.125, -0.125, 1.0]))
        if name == 'zbl': q = [abs(x) + 1.0 for x in q]
        if name == 'exponential' and k == 1: q[k] = rng.choice([-2.0, -1.0, 0.5, 2.0])
        entries.append(q)
    if name in ('coul', 'constant', 'polynomial', 'morse'):     # forms that accept negative integers everywhere
        base = list(entries[0]); k = rng.randrange(len(base))
        a = list(base); b = list(base); a[k] = -1.0; b[k] = -2.0
        if name == 'morse' and k < 2: a[k], b[k] = 1.0, 2.0
        entries += [a, b]
    return {'multi': name, 'entries': entries, 'r': r}

def run_multi(case):
    """energies of every entry through the potable form route, the potable formula route and the function route"""
    import atsim.potentials.potentialfunctions as pfn
    from atsim.potentials.config import Configuration
    name, entries, r = case['multi'], case['entries'], case['r']
    lab = ['S%d' % i for i in range(len(entries))]
    n = len(entries[0])
    ps = ['p%d' % i for i in range(n)]
    txt = '[Tabulation]\ntarget : LAMMPS\nnr : 5\ncutoff : 1.0\n[Potential-Form]\ng(%s) = as.%s(%s)\n[Pair]\n' % (', '.join(['r'] + ps), name, ', '.join(['r'] + ps))
    for l, e in zip(lab, entries):
        txt += '%s-%s : >=-1000.0 as.%s %s\n' % (l, l, name, ' '.join(_fmt(p) for p in e))
        if len(e) == n: txt += '%s-X : >=-1000.0 g %s\n' % (l, ' '.join(_fmt(p) for p in e))
    tab = Configuration().read(io.StringIO(txt))
    got = {(p.speciesA, p.speciesB): p.energy(r) for p in tab.potentials}
    out = []
    for l, e in zip(lab, entries):
        out.append({'params': e, 'function': getattr(pfn, name)(r, *e), 'potable_form': got[(l, l)], 'potable_call': got.get((l, 'X'))})
    return out

def gen_cases(rng, per_form):
    cases = []
    for name in fc.FORM_NAMES:
        for _ in range(per_form):
            params, r = fc.sample_params(name, rng)
            cases.append({'form': name, 'r': r, 'params': params})
    # polynomials of high order (12 and 15 coefficients): every coefficient counts, whatever their number
    cases.append({'form': 'polynomial', 'r': 2.0, 'params': [0.75, -1.5, 2.25, -0.5, 0.125, 1.0, -0.375, 0.0625, 0.25, -0.03125, 0.5, -0.21875]})
    cases.append({'form': 'polynomial', 'r': -1.25, 'params': [1.0, 0.5, -0.25, 0.125, 2.0, -1.0, 0.5, 0.25, -0.125, 1.5, -0.75, 0.375, 0.0625, -0.5, 0.25]})
    return cases

def tol_for(v):
    return 1e-9 * max(1.0, abs(v))

def correspond(ctx):
    rng = ctx['rng']
    per = 40 if ctx['thorough'] else 7
    cases = gen_cases(rng, per)
    dis = []
    goals = []
    vals = []
    for i, c in enumerate(cases):
        try:
            v = fc.impl_form(c['form'])(c['r'], *c['params'])
        except Exception as e:
            dis.append({'case': c, 'what': 'implementation raised %s' % type(e).__name__}); vals.append(None); continue
        vals.append(v)
        if not (isinstance(v, (int, float)) and math.isfinite(v)):
            dis.append({'case': c, 'what': 'non-finite value %r' % (v,)}); continue
        goals.append(fc.point_goal(i, fc.coq_apply(c['form'], 'call', c['r'], c['params']), v, tol_for(v)))
    for i in fc.run_point_goals('C06p', goals):
        dis.append({'case': cases[i], 'what': 'generated Coq term for %s.__call__ is not within tolerance of the implementation value %r' % (cases[i]['form'], vals[i])})
    # routes (bit-for-bit) on a subset, plus buck4 (factory and potable form only)
    nroutes = 0
    sub = cases if ctx['thorough'] else cases[::2]
    for c in sub:
        ro = routes(c['form'], c['r'], c['params'])
        nroutes += 1
        vs = list(ro.values())
        if any(isinstance(v, tuple) for v in vs) or len({float(v).hex() for v in vs}) != 1:
            dis.append({'case': c, 'what': 'access routes disagree: %r' % (ro,)})
    multis = [gen_multi(rng) for _ in range(120 if ctx['thorough'] else 30)]
    for m in multis:
        try:
            res = run_multi(m)
        except Exception as e:
            dis.append({'case': m, 'what': 'multi-entry model raised %s: %s' % (type(e).__name__, str(e)[:100])}); continue
        for e in res:
            vs = [e['function'], e['potable_form']] + ([e['potable_call']] if e['potable_call'] is not None else [])
            if len({float(v).hex() for v in vs}) != 1:
                dis.append({'case': m, 'what': 'entries of one model interfere / routes disagree: %r' % (e,)}); break
    narity = 0
    for name in fc.FORM_NAMES:
        if name in ('polynomial',): continue
        params, r = fc.sample_params(name, rng)
        for delta in (+1, -1):
            if delta < 0 and not params: continue
            a = arity_probe(name, params, delta)
            narity += 1
            if a != {'potable_form': 'CfgErr', 'potable_call': 'CfgErr'}:
                dis.append({'case': {'form': name, 'params': params, 'arity_delta': delta, 'r': r}, 'what': 'wrong arity not a configuration error: %r' % a})
    dist = {'multi_entry_models': len(multis), 'per_form': per, 'forms': len(fc.FORM_NAMES), 'route_cases': nroutes, 'arity_cases': narity,
            'negative_or_zero_params': sum(1 for c in cases if any(p <= 0 for p in c['params'])),
            'polynomial_orders': sorted({len(c['params']) - 1 for c in cases if c['form'] == 'polynomial'})}
    return {'evaluations': len(cases) + nroutes * 4 + narity * 2, 'cases': cases, 'nontrivial': core.distinct_count([c for c in cases if c['params']]),
            'rule': 'per form %d random (r, parameter vector) points in the form\'s domain (multiples of 1/8 incl. zero/negative values, polynomial orders 0..8, fractional exponents): '
                    'interval-certified |generated term - implementation value| <= 1e-9 max(1,|v|); four access routes compared bit-for-bit; wrong-arity probes; '
                    'non-trivial = form with at least one parameter; distinct by canonical JSON' % per,
            'samples': cases[:2] + cases[-2:] + multis[:1], 'distribution': dist, 'disagreements': dis[:20], 'oracle_cases': cases + multis}

def oracle(case):
    if 'multi' in case:
        fails = []
        try:
            res = run_multi(case)
        except Exception as e:
            return ['model using as.%s %d times raised %s: %s' % (case['multi'], len(case['entries']), type(e).__name__, str(e)[:100])]
        for e in res:
            want = documented(case['multi'], case['r'], e['params'])
            for k in ('function', 'potable_form', 'potable_call'):
                v = e[k]
                if v is None: continue
                if abs(D(v) - want) > D('1e-8') * max(D(1), abs(want)):
                    fails.append('route %s: as.%s%r at r=%r gives %r in a model that uses the form %d times, documented formula gives %s'
                                 % (k, case['multi'], tuple(e['params']), case['r'], v, len(case['entries']), str(want)[:25]))
        return fails
    name, r, params = case['form'], case['r'], case['params']
    if 'arity_delta' in case:
        a = arity_probe(name, params, case['arity_delta'])
        return [] if a == {'potable_form': 'CfgErr', 'potable_call': 'CfgErr'} else ['wrong number of parameters for as.%s is not refused as a configuration error: %r' % (name, a)]
    ro = routes(name, r, params)
    fails = []
    want = documented(name, r, params)
    for k, v in ro.items():
        if isinstance(v, tuple):
            fails.append('route %s raised %s (%s)' % (k, v[1], v[2])); continue
        err = abs(D(v) - want)
        if err > D('1e-8') * max(D(1), abs(want)):
            fails.append('route %s: as.%s%r at r=%r gives %r, documented formula gives %s' % (k, name, tuple(params), r, v, str(want)[:25]))
    return fails

def search_cases(rng, n):
    for c in gen_cases(rng, max(1, n // (2 * len(fc.FORM_NAMES)))):
        yield c
    for _ in range(n // 4):
        yield gen_multi(rng)

def finding_for(case, fails): return None
def replay_finding(f): return False
