"""C10: regenerate coq/gen/Splines.v -- the linear systems of Exp_Spline and Buck4_Spline (matrix rows and right-hand
sides translated entry by entry from the np.array literals), and assert the exact bodies of the glue around them
(Spline_Point, the shift of non-positive values, region selection of Custom_SplinePotential, the spline() modifier,
the factories and potentialforms.buck4), which model/Spline.v restates."""
import ast, os
from py2coq import assert_body, load_function, strip_docstring, Refuse, RExpr, write_if_changed
S = 'atsim/potentials/spline/__init__.py'
M = 'atsim/potentials/_modifiers.py'
P = 'atsim/potentials/potentialforms.py'

def _same(node, src):
    return ast.dump(node) == ast.dump(ast.parse(src).body[0])

def _expect(stmts, k, src, what):
    if k >= len(stmts) or not _same(stmts[k], src):
        raise Refuse('%s: statement %d is not `%s` but `%s`' % (what, k, src, ast.unparse(stmts[k]) if k < len(stmts) else '<end>'))

def _rows(node, what, nrows=None):
    """np.array([[..], ..]) or np.array([..]) -> list of lists / list of ast expressions"""
    if not (isinstance(node, ast.Call) and ast.unparse(node.func) == 'np.array' and len(node.args) == 1 and not node.keywords and isinstance(node.args[0], ast.List)):
        raise Refuse('%s: not an np.array literal' % what)
    return node.args[0].elts

def gen_exp(repo, src):
    fn = load_function(repo, S, 'Exp_Spline._init_spline_coefficients')
    b = strip_docstring(fn.body)
    what = 'Exp_Spline._init_spline_coefficients'
    pre = ['import numpy as np', 'sx = self.detach_point.r', 'sy = self.detach_point.v', 'sdydx = self.detach_point.deriv', 'sddydx = self.detach_point.deriv2',
           'ex = self.attach_point.r', 'ey = self.attach_point.v', 'edydx = self.attach_point.deriv', 'eddydx = self.attach_point.deriv2', 'inter = 0.0',
           'if sy <= 0.0 or ey <= 0.0:\n  inter = 1.0 - min([sy, ey])\n  sy += inter\n  ey += inter\n  inter = -inter']
    for k, s in enumerate(pre): _expect(b, k, s, what)
    k = len(pre)
    if not (isinstance(b[k], ast.Assign) and ast.unparse(b[k].targets[0]) == 'A'): raise Refuse('%s: A expected' % what)
    rows = _rows(b[k].value, what + ' A')
    if len(rows) != 6 or any(not isinstance(r, ast.List) or len(r.elts) != 6 for r in rows): raise Refuse('%s: A is not 6x6' % what)
    rx = RExpr(what, {'sx': 'sx', 'ex': 'ex'}, source=src)
    A = [[rx.tr(e) for e in r.elts] for r in rows]
    if not (isinstance(b[k + 1], ast.Assign) and ast.unparse(b[k + 1].targets[0]) == 'B'): raise Refuse('%s: B expected' % what)
    rhs = _rows(b[k + 1].value, what + ' B')
    if len(rhs) != 6: raise Refuse('%s: B has %d entries' % (what, len(rhs)))
    rx2 = RExpr(what, {n: n for n in ('sy', 'ey', 'sdydx', 'edydx', 'sddydx', 'eddydx')}, source=src)
    B = [rx2.tr(e) for e in rhs]
    _expect(b, k + 2, 'coefficients = [float(c) for c in np.linalg.solve(A,B)]', what)
    _expect(b, k + 3, 'coefficients.append(inter)', what)
    _expect(b, k + 4, 'return tuple(coefficients)', what)
    if len(b) != k + 5: raise Refuse('%s: extra statements' % what)
    t = 'Definition exp_A (sx ex : R) : list (list R) :=\n  [' + ';\n   '.join('[' + '; '.join(r) + ']' for r in A) + '].\n\n'
    t += 'Definition exp_rhs (sy ey sdydx edydx sddydx eddydx : R) : list R :=\n  [' + ';\n   '.join(B) + '].\n\n'
    return t

def gen_buck4(repo, src):
    fn = load_function(repo, S, 'Buck4_Spline._init_spline_coefficients')
    b = strip_docstring(fn.body)
    what = 'Buck4_Spline._init_spline_coefficients'
    k = 0
    env = {}
    lets = []
    heads = {'r_dp': 'self.detach_point.r', 'r_min': 'self.r_min', 'r_ap': 'self.attach_point.r'}
    rx = RExpr(what, env, source=src)
    while k < len(b) and isinstance(b[k], ast.Assign) and isinstance(b[k].targets[0], ast.Name) and b[k].targets[0].id != 'M':
        nm = b[k].targets[0].id
        if nm in heads:
            if ast.unparse(b[k].value) != heads[nm]: raise Refuse('%s: %s = %s' % (what, nm, ast.unparse(b[k].value)))
            rx.env[nm] = nm
        else:
            lets.append((nm, rx.tr(b[k].value))); rx.env[nm] = nm
        k += 1
    if set(heads) - set(rx.env): raise Refuse('%s: missing %r' % (what, set(heads) - set(rx.env)))
    _expect(b, k, 'import numpy as np', what); k += 1
    if not (isinstance(b[k], ast.Assign) and ast.unparse(b[k].targets[0]) == 'M' and isinstance(b[k].value, ast.List) and len(b[k].value.elts) == 100):
        raise Refuse('%s: M is not a list of 100 entries' % what)
    ent = [rx.tr(e) for e in b[k].value.elts]
    _expect(b, k + 1, 'M = np.reshape(M, (10,10))', what)
    if not (isinstance(b[k + 2], ast.Assign) and ast.unparse(b[k + 2].targets[0]) == 'V' and isinstance(b[k + 2].value, ast.List) and len(b[k + 2].value.elts) == 10):
        raise Refuse('%s: V is not a list of 10 entries' % what)
    vmap = {'self.detach_point.v': 'dv', 'self.detach_point.deriv': 'dd', 'self.detach_point.deriv2': 'ddd',
            'self.attach_point.v': 'av', 'self.attach_point.deriv': 'ad', 'self.attach_point.deriv2': 'add'}
    V = []
    for e in b[k + 2].value.elts:
        u = ast.unparse(e)
        if u in vmap: V.append(vmap[u])
        elif isinstance(e, ast.Constant) and e.value == 0 and not isinstance(e.value, bool): V.append('0')
        else: raise Refuse('%s: V entry %s' % (what, u))
    tail = ['V = np.reshape(V, (10,1))', 'coefficients = np.linalg.solve(M,V)', 'coefficients = coefficients.flatten().tolist()',
            'self._spline5 = polynomial(*coefficients[:6])', 'self._spline3 = polynomial(*coefficients[6:])']
    for i, s in enumerate(tail): _expect(b, k + 3 + i, s, what)
    if len(b) != k + 3 + len(tail): raise Refuse('%s: extra statements' % what)
    letsrc = ''.join('  let %s := %s in\n' % (n, v) for n, v in lets)
    rows = [ent[10 * i:10 * i + 10] for i in range(10)]
    t = 'Definition buck4_M (r_dp r_min r_ap : R) : list (list R) :=\n' + letsrc + '  [' + ';\n   '.join('[' + '; '.join(r) + ']' for r in rows) + '].\n\n'
    t += 'Definition buck4_V (dv dd ddd av ad add : R) : list R :=\n  [' + '; '.join(V) + '].\n\n'
    return t

def generate(repo):
    src = open(os.path.join(repo, S), encoding='utf-8').read()
    text = ('(* GENERATED by harness/gen_c10.py from atsim/potentials/spline/__init__.py -- do not edit. *)\n'
            'From Coq Require Import Reals List.\nImport ListNotations.\nLocal Open Scope R_scope.\n\n')
    text += gen_exp(repo, src) + gen_buck4(repo, src)
    import core
    write_if_changed(os.path.join(core.COQ, 'gen', 'Splines.v'), text)
    # ---- glue restated by model/Spline.v
    assert_body(repo, S, 'Spline_Point.__init__', '''
        self._potential_function = potential_function
        self._r = r

        self._deriv_callable = gradient(self._potential_function)
        self._deriv2_callable = gradient(self._deriv_callable)
    ''')
    assert_body(repo, S, 'Spline_Point.v', 'return self.potential_function(self.r)')
    assert_body(repo, S, 'Spline_Point.deriv', 'return self._deriv_callable(self.r)')
    assert_body(repo, S, 'Spline_Point.deriv2', 'return self._deriv2_callable(self.r)')
    assert_body(repo, S, 'Spline_Point.r', 'return self._r')
    assert_body(repo, S, 'Spline_Point.potential_function', 'return self._potential_function')
    assert_body(repo, S, 'Spline_Point.deriv_callable', 'return self._deriv_callable')
    assert_body(repo, S, 'Spline_Point.deriv2_callable', 'return self._deriv2_callable')
    assert_body(repo, S, 'Exp_Spline.__init__', '''
        self._detach_point = detach_point
        self._attach_point = attach_point

        self._coefficients = self._init_spline_coefficients()
        self._spline_callable = exp_spline(*self.spline_coefficients)
    ''')
    assert_body(repo, S, 'Exp_Spline.__call__', 'return self._spline_callable(r)')
    assert_body(repo, S, 'Exp_Spline.deriv', 'return self._spline_callable.deriv(r)')
    assert_body(repo, S, 'Exp_Spline.deriv2', 'return self._spline_callable.deriv2(r)')
    assert_body(repo, S, 'Exp_Spline.spline_coefficients', 'return self._coefficients')
    assert_body(repo, S, 'Buck4_Spline.__init__', '''
        self._detach_point = detach_point
        self._attach_point = attach_point
        self._r_min = r_min

        self._init_spline_coefficients()
    ''')
    assert_body(repo, S, 'Buck4_Spline._which_spline', '''
        if r < self.r_min:
          return self.spline5
        else:
          return self.spline3
    ''')
    assert_body(repo, S, 'Buck4_Spline.__call__', 'spline = self._which_spline(r)\nreturn spline(r)')
    assert_body(repo, S, 'Buck4_Spline.deriv', 'return self._which_spline(r).deriv(r)')
    assert_body(repo, S, 'Buck4_Spline.deriv2', 'return self._which_spline(r).deriv2(r)')
    assert_body(repo, S, 'Buck4_Spline.spline_coefficients', 'return self.spline5.args + self.spline3.args')
    assert_body(repo, S, 'Buck4_Spline.spline5', 'return self._spline5')
    assert_body(repo, S, 'Buck4_Spline.spline3', 'return self._spline3')
    assert_body(repo, S, 'Buck4_Spline.r_min', 'return self._r_min')
    assert_body(repo, S, 'Custom_SplinePotential.__init__', '''
        self._spline = self._interpolationFunction = spline
        self._detach_point = self._spline.detach_point
        self._attach_point = self._spline.attach_point

        self._init_deriv()
    ''')
    assert_body(repo, S, 'Custom_SplinePotential._init_deriv', '''
        self._inter_point = Spline_Point(self._interpolationFunction, None)
        if hasattr(self._detach_point.potential_function, "deriv") or hasattr(self._attach_point.potential_function, "deriv") or hasattr(self._inter_point.potential_function, "deriv"):
          def deriv(self, r):
            return self._deriv(r)
          self.deriv = deriv.__get__(self)

        if hasattr(self._detach_point.potential_function, "deriv2") or hasattr(self._attach_point.potential_function, "deriv2") or hasattr(self._inter_point.potential_function, "deriv2"):
          def deriv2(self, r):
            return self._deriv2(r)
          self.deriv2 = deriv2.__get__(self)
    ''')
    assert_body(repo, S, 'Custom_SplinePotential._deriv', '''
        if rij <= self.detachmentX:
          return self._detach_point.deriv_callable(rij)
        elif rij >= self.attachmentX:
          return self._attach_point.deriv_callable(rij)
        else:
          return self._inter_point.deriv_callable(rij)
    ''')
    assert_body(repo, S, 'Custom_SplinePotential._deriv2', '''
        if rij <= self.detachmentX:
          return self._detach_point.deriv2_callable(rij)
        elif rij >= self.attachmentX:
          return self._attach_point.deriv2_callable(rij)
        else:
          return self._inter_point.deriv2_callable(rij)
    ''')
    assert_body(repo, S, 'Custom_SplinePotential.__call__', '''
        if rij <= self.detachmentX:
          return self.startPotential(rij)
        elif rij >= self.attachmentX:
          return self.endPotential(rij)
        else:
          return self._interpolationFunction(rij)
    ''')
    assert_body(repo, S, 'Custom_SplinePotential.detachmentX', 'return self._detach_point.r')
    assert_body(repo, S, 'Custom_SplinePotential.attachmentX', 'return self._attach_point.r')
    assert_body(repo, S, 'Custom_SplinePotential.startPotential', 'return self._detach_point.potential_function')
    assert_body(repo, S, 'Custom_SplinePotential.endPotential', 'return self._attach_point.potential_function')
    assert_body(repo, S, 'Custom_SplinePotential.splineCoefficients', 'return self._interpolationFunction.spline_coefficients')
    assert_body(repo, S, 'SplinePotential.__init__', '''
        detach_point = Spline_Point(startPotential, detachmentX)
        attach_point = Spline_Point(endPotential, attachmentX)
        spline = Exp_Spline(detach_point, attach_point)

        super(SplinePotential, self).__init__(spline)
    ''')
    assert_body(repo, S, 'Buck4_SplinePotential.__init__', '''
        detach_point = Spline_Point(startPotential, detachmentX)
        attach_point = Spline_Point(endPotential, attachmentX)
        spline = Buck4_Spline(detach_point, attach_point, r_min)

        super(Buck4_SplinePotential, self).__init__(spline)
    ''')
    assert_body(repo, P, 'buck4', '''
        bm = bornmayer(A,rho)
        disp = buck(0.0, 1.0, C)

        from .spline import Buck4_SplinePotential
        pot = Buck4_SplinePotential(bm, disp, r_detach, r_attach, r_min)

        return pot
    ''')
    assert_body(repo, M, '_Exp_Spline_Factory.build_spline', '''
        if spline_defn.parameters:
          raise ConfigurationException("spline modifier 'exp_spline' middle potential form does not take any parameters. The following parameters were specified: {}".format(spline_defn.parameters))

        spline = Exp_Spline(detach_point, attach_point)
        return spline
    ''')
    assert_body(repo, M, '_Buck4_Spline_Factory.build_spline', '''
        if not len(spline_defn.parameters) == 1:
          raise ConfigurationException("spline modifier with 'buck4_spline' requires a single parameter to define r_min. The following parameters were specified: {}".format(spline_defn.parameters))

        r_min = spline_defn.parameters[0]

        if not (detach_point.r < r_min < attach_point.r):
          raise ConfigurationException("spline modifier with 'buck4_spline' r_min parameter does not lie between detach and attach values ({} < r_min < {}). r_min = {}".format(
            detach_point.r, attach_point.r, r_min))

        spline = Buck4_Spline(detach_point, attach_point, r_min)
        return spline
    ''')
    # the spline() modifier: the statements that decide what is joined to what
    fn = load_function(repo, M, 'spline')
    u = ast.unparse(ast.Module(body=strip_docstring(fn.body), type_ignores=[]))
    needles = [
        'spline_factories = [_Exp_Spline_Factory(), _Buck4_Spline_Factory()]',
        'pform = potential_forms[0]',
        'pot1 = pform._replace(next=None)',
        'pot2 = pform.next._replace(next=None)',
        'pot3_old_start = pform.next.next.start.start',
        "pot3 = pform.next.next._replace(start=MultiRangeDefinitionTuple(u'>', float('-inf')), next=None)",
        'if not pot1.start.start < pot2.start.start:',
        'if not pot2.start.start < pot3_old_start:',
        'detach_point_r = pform.next.start.start',
        'attach_point_r = pform.next.next.start.start',
        'pot1_func = potential_form_builder.create_potential_function(pot1)',
        'pot3_func = potential_form_builder.create_potential_function(pot3)',
        'detach_point = Spline_Point(pot1_func, detach_point_r)',
        'attach_point = Spline_Point(pot3_func, attach_point_r)',
        'spline_factory = [s for s in spline_factories if s.spline_keyword == pot2.potential_form][0]',
        'spline = spline_factory.build_spline(detach_point, attach_point, pot2)',
        'spot_obj = Custom_SplinePotential(spline)',
        'return spot_obj',
    ]
    pos = 0
    for n in needles:
        i = u.find(n, pos)
        if i < 0: raise Refuse('_modifiers.spline: statement `%s` not found in order' % n)
        pos = i + len(n)
    # no other assignment to the names that carry the join
    for nm in ('detach_point', 'attach_point', 'detach_point_r', 'attach_point_r', 'pot1_func', 'pot3_func', 'spline', 'spot_obj', 'pot1', 'pot3'):
        cnt = sum(1 for st in ast.walk(fn) if isinstance(st, ast.Assign) and any(isinstance(t, ast.Name) and t.id == nm for t in st.targets))
        if cnt != 1: raise Refuse('_modifiers.spline: %s assigned %d times' % (nm, cnt))
    return {}
