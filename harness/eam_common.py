"""Shared by C03/C04/C05/C19/C17: generation of EAM test models with recording callables, Coq literals for
model/EamTables.v, potable EAM model texts."""
import io, random
import core, layout
from layout import q

PRE = 'From V Require Import lib.Common lib.Layout gen.GridArith model.PairTables model.EamTables model.ExcelTables.\nLocal Open Scope Z_scope.\n'
LATS = ['fcc', 'bcc', 'hcp']
REF = {'Al': (13, 26.9815385), 'Cu': (29, 63.546), 'Fe': (26, 55.845), 'Mg': (12, 24.305), 'Na': (11, 22.98976928), 'Ni': (28, 58.6934),
       'Si': (14, 28.085), 'Th': (90, 232.0377), 'Zr': (40, 91.224), 'Xe': (54, 131.293), 'Ca': (20, 40.078), 'Ar': (18, 39.948), 'He': (2, 4.002602)}
POOL = sorted(REF)

def gen_eam_case(rng, fs=False, thorough=False, max_el=4):
    n = rng.choice([1, 2, 2, 3, 3, max_el])
    els = rng.sample(POOL, n)                      # declaration order (shuffled)
    srt = sorted(els)
    elements = []
    for e in els:
        elements.append({'sp': e, 'Z': REF[e][0], 'mass': rng.choice([REF[e][1], round(rng.uniform(1, 240), 3)]),
                         'a0': rng.choice([0.0, round(rng.uniform(2.5, 6.0), 4)]), 'lat': rng.choice(LATS)})
    allpairs = [(a, b) for i, a in enumerate(els) for b in els[i:]]
    rng.shuffle(allpairs)
    pairs = []
    for (a, b) in allpairs:
        if rng.random() < 0.65:
            pairs.append([b, a] if rng.random() < 0.5 else [a, b])
    nr = rng.choice([2, 3, 4, 5, 6, 7, 9, rng.randint(2, 40)])
    nrho = rng.choice([2, 3, 4, 5, 6, 8, rng.randint(2, 40)])
    if thorough and rng.random() < 0.08: nr, nrho = rng.randint(100, 600), rng.randint(100, 600)
    return {'elements': elements, 'pairs': pairs, 'nr': nr, 'nrho': nrho,
            'cutoff': rng.choice([6.0, 5.5, 10.0, round(rng.uniform(2, 12), 3), rng.uniform(2, 12)]),
            'cutoff_rho': rng.choice([100.0, 50.0, 2.0, round(rng.uniform(1, 300), 2)]),
            'fs': fs, 'labels': srt + LATS + ['', 'comment one', 'second comment line', 'third', 'a title']}

def label_ids(case):
    return {l: i for i, l in enumerate(case['labels'])}

def coq_elements(case):
    ids = label_ids(case)
    return core.coq_list(['{| el_sp := %d; el_Z := %d; el_mass := %s; el_a0 := %s; el_lat := %d |}'
                          % (ids[e['sp']], e['Z'], q(e['mass']), q(e['a0']), ids[e['lat']]) for e in case['elements']])

def coq_pairs(pairs, case):
    ids = label_ids(case)
    return core.coq_list(['{| p_a := %d; p_b := %d; p_hasd := false |}' % (ids[a], ids[b]) for (a, b) in pairs])

def build_objects(case, rec, pairs_key='pairs', pair_code=0):
    """recording EAMPotential / Potential objects"""
    from atsim.potentials import EAMPotential, Potential
    els = case['elements']
    eam = []
    for i, e in enumerate(els):
        if case['fs']:
            dens = {o['sp']: layout.rec_fn(rec, (5, i, j)) for j, o in enumerate(els)}
        else:
            dens = layout.rec_fn(rec, (4, i, 0))
        eam.append(EAMPotential(e['sp'], e['Z'], e['mass'], layout.rec_fn(rec, (3, i, 0)), dens, e['a0'], e['lat']))
    pots = [Potential(a, b, layout.rec_fn(rec, (pair_code, k, 0))) for k, (a, b) in enumerate(case[pairs_key])]
    return eam, pots

def check(case, rec, text, toks, tr):
    return layout.compare_trace(tr, rec.evals()) or layout.render_and_compare(toks, rec.evals(), case['labels'], text)

# ------------------------------------------------------------------ potable EAM models (real functions)
EMBED = ['as.sqrt -2.5', 'as.polynomial 0.0 -1.5 0.02', 'myembed 1.75 0.5', 'product(as.sqrt 1.0, as.constant -3.25)']
DENS = ['as.bornmayer 12.5 0.6', 'as.exponential 2.5 -3.0', 'mydens 3.0 1.25', '>=0 as.constant 4.0 >=1.0 as.bornmayer 20.0 0.75', 'as.morse 1.25 2.5 0.5']
PAIRD = ['as.buck 1200.0 0.3 25.0', 'as.morse 1.5 2.25 0.5', 'as.lj 0.125 2.5', 'sum(as.bornmayer 600.0 0.3, as.constant -0.01)']

def gen_potable_eam(rng, fs=False, target=None):
    n = rng.choice([1, 2, 2, 3])
    els = rng.sample(POOL, n)
    # a species label that is an element symbol in another case ('NI', 'al') is a species of its own: not in the element table, everything
    # it shows in the file comes from [Species]
    custom = None
    if rng.random() < 0.3:
        i = rng.randrange(n); custom = els[i].upper() if rng.random() < 0.6 else els[i].lower()
        if custom in els or custom == els[i]: custom = None
        else: els[i] = custom
    embed = [(e, rng.choice(EMBED)) for e in els if rng.random() < 0.85] or [(els[0], EMBED[0])]
    rng.shuffle(embed)
    if fs:
        dens = [((a, b), rng.choice(DENS)) for a in els for b in els if rng.random() < 0.7]
        if not dens: dens = [((els[0], els[0]), DENS[0])]
    else:
        dens = [(e, rng.choice(DENS)) for e in els if rng.random() < 0.85] or [(els[0], DENS[0])]
    rng.shuffle(dens)
    allp = [(a, b) for i, a in enumerate(els) for b in els[i:]]
    pairs = [((b, a) if rng.random() < 0.5 else (a, b), rng.choice(PAIRD)) for (a, b) in allp if rng.random() < 0.6]
    rng.shuffle(pairs)
    species = {}
    for e in els:
        # one override in four is a zero: an override of 0 is an override (not "nothing given")
        if rng.random() < 0.4: species[e + '.atomic_mass'] = repr(round(rng.uniform(1, 200), 3)) if rng.random() < 0.75 else '0.0'
        if rng.random() < 0.3: species[e + '.lattice_constant'] = repr(round(rng.uniform(2.5, 6), 3)) if rng.random() < 0.75 else '0.0'
        if rng.random() < 0.3: species[e + '.lattice_type'] = rng.choice(['bcc', 'hcp', 'fcc'])
        if rng.random() < 0.2: species[e + '.atomic_number'] = str(rng.randint(1, 118)) if rng.random() < 0.7 else '0'
        if e == custom:
            species.setdefault(e + '.atomic_number', str(rng.randint(1, 118))); species.setdefault(e + '.atomic_mass', repr(round(rng.uniform(1, 200), 3)))
    return {'potable_eam': True, 'embed': embed, 'dens': dens, 'ppairs': pairs, 'species': species, 'fs': fs,
            'nr': rng.choice([2, 3, 5, 8, 11]), 'nrho': rng.choice([2, 3, 6, 9]), 'cutoff': rng.choice([6.0, 5.5, 7.25]), 'cutoff_rho': rng.choice([50.0, 100.0, 2.5]),
            'target': target or 'setfl'}

def potable_eam_text(case, extra=''):
    t = '[Tabulation]\ntarget : %s\nnr : %d\ncutoff : %r\nnrho : %d\ncutoff_rho : %r\n\n' % (case['target'], case['nr'], case['cutoff'], case['nrho'], case['cutoff_rho'])
    t += '[Potential-Form]\nmyembed(rho, a, b) = -a*rho^b\nmydens(r, a, b) = a*exp(-r/b)\n\n'
    t += '[EAM-Embed]\n' + ''.join('%s : %s\n' % (e, d) for e, d in case['embed']) + '\n'
    if case['fs']: t += '[EAM-Density]\n' + ''.join('%s->%s : %s\n' % (a, b, d) for (a, b), d in case['dens']) + '\n'
    else: t += '[EAM-Density]\n' + ''.join('%s : %s\n' % (e, d) for e, d in case['dens']) + '\n'
    t += '[Pair]\n' + ''.join('%s-%s : %s\n' % (a, b, d) for (a, b), d in case['ppairs']) + '\n'
    if case['species']: t += '[Species]\n' + ''.join('%s : %s\n' % kv for kv in case['species'].items()) + '\n'
    return t + extra

def case_from_tabulation(case, tab):
    """describe the built tabulation as a writer-model input (elements in the tabulation's order)"""
    els = []
    for ep in tab.eam_potentials:
        els.append({'sp': ep.species, 'Z': ep.atomicNumber, 'mass': ep.mass, 'a0': ep.latticeConstant, 'lat': ep.latticeType})
    species = sorted({e['sp'] for e in els} | {p.speciesA for p in tab.potentials} | {p.speciesB for p in tab.potentials})
    lats = sorted({e['lat'] for e in els})
    return {'elements': els, 'pairs': [[p.speciesA, p.speciesB] for p in tab.potentials], 'nr': tab.nr, 'nrho': tab.nrho, 'cutoff': tab.cutoff,
            'cutoff_rho': tab.cutoff_rho, 'fs': case['fs'], 'labels': species + [l for l in LATS if l not in species] + [l for l in lats if l not in LATS] + ['', 'c1', 'c2', 'c3', 't']}

def synth_eam_events(trace, tab):
    """evaluate the model's expected evaluations on the real functions of a built EAM tabulation"""
    evs = []
    eps = tab.eam_potentials
    for (fn, kind, qarg) in trace:
        x = float(qarg)
        code = fn[0]
        if code == 0: v = tab.potentials[fn[1]].energy(x)
        elif code == 1: v = tab.dipole_potentials[fn[1]].energy(x)
        elif code == 2: v = tab.quadrupole_potentials[fn[1]].energy(x)
        elif code == 3: v = eps[fn[1]].embeddingFunction(x)
        elif code == 4: v = eps[fn[1]].electronDensityFunction(x)
        elif code == 5: v = eps[fn[1]].electronDensityFunction[eps[fn[2]].species](x)
        evs.append(('eval', tuple(fn), kind, x, v))
    return evs

def workbook_text(data):
    """a written .xlsx rendered sheet by sheet: '#sheet NAME', then tab separated rows (numbers as repr of the float)"""
    from openpyxl import load_workbook
    wb = load_workbook(io.BytesIO(data))
    out = []
    for ws in wb.worksheets:
        out.append('#sheet %s\n' % ws.title)
        for row in ws.iter_rows(values_only=True):
            out.append('\t'.join(v if isinstance(v, str) else '{}'.format(float(v)) for v in row) + '\n')
    return ''.join(out)

class RecBytesFile(io.BytesIO):
    def __init__(self, rec):
        io.BytesIO.__init__(self); self.rec = rec; layout.LAST['file'] = self
    def write(self, b):
        self.rec.events.append(('write', len(b)))
        return io.BytesIO.write(self, b)
