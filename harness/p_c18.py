"""C18 -- tabulated input: model/TableReader.v against the legacy TableReader (query sequences on one reader, generated
data files), against Cubic_Spline_Table_Form (value / deriv / deriv2 of the piecewise polynomial scipy built, x/y and xy
spellings) and against plotToFile / plot; the statement itself as an oracle on the implementation."""
import fractions, io, math, os, random, tempfile
import core, layout, store_common as sc
from layout import q

ID = 'C18'
GENMODS = ['gen_c18', 'gen_layout']
TARGET = 'props/C18.vo'
PROOF_FILES = ['lib/Sorting.v', 'proof/C18.v', 'props/C18.v']
AXIOMS = ['reals', 'classic']
TRUSTED = [
    'Coq 8.16.1 kernel; the Reals axioms, classic and functional extensionality (Coquelicot is_derive) under c18_table_deriv_true / c18_table_model_tie; the reader, spelling and plot theorems are axiom-free',
    'model/TableReader.v is hand written over rationals: getValue / _findIndex / DatReader._populate / _parse_xy / _parse_x_y / Cubic_Spline_Table_Form / plotToFile bodies are asserted on the AST (harness/gen_c18.py), plot_step / plot_x are translated; float rounding is not modelled (values compared within 1e-9 relative, exactly at tabulated points)',
    "scipy's InterpolatedUnivariateSpline fit is NOT modelled: the table-form model is the piecewise polynomial read back from the fitted object (PPoly.from_spline) with the ext=1 convention; that it passes through the data is checked per case by the oracle (a test, not a theorem)",
    'data files are lexed by generation (the harness renders the text from the structured lines the model receives)',
]
PRE = '''From Coq Require Import QArith List ZArith.
From V Require Import lib.Common model.TableReader.
Import ListNotations.
Definition enc_q (x : Q) : list Z := let r := Qred x in [Qnum r; Zpos (Qden r)].
Definition enc_qs (l : list Q) : list Z := flat_map enc_q l.
Definition enc_sp (r : result (list Z * list Z)) : list Z := match r with Ok (x, y) => (0 :: x ++ (-1) :: y)%Z | CfgErr => [1%Z] | Internal => [2%Z] end.
'''

# ------------------------------------------------------------------------------------------- generation
def _num(rng):
    r = rng.random()
    if r < 0.3: return float(rng.randint(-5, 12))
    if r < 0.6: return rng.randint(-400, 1200) / 64.0
    if r < 0.85: return float(repr(round(rng.uniform(-3, 15), rng.choice([1, 2, 3, 5]))))
    return rng.choice([1e-3, 2.5e-4, 1e3, -7.25e2, 0.1, 0.3, 1e-9]) * rng.choice([1, 3, 7])

def _fmtnum(rng, x):
    r = rng.random()
    if x == int(x) and abs(x) < 1e6 and r < 0.3: return '%d' % int(x)
    if r < 0.5: return repr(x)
    if r < 0.7: return '%.17e' % x
    if r < 0.8 and x >= 0 and not repr(x).startswith('-'): return '+' + repr(x)          # not for -0.0 ('+-0.0' is not a number)
    if r < 0.92:
        # other spellings float() reads as the same number: no digit before the point (.25, -.5), none after it (5.), capital E
        t = repr(x)
        if 'e' not in t and 'n' not in t:
            if t.startswith('0.'): t = t[1:]
            elif t.startswith('-0.'): t = '-' + t[2:]
            elif t.endswith('.0') and r < 0.88: t = t[:-1]
        else: t = t.replace('e', 'E')
        try:
            if float(t) == x and t not in ('.', '-.'): return t
        except ValueError: pass
    return repr(x)

def gen_reader(rng, big=False):
    n = rng.choice([1, 2, 2, 3, 4, 5, 6, 8, 12, 30 if big else 9])
    xs = set()
    # separations in other units (metres: 1e-10) - the spacing of the rows is then far below any absolute tolerance
    scale = rng.choice([1e-10, 1e-9, 1e-12]) if rng.random() < 0.15 else 1.0
    while len(xs) < n: xs.add(_num(rng) * scale)
    rows = [(x, _num(rng)) for x in xs]
    if rng.random() < 0.12 and n >= 2:          # a duplicated x with another y (tuple order decides)
        rows.append((rows[0][0], _num(rng)))
    order = rng.random()
    if order < 0.35: rows.sort()
    elif order < 0.5: rows.sort(reverse=True)
    else: rng.shuffle(rows)
    lines = []
    def junk():
        r = rng.random()
        if r < 0.4: lines.append(['blank', rng.choice(['', ' ', '\t', '   \t '])])
        else: lines.append(['comment', rng.choice(['', ' ', '\t']) + '#' + rng.choice(['', ' r E', '1.0 2.0', ' # x', '\t0 0'])])
    for (x, y) in rows:
        while rng.random() < 0.25: junk()
        sep = rng.choice([' ', ' ', '  ', '\t', ' \t ', '    '])
        lead = rng.choice(['', '', '', ' ', '\t'])
        trail = rng.choice(['', '', '', ' ', ' 99.5', '\t# no', ' extra columns 1 2'])
        if trail and not trail.isspace() and trail[0] not in ' \t': trail = ' ' + trail
        lines.append(['data', x, y, lead + _fmtnum(rng, x) + sep + _fmtnum(rng, y) + trail])
    while rng.random() < 0.25: junk()
    eol = rng.choice(['\n', '\n', '\n', '\r\n'])
    text = eol.join(l[-1] for l in lines) + (eol if rng.random() < 0.5 else '')
    sx = sorted({r[0] for r in rows})
    cands = list(sx) * 2
    for a, b in zip(sx, sx[1:]):
        cands += [(a + b) / 2, a + (b - a) * rng.random(), a + (b - a) / 64.0]
    span = (sx[-1] - sx[0]) or 1.0
    cands += [sx[0] - span * 0.5, sx[-1] + span * 0.25, sx[0] - 1e-9 * (abs(sx[0]) + scale), sx[-1] + 1e-9 * (abs(sx[-1]) + scale), sx[-1] + 100.0 * scale]
    nq = rng.randint(6, 24)
    queries = [rng.choice(cands) for _ in range(nq)]
    if rng.random() < 0.5:      # two ascending sweeps on the same reader
        queries = sorted(queries[: nq // 2]) + sorted(queries[nq // 2:])
    return {'kind': 'reader', 'lines': lines, 'text': text, 'queries': queries}

def gen_xs(rng, n):
    x = rng.choice([0.0, 0.5, 1.0, 0.1, -2.0])
    xs = []
    style = rng.random()
    for _ in range(n):
        xs.append(x)
        if style < 0.3: dx = 0.25
        elif style < 0.7: dx = rng.choice([0.05, 0.1, 0.125, 0.25, 0.5, 0.75, 1.0, 1.5])
        else: dx = rng.choice([0.01, 0.02, 0.1, 0.3, 1.0, 2.5]) * rng.choice([1, 1, 2, 3])
        x = float(repr(round(x + dx, 6)))
    return xs

def gen_table(rng, big=False):
    n = rng.choice([4, 4, 5, 6, 7, 8, 10, 12, 16, 25, 40] + ([80, 200] if big else []))
    xs = gen_xs(rng, n)
    shape = rng.random()
    if shape < 0.3: ys = [float(repr(round(rng.uniform(-5, 5), 4))) for _ in xs]
    elif shape < 0.6: ys = [float(repr(round(10.0 * math.exp(-0.7 * x) - 2.0 / (1 + x * x), 6))) for x in xs]
    elif shape < 0.8: ys = [float(rng.randint(-3, 3)) for _ in xs]
    else: ys = [float(repr(round(rng.choice([1e-3, 1.0, 1e3]) * math.sin(1.3 * x + 0.2), 8))) for x in xs]
    spelling = rng.choice(['x_y', 'xy'])
    ws = rng.choice([' ', '  ', '\t', '\n    ', ' \n  '])
    cands = list(xs)
    for a, b in zip(xs, xs[1:]):
        cands += [(a + b) / 2, a + (b - a) * rng.random()]
    span = xs[-1] - xs[0]
    out = [xs[0] - 0.5 * span, xs[0] - 1e-9, xs[-1] + 1e-9, xs[-1] + 0.3 * span, xs[-1] + 50.0]
    queries = [rng.choice(cands) for _ in range(rng.randint(8, 20))] + rng.sample(out, 3) + [xs[0], xs[-1]]
    rng.shuffle(queries)
    return {'kind': 'table', 'x': xs, 'y': ys, 'spelling': spelling, 'ws': ws, 'queries': queries}

def gen_spelling(rng):
    """[Table-Form] data entries, well formed or not"""
    n = rng.choice([4, 5, 6, 9])
    xs = gen_xs(rng, n); ys = [float(rng.randint(-9, 9)) for _ in xs]
    r = rng.random()
    if r < 0.35: form = 'xy'
    elif r < 0.6: form = 'x_y'
    elif r < 0.75: form = 'xy'; ys = ys[:-1]              # odd count
    elif r < 0.9: form = 'x_y'; ys = ys[: rng.choice([n - 1, n - 2])] if rng.random() < 0.5 else ys + [1.0]
    else: form = rng.choice(['x_only', 'y_only', 'both', 'none'])
    return {'kind': 'spelling', 'x': xs, 'y': ys, 'form': form, 'ws': rng.choice([' ', '\t', '  ', '\n   '])}

def gen_plot(rng):
    lowx = _num(rng)
    highx = rng.choice([lowx + abs(_num(rng)) + 0.125, lowx + 1.0, lowx + 10.0, lowx - 2.0, lowx, lowx + 0.3])
    steps = rng.choice([1, 2, 3, 4, 5, 7, 10, 16, 33, 100])
    return {'kind': 'plot', 'lowx': lowx, 'highx': highx, 'steps': steps, 'route': rng.choice(['plotToFile', 'plot', 'plotPotentialObjectToFile', 'plotPotentialObject'])}

def gen_case(rng, big=False):
    r = rng.random()
    if r < 0.4: return gen_reader(rng, big)
    if r < 0.7: return gen_table(rng, big)
    if r < 0.85: return gen_spelling(rng)
    return gen_plot(rng)

# ------------------------------------------------------------------------------------------- implementation
def table_text(x, y, spelling, ws, name='tf'):
    f = lambda v: repr(v)
    t = '[Table-Form:%s]\ninterpolation : cubic_spline\n' % name
    if spelling == 'x_y': t += 'x : %s\ny : %s\n' % (ws.join(f(v) for v in x), ws.join(f(v) for v in y))
    elif spelling == 'xy': t += 'xy : %s\n' % ws.join('%s %s' % (f(a), f(b)) for a, b in zip(x, y))
    return t

def table_callable(x, y, spelling, ws):
    from atsim.potentials.config import ConfigParser
    from atsim.potentials.config._potential_form_registry import Potential_Form_Registry
    cp = ConfigParser(io.StringIO(table_text(x, y, spelling, ws) + '[Pair]\nA-A : tf\n'))
    reg = Potential_Form_Registry(cp, True)
    return reg['tf']()

def pieces_of(f):
    """the piecewise polynomial scipy built: [(x0, [c0, c1, c2, c3])] over intervals of positive length"""
    from scipy.interpolate import PPoly
    pp = PPoly.from_spline(f.interpolant._eval_args)
    ps = []
    for i in range(len(pp.x) - 1):
        if pp.x[i + 1] > pp.x[i]:
            ps.append((float(pp.x[i]), [float(pp.c[k, i]) for k in range(pp.c.shape[0] - 1, -1, -1)]))
    return ps

def spelling_text(case):
    f = repr; ws = case['ws']; x, y = case['x'], case['y']
    t = '[Table-Form:tf]\n'
    form = case['form']
    if form == 'xy':
        vals = []
        for i in range(max(len(x), len(y))):
            if i < len(x): vals.append(f(x[i]))
            if i < len(y): vals.append(f(y[i]))
        t += 'xy : %s\n' % ws.join(vals)
    elif form == 'x_y': t += 'x : %s\ny : %s\n' % (ws.join(map(f, x)), ws.join(map(f, y)))
    elif form == 'x_only': t += 'x : %s\n' % ws.join(map(f, x))
    elif form == 'y_only': t += 'y : %s\n' % ws.join(map(f, y))
    elif form == 'both': t += 'x : %s\ny : %s\nxy : 1.0 2.0\n' % (ws.join(map(f, x)), ws.join(map(f, y)))
    return t + '[Pair]\nA-A : as.constant 1.0\n'

def run_spelling(case):
    from atsim.potentials.config import ConfigParser
    def g():
        cp = ConfigParser(io.StringIO(spelling_text(case)))
        tf = cp.table_form[0]
        return (list(tf.x), list(tf.y))
    return sc.classify(g)

def run_reader(case, fresh=False):
    from atsim.potentials import TableReader
    if fresh: return [TableReader(io.StringIO(case['text']))(x) for x in case['queries']]
    tr = TableReader(io.StringIO(case['text']))
    return [tr(x) for x in case['queries']]

class _Pot(object):
    def __init__(self, f): self.f = f
    def energy(self, r): return self.f(r)

def run_plot(case, func):
    import atsim.potentials as ap
    route = case['route']
    if route in ('plotToFile', 'plotPotentialObjectToFile'):
        out = io.StringIO()
        if route == 'plotToFile': ap.plotToFile(out, case['lowx'], case['highx'], func, case['steps'])
        else: ap.plotPotentialObjectToFile(out, case['lowx'], case['highx'], _Pot(func), case['steps'])
        return out.getvalue()
    d = tempfile.mkdtemp(prefix='c18plot')
    p = os.path.join(d, 'out.dat')
    try:
        if route == 'plot': ap.plot(p, case['lowx'], case['highx'], func, case['steps'])
        else: ap.plotPotentialObject(p, case['lowx'], case['highx'], _Pot(func), case['steps'])
        return open(p).read()
    finally:
        try: os.unlink(p)
        except OSError: pass
        os.rmdir(d)

# ------------------------------------------------------------------------------------------- model expressions
def ql(vals): return '[' + '; '.join(q(v) for v in vals) + ']'
def model_expr(case, extra=None):
    k = case['kind']
    if k == 'reader':
        ls = []
        for l in case['lines']:
            if l[0] == 'blank': ls.append('Blank')
            elif l[0] == 'comment': ls.append('Comment')
            else: ls.append('Data %s %s' % (q(l[1]), q(l[2])))
        return '(enc_qs (map (get_value (populate [%s])) %s))' % ('; '.join(ls), ql(case['queries']))
    if k == 'table':
        ps = '; '.join('(%s, %s)' % (q(x0), ql(c)) for (x0, c) in extra)
        tf = '{| tf_pieces := [%s]; tf_xmin := %s; tf_xmax := %s |}' % (ps, q(case['x'][0]), q(case['x'][-1]))
        return '(let tf := %s in enc_qs (flat_map (fun x => [tf_value tf x; tf_deriv tf x; tf_deriv2 tf x]) %s))' % (tf, ql(case['queries']))
    if k == 'plot':
        return '(enc_qs (plot_xs %s %s %d))' % (q(case['lowx']), q(case['highx']), case['steps'])
    if k == 'spelling':
        nx, ny = len(case['x']), len(case['y'])
        if case['form'] == 'xy':
            vals = []
            for i in range(max(nx, ny)):
                if i < nx: vals.append(i)
                if i < ny: vals.append(100 + i)
            return '(enc_sp (parse_xy [%s]%%Z))' % '; '.join(map(str, vals))
        if case['form'] == 'x_y':
            return '(enc_sp (parse_x_y [%s]%%Z [%s]%%Z))' % ('; '.join(str(i) for i in range(nx)), '; '.join(str(100 + i) for i in range(ny)))
        return '(enc_sp (@CfgErr (list Z * list Z)))'       # _parse_data: neither / both / one of x, y
    raise ValueError(k)

def decode_qs(zs):
    return [fractions.Fraction(zs[i], zs[i + 1]) for i in range(0, len(zs), 2)]

def close(a, b, tol):
    return abs(a - b) <= tol

def _mags(pieces, xmin, xmax, x):
    """term-wise magnitude of value / first / second derivative of the selected piece at x"""
    if x < xmin or x > xmax: return (0.0, 0.0, 0.0)
    sel = None
    for (x0, c) in pieces:
        if x0 <= x: sel = (x0, c)
    if sel is None: return (0.0, 0.0, 0.0)
    t = abs(x - sel[0]); c = sel[1]
    m0 = sum(abs(a) * t ** k for k, a in enumerate(c))
    m1 = sum(k * abs(a) * t ** (k - 1) for k, a in enumerate(c) if k >= 1)
    m2 = sum(k * (k - 1) * abs(a) * t ** (k - 2) for k, a in enumerate(c) if k >= 2)
    return (m0, m1, m2)

def plot_func(v): return 3.0 * v * v - 1.0 + 0.5 * v
def plot_trimmed(v): return 0 if v < 1.0 else 2.75 - 0.9 * (v - 1.0)        # an int below 1.0, floats above: every row is f(x_i), whatever the type of the first value
def plot_func_of(case): return plot_trimmed if case.get('func') == 'trimmed' else plot_func
def plot_oracle_corpus():
    return [{'kind': 'plot', 'lowx': 0.0, 'highx': 4.0, 'steps': 16, 'route': rt, 'func': 'trimmed'} for rt in ('plot', 'plotToFile', 'plotPotentialObjectToFile')]

def compare(case, zs, extra=None):
    """model answer zs against the implementation; returns a description or None"""
    k = case['kind']
    if k == 'reader':
        want = decode_qs(zs)
        try: got = run_reader(case)
        except Exception as e: return 'TableReader raised %s: %s' % (type(e).__name__, str(e)[:100])
        data_x = {l[1] for l in case['lines'] if l[0] == 'data'}
        ymax = max(abs(l[2]) for l in case['lines'] if l[0] == 'data')
        for i, (x, w, g) in enumerate(zip(case['queries'], want, got)):
            if x in data_x or x < min(data_x) or x > max(data_x):
                if fractions.Fraction(g) != w: return 'query %d (x=%r): model %r, reader %r' % (i, x, float(w), g)
            elif not close(g, float(w), 16e-9 * (ymax + 1.0)): return 'query %d (x=%r): model %r, reader %r' % (i, x, float(w), g)
        return None
    if k == 'table':
        want = decode_qs(zs); f, pieces = extra
        for i, x in enumerate(case['queries']):
            mags = _mags(pieces, case['x'][0], case['x'][-1], x)
            got = (f(x), f.deriv(x), f.deriv2(x))
            for j, name in enumerate(('value', 'deriv', 'deriv2')):
                w = float(want[3 * i + j])
                if w == 0.0 and mags[j] == 0.0:
                    if got[j] != 0.0: return '%s at x=%r outside the data range: model 0, table form %r' % (name, x, got[j])
                elif not close(got[j], w, 1e-7 * mags[j] + 1e-11):
                    return '%s at x=%r: model (piece polynomial) %r, table form %r' % (name, x, w, got[j])
        return None
    if k == 'plot':
        want = decode_qs(zs)
        try: text = run_plot(case, plot_func)
        except Exception as e: return '%s raised %s: %s' % (case['route'], type(e).__name__, str(e)[:100])
        rows = text.split('\n')
        if rows[-1] != '': return 'output does not end with a newline'
        rows = rows[:-1]
        if len(rows) != len(want): return 'model writes %d rows, %s wrote %d' % (len(want), case['route'], len(rows))
        for i, (row, w) in enumerate(zip(rows, want)):
            cols = row.split(' ')
            if len(cols) != 2: return 'row %d is %r' % (i, row)
            v = float(cols[0])
            if not close(v, float(w), 1e-12 * (abs(float(w)) + abs(case['lowx']) + abs(case['highx']) + 1e-300)): return 'row %d: model x = %r, written x = %r' % (i, float(w), v)
            if row != '{0} {1}'.format(v, plot_func(v)): return 'row %d is %r, expected "x f(x)" = %r' % (i, row, '{0} {1}'.format(v, plot_func(v)))
        return None
    if k == 'spelling':
        got = run_spelling(case)
        want = {0: 'Ok', 1: 'CfgErr', 2: 'Internal'}[zs[0]]
        if got[0] != want: return 'model %s, parser %s %s' % (want, got[0], got[1] if got[0] != 'Ok' else '')
        if want == 'Ok':
            sep = zs.index(-1)
            mx = [case['x'][i] for i in zs[1:sep]]; my = [case['y'][i - 100] for i in zs[sep + 1:]]
            if (mx, my) != got[1]: return 'model (x, y) = %r, parser %r' % ((mx, my), got[1])
        return None

def correspond(ctx):
    rng = ctx['rng']; big = ctx['thorough']
    n = 700 if big else 170
    cases = corpus() + [gen_case(rng, big) for _ in range(n)]
    exprs, extras, dis = [], [], []
    kept = []
    for c in cases:
        try:
            if c['kind'] == 'table':
                f = table_callable(c['x'], c['y'], c['spelling'], c['ws'])
                ps = pieces_of(f)
                exprs.append(model_expr(c, ps)); extras.append((f, ps))
            else:
                exprs.append(model_expr(c)); extras.append(None)
            kept.append(c)
        except Exception as e:
            dis.append({'case': c, 'what': 'building the %s case raised %s: %s' % (c['kind'], type(e).__name__, str(e)[:120])})
    res = sc.eval_results('C18', PRE, exprs)
    for c, zs, ex in zip(kept, res, extras):
        w = compare(c, zs, ex)
        if w: dis.append({'case': c, 'what': w})
    kinds = {k: sum(1 for c in cases if c['kind'] == k) for k in ('reader', 'table', 'spelling', 'plot')}
    rd = [c for c in cases if c['kind'] == 'reader']
    tb = [c for c in cases if c['kind'] == 'table']
    dist = {'kinds': kinds,
            'reader': {'rows_max': max(sum(1 for l in c['lines'] if l[0] == 'data') for c in rd), 'with_comments_or_blanks': sum(1 for c in rd if any(l[0] != 'data' for l in c['lines'])),
                       'unsorted': sum(1 for c in rd if [l[1] for l in c['lines'] if l[0] == 'data'] != sorted(l[1] for l in c['lines'] if l[0] == 'data')),
                       'no_final_newline': sum(1 for c in rd if not c['text'].endswith('\n')), 'queries': sum(len(c['queries']) for c in rd),
                       'non_monotone_query_sequences': sum(1 for c in rd if c['queries'] != sorted(c['queries']))},
            'table': {'points_max': max(len(c['x']) for c in tb), 'xy_spelling': sum(1 for c in tb if c['spelling'] == 'xy'), 'queries': sum(len(c['queries']) for c in tb),
                      'uneven_spacing': sum(1 for c in tb if len({round(b - a, 9) for a, b in zip(c['x'], c['x'][1:])}) > 1)},
            'spelling_forms': {f: sum(1 for c in cases if c['kind'] == 'spelling' and c['form'] == f) for f in ('xy', 'x_y', 'x_only', 'y_only', 'both', 'none')},
            'plot_routes': {r: sum(1 for c in cases if c['kind'] == 'plot' and c['route'] == r) for r in ('plotToFile', 'plot', 'plotPotentialObjectToFile', 'plotPotentialObject')}}
    return {'evaluations': len(kept), 'cases': cases, 'nontrivial': core.distinct_count([c for c in cases if c['kind'] != 'spelling' or c['form'] in ('xy', 'x_y')]),
            'rule': 'generated data files (1..30 rows, shuffled / descending / sorted, comments, blank lines, tabs, extra columns, CRLF, with and without a final newline, duplicated x) queried 6..24 times on ONE reader '
                    '(tabulated x, midpoints, near the ends, outside; two ascending sweeps or random order) against get_value (populate ..) over Q -- exact at tabulated x and outside, 1e-9 relative in between; '
                    '[Table-Form] cubic_spline tables (4..40, thorough ..200 points, uneven spacing, x/y and xy spellings with newline continuation) built through ConfigParser + Potential_Form_Registry: value/deriv/deriv2 '
                    'against the piecewise polynomial read back from the fitted object, zero outside; _parse_xy/_parse_x_y outcomes incl. odd counts, length mismatch, x-only, both; plotToFile/plot/plotPotentialObject(ToFile) '
                    'rows against plot_xs; non-trivial = everything except malformed spellings',
            'samples': [{k: (v if k != 'lines' else v[:4]) for k, v in c.items()} for c in cases[:3]], 'distribution': dist, 'disagreements': dis[:20], 'oracle_cases': plot_oracle_corpus() + cases[:147]}

def corpus():
    """fixed cases that run first"""
    rd = lambda text, lines, qs: {'kind': 'reader', 'lines': lines, 'text': text, 'queries': qs}
    return [
        rd('0.0 10.0\n1.0 2.0\n0.5 4.0\n0.25 7.0\n2.0 1.0', [['data', 0.0, 10.0, ''], ['data', 1.0, 2.0, ''], ['data', 0.5, 4.0, ''], ['data', 0.25, 7.0, ''], ['data', 2.0, 1.0, '']],
           [2.0, 1.5, 0.0, 0.25, 0.5, 1.0, 2.0, 0.1, 1.75, 0.0, 2.5, -1.0, 0.25]),
        rd('# r E\n\n1 5\n', [['comment', '# r E'], ['blank', ''], ['data', 1.0, 5.0, '']], [1.0, 0.5, 1.5, 1.0]),
        {'kind': 'table', 'x': [0.0, 1.0, 2.0, 3.5, 4.0, 6.0], 'y': [1.0, 3.0, -2.0, 0.5, 0.25, 0.0], 'spelling': 'xy', 'ws': '\n   ', 'queries': [0.0, 1.0, 0.5, 3.75, 6.0, 6.5, -0.5, 2.0, 5.0]},
        {'kind': 'plot', 'lowx': 1.0, 'highx': 3.0, 'steps': 4, 'route': 'plotToFile'},
        {'kind': 'spelling', 'x': [0.0, 1.0, 2.0, 3.0], 'y': [1.0, 2.0, 3.0], 'form': 'xy', 'ws': ' '},
    ]

# ------------------------------------------------------------------------------------------- the statement as an oracle
def oracle(case):
    k = case['kind']; fails = []
    if k == 'reader':
        rows = sorted((l[1], l[2]) for l in case['lines'] if l[0] == 'data')
        xs = [r[0] for r in rows]
        if len(set(xs)) != len(xs): return []        # a duplicated x: no single tabulated y
        try: got = run_reader(case); fresh = run_reader(case, fresh=True)
        except Exception as e: return ['TableReader raised %s: %s' % (type(e).__name__, str(e)[:100])]
        for i, (x, g, g2) in enumerate(zip(case['queries'], got, fresh)):
            if g != g2 and not (g != g and g2 != g2): fails.append('query %d: f(%r) = %r after earlier look-ups on the same reader, %r on a fresh reader' % (i, x, g, g2)); continue
            if x < xs[0] or x > xs[-1]:
                if g != 0.0: fails.append('f(%r) = %r outside [%r, %r], expected 0' % (x, g, xs[0], xs[-1]))
            elif x in xs:
                if g != rows[xs.index(x)][1]: fails.append('f(%r) = %r at a tabulated x, tabulated y = %r' % (x, g, rows[xs.index(x)][1]))
            else:
                j = max(i for i in range(len(xs)) if xs[i] < x)
                (lx, ly), (hx, hy) = rows[j], rows[j + 1]
                slack = 1e-9 * (abs(ly) + abs(hy) + 1.0)
                t = (fractions.Fraction(x) - fractions.Fraction(lx)) / (fractions.Fraction(hx) - fractions.Fraction(lx))
                line = float(fractions.Fraction(ly) * (1 - t) + fractions.Fraction(hy) * t)
                if not (min(ly, hy) - slack <= g <= max(ly, hy) + slack): fails.append('f(%r) = %r is not between the neighbouring y values %r and %r' % (x, g, ly, hy))
                elif abs(g - line) > 16 * slack: fails.append('f(%r) = %r, the linear interpolant gives %r' % (x, g, line))
        return fails[:6]
    if k == 'table':
        try:
            f = table_callable(case['x'], case['y'], 'x_y', ' ')
            g = table_callable(case['x'], case['y'], 'xy', case['ws'])
        except Exception as e: return ['building the table form raised %s: %s' % (type(e).__name__, str(e)[:100])]
        xs, ys = case['x'], case['y']
        S = max(abs(v) for v in ys) + 1.0
        for x, y in zip(xs, ys):
            if abs(f(x) - y) > 1e-7 * S: fails.append('f(%r) = %r, data point y = %r' % (x, f(x), y))
        for x in case['queries'] + [xs[0] - 1.0, xs[-1] + 1.0]:
            if (f(x), f.deriv(x), f.deriv2(x)) != (g(x), g.deriv(x), g.deriv2(x)): fails.append('x/y and xy spellings differ at %r: %r vs %r' % (x, (f(x), f.deriv(x), f.deriv2(x)), (g(x), g.deriv(x), g.deriv2(x))))
            if x < xs[0] or x > xs[-1]:
                if (f(x), f.deriv(x), f.deriv2(x)) != (0.0, 0.0, 0.0): fails.append('outside the data range at %r: (f, f\', f\'\') = %r' % (x, (f(x), f.deriv(x), f.deriv2(x))))
        # derivatives against Richardson-extrapolated central differences, strictly inside a data interval
        for a, b in list(zip(xs, xs[1:]))[:: max(1, len(xs) // 12)]:
            x = a + (b - a) * 0.5; h = (b - a) * 0.2
            D = lambda fn, hh: (fn(x + hh) - fn(x - hh)) / (2 * hh)
            d1 = (4 * D(f, h / 2) - D(f, h)) / 3
            d2 = (4 * D(f.deriv, h / 2) - D(f.deriv, h)) / 3
            m0 = max(abs(f(x + s)) for s in (-h, -h / 2, 0, h / 2, h)) + 1e-300
            m1 = max(abs(f.deriv(x + s)) for s in (-h, -h / 2, 0, h / 2, h)) + 1e-300
            if abs(f.deriv(x) - d1) > 1e-6 * (m0 / h + abs(d1)) + 1e-9: fails.append('deriv(%r) = %r, the interpolant has slope %r' % (x, f.deriv(x), d1))
            if abs(f.deriv2(x) - d2) > 1e-6 * (m1 / h + abs(d2)) + 1e-9: fails.append('deriv2(%r) = %r, deriv has slope %r' % (x, f.deriv2(x), d2))
        return fails[:6]
    if k == 'plot':
        plot_func = plot_func_of(case)
        try: text = run_plot(case, plot_func)
        except Exception as e: return ['%s raised %s: %s' % (case['route'], type(e).__name__, str(e)[:100])]
        rows = [r for r in text.split('\n') if r]
        if len(rows) != case['steps']: return ['%s wrote %d rows for steps = %d' % (case['route'], len(rows), case['steps'])]
        lo, hi, n = fractions.Fraction(case['lowx']), fractions.Fraction(case['highx']), case['steps']
        for i, row in enumerate(rows):
            c = row.split()
            if len(c) != 2: fails.append('row %d: %r' % (i, row)); continue
            v, y = float(c[0]), float(c[1]); w = float(lo + i * (hi - lo) / n)
            if abs(v - w) > 1e-12 * (abs(w) + abs(case['lowx']) + abs(case['highx']) + 1e-300): fails.append('row %d at x = %r, expected lowx + i*(highx-lowx)/steps = %r' % (i, v, w))
            elif y != plot_func(v): fails.append('row %d: y = %r but f(%r) = %r' % (i, y, v, plot_func(v)))
        return fails[:6]
    if k == 'spelling':
        got = run_spelling(case)
        wf = case['form'] in ('xy', 'x_y') and len(case['x']) == len(case['y'])
        if wf:
            if got[0] != 'Ok': return ['well formed %s data refused: %s' % (case['form'], got[1])]
            if got[1] != (case['x'], case['y']): return ['%s data parsed to %r, given %r' % (case['form'], got[1], (case['x'], case['y']))]
        elif got[0] != 'CfgErr': return ['malformed table data (%s, %d x / %d y values) gave %s %s' % (case['form'], len(case['x']), len(case['y']), got[0], got[1] if got[0] != 'Ok' else '')]
        return []
    return []

def search_cases(rng, n):
    for c in corpus(): yield c
    for c in plot_oracle_corpus(): yield c
    for _ in range(n): yield gen_case(rng)
def finding_for(case, fails): return None
def replay_finding(f): return False
