"""C10 -- splined potentials: the translated linear systems and model/Spline.v against SplinePotential /
Buck4_SplinePotential / the spline() modifier / as.buck4 (the arguments numpy.linalg.solve received, the residual of the
returned coefficients, value / deriv / deriv2 of the splined callable in all regions), and the statement as an oracle."""
import io, math, random
import core
import forms_common as fc
from forms_common import rq

ID = 'C10'
GENMODS = ['gen_forms', 'gen_c10']
TARGET = 'props/C10.vo'
PROOF_FILES = ['proof/C10.v', 'props/C10.v']
AXIOMS = ['reals', 'classic', 'primitives']
TRUSTED = [
    'Coq 8.16.1 kernel; Reals axioms, classic, functional extensionality (Coquelicot is_derive); primitive int/float axioms only through the interval tactic of the correspondence files',
    'numpy.linalg.solve is modelled by its contract (the returned vector solves the system): theorems quantify over every solution; the solution actually returned is checked against the translated system (residual) on every generated case',
    'tools/py2coq.py RExpr prints the matrix / right-hand-side entries of the np.array literals; model/Spline.v restates Spline_Point, the shift, region selection, the modifier and as.buck4 glue, all asserted on the AST (harness/gen_c10.py)',
    'end potentials with analytic derivatives (the built-in forms: C06/C07 theorems); float rounding is not modelled (interval-certified comparison at 1e-9 relative of the quantities involved)',
]

STARTS = ['zbl', 'buck', 'bornmayer', 'coul', 'lj', 'morse', 'polynomial', 'constant', 'exponential', 'hbnd']

# ------------------------------------------------------------------------------------------- generation
def leaf(rng, name=None):
    name = name or rng.choice(STARTS)
    ps, _ = fc.sample_params(name, rng)
    if name == 'polynomial': ps = ps[:4]
    return {'form': name, 'params': ps}

def py_leaf(l):
    import atsim.potentials.potentialforms as pfm
    if 'sum' in l:
        import atsim.potentials as ap
        return ap.plus(py_leaf(l['sum'][0]), py_leaf(l['sum'][1]))
    if 'spline' in l:
        import atsim.potentials as ap
        sp = l['spline']
        return ap.SplinePotential(py_leaf(sp['start']), py_leaf(sp['end']), sp['detach'], sp['attach'])
    return getattr(pfm, l['form'])(*l['params'])

def point_data(l, r):
    f = py_leaf(l)
    return (f(r), f.deriv(r), f.deriv2(r))

def well_conditioned(case):
    """both end potentials moderate at the joins: the statement's domain"""
    try:
        sy, sd, sdd = point_data(case['start'], case['detach']); ey, ed, edd = point_data(case['end'], case['attach'])
    except (OverflowError, ZeroDivisionError, ValueError):
        return False
    vals = (sy, sd, sdd, ey, ed, edd)
    if not all(math.isfinite(v) and abs(v) < 1e4 for v in vals): return False
    if case['kind'] == 'exp':
        inter = 0.0
        if sy <= 0 or ey <= 0: inter = 1 - min(sy, ey)
        sy2, ey2 = sy + inter, ey + inter
        if inter > 50: return False
        if max(abs(sd / sy2), abs(ed / ey2)) > 20 or max(abs(sdd / sy2), abs(edd / ey2)) > 200: return False
        if max(sy2, ey2) / min(sy2, ey2) > 1e4: return False
    return True

def gen_case(rng):
    for _ in range(200):
        kind = rng.choice(['exp', 'exp', 'buck4'])
        det = fc.grid(rng, 0.75, 2.0)
        if kind == 'exp':
            c = {'kind': 'exp', 'start': leaf(rng), 'end': leaf(rng), 'detach': det, 'attach': det + fc.grid(rng, 0.5, 2.0), 'route': rng.choice(['class', 'class', 'modifier'])}
        else:
            rmin = det + fc.grid(rng, 0.25, 1.0); att = rmin + fc.grid(rng, 0.25, 1.0)
            route = rng.choice(['class', 'modifier', 'form', 'form'])
            if route == 'form':
                A, rho, C = fc.grid(rng, 100, 3000, 0.5), fc.grid(rng, 0.125, 0.5), fc.grid(rng, 0.5, 120, 0.5)
                c = {'kind': 'buck4', 'start': {'form': 'bornmayer', 'params': [A, rho]}, 'end': {'form': 'buck', 'params': [0.0, 1.0, C]}, 'detach': det, 'r_min': rmin, 'attach': att, 'route': 'form'}
            else:
                c = {'kind': 'buck4', 'start': leaf(rng), 'end': leaf(rng), 'detach': det, 'r_min': rmin, 'attach': att, 'route': route}
        if well_conditioned(c):
            c['rs'] = sample_rs(rng, c)
            return c
    raise RuntimeError('no well conditioned case found')

def sample_rs(rng, c):
    d, a = c['detach'], c['attach']
    rs = [d, a, d - fc.grid(rng, 0.125, 0.5), a + fc.grid(rng, 0.125, 2.0), d + (a - d) * rng.choice([0.25, 0.5, 0.75]), d + (a - d) / 64.0, a - (a - d) / 64.0]
    if c['kind'] == 'buck4': rs += [c['r_min'], c['r_min'] - (c['r_min'] - d) / 32.0, c['r_min'] + (a - c['r_min']) / 32.0]
    return rs

# ------------------------------------------------------------------------------------------- implementation
class SolveRecorder(object):
    """records the arguments and result of numpy.linalg.solve while the spline is built"""
    def __enter__(self):
        import numpy as np
        self.np = np; self.orig = np.linalg.solve; self.calls = []
        def rec(A, B):
            x = self.orig(A, B)
            self.calls.append(([[float(v) for v in row] for row in np.array(A, dtype=float)], [float(v) for v in np.array(B, dtype=float).flatten()], [float(v) for v in np.array(x, dtype=float).flatten()]))
            return x
        np.linalg.solve = rec
        return self
    def __exit__(self, *a):
        self.np.linalg.solve = self.orig

def defn(l):
    if 'sum' in l: return 'sum(%s, %s)' % (defn(l['sum'][0]), defn(l['sum'][1]))
    if 'spline' in l: return 'spline(%s >%r exp_spline >%r %s)' % (defn(l['spline']['start']), l['spline']['detach'], l['spline']['attach'], defn(l['spline']['end']))
    return 'as.%s %s' % (l['form'], ' '.join(repr(p) for p in l['params']))

def build(case, route=None):
    """the splined callable built by the chosen route"""
    import atsim.potentials as ap
    import atsim.potentials.potentialforms as pfm
    route = route or case['route']
    if route == 'class':
        s, e = py_leaf(case['start']), py_leaf(case['end'])
        if case['kind'] == 'exp': return ap.SplinePotential(s, e, case['detach'], case['attach'])
        from atsim.potentials.spline import Buck4_SplinePotential
        return Buck4_SplinePotential(s, e, case['detach'], case['attach'], case['r_min'])
    if route == 'form':
        A, rho = case['start']['params']; C = case['end']['params'][2]
        return pfm.buck4(A, rho, C, case['detach'], case['r_min'], case['attach'])
    from atsim.potentials.config import Configuration
    mid = 'exp_spline' if case['kind'] == 'exp' else 'buck4_spline %r' % case['r_min']
    if route == 'potable_form':
        A, rho = case['start']['params']; C = case['end']['params'][2]
        d = 'as.buck4 %r %r %r %r %r %r' % (A, rho, C, case['detach'], case['r_min'], case['attach'])
    else:
        d = 'spline(%s >%r %s >%r %s)' % (defn(case['start']), case['detach'], mid, case['attach'], defn(case['end']))
    txt = '[Tabulation]\ntarget : LAMMPS\nnr : 5\ncutoff : 1.0\n[Pair]\nA-B : %s\n' % d
    return Configuration().read(io.StringIO(txt)).potentials[0].potentialFunction

def build_sibling(case, route=None):
    """a spline with the same end potentials, detach and attach but another r_min, built just before the one under test: what was
    built earlier in the process must not matter"""
    if case['kind'] != 'buck4': return
    sib = dict(case); sib['r_min'] = (case['r_min'] + case['attach']) / 2.0
    try: build(sib, route)
    except Exception: pass

def observe(case, route=None):
    build_sibling(case, route)
    with SolveRecorder() as rec:
        f = build(case, route)
    if len(rec.calls) != 1: raise AssertionError('numpy.linalg.solve was called %d times' % len(rec.calls))
    A, B, x = rec.calls[0]
    vals = [(f(r), f.deriv(r), f.deriv2(r)) for r in case['rs']]
    return {'A': A, 'B': B, 'x': x, 'vals': vals, 'coeffs': list(getattr(f, 'splineCoefficients', []))}

# ------------------------------------------------------------------------------------------- model terms
def coq_callable(l):
    name, ps = l['form'], l['params']
    def fn(suffix):
        if name == 'polynomial': return '(fun r => polynomial_%s r [%s])' % (suffix, '; '.join(rq(p) for p in ps))
        return '(fun r => %s_%s r %s)' % (name, suffix, ' '.join(rq(p) for p in ps))
    return '{| cf := %s; cd := Some %s; cd2 := Some %s |}' % (fn('call'), fn('deriv'), fn('deriv2'))

PRE_EXTRA = '''From Coq Require Import Lra.
From V Require Import gen.Splines model.Spline proof.C10.
Ltac pick := unfold region, which_spline;
  repeat match goal with
  | |- context [Rle_dec ?a ?b] => destruct (Rle_dec a b); [try (exfalso; lra)|try (exfalso; lra)]
  | |- context [Rlt_dec ?a ?b] => destruct (Rlt_dec a b); [try (exfalso; lra)|try (exfalso; lra)]
  end.
Ltac expose10 := cbv beta iota zeta delta [custom_spline exp_spline_callable buck4_spline_callable poly_callable dval d2val sp_fn sp_r sp_v sp_d sp_dd sp_dc sp_d2c
   exp_inter Rmin exp_A exp_rhs buck4_M buck4_V dot nth firstn map orb has_d has_d2 cf cd cd2 gradient gradient_h]; pick; expose.
'''

def goal(idx, term, value, tol):
    return ('Goal True. Proof. first [ timeout 120 (first [ assert (Rabs (%s - %s) <= %s) by (expose10; interval with (i_prec 120, i_depth 5)) | idtac "PFAIL %d" ]) | idtac "PSKIP" ]. exact I. Qed.'
            % (term, rq(value), rq(tol), idx))

def case_goals(i, case, o):
    gs = []
    d = '{| sp_fn := %s; sp_r := %s |}' % (coq_callable(case['start']), rq(case['detach']))
    a = '{| sp_fn := %s; sp_r := %s |}' % (coq_callable(case['end']), rq(case['attach']))
    sy, sd, sdd = point_data(case['start'], case['detach']); ey, ed, edd = point_data(case['end'], case['attach'])
    A, B, x = o['A'], o['B'], o['x']
    n = len(B)
    if case['kind'] == 'exp':
        if n != 6: return ['Goal True. idtac "PFAIL %d". exact I. Qed.' % i]
        Am = '(exp_A (sp_r %s) (sp_r %s))' % (d, a)
        # the right-hand side is built from the (possibly shifted) values: the model's shift is exp_inter
        inter = '(exp_inter (sp_v %s) (sp_v %s))' % (d, a)
        # the sign tests of exp_inter are decided on the exact rationals of the floats the implementation saw; when a model
        # value is within rounding of 0 the case is skipped by the caller
        shifted = sy <= 0.0 or ey <= 0.0
        ival = (1.0 - min(sy, ey)) if shifted else 0.0
        rhsm = '(exp_rhs (%s + %s) (%s + %s) %s %s %s %s)' % (rq(sy), rq(ival), rq(ey), rq(ival), rq(sd), rq(ed), rq(sdd), rq(edd))
        coeffs, C = x, -ival
        gs.append(goal(i, '(exp_inter %s %s)' % (rq(sy), rq(ey)), ival, 1e-12 * (1 + abs(ival))))
        spl = '(exp_spline_callable [%s] %s)' % ('; '.join(rq(v) for v in coeffs), rq(C))
        if list(o['coeffs'][:6]) != coeffs or (o['coeffs'] and o['coeffs'][6] != C and abs(o['coeffs'][6] - C) > 1e-12 * (1 + abs(C))):
            if o['coeffs']: return ['Goal True. idtac "PFAIL %d". exact I. Qed.' % i]
    else:
        if n != 10: return ['Goal True. idtac "PFAIL %d". exact I. Qed.' % i]
        Am = '(buck4_M (sp_r %s) %s (sp_r %s))' % (d, rq(case['r_min']), a)
        rhsm = '(buck4_V %s %s %s %s %s %s)' % tuple(rq(v) for v in (sy, sd, sdd, ey, ed, edd))
        spl = '(buck4_spline_callable %s [%s])' % (rq(case['r_min']), '; '.join(rq(v) for v in x))
        if o['coeffs'] and list(o['coeffs']) != x: return ['Goal True. idtac "PFAIL %d". exact I. Qed.' % i]
    # point data of the model = what the implementation's Spline_Points reported
    for (p, vals) in ((d, (sy, sd, sdd)), (a, (ey, ed, edd))):
        for fnm, v in zip(('sp_v', 'sp_d', 'sp_dd'), vals):
            gs.append(goal(i, '(%s %s)' % (fnm, p), v, 1e-9 * max(1.0, abs(v))))
    # the matrix and right-hand side numpy.linalg.solve received are the translated ones
    for r_ in range(n):
        row = ' /\\ '.join('Rabs (nth %d (nth %d %s []) 0 - %s) <= %s' % (c_, r_, Am, rq(A[r_][c_]), rq(1e-12 * max(1.0, abs(A[r_][c_])))) for c_ in range(n))
        gs.append('Goal True. Proof. first [ assert (%s) by (repeat split; expose10; interval with (i_prec 120)) | idtac "PFAIL %d" ]. exact I. Qed.' % (row, i))
        gs.append(goal(i, '(nth %d %s 0)' % (r_, rhsm), B[r_], 1e-10 * max(1.0, abs(B[r_]))))
    # the coefficients returned solve the translated system (residual at the scale of the row's terms)
    for r_ in range(n):
        mag = sum(abs(A[r_][c_] * x[c_]) for c_ in range(n)) + abs(B[r_])
        gs.append(goal(i, '(dot (nth %d %s []) [%s])' % (r_, Am, '; '.join(rq(v) for v in x)), B[r_], 1e-7 * max(mag, 1e-30)))
    # the splined callable, region by region
    S = '(custom_spline %s %s %s)' % (d, a, spl)
    for r, (v, dv, ddv) in zip(case['rs'], o['vals']):
        for acc, val in (('cf %s' % S, v), ('dval %s' % S, dv), ('d2val %s' % S, ddv)):
            gs.append(goal(i, '(%s %s)' % (acc, rq(r)), val, tol_at(case, x, r, val)))
    return gs

def tol_at(case, x, r, val):
    """float evaluation error of the implementation: relative to the size of the terms summed"""
    if case['kind'] == 'buck4' and case['detach'] < r < case['attach']:
        mag = sum(abs(c) * abs(r) ** k for k, c in enumerate(x[:6] if r < case['r_min'] else x[6:])) * 30
        return 1e-9 * max(mag, abs(val), 1.0)
    if case['kind'] == 'exp' and case['detach'] < r < case['attach']:
        mag = sum(abs(c) * abs(r) ** k for k, c in enumerate(x[:6]))      # the exponent's terms: error of exp is relative mag*eps
        return max(1e-9, 1e-13 * mag * 400) * max(abs(val), 1.0)
    return 1e-9 * max(abs(val), 1.0)

def near_sign_change(case):
    sy = point_data(case['start'], case['detach'])[0]; ey = point_data(case['end'], case['attach'])[0]
    return case['kind'] == 'exp' and (abs(sy) < 1e-9 or abs(ey) < 1e-9)

def correspond(ctx):
    rng = ctx['rng']
    n = 60 if ctx['thorough'] else 14
    cases, goals, dis, obs = [], [], [], []
    for c in corpus() + [gen_case(rng) for _ in range(n)]:
        if near_sign_change(c): continue
        try: o = observe(c)
        except Exception as e:
            dis.append({'case': c, 'what': 'building the splined potential raised %s: %s' % (type(e).__name__, str(e)[:120])}); continue
        cases.append(c); obs.append(o)
        goals += case_goals(len(cases) - 1, c, o)
    old = fc.POINT_PRE
    fc.POINT_PRE = old + PRE_EXTRA
    try: bad = sorted(set(fc.run_point_goals('C10', goals, chunk=40)))
    finally: fc.POINT_PRE = old
    for i in bad:
        dis.append({'case': cases[i], 'what': 'model and implementation differ (point data, matrix / right-hand side passed to numpy.linalg.solve, residual of the returned coefficients, or value/deriv/deriv2 of the splined callable); coefficients %r' % (obs[i]['x'],)})
    dist = {'exp': sum(1 for c in cases if c['kind'] == 'exp'), 'buck4': sum(1 for c in cases if c['kind'] == 'buck4'),
            'routes': {r: sum(1 for c in cases if c['route'] == r) for r in ('class', 'modifier', 'form')},
            'shifted_exp': sum(1 for c in cases if c['kind'] == 'exp' and (point_data(c['start'], c['detach'])[0] <= 0 or point_data(c['end'], c['attach'])[0] <= 0)),
            'forms_start': sorted({c['start']['form'] for c in cases}), 'forms_end': sorted({c['end']['form'] for c in cases}),
            'goals': len(goals), 'sample_points': sum(len(c['rs']) for c in cases)}
    return {'evaluations': len(goals), 'cases': cases, 'nontrivial': core.distinct_count(cases),
            'rule': 'pairs of built-in forms (zbl, buck, bornmayer, coul, lj, morse, polynomial, constant, exponential, hbnd) with detach in [0.75, 2], attach 0.5..2 beyond (r_min in between), kept when well conditioned '
                    '(|v|,|v\'|,|v\'\'| < 1e4 at the joins; exp: shift <= 50, log-derivatives <= 20 / 200); built through SplinePotential / Buck4_SplinePotential, the spline() modifier and as.buck4; per case: the six point values, '
                    'every entry of the matrix and right-hand side numpy.linalg.solve received vs the translated system, the residual of the returned coefficients, and value/deriv/deriv2 at 7..10 separations '
                    '(both joins, both sides, inside, r_min and its two sides), all interval-certified; every case is non-trivial',
            'samples': cases[:3], 'distribution': dist, 'disagreements': dis[:20], 'oracle_cases': cases + oracle_corpus() + [gen_case(rng) for _ in range(150 if ctx['thorough'] else 40)]}

def corpus():
    c1 = {'kind': 'exp', 'start': {'form': 'zbl', 'params': [14.0, 8.0]}, 'end': {'form': 'buck', 'params': [180003.0, 0.3, 32.0]}, 'detach': 0.8, 'attach': 1.4, 'route': 'modifier'}
    c2 = {'kind': 'buck4', 'start': {'form': 'bornmayer', 'params': [11272.6, 0.1363]}, 'end': {'form': 'buck', 'params': [0.0, 1.0, 134.0]}, 'detach': 1.2, 'r_min': 2.1, 'attach': 2.6, 'route': 'form'}
    c3 = {'kind': 'exp', 'start': {'form': 'coul', 'params': [2.0, -1.0]}, 'end': {'form': 'buck', 'params': [1000.0, 0.25, 30.0]}, 'detach': 1.0, 'attach': 2.5, 'route': 'class'}   # negative values: shifted
    # whole-number knots, written without a decimal point (the model file keeps them as Python ints): the same spline as with 1.0 2.0 3.0
    c4 = {'kind': 'buck4', 'start': {'form': 'bornmayer', 'params': [11272.6, 0.1363]}, 'end': {'form': 'buck', 'params': [0.0, 1.0, 134.0]}, 'detach': 1, 'r_min': 2, 'attach': 3, 'route': 'form'}
    c5 = {'kind': 'exp', 'start': {'form': 'bornmayer', 'params': [1000.0, 0.5]}, 'end': {'form': 'buck', 'params': [500.0, 0.5, 10.0]}, 'detach': 1, 'attach': 2, 'route': 'modifier'}
    out = []
    rng = random.Random(10)
    for c in (c1, c2, c3, c4, c5):
        c['rs'] = sample_rs(rng, c); out.append(c)
    return out

def oracle_corpus():
    """oracle-only cases (no Coq goals): a modifier as the end potential of a spline, its range written exclusively ('>attach sum(...)')"""
    c1 = {'kind': 'exp', 'start': {'form': 'zbl', 'params': [14.0, 8.0]}, 'end': {'sum': [{'form': 'buck', 'params': [18003.7572, 0.2052048149, 133.5381]}, {'form': 'coul', 'params': [2.4, -1.2]}]},
          'detach': 0.8, 'attach': 1.4, 'route': 'modifier'}
    c2 = {'kind': 'buck4', 'start': {'sum': [{'form': 'bornmayer', 'params': [1000.0, 0.3]}, {'form': 'constant', 'params': [0.5]}]}, 'end': {'sum': [{'form': 'buck', 'params': [0.0, 1.0, 30.0]}, {'form': 'constant', 'params': [-0.25]}]},
          'detach': 1.2, 'r_min': 2.0, 'attach': 2.6, 'route': 'modifier'}
    # a spline whose start potential is itself a spline of the same kind: two regions, each with its own knots
    inner = {'spline': {'start': {'form': 'zbl', 'params': [14.0, 8.0]}, 'end': {'form': 'buck', 'params': [18003.7572, 0.2052, 133.5381]}, 'detach': 0.8, 'attach': 1.4}}
    c3 = {'kind': 'exp', 'start': inner, 'end': {'form': 'constant', 'params': [0.25]}, 'detach': 4.0, 'attach': 5.0, 'route': 'modifier'}
    c4 = {'kind': 'exp', 'start': {'form': 'bornmayer', 'params': [1000.0, 0.5]}, 'end': {'spline': {'start': {'form': 'buck', 'params': [500.0, 0.5, 10.0]}, 'end': {'form': 'constant', 'params': [0.5]}, 'detach': 3.0, 'attach': 3.5}},
          'detach': 1.0, 'attach': 2.0, 'route': 'modifier'}
    out = []
    rng = random.Random(11)
    for c in (c1, c2, c3, c4):
        c['rs'] = sample_rs(rng, c); out.append(c)
    return out

# ------------------------------------------------------------------------------------------- the statement as an oracle
def richardson(f, x, h):
    d1 = (f(x + h) - f(x - h)) / (2 * h); d2 = (f(x + h / 2) - f(x - h / 2)) / h
    return (4 * d2 - d1) / 3

def oracle(case):
    fails = []
    if not well_conditioned(case): return []
    build_sibling(case)
    try: f = build(case)
    except Exception as e: return ['building the splined potential raised %s: %s' % (type(e).__name__, str(e)[:120])]
    s, e = py_leaf(case['start']), py_leaf(case['end'])
    d, a = case['detach'], case['attach']
    sy, sd, sdd = s(d), s.deriv(d), s.deriv2(d); ey, ed, edd = e(a), e.deriv(a), e.deriv2(a)
    Sd = max(1.0, abs(sy), abs(sd), abs(sdd)); Sa = max(1.0, abs(ey), abs(ed), abs(edd))
    # end potentials kept
    for r in (d, d - 0.125, d - 0.5):
        if r <= 0: continue
        if (f(r), f.deriv(r), f.deriv2(r)) != (s(r), s.deriv(r), s.deriv2(r)): fails.append('at r = %r <= detach the splined potential gives %r, the start potential %r' % (r, (f(r), f.deriv(r), f.deriv2(r)), (s(r), s.deriv(r), s.deriv2(r))))
    for r in (a, a + 0.125, a + 1.5):
        if (f(r), f.deriv(r), f.deriv2(r)) != (e(r), e.deriv(r), e.deriv2(r)): fails.append('at r = %r >= attach the splined potential gives %r, the end potential %r' % (r, (f(r), f.deriv(r), f.deriv2(r)), (e(r), e.deriv(r), e.deriv2(r))))
    # C2 joins: the spline object itself, evaluated at detach and attach, against the end potentials there
    TOL = 1e-6
    cs = inner_custom(f)
    if cs is None: cs = build(case, 'class' if case['route'] != 'form' else 'form')
    sp = cs.interpolationFunction
    for (r, side, want, S) in ((d, 'detach', (sy, sd, sdd), Sd), (a, 'attach', (ey, ed, edd), Sa)):
        got = (sp(r), sp.deriv(r), sp.deriv2(r))
        for nm, g, wv in zip(('value', 'first derivative', 'second derivative'), got, want):
            if abs(g - wv) > TOL * S: fails.append('%s of the spline at %s (r = %r) is %r, the potential joined there has %r' % (nm, side, r, g, wv))
    w = a - d
    # deriv / deriv2 inside the region are the derivatives of what is evaluated there
    for t in (0.3, 0.7):
        r = d + w * t; h = w * 0.004
        if case['kind'] == 'buck4' and abs(r - case['r_min']) < 2 * h: continue
        n1 = richardson(f, r, h); n2 = richardson(f.deriv, r, h)
        m0 = max(abs(f(r + k * h)) for k in (-1, -0.5, 0, 0.5, 1)); m1 = max(abs(f.deriv(r + k * h)) for k in (-1, -0.5, 0, 0.5, 1))
        if abs(f.deriv(r) - n1) > 1e-5 * (abs(n1) + m0 / h + 1e-9): fails.append('deriv(%r) = %r inside the region, the spline has slope %r' % (r, f.deriv(r), n1))
        if abs(f.deriv2(r) - n2) > 1e-5 * (abs(n2) + m1 / h + 1e-9): fails.append('deriv2(%r) = %r inside the region, deriv has slope %r' % (r, f.deriv2(r), n2))
    # advertised shape
    co = None
    try: co = build(case, 'class' if case['route'] != 'form' else 'form').splineCoefficients
    except Exception: pass
    if co is not None:
        for t in (0.2, 0.5, 0.9):
            r = d + w * t
            if case['kind'] == 'exp':
                p = sum(c * r ** k for k, c in enumerate(co[:6]))
                want = math.exp(p) + co[6]
                mag = sum(abs(c) * r ** k for k, c in enumerate(co[:6]))
                if abs(f(r) - want) > max(1e-9, 1e-12 * mag) * max(1.0, abs(want)): fails.append('inside the region f(%r) = %r, exp(P5(r)) + C = %r' % (r, f(r), want))
            else:
                cs = co[:6] if r < case['r_min'] else co[6:]
                want = sum(c * r ** k for k, c in enumerate(cs)); mag = sum(abs(c) * r ** k for k, c in enumerate(cs))
                if abs(f(r) - want) > 1e-10 * max(mag, 1.0): fails.append('inside the region f(%r) = %r, the polynomial piece gives %r' % (r, f(r), want))
    if case['kind'] == 'buck4':
        rm = case['r_min']; S = max(Sd, Sa) * max(1.0, 1.0 / min(rm - d, a - rm) ** 2)
        if abs(f.deriv(rm)) > TOL * S: fails.append('slope at r_min = %r is %r, not 0' % (rm, f.deriv(rm)))
        s5, s3 = sp.spline5, sp.spline3
        for nm, g5, g3 in (('value', s5, s3), ('first derivative', s5.deriv, s3.deriv), ('second derivative', s5.deriv2, s3.deriv2)):
            if abs(g5(rm) - g3(rm)) > TOL * S: fails.append('%s of the two polynomial pieces differs at r_min: %r vs %r' % (nm, g5(rm), g3(rm)))
    # the construction routes agree
    routes = ['class', 'modifier'] + (['form', 'potable_form'] if case['route'] == 'form' else [])
    ref = None
    for rt in routes:
        try: g = build(case, rt)
        except Exception as ex: fails.append('route %s raised %s: %s' % (rt, type(ex).__name__, str(ex)[:100])); continue
        vals = [(g(r), g.deriv(r), g.deriv2(r)) for r in case['rs']]
        if ref is None: ref = (rt, vals); continue
        for r, v0, v1 in zip(case['rs'], ref[1], vals):
            if any(abs(x - y) > 1e-7 * max(1.0, abs(x), abs(y)) * max(1.0, 1 / w ** 2) for x, y in zip(v0, v1)):
                fails.append('routes %s and %s differ at r = %r: %r vs %r' % (ref[0], rt, r, v0, v1)); break
    return fails[:8]

def inner_custom(f):
    if hasattr(f, 'interpolationFunction'): return f
    try:
        g = f.range_defns[0].potential_form
        return g if hasattr(g, 'interpolationFunction') else None
    except Exception:
        return None

def search_cases(rng, n):
    for c in corpus(): yield c
    for c in oracle_corpus(): yield c
    for _ in range(n): yield gen_case(rng)
def finding_for(case, fails): return None
def replay_finding(f): return False
