"""C12 -- determinism and purity: model/Evaluator.v (custom forms with one mutable symbol table each) against the energies of
potentials built from generated [Potential-Form] sets under arbitrary evaluation histories; model/History.v against
build / write / evaluate histories on several real tabulation objects, every observation compared with the same operation
on a freshly built object in a FRESH PROCESS with another hash seed; potable output across PYTHONHASHSEED values."""
import fractions, io, json, os, random, subprocess, sys
import core, layout, store_common as sc
from layout import q

ID = 'C12'
GENMODS = ['gen_c12', 'gen_c08', 'gen_eam']
TARGET = 'props/C12.vo'
PROOF_FILES = ['proof/C12.v', 'props/C12.v']
AXIOMS = []
TRUSTED = [
    'Coq 8.16.1 kernel; no axioms; vm_compute evaluates the evaluator model for the correspondence',
    'model/Evaluator.v and model/History.v are hand written: the body of _Cexptrk_Potential_Function.__call__ / _init_symbol_table / register_function, mutual registration, the lazy caches and the zero-fill loop are asserted on the AST; '
    'a fail-closed static check asserts that objects shared through default arguments are never mutated and that no other mutable default exists (harness/gen_c12.py)',
    'cexprtk (a C++ extension) is assumed to evaluate +, -, * and calls as written and to read variables from the symbol table at evaluation time; forms are assumed non-recursive (the model\'s wf); '
    'process-level behaviour (hash seeds, openpyxl / C writers) is not modelled: exercised by subprocess runs with several PYTHONHASHSEED values; xlsx files are compared as sheet contents (the zip container carries timestamps)',
]
PRE = '''From Coq Require Import QArith List ZArith.
From V Require Import lib.Common model.Evaluator model.History.
Import ListNotations.
Definition enc_q (x : Q) : list Z := let r := Qred x in [Qnum r; Zpos (Qden r)].
Definition enc_qs (l : list Q) : list Z := flat_map enc_q l.
Definition obsz (o : obs nat (nat * nat * nat)) : list Z :=
  match o with Nothing => [0%Z] | Written m => [1%Z; Z.of_nat m] | Value (m, k, x) => [2%Z; Z.of_nat m; Z.of_nat k; Z.of_nat x] | NoSuch => [3%Z] end.
Definition hrun (h : list (op nat nat)) : list Z :=
  flat_map obsz (History.run nat nat (nat * nat * nat) nat unit unit (fun _ m => m) (fun m tb k x => ((m, k, x), tb)) (fun _ => tt)
                   (History.init nat nat unit unit tt) h).
'''
HERE = os.path.dirname(os.path.abspath(__file__))

# ------------------------------------------------------------------------------------------- (a) evaluator cases
CONSTS = [-2.0, -1.0, 0.5, 1.0, 2.0, 3.0, 0.25]
def gen_expr(rng, depth, nvars, arities):
    """arities: parameter counts (r included) of the lower-numbered forms"""
    r = rng.random()
    if depth == 0 or r < 0.2:
        return ['var', rng.randrange(nvars)] if rng.random() < 0.7 else ['const', rng.choice(CONSTS)]
    if r < 0.75 or not arities:
        return [rng.choice(['add', 'sub', 'mul']), gen_expr(rng, depth - 1, nvars, arities), gen_expr(rng, depth - 1, nvars, arities)]
    j = rng.randrange(len(arities))
    return ['call', j, [gen_expr(rng, depth - 1, nvars, arities) for _ in range(arities[j])]]

def gen_eval_case(rng):
    nf = rng.choice([1, 2, 2, 3, 3, 4])
    arities, bodies = [], []
    for j in range(nf):
        nv = rng.choice([1, 2, 2, 3])
        e = gen_expr(rng, rng.choice([1, 2, 2]), nv, arities)
        if j > 0 and 'call' not in json.dumps(e) and rng.random() < 0.8:      # make sub-forms shared, with different arguments
            k = rng.randrange(j)
            a1 = [['var', min(i, nv - 1)] for i in range(arities[k])]
            a2 = [['var', 0]] + [['add', ['var', min(i, nv - 1)], ['const', rng.choice(CONSTS)]] for i in range(1, arities[k])]
            e = [rng.choice(['add', 'mul']), ['call', k, a1], ['sub', ['call', k, a2], e]]
        arities.append(nv); bodies.append(e)
    pots = []
    pairs = [('A', 'A'), ('A', 'B'), ('B', 'B'), ('A', 'C'), ('B', 'C'), ('C', 'C')]
    for (a, b) in rng.sample(pairs, rng.randint(2, 5)):
        j = rng.randrange(nf)
        pots.append({'a': a, 'b': b, 'form': j, 'params': [rng.choice([-1.0, 0.5, 1.0, 2.0, 3.0]) for _ in range(arities[j] - 1)]})
    rs = [0.5, 1.0, 1.5, 2.0, 0.25]
    hist = [[rng.randrange(len(pots)), rng.choice(rs)] for _ in range(rng.randint(4, 14))]
    return {'kind': 'eval', 'arities': arities, 'bodies': bodies, 'pots': pots, 'history': hist}

NAMES = ['fa', 'fb', 'fc', 'fd']
def expr_text(e, names):
    t = e[0]
    if t == 'var': return names[e[1]]
    if t == 'const': return '(%r)' % e[1]
    if t == 'call': return '%s(%s)' % (NAMES[e[1]], ', '.join(expr_text(x, names) for x in e[2]))
    return '(%s %s %s)' % (expr_text(e[1], names), {'add': '+', 'sub': '-', 'mul': '*'}[t], expr_text(e[2], names))
def expr_coq(e):
    t = e[0]
    if t == 'var': return '(Var %d)' % e[1]
    if t == 'const': return '(Const %s)' % q(e[1])
    if t == 'call':
        a = 'ENil'
        for x in reversed(e[2]): a = '(ECons %s %s)' % (expr_coq(x), a)
        return '(Call %d %s)' % (e[1], a)
    return '(%s %s %s)' % ({'add': 'Add', 'sub': 'Sub', 'mul': 'Mul'}[t], expr_coq(e[1]), expr_coq(e[2]))

def eval_text(case):
    t = '[Tabulation]\ntarget : LAMMPS\nnr : 5\ncutoff : 2.0\n[Potential-Form]\n'
    for j, (nv, b) in enumerate(zip(case['arities'], case['bodies'])):
        names = ['r'] + ['p%d' % i for i in range(1, nv)]
        t += '%s(%s) = %s\n' % (NAMES[j], ', '.join(names), expr_text(b, names))
    t += '[Pair]\n' + ''.join('%s-%s : %s %s\n' % (p['a'], p['b'], NAMES[p['form']], ' '.join(repr(v) for v in p['params'])) for p in case['pots'])
    return t

def find_pot(tab, a, b):
    for p in tab.potentials:
        if (p.speciesA, p.speciesB) == (a, b): return p
    raise KeyError((a, b))

def run_eval_impl(case):
    from atsim.potentials.config import Configuration
    tab = Configuration().read(io.StringIO(eval_text(case)))
    ps = [find_pot(tab, p['a'], p['b']) for p in case['pots']]
    return [ps[k].energy(r) for (k, r) in case['history']]

def eval_model_expr(case):
    bodies = '[%s]' % '; '.join(expr_coq(b) for b in case['bodies'])
    h = '[%s]' % '; '.join('(%d%%nat, [%s])' % (case['pots'][k]['form'], '; '.join(q(v) for v in [r] + case['pots'][k]['params'])) for (k, r) in case['history'])
    s0 = '(repeat [] %d)' % len(case['bodies'])
    return '(enc_qs (fst (Evaluator.run (build_calls %s) %s %s)))' % (bodies, h, s0)

# ------------------------------------------------------------------------------------------- (b) histories over several models
SP = ['Zr', 'Al', 'Cu', 'Fe', 'O', 'Ni', 'Mg', 'U']
def gen_model_text(rng):
    kind = rng.choice(['pair', 'pair', 'eam', 'fs', 'excel', 'excel_eam'])
    els = rng.sample(SP, rng.choice([2, 3, 4]))
    # the same labels mean different things in different models: `core` (a helper the unchanged text of `mix` calls), `emb`
    # and the table form `tb` differ from model to model by a variant number
    v = rng.choice([0, 0, 1, 2, 3])
    forms = '[Potential-Form]\ncore(r, a, b) = a*exp(-r/b)%s\nmix(r, a, b, c) = core(r, a, b) - core(r, c, b+b) + a*0.001\nemb(rho, a) = -a*sqrt(rho)%s\n' % (
        (' + %r' % (0.125 * v) if v else ''), (' - %r*rho' % (0.25 * v) if v else ''))
    forms += '[Table-Form:tb]\nx : 0.0 1.0 2.0 3.0 4.0 5.0\ny : %s\n' % ' '.join(repr(round(2.0 / (1 + i) + 0.5 * v, 4)) for i in range(6))
    pdefs = ['as.buck 1000.0 0.3 32.0', 'as.lj 0.25 2.5', 'core 500.0 0.4', 'mix 400.0 0.3 20.0', 'mix 100.0 0.5 7.0', 'core 20.0 0.75',
             'tb', 'sum(tb, core 5.0 0.5)', '>0 as.constant 2.0 >1.0 as.constant 3.0 >=1.5 core 10.0 0.5', '>=0.5 as.buck 800.0 0.3 0.0 >1.0 as.constant -1.0', 'sum(core 10.0 0.5, as.coul 1.0 -1.0)']
    allp = [(a, b) for i, a in enumerate(els) for b in els[i:]]
    pairs = rng.sample(allp, min(len(allp), rng.randint(2, 4)))
    ptxt = '[Pair]\n' + ''.join('%s-%s : %s\n' % (a, b, rng.choice(pdefs)) for (a, b) in pairs)
    if kind in ('pair', 'excel'):
        target = rng.choice(['LAMMPS', 'GULP', 'DL_POLY']) if kind == 'pair' else 'excel'
        # some models leave the grid to the documented defaults (1001 rows to 10.0): they must not inherit another model's grid
        grid = 'nr : 8\ncutoff : 3.5\n' if (kind == 'excel' or target == 'DL_POLY' or rng.random() < 0.85) else rng.choice(['', 'cutoff : 3.5\n', 'nr : 8\n'])
        t = '[Tabulation]\ntarget : %s\n' % target + grid + forms + ptxt
        return {'text': t, 'npots': len(pairs)}
    fs = kind == 'fs'
    target = {'eam': rng.choice(['setfl', 'DL_POLY_EAM']), 'fs': rng.choice(['setfl_fs', 'DL_POLY_EAM_fs']), 'excel_eam': 'excel_eam'}[kind]
    t = '[Tabulation]\ntarget : %s\nnr : 6\ncutoff : 2.5\nnrho : 4\ncutoff_rho : 6.0\n' % target + forms + ptxt
    # under-specified: embedding functions for SOME species only; the others are zero-filled
    emb = rng.sample(els, rng.randint(1, max(1, len(els) - 1)))
    t += '[EAM-Embed]\n' + ''.join('%s : %s\n' % (e, 'emb %r' % (1.0 + i) if i % 2 == 0 else 'tb') for i, e in enumerate(emb))
    if fs: t += '[EAM-Density]\n' + ''.join('%s->%s : core %r 0.5\n' % (a, b, 1.0 + i) for i, (a, b) in enumerate([(a, b) for a in els for b in els if rng.random() < 0.8] or [(els[0], els[0])]))
    else: t += '[EAM-Density]\n' + ''.join('%s : core %r 0.5\n' % (e, 2.0 + i) for i, e in enumerate(els))
    # per-model reference data: overrides of built-in elements must stay with the model that declares them
    if rng.random() < 0.5:
        e = rng.choice(els)
        t += '[Species]\n' + ''.join('%s.%s : %s\n' % (e, k, v) for k, v in rng.sample([('atomic_mass', repr(round(rng.uniform(1, 250), 2))), ('lattice_constant', repr(round(rng.uniform(2, 6), 2))),
                                                                                       ('lattice_type', rng.choice(['bcc', 'hcp', 'fcc'])), ('atomic_number', str(rng.randint(1, 100)))], rng.randint(1, 3)))
    return {'text': t, 'npots': len(pairs)}

RS = [0.5, 1.0, 1.5, 2.0, 0.75, 1.25, 3.0]
def gen_history_case(rng):
    nm = rng.choice([1, 2, 2, 3])
    models = [gen_model_text(rng) for _ in range(nm)]
    ops, built = [], []
    pending = list(range(nm))
    for _ in range(rng.randint(6, 16)):
        r = rng.random()
        if pending and (not built or r < 0.25):
            m = pending.pop(0) if rng.random() < 0.8 else rng.randrange(nm)      # the same model may be built twice
            ops.append(['build', m]); built.append(m)
        elif r < 0.55: ops.append(['write', rng.randrange(len(built))])
        else:
            i = rng.randrange(len(built))
            ops.append(['eval', i, rng.randrange(models[built[i]]['npots']), rng.randrange(len(RS))])
    if not any(o[0] == 'write' for o in ops): ops.append(['write', 0])
    return {'kind': 'history', 'models': models, 'ops': ops, 'seed': rng.choice([1, 2, 3, 7, 1234, 99999])}

def history_model_expr(case):
    def op(o):
        if o[0] == 'build': return '(Build %d%%nat)' % o[1]
        if o[0] == 'write': return '(Write %d%%nat)' % o[1]
        return '(Eval %d%%nat %d%%nat %d%%nat)' % (o[1], o[2], o[3])
    return '(hrun [%s])' % '; '.join(op(o) for o in case['ops'])

def fresh(text, evals, seed, evals_first=False):
    """the same model in a fresh interpreter with another hash seed: written output and energies"""
    env = dict(os.environ); env['PYTHONHASHSEED'] = str(seed)
    req = json.dumps({'text': text, 'evals': evals, 'harness': HERE, 'evals_first': evals_first})
    p = subprocess.run([sys.executable, os.path.join(HERE, 'c12_child.py')], input=req, stdout=subprocess.PIPE, stderr=subprocess.PIPE, text=True, env=env)
    if p.returncode != 0: return {'exc': 'child failed: ' + p.stderr[-300:]}
    return json.loads(p.stdout)

def write_tab(tab):
    excel = tab.target.startswith('excel')
    out = io.BytesIO() if excel else io.StringIO()
    tab.write(out)
    if excel:
        import eam_common
        return eam_common.workbook_text(out.getvalue())
    return out.getvalue()

def run_history_impl(case):
    """the history on real objects in this process: list of observations"""
    from atsim.potentials.config import Configuration
    tabs, obs = [], []
    for o in case['ops']:
        if o[0] == 'build':
            tabs.append((o[1], Configuration().read(io.StringIO(case['models'][o[1]]['text'])))); obs.append(None)
        elif o[0] == 'write': obs.append(write_tab(tabs[o[1]][1]))
        else: obs.append(tabs[o[1]][1].potentials[o[2]].energy(RS[o[3]]))
    return obs

def check_history(case, zs):
    """zs: the model's observation tags; each observation of the real history must equal the fresh-process one"""
    try: obs = run_history_impl(case)
    except Exception as e: return 'running the history raised %s: %s' % (type(e).__name__, str(e)[:150])
    needed = {}
    pos = 0; tags = []
    for o in case['ops']:
        if zs[pos] == 0: tags.append(None); pos += 1
        elif zs[pos] == 1: tags.append(('w', zs[pos + 1])); pos += 2
        elif zs[pos] == 2: tags.append(('e', zs[pos + 1], zs[pos + 2], zs[pos + 3])); pos += 4
        else: tags.append('nosuch'); pos += 1
    for t in tags:
        if isinstance(t, tuple):
            needed.setdefault(t[1], set())
            if t[0] == 'e': needed[t[1]].add((t[2], t[3]))
    ref = {}
    for m, evs in needed.items():
        evs = sorted(evs)
        r = fresh(case['models'][m]['text'], [(k, RS[x]) for (k, x) in evs], case['seed'])
        if 'exc' in r: return 'fresh-process build of model %d failed: %s' % (m, r['exc'])
        ref[m] = (r['out'], dict(zip(evs, r['energies'])))
    for i, (o, t, ob) in enumerate(zip(case['ops'], tags, obs)):
        if t is None: continue
        if t == 'nosuch': return 'operation %d %r addresses an object that was not built' % (i, o)
        if t[0] == 'w':
            if ob != ref[t[1]][0]: return 'operation %d %r: bytes written differ from a fresh process (hash seed %s): %s' % (i, o, case['seed'], first_diff(ob, ref[t[1]][0]))
        else:
            want = ref[t[1]][1][(t[2], t[3])]
            if ob != want and not (ob != ob and want != want): return 'operation %d %r: energy %r, a fresh process gives %r' % (i, o, ob, want)
    return None

def first_diff(a, b):
    la, lb = a.split('\n'), b.split('\n')
    for i, (x, y) in enumerate(zip(la, lb)):
        if x != y: return 'line %d: %r vs %r' % (i + 1, x[:80], y[:80])
    return 'lengths %d vs %d lines' % (len(la), len(lb))

# ------------------------------------------------------------------------------------------- (c) hash seeds through the CLI
def gen_seed_case(rng):
    m = gen_model_text(rng)
    while 'EAM-Embed' not in m['text'] and rng.random() < 0.7: m = gen_model_text(rng)
    return {'kind': 'seeds', 'text': m['text'], 'seeds': rng.sample([0, 1, 2, 3, 5, 8, 13, 4242, 31337, 65535], 3)}

def potable_seed(text, seed):
    import tempfile, shutil
    d = tempfile.mkdtemp(prefix='c12_')
    try:
        inp = os.path.join(d, 'm.aspot'); outp = os.path.join(d, 'out.table')
        open(inp, 'w').write(text)
        env = dict(os.environ); env['PYTHONHASHSEED'] = str(seed)
        p = subprocess.run([sys.executable, '-c', 'from atsim.potentials.tools.potable import main; main()', inp, outp], stdout=subprocess.PIPE, stderr=subprocess.PIPE, env=env)
        if p.returncode != 0 or not os.path.exists(outp): return ('ERR', p.stderr.decode()[-200:])
        data = open(outp, 'rb').read()
        if data[:2] == b'PK':
            import eam_common
            return ('OK', eam_common.workbook_text(data))
        return ('OK', data.decode())
    finally:
        shutil.rmtree(d, ignore_errors=True)

def check_seeds(case):
    outs = [potable_seed(case['text'], s) for s in case['seeds']]
    for s, o in zip(case['seeds'], outs):
        if o[0] != 'OK': return 'potable failed under PYTHONHASHSEED=%s: %s' % (s, o[1])
        if o[1] != outs[0][1]: return 'potable output differs between PYTHONHASHSEED=%s and %s: %s' % (case['seeds'][0], s, first_diff(outs[0][1], o[1]))
    try: here = write_tab(__import__('atsim.potentials.config', fromlist=['Configuration']).Configuration().read(io.StringIO(case['text'])))
    except Exception as e: return 'in-process build raised %s' % type(e).__name__
    if here != outs[0][1]: return 'potable output differs from the in-process Configuration route: %s' % first_diff(here, outs[0][1])
    return None

# ------------------------------------------------------------------------------------------- driver
def gen_case(rng):
    r = rng.random()
    if r < 0.5: return gen_eval_case(rng)
    if r < 0.85: return gen_history_case(rng)
    return gen_seed_case(rng)

def corpus():
    c1 = {'kind': 'eval', 'arities': [2, 2], 'bodies': [['add', ['mul', ['var', 0], ['var', 1]], ['const', 1.0]],
          ['add', ['call', 0, [['var', 0], ['var', 1]]], ['mul', ['call', 0, [['var', 0], ['add', ['var', 1], ['var', 1]]]], ['var', 1]]]],
          'pots': [{'a': 'A', 'b': 'A', 'form': 1, 'params': [3.0]}, {'a': 'A', 'b': 'B', 'form': 0, 'params': [5.0]}, {'a': 'B', 'b': 'B', 'form': 1, 'params': [0.5]}],
          'history': [[0, 2.0], [1, 5.0], [0, 2.0], [2, 1.0], [1, 0.5], [2, 1.0], [0, 0.5]]}
    under = ('[Tabulation]\ntarget : setfl\nnr : 5\ncutoff : 2.0\nnrho : 3\ncutoff_rho : 4.0\n[Pair]\nAl-Al : as.buck 1000.0 0.3 32.0\nZr-O : >0 as.constant 2.0 >1.0 as.constant 3.0\n'
             '[EAM-Embed]\nFe : as.sqrt -1.0\n[EAM-Density]\nFe : as.exponential 2.0 1.0\nZr : as.exponential 1.0 2.0\nAl : as.exponential 1.5 2.0\nO : as.exponential 0.5 2.0\nCu : as.constant 0.1\nU : as.constant 0.2\nMg : as.constant 0.3\n')
    c2 = {'kind': 'seeds', 'text': under, 'seeds': [0, 1, 2, 31337]}
    c3 = {'kind': 'history', 'models': [{'text': under, 'npots': 2}], 'seed': 7,
          'ops': [['build', 0], ['eval', 0, 1, 2], ['eval', 0, 1, 1], ['eval', 0, 1, 0], ['eval', 0, 1, 1], ['write', 0], ['eval', 0, 1, 1], ['build', 0], ['eval', 1, 1, 1], ['write', 1], ['write', 0]]}
    # a model that leaves its grid to the documented defaults, built after a model of the same family that sets it
    ga = '[Tabulation]\ntarget : GULP\nnr : 8\ncutoff : 2.0\n[Pair]\nAl-Al : as.constant 1.0\n'
    gb = '[Tabulation]\ntarget : GULP\n[Pair]\nAl-Al : as.constant 2.0\n'
    c4 = {'kind': 'history', 'models': [{'text': ga, 'npots': 1}, {'text': gb, 'npots': 1}], 'seed': 3,
          'ops': [['build', 0], ['write', 0], ['build', 1], ['write', 1], ['eval', 1, 0, 1], ['write', 0]]}
    # formulas that ASSIGN to their own parameters / to r (in-place unit conversions): the symbol table must be re-bound on every call
    at = ('[Tabulation]\ntarget : LAMMPS\nnr : 6\ncutoff : 3.0\n[Potential-Form]\nbm(r, A, b) = A := A*2.0; r := r/0.5; A*exp(-b*r)\nlin(r, c) = c := c + 1.0; c*r\n'
          '[Pair]\nA-A : bm 3.0 0.5\nA-B : lin 2.0\nB-B : sum(bm 1.0 0.25, lin 0.5)\n')
    c5 = {'kind': 'assign', 'text': at, 'history': [[0, 1.0], [0, 1.0], [1, 2.0], [0, 2.0], [0, 1.0], [1, 2.0], [2, 1.5], [1, 0.5], [2, 1.5], [0, 2.0]]}
    # a large table (three pairs x 6000 rows) whose pairs share one custom form with different parameters: the rows of one pair must not
    # depend on when the rows of another are computed (a writer that tabulates big tables piecewise or concurrently shows only here)
    big = ('[Tabulation]\ntarget : LAMMPS\nnr : 6001\ncutoff : 6.0\n[Potential-Form]\nbm2(r, A, b) = A*exp(-b*r)\nmix(r, A, b, c) = bm2(r, A, b) + c/r\n'
           '[Pair]\nA-A : bm2 1000.0 3.0\nA-B : bm2 500.0 2.0\nB-B : mix 250.0 1.5 -0.5\n')
    c6 = {'kind': 'seeds', 'text': big, 'seeds': [0, 1, 2]}
    # an evaluation that FAILS (C/r^6 at r = 0 inside an inclusive range) leaves nothing behind: later energies and writes are those of a newly built model
    ft = ('[Tabulation]\ntarget : LAMMPS\nnr : 6\ncutoff : 3.0\n[Potential-Form]\nbk(r, A, rho, C) = as.buck(r, A, rho, C)\nsq(r, A) = A*pymath.sqrt(r - 1.0)\n'
          '[Pair]\nO-O : >=0 bk 1000.0 0.3 32.0\nO-U : >=0 sq 2.0\nU-U : sum(bk 500.0 0.25 10.0, as.constant 1.0)\n')
    c7 = {'kind': 'failed_eval', 'text': ft, 'history': [[0, 0.2], [0, 0.0], [0, 0.2], [1, 0.5], [1, 2.0], [0, 1.0], [2, 0.0], [2, 1.5], [1, 0.25], [0, 0.2]]}
    return [c1, c2, c3, c4, c5, c6, c7]

def correspond(ctx):
    rng = ctx['rng']
    n = 220 if ctx['thorough'] else 46
    cases = corpus() + [gen_case(rng) for _ in range(n)]
    dis = []
    ev = [c for c in cases if c['kind'] == 'eval']; hi = [c for c in cases if c['kind'] == 'history']; se = [c for c in cases if c['kind'] == 'seeds']
    res = sc.eval_results('C12', PRE, [eval_model_expr(c) for c in ev] + [history_model_expr(c) for c in hi])
    for c, zs in zip(ev, res[:len(ev)]):
        want = [fractions.Fraction(zs[i], zs[i + 1]) for i in range(0, len(zs), 2)]
        try: got = run_eval_impl(c)
        except Exception as e:
            dis.append({'case': c, 'what': 'evaluating the generated forms raised %s: %s' % (type(e).__name__, str(e)[:150])}); continue
        for i, (w, g) in enumerate(zip(want, got)):
            if abs(float(w) - g) > 1e-12 * max(1.0, abs(float(w))):
                dis.append({'case': c, 'what': 'evaluation %d of the history (potential %d at r = %r): model %r, implementation %r' % (i, c['history'][i][0], c['history'][i][1], float(w), g)}); break
    from concurrent.futures import ThreadPoolExecutor
    with ThreadPoolExecutor(max_workers=12) as ex:
        hres = list(ex.map(lambda cz: check_history(cz[0], cz[1]), zip(hi, res[len(ev):])))
        sres = list(ex.map(check_seeds, se))
    for c, w in zip(hi, hres):
        if w: dis.append({'case': c, 'what': w})
    for c, w in zip(se, sres):
        if w: dis.append({'case': c, 'what': w})
    dist = {'kinds': {'eval': len(ev), 'history': len(hi), 'seeds': len(se)},
            'eval': {'forms_max': max(len(c['bodies']) for c in ev), 'with_shared_subforms': sum(1 for c in ev if json.dumps(c['bodies']).count('"call"') >= 2), 'evaluations': sum(len(c['history']) for c in ev)},
            'history': {'ops': sum(len(c['ops']) for c in hi), 'multi_model': sum(1 for c in hi if len(c['models']) > 1), 'rebuilt_same_model': sum(1 for c in hi if len({o[1] for o in c['ops'] if o[0] == 'build'}) < sum(1 for o in c['ops'] if o[0] == 'build')),
                        'targets': sorted({l.split(':')[1].strip() for c in hi for m in c['models'] for l in m['text'].split('\n') if l.startswith('target')}),
                        'fresh_seeds': sorted({c['seed'] for c in hi})},
            'seeds': {'underspecified_eam': sum(1 for c in se if 'EAM-Embed' in c['text']), 'seed_values': sorted({s for c in se for s in c['seeds']})}}
    return {'evaluations': len(cases), 'cases': cases, 'nontrivial': core.distinct_count(cases),
            'rule': 'eval: 1..4 generated [Potential-Form] definitions (+,-,*, constants, calls to lower-numbered forms, shared sub-forms called with different arguments), 2..5 potentials instantiating them, histories of 4..14 energy evaluations in '
                    'arbitrary interleaving: each energy equals the model\'s run over the mutable symbol tables (exact rational vs float, 1e-12); history: 1..3 models (pair LAMMPS/GULP/DL_POLY/excel, EAM setfl/DL_POLY_EAM/excel_eam incl. Finnis-Sinclair, '
                    'under-specified embeddings, custom forms with shared sub-forms, multi-range potentials with boundaries on evaluated separations), 6..16 build/write/evaluate operations, each observation equal to a fresh-process run under another '
                    'hash seed; seeds: potable CLI under three PYTHONHASHSEED values and the in-process route give identical output; every case non-trivial',
            'samples': cases[:3], 'distribution': dist, 'disagreements': dis[:20], 'oracle_cases': cases[:40]}

def oracle(case):
    """the statement on the implementation alone"""
    k = case['kind']
    if k == 'assign':
        from atsim.potentials.config import Configuration
        try:
            tab = Configuration().read(io.StringIO(case['text'])); seen = {}; fails = []
            for (i, r) in case['history']:
                v = tab.potentials[i].energy(r)
                if (i, r) in seen and seen[(i, r)] != v: fails.append('potential %d at r = %r gave %r earlier and %r later (its formula assigns to its parameters)' % (i, r, seen[(i, r)], v))
                seen.setdefault((i, r), v)
            for (i, r), v in sorted(seen.items())[:4]:
                w = Configuration().read(io.StringIO(case['text'])).potentials[i].energy(r)
                if w != v: fails.append('potential %d at r = %r: %r within the history, %r as the first evaluation of a newly built model' % (i, r, v, w))
            a = write_tab(tab); b = write_tab(tab)
            if a != b: fails.append('writing the same tabulation twice gives different bytes')
        except Exception as e: return ['a model whose formulas assign to their parameters raised %s: %s' % (type(e).__name__, str(e)[:120])]
        return fails[:4]
    if k == 'failed_eval':
        from atsim.potentials.config import Configuration
        def ev(tab, i, r):
            try: return ('v', tab.potentials[i].energy(r))
            except Exception as e: return ('exc', type(e).__name__)
        same = lambda a, b: a == b or (a[0] == b[0] == 'v' and a[1] != a[1] and b[1] != b[1])
        try:
            tab = Configuration().read(io.StringIO(case['text'])); fails = []
            for n, (i, r) in enumerate(case['history']):
                got = ev(tab, i, r); want = ev(Configuration().read(io.StringIO(case['text'])), i, r)
                if not same(got, want): fails.append('potential %d at r = %r after %d earlier evaluations (some of which failed) gives %r, a newly built model gives %r' % (i, r, n, got, want)); break
            try: a = ('v', write_tab(tab))
            except Exception as e: a = ('exc', type(e).__name__)
            try: b = ('v', write_tab(Configuration().read(io.StringIO(case['text']))))
            except Exception as e: b = ('exc', type(e).__name__)
            if a != b: fails.append('writing after a history with failed evaluations gives %s, a newly built model %s' % (a[0] if a[0] == 'v' else a, b[0] if b[0] == 'v' else b))
        except Exception as e: return ['a model with evaluations that fail raised %s: %s' % (type(e).__name__, str(e)[:120])]
        return fails[:4]
    if k == 'seeds':
        w = check_seeds(case); return [w] if w else []
    if k == 'history':
        # what the model predicts for a history is "the fresh value": run it with the tags derived directly
        zs = []
        built = []
        for o in case['ops']:
            if o[0] == 'build': built.append(o[1]); zs += [0]
            elif o[0] == 'write': zs += [1, built[o[1]]] if o[1] < len(built) else [3]
            else: zs += [2, built[o[1]], o[2], o[3]] if o[1] < len(built) else [3]
        w = check_history(case, zs); return [w] if w else []
    # eval: the same potential at the same r gives the same energy whatever was evaluated in between, and equals a fresh process
    try: got = run_eval_impl(case)
    except Exception as e: return ['evaluating the generated forms raised %s: %s' % (type(e).__name__, str(e)[:150])]
    fails = []
    seen = {}
    for (k_, r), g in zip(case['history'], got):
        key = (k_, r)
        if key in seen and seen[key] != g and not (g != g): fails.append('potential %d at r = %r gave %r earlier and %r later in the same history' % (k_, r, seen[key], g))
        seen.setdefault(key, g)
    keys = sorted(seen)
    from atsim.potentials.config import Configuration
    for (k_, r) in keys[:6]:
        tab = Configuration().read(io.StringIO(eval_text(case)))
        p = case['pots'][k_]
        v = find_pot(tab, p['a'], p['b']).energy(r)
        if v != seen[(k_, r)] and v == v: fails.append('potential %d at r = %r: %r within the history, %r as the first evaluation of a newly built model' % (k_, r, seen[(k_, r)], v))
    return fails[:5]

def search_cases(rng, n):
    for c in corpus(): yield c
    for _ in range(n): yield gen_case(rng)
def finding_for(case, fails): return None
def replay_finding(f): return False
