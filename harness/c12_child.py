"""Child process of the C12 check: build ONE model in a fresh interpreter (hash seed chosen by the parent), write it,
evaluate the requested energies; print JSON.  Usage: python c12_child.py < request.json"""
import io, json, sys, logging, warnings
warnings.simplefilter('ignore'); logging.disable(logging.CRITICAL)
req = json.load(sys.stdin)
res = {}
try:
    from atsim.potentials.config import Configuration
    tab = Configuration().read(io.StringIO(req['text']))
    if req.get('evals_first'):
        res['energies'] = [tab.potentials[k].energy(r) for (k, r) in req['evals']]
    excel = tab.target.startswith('excel')
    out = io.BytesIO() if excel else io.StringIO()
    tab.write(out)
    if excel:
        sys.path.insert(0, req['harness'])
        import eam_common
        res['out'] = eam_common.workbook_text(out.getvalue())
    else:
        res['out'] = out.getvalue()
    if not req.get('evals_first'):
        res['energies'] = [tab.potentials[k].energy(r) for (k, r) in req['evals']]
except Exception as e:
    res['exc'] = '%s: %s' % (type(e).__name__, str(e)[:200])
json.dump(res, sys.stdout)
