"""Correspondence machinery for the table writers: recording callables, decoding of the token stream and
evaluation trace computed by the Coq layout models, rendering with the recorded values, exact text comparison."""
import fractions, io, math, re
import core
from core import Broken

FMT = {1: '%s', 2: '%d', 3: '%.8f', 4: '% 14.7e', 5: '%15.8e', 6: '%10d', 7: '%8s', 8: '% 20.16e', 9: '%20.16e',
       10: '%f', 11: '{:.10f}', 12: '{}'}
LIT = {0: '\n', 1: ' ', 2: '-', 3: 'N ', 4: ' R ', 5: 'spline cubic\n', 6: 'pair ', 7: 'embe ', 8: 'dens ', 9: ' 0.0 ',
       10: ' ' * 80, 11: ' ' * 100, 12: '#sheet ', 13: '\t', 14: '->', 20: 'r', 21: 'Pair', 22: 'EAM-Density', 23: 'EAM-Embed', 24: 'rho',
       25: 'fcc', 26: 'bcc', 27: 'hcp'}
FN_NAMES = {0: 'pair', 1: 'dipole', 2: 'quadrupole', 3: 'embed', 4: 'density', 5: 'density_fs'}

CELLS = []    # (format code, value) of the number cells rendered in this run: sampled by fmt_common.check_formats
LAST = {}     # the most recently created Recorder / output file (inspected after an injected fault)

class Recorder(object):
    """global, ordered log of evaluations of user callables and of writes to the output file"""
    def __init__(self):
        LAST['rec'] = self; LAST['file'] = None
        self.events = []     # ('eval', fn, kind, arg, value) | ('write', nbytes)
        self.fault_at = None # raise at the k-th evaluation (0-based) when set
        self.nevals = 0
        self.zero_every = None   # when k: every k-th evaluation of a function value (not of a derivative) returns exactly 0.0
    def value(self, fn, kind, idx):
        if self.zero_every and kind == 0 and idx % self.zero_every == 0: return 0.0
        return 0.25 + ((idx * 37 + fn[0] * 11 + fn[1] * 5 + fn[2] * 3 + kind * 7) % 1009) / 64.0
    def evaluate(self, fn, kind, x):
        if self.fault_at is not None and self.nevals == self.fault_at:
            self.nevals += 1
            raise (FAULT_CLASS[0] or InjectedFault)('evaluation %d of %r' % (self.fault_at, fn))
        v = self.value(fn, kind, self.nevals)
        self.nevals += 1
        self.events.append(('eval', fn, kind, float(x), v))
        return v
    def evals(self):
        return [e for e in self.events if e[0] == 'eval']

class InjectedFault(Exception):
    pass
FAULT_CLASS = [None]     # the exception class the next injected fault raises (None: InjectedFault); p_c17 also injects StopIteration

class RecFn(object):
    """callable without .deriv"""
    def __init__(self, rec, fn): self.rec, self.fn = rec, fn
    def __call__(self, x): return self.rec.evaluate(self.fn, 0, x)

class RecFnD(RecFn):
    """callable with .deriv"""
    def deriv(self, x): return self.rec.evaluate(self.fn, 1, x)

def rec_fn(rec, fn, hasd=False):
    return RecFnD(rec, fn) if hasd else RecFn(rec, fn)

class RecFile(io.StringIO):
    def __init__(self, rec):
        io.StringIO.__init__(self); self.rec = rec; LAST['file'] = self
    def write(self, s):
        self.rec.events.append(('write', len(s)))
        return io.StringIO.write(self, s)

# ----------------------------------------------------------------------------------- decoding Coq answers
def parse_z_lists(out):
    """every `= [ ... ] : list Z` answer of a coqc run, as lists of ints"""
    res = []
    for m in re.finditer(r'=\s*\[(.*?)\]\s*:\s*list Z', out, flags=re.S):
        res.append([int(x) for x in re.findall(r'-?\d+', m.group(1).replace('%Z', ''))])
    return res

def decode_tokens(zs):
    if len(zs) % 5: raise Broken('correspondence', 'token encoding length %d' % len(zs))
    return [tuple(zs[k:k + 5]) for k in range(0, len(zs), 5)]

def decode_trace(zs):
    if len(zs) % 6: raise Broken('correspondence', 'trace encoding length %d' % len(zs))
    return [((zs[k], zs[k + 1], zs[k + 2]), zs[k + 3], fractions.Fraction(zs[k + 4], zs[k + 5])) for k in range(0, len(zs), 6)]

def fmt(code, x):
    f = FMT[code]
    return f.format(x) if '{' in f else f % x

def value_of(scale, sarg, j, evs):
    v, a = evs[j][4], evs[j][3]
    if scale == 0: return v
    if scale == 1: return v * a
    if scale == 2: return -v
    if scale in (3, 5):
        dU = v - evs[j + 1][4]
        dr = a - evs[j + 1][3]
        dUdr = dU / dr
        if scale == 3: return -dUdr
        return evs[sarg][3] * (-dUdr)
    if scale == 4: return a * (-v)
    if scale == 6:
        charge = v * a
        charge = charge * 1.0 / 27.2 * 1.0 / 0.529
        return math.sqrt(charge)
    raise Broken('correspondence', 'unknown scale %r' % scale)

def compare_trace(expected, evs):
    """expected: decoded model trace; evs: recorded evaluations.  Returns None or a description."""
    if len(expected) != len(evs):
        k = min(len(expected), len(evs))
        first = next((i for i in range(k) if not _ev_eq(expected[i], evs[i])), k)
        return 'model expects %d evaluations, the implementation performed %d (first difference at evaluation %d: model %s, implementation %s)' % (
            len(expected), len(evs), first, _ev_str(expected[first]) if first < len(expected) else 'none',
            _ev_str2(evs[first]) if first < len(evs) else 'none')
    for i, (e, a) in enumerate(zip(expected, evs)):
        if not _ev_eq(e, a):
            return 'evaluation %d: model %s, implementation %s' % (i, _ev_str(e), _ev_str2(a))
    return None

def _ev_eq(e, a):
    (fn, kind, q) = e
    if tuple(fn) != tuple(a[1]) or kind != a[2]: return False
    x = fractions.Fraction(a[3])
    return abs(x - q) <= fractions.Fraction(1, 10 ** 9) * max(1, abs(q))
def _ev_str(e): return '%s%r%s(%s)' % (FN_NAMES.get(e[0][0], '?'), tuple(e[0][1:]), '.deriv' if e[1] else '', float(e[2]))
def _ev_str2(a): return '%s%r%s(%r)' % (FN_NAMES.get(a[1][0], '?'), tuple(a[1][1:]), '.deriv' if a[2] else '', a[3])

QTOL = {3: 1.5e-8, 10: 1.5e-6, 11: 1.5e-10}
def render_and_compare(tokens, evs, labels, actual):
    """Render the model's tokens with the recorded values and compare with the text written.
    TQ tokens (numbers computed from the grid) are compared numerically at the printed precision.
    Returns None or a description of the first difference."""
    pos = 0
    for t in tokens:
        kind, f = t[0], t[1]
        if kind == 0: s, isq = LIT[t[1]], False
        elif kind == 1: s, isq = fmt(f, labels[t[2]]), False
        elif kind == 2: s, isq = fmt(f, t[2]), False
        elif kind == 3:
            q = fractions.Fraction(t[2], t[3]); s, isq = fmt(f, float(q)), True
            if len(CELLS) < 20000: CELLS.append((f, float(q)))
        elif kind == 4:
            xv = value_of(t[3], t[4], t[2], evs); s, isq = fmt(f, xv), False
            if len(CELLS) < 20000: CELLS.append((f, xv))
        else: raise Broken('correspondence', 'token kind %r' % (kind,))
        if isq:
            # a number computed from the grid: read the whole number the file has at this position (its printed form may be longer
            # or shorter than the model's, e.g. 5.386500000000001 for 5.3865) and compare numerically at the printing precision
            m = re.match(r'\s*[-+]?[0-9.]+(?:[eE][-+]?\d+)?', actual[pos:pos + 60])
            if m and m.group(0).strip() not in ('', '.', '-', '+'):
                try:
                    a = float(m.group(0)); qf = float(q)
                    if abs(a - qf) <= QTOL.get(f, 1e-9 * max(1.0, abs(qf))) and len(m.group(0)) - len(m.group(0).lstrip()) == len(s) - len(s.lstrip()):
                        pos += len(m.group(0)); continue
                except ValueError: pass
        got = actual[pos:pos + len(s)]
        if got != s:
            ok = False
            if isq:
                # same field, number equal to printing precision?
                m = re.match(r'\s*[-+]?[0-9.]+(?:[eE][-+]?\d+)?', actual[pos:pos + 40])
                if m:
                    try:
                        a = float(m.group(0)); qf = float(q)
                        tol = QTOL.get(f, 1e-9 * max(1.0, abs(qf)))
                        if abs(a - qf) <= tol:
                            ok = True; pos += len(m.group(0)); continue
                    except ValueError: pass
            if not ok:
                line = actual.count('\n', 0, pos) + 1
                return 'line %d: model expects %r, file has %r (context %r)' % (line, s, got, actual[max(0, pos - 30):pos + 30])
        pos += len(s)
    if pos != len(actual):
        return 'file has %d extra characters after the modelled content: %r' % (len(actual) - pos, actual[pos:pos + 60])
    return None

def eval_models(tag, preamble, exprs, timeout=900):
    """exprs: list of Coq expressions of type `list item`; returns [(tokens, trace)] decoded.
    One coqc call per chunk of cases."""
    from concurrent.futures import ThreadPoolExecutor
    CH = 12
    chunks = [exprs[k:k + CH] for k in range(0, len(exprs), CH)]
    def one(ic):
        i, ch = ic
        body = '\n'.join('Definition m%d := %s.\nEval vm_compute in (encode_tokens m%d).\nEval vm_compute in (encode_trace m%d).' % (k, e, k, k)
                         for k, e in enumerate(ch))
        out = core.coq_eval('%s_%d' % (tag, i), preamble, body, timeout)
        ls = parse_z_lists(out)
        if len(ls) != 2 * len(ch):
            raise Broken('correspondence', 'cases file %s_%d printed %d answers for %d models' % (tag, i, len(ls), len(ch)), out[-1500:])
        return [(decode_tokens(ls[2 * k]), decode_trace(ls[2 * k + 1])) for k in range(len(ch))]
    with ThreadPoolExecutor(max_workers=8) as ex:
        res = list(ex.map(one, enumerate(chunks)))
    return [x for r in res for x in r]

def q(x):
    f = fractions.Fraction(x)
    return '(%d # %d)' % (f.numerator, f.denominator)

SPECIES_POOL = ['Al', 'Cu', 'Fe', 'Mg', 'Na', 'Ni', 'O2', 'Si', 'Th', 'Zr', 'Xe', 'Ca', 'Ar', 'He']
def pick_species(rng, n):
    """n distinct equal-length labels; ids are ranks in sorted order"""
    labs = rng.sample(SPECIES_POOL, n)
    srt = sorted(labs)
    return labs, {l: srt.index(l) for l in labs}, srt
