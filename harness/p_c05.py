"""C05 -- DL_POLY TABEAM (EAM and EEAM): layout model vs writeTABEAM / writeTABEAMFinnisSinclair, the TABEAM
tabulation classes and potable (DL_POLY_EAM, DL_POLY_EAM_fs); oracle."""
import io, random
import core, layout, eam_common as ec, p_c01
from layout import q

ID = 'C05'
GENMODS = ['gen_layout', 'gen_eam']
TARGET = 'props/C05.vo'
PROOF_FILES = ['proof/C05.v', 'props/C05.v']
AXIOMS = []
TRUSTED = [
    'Coq 8.16.1 kernel; vm_compute for the correspondence evaluation; no axioms',
    'translator harness/gen_layout.py: sample positions i*step, header end (n-1)*step, the declared-count expressions n*(n+5)/2 and 3*n*(n+1)/2; block/loop structure of _dlpoly_writeTABEAM.py modelled by hand (model/EamTables.v), compared byte for byte',
    'the set of element pairs is iterated in sorted order (the code sorts it): species ids are ranks of the labels; elements are distinct',
    'correspondence harness (recording callables, Python % formatting)',
]

def run_recorded(case, fault_at=None):
    from atsim.potentials import writeTABEAM, writeTABEAMFinnisSinclair
    from atsim.potentials.eam_tabulation import TABEAM_EAMTabulation, TABEAM_FinnisSinclair_EAMTabulation
    rec = layout.Recorder(); rec.fault_at = fault_at; rec.zero_every = case.get('zero_every')
    eam, pots = ec.build_objects(case, rec)
    out = layout.RecFile(rec)
    if case['route'] == 'function':
        (writeTABEAMFinnisSinclair if case['fs'] else writeTABEAM)(case['nrho'], case['drho'], case['nr'], case['dr'], eam, pots, out)
    else:
        cls = TABEAM_FinnisSinclair_EAMTabulation if case['fs'] else TABEAM_EAMTabulation
        cls(pots, eam, case['cutoff'], case['nr'], case['cutoff_rho'], case['nrho']).write(out)
    return rec, out.getvalue()

def model_expr(case):
    els, prs = ec.coq_elements(case), ec.coq_pairs(case['pairs'], case)
    if case.get('route') == 'function':
        drho, dr = q(case['drho']), q(case['dr'])
    else:
        drho, dr = '(eam_drho %s %d)' % (q(case['cutoff_rho']), case['nrho']), '(pair_dr %s %d)' % (q(case['cutoff']), case['nr'])
    return '(tabeam_file %s %s %s %d %s %d %s)' % (core.coq_bool(case['fs']), els, prs, case['nrho'], drho, case['nr'], dr)

def gen_case(rng, thorough=False, fs=None):
    fs = rng.random() < 0.5 if fs is None else fs
    c = ec.gen_eam_case(rng, fs, thorough)
    c['route'] = rng.choice(['function', 'class', 'class'])
    if c['route'] == 'function':
        c['drho'] = rng.choice([0.5, 0.05, round(rng.uniform(0.01, 2), 4)]); c['dr'] = rng.choice([0.1, 0.01, round(rng.uniform(0.001, 0.5), 4)])
    if rng.random() < 0.2:
        # species labels longer than eight characters, two of them equal in their first eight: the headers name them in full
        n = len(c['elements']); new = ['Uranium_4plus', 'Uranium_5plus'][:n]
        ren = {e['sp']: nw for e, nw in zip(c['elements'], new)}
        for e in c['elements']: e['sp'] = ren.get(e['sp'], e['sp'])
        c['pairs'] = [[ren.get(a, a), ren.get(b, b)] for a, b in c['pairs']]
        c['labels'] = sorted(e['sp'] for e in c['elements']) + c['labels'][n:]
    if rng.random() < 0.2:
        # pair potentials that name a species outside the EAM set: they have no block in the file and do not count
        c['labels'] = c['labels'] + ['Qq']
        c['pairs'] = c['pairs'] + [['Qq', 'Qq']] + ([[c['elements'][0]['sp'], 'Qq']] if rng.random() < 0.5 else [])
        rng.shuffle(c['pairs'])
    return c

def long_label_corpus():
    out = []
    for k in range(2):
        rng = random.Random(500 + k)
        for t in range(50):
            c = gen_case(random.Random(500 + k + 10 * t), fs=bool(k))
            if len(c['elements']) >= 2 and 'Qq' not in c['labels'] and not c['elements'][0]['sp'].startswith('Uranium'): break
        n = len(c['elements']); new = ['Uranium_4plus', 'Uranium_5plus'] + ['Zz%d' % i for i in range(n)]
        ren = {e['sp']: nw for e, nw in zip(c['elements'], new)}
        for e in c['elements']: e['sp'] = ren[e['sp']]
        c['pairs'] = [[ren.get(a, a), ren.get(b, b)] for a, b in c['pairs']]
        c['labels'] = sorted(e['sp'] for e in c['elements']) + c['labels'][n:]
        out.append(c)
    return out

def potable_corpus():
    """fixed potable models: [Pair] entries for a species that has neither an embedding nor a density function (not an EAM species): the
    declared count and the blocks are those of the EAM species alone"""
    out = []
    for fs in (False, True):
        c = {'potable_eam': True, 'fs': fs, 'nr': 5, 'nrho': 4, 'cutoff': 6.0, 'cutoff_rho': 50.0, 'target': 'DL_POLY_EAM_fs' if fs else 'DL_POLY_EAM', 'species': {},
             'embed': [('Ni', ec.EMBED[0]), ('Al', ec.EMBED[1])], 'dens': ([(('Ni', 'Ni'), ec.DENS[0]), (('Ni', 'Al'), ec.DENS[1]), (('Al', 'Ni'), ec.DENS[2])] if fs else [('Ni', ec.DENS[0]), ('Al', ec.DENS[1])]),
             'ppairs': [(('Zz', 'Zz'), ec.PAIRD[0]), (('Ni', 'Al'), ec.PAIRD[1]), (('Zz', 'Ni'), ec.PAIRD[2]), (('Al', 'Al'), ec.PAIRD[0])]}
        out.append(c)
    return out

def run_potable(case):
    from atsim.potentials.config import Configuration
    tab = Configuration().read(io.StringIO(ec.potable_eam_text(case)))
    out = io.StringIO(); tab.write(out)
    return tab, out.getvalue()

def correspond(ctx):
    rng = ctx['rng']
    cases = long_label_corpus() + [gen_case(rng, ctx['thorough']) for _ in range(200 if ctx['thorough'] else 45)]
    pcases = potable_corpus()
    for _ in range(30 if ctx['thorough'] else 8):
        fs = rng.random() < 0.5
        pcases.append(ec.gen_potable_eam(rng, fs, 'DL_POLY_EAM_fs' if fs else 'DL_POLY_EAM'))
    dis = []
    runs = []
    for c in cases:
        try: runs.append(run_recorded(c))
        except Exception as e: runs.append(None); dis.append({'case': c, 'what': 'writer raised %s: %s' % (type(e).__name__, str(e)[:100])})
    exprs = [model_expr(c) for c in cases]
    pruns = []
    for c in pcases:
        try:
            tab, text = run_potable(c); wc = ec.case_from_tabulation(c, tab); wc['route'] = 'class'
            pruns.append((tab, text, wc)); exprs.append(model_expr(wc))
        except Exception as e:
            pruns.append(None); exprs.append('([] : list item)'); dis.append({'case': c, 'what': 'potable EAM model raised %s: %s' % (type(e).__name__, str(e)[:120])})
    models = layout.eval_models('C05', ec.PRE, exprs)
    for c, r, (toks, tr) in zip(cases, runs, models):
        if r is None: continue
        d = ec.check(c, r[0], r[1], toks, tr)
        if d: dis.append({'case': c, 'what': d})
    for c, r, (toks, tr) in zip(pcases, pruns, models[len(cases):]):
        if r is None: continue
        tab, text, wc = r
        d = p_c01.compare_numeric(toks, ec.synth_eam_events(tr, tab), wc['labels'], text, tol=2e-6)
        if d: dis.append({'case': c, 'what': 'potable route: ' + d})
    allc = cases + pcases
    dist = {'recorded': len(cases), 'potable': len(pcases), 'eeam': sum(1 for c in allc if c['fs']), 'eam': sum(1 for c in allc if not c['fs']),
            'n_elements': {k: sum(1 for c in cases if len(c['elements']) == k) for k in (1, 2, 3, 4)},
            'grids_not_multiple_of_4': sum(1 for c in cases if c['nr'] % 4 or c['nrho'] % 4)}
    # how the numbers are printed (coq/model/NumFormat.v): the cells rendered in this run, edge values and random doubles
    import fmt_common
    nfmt, fdis, fdist = fmt_common.check_formats('C05', ctx['rng'], [10], ctx['thorough'])
    dis = fdis + dis
    return {'number_format_cells': nfmt, 'number_format': fdist, 'evaluations': nfmt + len(allc), 'cases': allc, 'nontrivial': core.distinct_count([c for c in cases if len(c['elements']) >= 2]) + core.distinct_count(pcases),
            'rule': 'EAM and Finnis-Sinclair models with 1..4 elements (shuffled), random subsets of pairs declared in either order, grids with and without n % 4 = 0, through writeTABEAM / writeTABEAMFinnisSinclair and the TABEAM tabulation classes (recording callables), '
                    'and potable DL_POLY_EAM / DL_POLY_EAM_fs; whole file text compared; non-trivial = two or more elements or a potable model',
            'samples': cases[:2] + pcases[:1], 'distribution': dist, 'disagreements': dis[:20], 'oracle_cases': allc + plain_callable_corpus()}

def parse_tabeam(text):
    lines = text.split('\n')
    if lines[-1] == '': lines = lines[:-1]
    if len(lines[0]) != 100: raise ValueError('title line has %d characters' % len(lines[0]))
    declared = int(lines[1])
    blocks = []
    i = 2
    while i < len(lines):
        h = lines[i].split()
        kind = h[0]
        if kind not in ('pair', 'embe', 'dens'): raise ValueError('unexpected line %r' % lines[i])
        nsp = len(h) - 4
        if nsp not in (1, 2): raise ValueError('bad block header %r' % lines[i])
        n, start, end = int(h[1 + nsp]), float(h[2 + nsp]), float(h[3 + nsp])
        vals = []
        i += 1
        while i < len(lines) and lines[i].split() and lines[i].split()[0] not in ('pair', 'embe', 'dens'):
            row = lines[i].split()
            if len(row) > 4: raise ValueError('row with %d values' % len(row))
            vals.append(row); i += 1
        flat = [float(x) for r in vals for x in r]
        if any(len(r) != 4 for r in vals[:-1]): raise ValueError('a row other than the last does not hold four values')
        blocks.append({'kind': kind, 'species': h[1:1 + nsp], 'n': n, 'start': start, 'end': end, 'vals': flat})
    return declared, blocks

def plain_callable_corpus():
    """TABEAM through the Python API with ordinary Python functions (plain arithmetic, a ZeroDivisionError guard for r = 0, a branch on the
    argument) on grids of several hundred points: each value is the function applied to ONE float, i*step"""
    return [{'plain_callables': True, 'fs': False, 'nr': 600, 'nrho': 520, 'route': 'function'}, {'plain_callables': True, 'fs': True, 'nr': 512, 'nrho': 500, 'route': 'class'}]

def check_plain_callables(case):
    from atsim.potentials import EAMPotential, Potential
    from atsim.potentials import writeTABEAM, writeTABEAMFinnisSinclair
    from atsim.potentials.eam_tabulation import TABEAM_EAMTabulation, TABEAM_FinnisSinclair_EAMTabulation
    def coul(r):
        try: return 14.4 * -1.5 / r
        except ZeroDivisionError: return 0.0
    def dens(r): return 3.0 / (1.0 + r * r) if r > 0.5 else 2.5
    def emb(rho): return -(rho ** 0.5) if rho >= 0 else 0.0
    def dens2(r):
        try: return 1.0 / r
        except ZeroDivisionError: return 0.0
    nr, nrho, dr, drho = case['nr'], case['nrho'], 0.01, 0.05
    if case['fs']: eam = [EAMPotential('Al', 13, 26.98, emb, {'Al': dens, 'Cu': dens2}), EAMPotential('Cu', 29, 63.55, emb, {'Al': dens2, 'Cu': dens})]
    else: eam = [EAMPotential('Al', 13, 26.98, emb, dens), EAMPotential('Cu', 29, 63.55, emb, dens2)]
    pots = [Potential('Al', 'Cu', coul)]
    out = io.StringIO()
    try:
        if case['route'] == 'function': (writeTABEAMFinnisSinclair if case['fs'] else writeTABEAM)(nrho, drho, nr, dr, eam, pots, out)
        else: (TABEAM_FinnisSinclair_EAMTabulation if case['fs'] else TABEAM_EAMTabulation)(pots, eam, dr * (nr - 1), nr, drho * (nrho - 1), nrho).write(out)
        declared, blocks = parse_tabeam(out.getvalue())
    except Exception as e: return ['TABEAM with plain Python functions: %s: %s' % (type(e).__name__, str(e)[:120])]
    fails = []
    fn = {('pair', 'Al', 'Cu'): coul, ('pair', 'Cu', 'Al'): coul, ('embe', 'Al'): emb, ('embe', 'Cu'): emb,
          ('dens', 'Al'): dens, ('dens', 'Cu'): dens2, ('dens', 'Al', 'Al'): dens, ('dens', 'Al', 'Cu'): dens2, ('dens', 'Cu', 'Al'): dens2, ('dens', 'Cu', 'Cu'): dens}
    for b in blocks:
        f = fn.get(tuple([b['kind']] + list(b['species'])), (lambda x: 0.0))
        step = (drho if b['kind'] == 'embe' else (dr if case['route'] == 'function' else (dr * (nr - 1)) / (nr - 1)))
        if len(b['vals']) != b['n']: fails.append('%s %s: %d values for n = %d' % (b['kind'], b['species'], len(b['vals']), b['n'])); continue
        for i, v in enumerate(b['vals']):
            w = f(i * step)
            if not (abs(v - w) <= 1e-6 + 1e-9 * abs(w)): fails.append("block '%s %s', row %d: file has %r, the function gives %r at %r" % (b['kind'], ' '.join(b['species']), i, v, w, i * step)); break
    return fails[:4]

def oracle(case):
    if case.get('plain_callables'): return check_plain_callables(case)
    fs = case['fs']
    fails = []
    if case.get('potable_eam'):
        try: tab, text = run_potable(case)
        except Exception as e: return ['valid EAM model raised %s: %s' % (type(e).__name__, str(e)[:100])]
        import gen_eam
        names = [e['sp'] for e in gen_eam.expected_elements(case)]
        eps = {ep.species: ep for ep in tab.eam_potentials}
        pd = {tuple(sorted([p.speciesA, p.speciesB])): p for p in tab.potentials}
        declared_pairs = {tuple(sorted(k)) for k, _ in case['ppairs']}
        emb = dict(case['embed']); den = {(tuple(k) if isinstance(k, (list, tuple)) else k): v for k, v in case['dens']}
        nr, nrho, dr, drho = case['nr'], case['nrho'], case['cutoff'] / (case['nr'] - 1), case['cutoff_rho'] / (case['nrho'] - 1)
        def pairf(a, b, x):
            k = tuple(sorted([a, b])); return pd[k].energy(x) if k in declared_pairs else 0.0
        def embf(a, x): return eps[a].embeddingFunction(x) if a in emb else 0.0
        def densf(a, b, x):
            if fs: return eps[a].electronDensityFunction[b](x) if (a, b) in den else 0.0
            return eps[a].electronDensityFunction(x) if a in den else 0.0
    else:
        try: rec, text = run_recorded(case)
        except Exception as e: return ['writer raised %s: %s' % (type(e).__name__, str(e)[:100])]
        els = case['elements']; names = [e['sp'] for e in els]
        evs = rec.evals()
        def val(fn, x):
            for e in evs:
                if e[1] == fn and abs(e[3] - x) <= 1e-9 * max(1.0, abs(x)): return e[4]
            return float('nan')
        last = {}
        for k, (a, b) in enumerate(case['pairs']): last[tuple(sorted([a, b]))] = k
        if case['route'] == 'function': nr, nrho, dr, drho = case['nr'], case['nrho'], case['dr'], case['drho']
        else: nr, nrho, dr, drho = case['nr'], case['nrho'], case['cutoff'] / (case['nr'] - 1), case['cutoff_rho'] / (case['nrho'] - 1)
        def pairf(a, b, x):
            k = last.get(tuple(sorted([a, b]))); return 0.0 if k is None else val((0, k, 0), x)
        def embf(a, x): return val((3, names.index(a), 0), x)
        def densf(a, b, x): return val((5, names.index(a), names.index(b)), x) if fs else val((4, names.index(a), 0), x)
    try: declared, blocks = parse_tabeam(text)
    except Exception as e: return ['unparseable TABEAM file: %s' % e]
    if declared != len(blocks): fails.append('file declares %d functions but %d blocks follow' % (declared, len(blocks)))
    n = len(names)
    want_pairs = sorted({tuple(sorted([a, b])) for a in names for b in names})
    got_pairs = [tuple(sorted(b['species'])) for b in blocks if b['kind'] == 'pair']
    if sorted(got_pairs) != want_pairs: fails.append('pair blocks %r, expected exactly one per unordered pair %r' % (got_pairs, want_pairs))
    if sorted(b['species'][0] for b in blocks if b['kind'] == 'embe') != sorted(names): fails.append('embe blocks do not name each element once')
    dn = [tuple(b['species']) for b in blocks if b['kind'] == 'dens']
    want_d = sorted((a, b) for a in names for b in names) if fs else sorted((a,) for a in names)
    if sorted(dn) != want_d: fails.append('dens blocks %r, expected %r' % (dn, want_d))
    for b in blocks:
        if any(sp_ not in names for sp_ in b['species']):
            fails.append('%s block header names %r, which is not a species of the model (%r)' % (b['kind'], b['species'], names)); continue
        step, cnt = (drho, nrho) if b['kind'] == 'embe' else (dr, nr)
        if b['n'] != cnt or len(b['vals']) != cnt: fails.append('%s %s: header n=%d, %d values, expected %d' % (b['kind'], b['species'], b['n'], len(b['vals']), cnt)); continue
        if b['start'] != 0.0 or abs(b['end'] - (cnt - 1) * step) > 1.5e-6: fails.append('%s %s: range %r..%r, expected 0..%r' % (b['kind'], b['species'], b['start'], b['end'], (cnt - 1) * step))
        for i, v in enumerate(b['vals']):
            x = i * step
            if b['kind'] == 'pair': w = pairf(b['species'][0], b['species'][1], x)
            elif b['kind'] == 'embe': w = embf(b['species'][0], x)
            else: w = densf(b['species'][0], b['species'][1], x) if fs else densf(b['species'][0], None, x)
            if not (abs(v - w) <= 1e-6 + 1e-9 * abs(w)): fails.append('%s %s value %d: %r, function gives %r at %r' % (b['kind'], b['species'], i, v, w, x)); break
    return fails

def search_cases(rng, n):
    for c in potable_corpus(): yield c
    for c in long_label_corpus(): yield c
    for c in plain_callable_corpus(): yield c
    for k in range(n // 4):
        yield gen_case(rng)
        if k % 6 == 0:
            fs = rng.random() < 0.5
            yield ec.gen_potable_eam(rng, fs, 'DL_POLY_EAM_fs' if fs else 'DL_POLY_EAM')
def finding_for(case, fails): return None
def replay_finding(f): return False
