"""Builder-side glue of the EAM targets: exact-body assertions (fail closed) for EAM_Potential_Builder and
Reference_Data.get, the model/EamBuilder.v correspondence and an independent restatement used by the oracles."""
import ast, io
import core, layout
from py2coq import Refuse, assert_body, load_function

B = 'atsim/potentials/config/_eam_potential_builder.py'
def generate(repo):
    assert_body(repo, 'atsim/potentials/referencedata/_reference_data.py', 'Reference_Data.get', """
        species_dat = reference_data.get(species, None)

        if species_dat is None and not species in self.extra_data:
          raise Unknown_Species_Exception(species)
        elif species_dat is None and species in self.extra_data:
          species_dat = dict(self.extra_data[species])
        else:
          species_dat = species_dat._asdict()
          species_dat.update(self.extra_data.get(species, {}))

        if not property_name in species_dat:
          raise Unknown_Property_Exception("Property '{}' not found for species '{}'".format(property_name, species))
        return species_dat[property_name]
    """)
    assert_body(repo, B, 'EAM_Potential_Builder._get_lattice_constant', """
        try:
          return self._reference_data.get(species, 'lattice_constant')
        except Reference_Data_Exception:
          return 0.0
    """)
    assert_body(repo, B, 'EAM_Potential_Builder._get_lattice_type', """
        try:
          return self._reference_data.get(species, 'lattice_type')
        except Reference_Data_Exception:
          return 'fcc'
    """)
    assert_body(repo, B, 'EAM_Potential_Builder._get_mass', """
        try:
          return self._reference_data.get(species, 'atomic_mass')
        except Reference_Data_Exception:
          raise ConfigurationException("Could not find atomic mass for species: {}".format(species))
    """)
    assert_body(repo, B, 'EAM_Potential_Builder._get_atomic_number', """
        try:
          return self._reference_data.get(species, 'atomic_number')
        except Reference_Data_Exception:
          raise ConfigurationException("Could not find atomic number for species: {}".format(species))
    """)
    assert_body(repo, B, 'EAM_Potential_Builder._add_null_embedding_functions', """
        # Get set of currently defined embedding functions
        defined = set(embed_dict.keys())
        density = self._extract_density(cp)
        density_species = self._density_species(density)
        null_embed_species = density_species - defined
        null = zero()
        for s in sorted(null_embed_species):
          embed_dict[s] = null
    """)
    assert_body(repo, B, 'EAM_Potential_Builder._to_potential_form_dict', """
        d = {}

        for t in tuple_list:
          species = t.species
          #Create potential function
          pot_func = potential_form_builder.create_potential_function(t.potential_form_instance)
          d[species] = pot_func
        return d
    """)
    src = ast.unparse(load_function(repo, B, 'EAM_Potential_Builder._init_eampotentials'))
    for needle in ('embed_dict = self._embed_to_potential_form_dict(embed, potential_form_builder)', 'if self.add_undefined:\n        self._add_null_functions(cp, embed_dict, density_dict)',
                   'for species in embed_dict:\n        pot = self._create_eam_potential(species, embed_dict, density_dict)\n        potlist.append(pot)'):
        if needle not in src: raise Refuse('_init_eampotentials changed (%s)' % needle[:50])
    assert_body(repo, B, 'EAM_Potential_Builder_FS._density_species', """
        species_list = []
        for row in density:
          species_list.append(row.species.from_species)
          species_list.append(row.species.to_species)
        return set(species_list)
    """)
    assert_body(repo, 'atsim/potentials/config/_tabulation_factories.py', 'EAMTabulationFactory._create_reference_data', """
        extra_rd = cp.species
        rd = Reference_Data(extra_rd)
        return rd
    """)
    return {}

def expected_elements(case):
    """independent restatement: [EAM-Embed] order, then species only in [EAM-Density] in sorted order;
    metadata: [Species] value, else built-in table, else defaults (0.0, fcc)"""
    from atsim.potentials.referencedata._data import reference_data
    order = []
    for e, _ in case['embed']:
        if e not in order: order.append(e)
    dsp = set()
    for k, _ in case['dens']:
        if isinstance(k, (tuple, list)): dsp.update(k)
        else: dsp.add(k)
    order += sorted(dsp - set(order))
    out = []
    for s in order:
        sp = case['species']
        bt = reference_data.get(s)
        Z = int(sp[s + '.atomic_number']) if s + '.atomic_number' in sp else (bt.atomic_number if bt else None)
        m = float(sp[s + '.atomic_mass']) if s + '.atomic_mass' in sp else (bt.atomic_mass if bt else None)
        out.append({'sp': s, 'Z': Z, 'mass': m, 'a0': float(sp.get(s + '.lattice_constant', 0.0)), 'lat': sp.get(s + '.lattice_type', 'fcc')})
    return out

PRE = 'From V Require Import lib.Common model.EamBuilder.\nLocal Open Scope Z_scope.\n'
def builder_correspondence(pcases, tabs, tag):
    """element order of the built tabulation vs model/EamBuilder.v; metadata vs the precedence rule"""
    dis = []
    todo = [(c, t) for c, t in zip(pcases, tabs) if t is not None]
    if not todo: return dis, 0
    body = []
    for k, (c, t) in enumerate(todo):
        labs = sorted({e for e, _ in c['embed']} | {x for kk, _ in c['dens'] for x in (kk if isinstance(kk, (tuple, list)) else [kk])})
        ids = {l: i for i, l in enumerate(labs)}
        emb = core.coq_list([str(ids[e]) for e, _ in c['embed']])
        den = core.coq_list([str(ids[x]) for kk, _ in c['dens'] for x in (kk if isinstance(kk, (tuple, list)) else [kk])])
        body.append('Eval vm_compute in (builder_order %s %s).' % (emb, den))
        c['_labs'] = labs
    out = core.coq_eval(tag, PRE, '\n'.join(body))
    ans = layout.parse_z_lists(out)
    if len(ans) != len(todo): raise core.Broken('correspondence', 'builder cases printed %d answers for %d' % (len(ans), len(todo)))
    for (c, t), a in zip(todo, ans):
        labs = c.pop('_labs')
        want = [labs[i] for i in a]
        got = [ep.species for ep in t.eam_potentials]
        if want != got:
            dis.append({'case': c, 'what': 'element order: model %r, implementation %r' % (want, got)}); continue
        for ep, ex in zip(t.eam_potentials, expected_elements(c)):
            g = (ep.atomicNumber, ep.mass, ep.latticeConstant, ep.latticeType)
            w = (ex['Z'], ex['mass'], ex['a0'], ex['lat'])
            if g != w: dis.append({'case': c, 'what': 'metadata of %s: implementation %r, precedence rule gives %r' % (ep.species, g, w)}); break
    return dis, len(todo)
