"""Exact bodies of the glue that other models rely on without restating it line by line: how potable picks the species list and
calls the actions, how a tabulation is opened and written (C17: one buffer, one write), the write() / open_fp() of every
tabulation class.  Any change here breaks an obligation (fail closed); the violation search then decides."""
import ast
from py2coq import assert_body, load_function, strip_docstring, Refuse

def assert_single_write(repo, relfile, qualname, param, depth=0):
    """C17's model of a writer is "all evaluations, then ONE write of the whole table" (lib/Effects.v atomic_events).  Structurally:
    the caller's file object `param` is used exactly once in the function, by the last top-level statement, which is
    `param.write(<expression>)` - so nothing reaches the file before every function value has been computed, whatever the size
    of the table (a behavioural run on small grids cannot see a flush that depends on the volume).  Fail closed otherwise."""
    fn = load_function(repo, relfile, qualname)
    body = strip_docstring(fn.body)
    uses = [n for n in ast.walk(ast.Module(body=body, type_ignores=[])) if isinstance(n, ast.Name) and n.id == param]
    last = body[-1] if body else None
    def is_write(st):
        return (isinstance(st, ast.Expr) and isinstance(st.value, ast.Call) and isinstance(st.value.func, ast.Attribute)
                and st.value.func.attr == 'write' and isinstance(st.value.func.value, ast.Name) and st.value.func.value.id == param
                and len(st.value.args) == 1 and not st.value.keywords)
    ok = len(uses) == 1 and param in [a.arg for a in fn.args.args + fn.args.kwonlyargs] and is_write(last)
    if (not ok and len(uses) == 1 and isinstance(last, ast.Expr) and isinstance(last.value, ast.Call) and isinstance(last.value.func, ast.Name)
            and not last.value.keywords and sum(1 for a in last.value.args if isinstance(a, ast.Name) and a.id == param) == 1 and depth < 3):
        # the whole job is handed to one helper as the last statement: the helper must have the shape, for the parameter that receives it
        i = [k for k, a in enumerate(last.value.args) if isinstance(a, ast.Name) and a.id == param][0]
        helper = load_function(repo, relfile, last.value.func.id)
        return assert_single_write(repo, relfile, last.value.func.id, helper.args.args[i].arg, depth + 1)
    if not ok:
        raise Refuse('%s:%s no longer has the shape "build everything, then %s.write(text) once as the last statement" (%d uses of %s)' % (relfile, qualname, param, len(uses), param))

def generate(repo):
    assert_body(repo, 'atsim/potentials/tools/potable/__init__.py', '_do_tabulation', "logger = logging.getLogger(__name__).getChild('main')\nspecies_list = None\nexclude_flag = False\nif not args.include_species is None:\n    species_list = args.include_species\nelif not args.exclude_species is None:\n    species_list = args.exclude_species\n    exclude_flag = True\ncp = _make_config_parser(args.config_file, args.override_item, args.add_item, args.remove_item, species_list, exclude_flag)\nif args.list_items:\n    _query_actions.action_list_items(cp)\n    sys.exit(0)\nelif args.list_item_labels:\n    _query_actions.action_list_item_labels(cp)\n    sys.exit(0)\nelif args.item_value:\n    _query_actions.action_item_value(cp, args.item_value[0])\n    sys.exit(0)\nif not args.out_filename:\n    p.error('Path of OUTPUT_FILE for tabulation not specified.')\n_actions.action_tabulate(cp, args.out_filename)\nsys.exit(0)")
    assert_body(repo, 'atsim/potentials/tools/potable/_actions.py', 'action_tabulate', "logger = logging.getLogger(__name__).getChild('_action_tabulate')\nconfig = Configuration()\ntabulation = config.read_from_parser(cp)\nwith tabulation.open_fp(outfilename) as outfile:\n    logger.info('Writing output to: {}'.format(outfilename))\n    tabulation.write(outfile)")
    assert_body(repo, 'atsim/potentials/pair_tabulation.py', 'PairTabulation_AbstractBase.open_fp', "return open(filename, 'w')")
    assert_body(repo, 'atsim/potentials/pair_tabulation.py', 'PairTabulation_AbstractBase.write', "raise NotImplementedError('Sub-classes must implement write method')")
    assert_body(repo, 'atsim/potentials/pair_tabulation.py', 'LAMMPS_PairTabulation.write', 'lmp_writePotentials(self.potentials, self.dr, self.cutoff, self.nr - 1, fp)')
    assert_body(repo, 'atsim/potentials/pair_tabulation.py', 'DLPoly_PairTabulation.write', 'dlpoly_writePotentials(self.potentials, self.cutoff, self.nr, fp)')
    assert_body(repo, 'atsim/potentials/pair_tabulation.py', 'GULP_PairTabulation.write', 'from io import StringIO\nworkout = StringIO()\nfor pot in self.potentials:\n    self._write_pot(pot, workout)\nfp.write(workout.getvalue())')
    assert_body(repo, 'atsim/potentials/pair_tabulation.py', 'Excel_PairTabulation.write', 'wb = self.workbook\nfrom tempfile import NamedTemporaryFile\nwith NamedTemporaryFile() as tmp:\n    wb.save(tmp.name)\n    tmp.seek(0)\n    fp.write(tmp.read())')
    assert_body(repo, 'atsim/potentials/pair_tabulation.py', 'Excel_PairTabulation.open_fp', "return open(filename, 'wb')")
    assert_body(repo, 'atsim/potentials/eam_tabulation.py', 'SetFL_EAMTabulation.write', 'writeSetFL(self.nrho, self.drho, self.nr, self.dr, self.eam_potentials, self.potentials, out=fp)')
    assert_body(repo, 'atsim/potentials/eam_tabulation.py', 'SetFL_FS_EAMTabulation.write', 'writeSetFLFinnisSinclair(self.nrho, self.drho, self.nr, self.dr, self.eam_potentials, self.potentials, out=fp)')
    assert_body(repo, 'atsim/potentials/eam_tabulation.py', 'TABEAM_EAMTabulation.write', 'writeTABEAM(self.nrho, self.drho, self.nr, self.dr, self.eam_potentials, self.potentials, out=fp)')
    assert_body(repo, 'atsim/potentials/eam_tabulation.py', 'TABEAM_FinnisSinclair_EAMTabulation.write', 'writeTABEAMFinnisSinclair(self.nrho, self.drho, self.nr, self.dr, self.eam_potentials, self.potentials, out=fp)')
    assert_body(repo, 'atsim/potentials/eam_tabulation.py', 'Excel_EAMTabulation.write', 'wb = self.workbook\nself._inner_tabulation.write(fp)')
    assert_body(repo, 'atsim/potentials/eam_tabulation.py', 'Excel_EAMTabulation.open_fp', 'return Excel_PairTabulation.open_fp(filename)')
    assert_body(repo, 'atsim/potentials/eam_tabulation.py', 'ADP_EAMTabulation.write', 'from io import StringIO\nworkout = StringIO()\nwriteSetFL(self.nrho, self.drho, self.nr, self.dr, self.eam_potentials, self.potentials, out=workout)\nself._write_dipole(workout)\nself._write_quadrupole(workout)\nfp.write(workout.getvalue())')
    # one buffer, one write: every writer function that receives the caller's file object
    for relfile, qualname in [('atsim/potentials/_lammps_writeTABLE.py', 'writePotentials'), ('atsim/potentials/_dlpoly_writeTABLE.py', 'writePotentials'),
                              ('atsim/potentials/_lammpsWriteEAM.py', 'writeSetFL'), ('atsim/potentials/_lammpsWriteEAM.py', 'writeSetFLFinnisSinclair'),
                              ('atsim/potentials/_lammpsWriteEAM.py', 'writeFuncFL'),
                              ('atsim/potentials/_dlpoly_writeTABEAM.py', 'writeTABEAM'), ('atsim/potentials/_dlpoly_writeTABEAM.py', 'writeTABEAMFinnisSinclair')]:
        assert_single_write(repo, relfile, qualname, 'out')
    return {}
