"""C07 -- offered derivatives are the true derivatives: leaf point evaluations (translator validation),
structure/value correspondence of the combinator model (plus/product/pow/trans/multi-range, any depth),
Richardson oracle on the implementation."""
import io, math, random
import core, forms_common as fc
from core import Broken

ID = 'C07'
GENMODS = ['gen_forms', 'gen_c08']
TARGET = 'props/C07.vo'
PROOF_FILES = ['proof/C07Leaves.v', 'proof/C07Zbl.v', 'proof/C07TT.v', 'proof/C07Comb.v', 'props/C07.v']
AXIOMS = ['reals', 'classic', 'primitives']
TRUSTED = [
    'Coq 8.16.1 kernel; Coq Reals axioms (sig_forall_dec, sig_not_dec, functional_extensionality_dep), Classical_Prop.classic (Coquelicot), primitive int/float axioms used by the interval tactic',
    'translator tools/py2coq.py + harness/gen_forms.py: every __call__/deriv/deriv2 of potentialfunctions.py, the closures of plus/product/pow, num_deriv, trans (regenerated on every run; wiring of hasattr/gradient asserted on the AST); validated by interval-certified point evaluations',
    'floats are modelled as reals; ZBL / Tang-Toennies: exact for the ideal constants + literals within 1e-13, the continuity step between the two is not mechanised (_partial)',
    'model/Callable.v (which of deriv/deriv2 exist, gradient wrapper, Multi_Range_Defn derivative wiring) is hand written and compared with the implementation on generated expression trees on every run',
    'scipy spline derivatives (table forms) are outside the model (tested in C18)',
]

# ------------------------------------------------------------------ expression trees
POS_LEAVES = ['bornmayer_pos', 'constant_pos', 'exponential_pos', 'polynomial_pos']

def gen_leaf(rng, positive=False):
    kind = rng.choice(['full', 'full', 'plain', 'd1'])
    if positive:
        name = rng.choice(POS_LEAVES)
        if name == 'bornmayer_pos': form, params = 'bornmayer', [fc.grid(rng, 1, 5), fc.grid(rng, 0.5, 2)]
        elif name == 'constant_pos': form, params = 'constant', [fc.grid(rng, 0.5, 3)]
        elif name == 'exponential_pos': form, params = 'exponential', [fc.grid(rng, 0.5, 2), rng.choice([0.5, 1.0, 2.0, -1.0])]
        else: form, params = 'polynomial', [fc.grid(rng, 0.5, 2), fc.grid(rng, 0, 1), fc.grid(rng, 0, 0.5)]
    else:
        form = rng.choice(['buck', 'bornmayer', 'morse', 'polynomial', 'constant', 'lj', 'hbnd', 'exponential', 'sqrt', 'coul', 'exp_spline'])
        params, _ = fc.sample_params(form, rng)
        if form == 'polynomial': params = params[:4]
    return {'op': 'leaf', 'form': form, 'params': params, 'kind': kind}

def gen_tree(rng, depth, positive=False):
    if depth == 0 or rng.random() < 0.25:
        return gen_leaf(rng, positive)
    op = rng.choice(['plus', 'product', 'pow', 'trans', 'plus', 'product']) if not positive else rng.choice(['plus', 'product'])
    if op == 'pow':
        return {'op': 'pow', 'a': gen_tree(rng, depth - 1, True), 'b': gen_tree(rng, min(depth - 1, 1), positive)}
    if op == 'trans':
        return {'op': 'trans', 'a': gen_tree(rng, depth - 1, positive), 'X': fc.grid(rng, 0.0, 1.5)}
    return {'op': op, 'a': gen_tree(rng, depth - 1, positive), 'b': gen_tree(rng, depth - 1, positive)}

def has_trans(t):
    return t['op'] == 'trans' or any(has_trans(t[k]) for k in ('a', 'b') if k in t and isinstance(t[k], dict))

def py_leaf(l):
    import atsim.potentials.potentialforms as pfm
    import atsim.potentials.potentialfunctions as pfn
    f = getattr(pfm, l['form'])(*l['params'])
    if l['kind'] == 'full': return f
    fn = getattr(pfn, l['form']); ps = l['params']
    if l['kind'] == 'plain':
        return lambda r: fn(r, *ps)
    class D1(object):
        def __call__(self, r): return fn(r, *ps)
        def deriv(self, r): return fn.deriv(r, *ps)
    return D1()

def py_build(t):
    import atsim.potentials as ap
    if t['op'] == 'leaf': return py_leaf(t)
    if t['op'] == 'trans':
        f = py_build(t['a']); X = t['X']
        # the trans() modifier needs a potential_form_builder; its closures are reproduced through potable below.
        # Python-API route: same construction as _modifiers.trans
        def transformed(r): return f(r + X)
        if hasattr(f, 'deriv'): transformed.deriv = lambda r: f.deriv(r + X)
        if hasattr(f, 'deriv2'): transformed.deriv2 = lambda r: f.deriv2(r + X)
        return transformed
    a, b = py_build(t['a']), py_build(t['b'])
    return {'plus': ap.plus, 'product': ap.product, 'pow': ap.pow}[t['op']](a, b)

def coq_leaf(l):
    name, ps = l['form'], l['params']
    def fn(suffix):
        if name == 'polynomial':
            return '(fun r => polynomial_%s r [%s])' % (suffix, '; '.join(fc.rq(p) for p in ps))
        return '(fun r => %s_%s r %s)' % (name, suffix, ' '.join(fc.rq(p) for p in ps))
    cd = 'Some %s' % fn('deriv') if l['kind'] in ('full', 'd1') else 'None'
    cd2 = 'Some %s' % fn('deriv2') if l['kind'] == 'full' else 'None'
    return '(Leaf {| cf := %s; cd := %s; cd2 := %s |})' % (fn('call'), cd, cd2)

def coq_tree(t):
    if t['op'] == 'leaf': return coq_leaf(t)
    if t['op'] == 'trans': return '(Trans %s %s)' % (coq_tree(t['a']), fc.rq(t['X']))
    return '(%s %s %s)' % ({'plus': 'Plus', 'product': 'Product', 'pow': 'Pow'}[t['op']], coq_tree(t['a']), coq_tree(t['b']))

# ------------------------------------------------------------------ potable route for expression trees
def potable_defn(t, forms):
    """definition string; plain / d1 leaves become custom [Potential-Form] formulas (no analytic derivative)"""
    if t['op'] == 'leaf':
        if t['kind'] == 'full':
            return 'as.%s %s' % (t['form'], ' '.join(repr(p) for p in t['params']))
        n = len(forms)
        ps = ['p%d' % i for i in range(len(t['params']))]
        forms.append('pl%d(%s) = as.%s(%s)' % (n, ', '.join(['r'] + ps), t['form'], ', '.join(['r'] + ps)))
        return 'pl%d %s' % (n, ' '.join(repr(p) for p in t['params']))
    if t['op'] == 'trans':
        return 'trans(%s, as.constant %r)' % (potable_defn(t['a'], forms), t['X'])
    mod = {'plus': 'sum', 'product': 'product', 'pow': 'pow'}[t['op']]
    return '%s(%s, %s)' % (mod, potable_defn(t['a'], forms), potable_defn(t['b'], forms))

def potable_build(t):
    from atsim.potentials.config import Configuration
    forms = []
    d = potable_defn(t, forms)
    txt = '[Tabulation]\ntarget : LAMMPS\nnr : 5\ncutoff : 1.0\n'
    if forms: txt += '[Potential-Form]\n' + '\n'.join(forms) + '\n'
    txt += '[Pair]\nA-B : %s\n' % d
    tab = Configuration().read(io.StringIO(txt))
    return tab.potentials[0].potentialFunction, tab.potentials[0]

def as_potable_kinds(t):
    """through potable a 'd1' leaf cannot be expressed: custom formulas have no derivative at all"""
    if t['op'] == 'leaf':
        l = dict(t)
        if l['kind'] == 'd1': l['kind'] = 'plain'
        return l
    out = dict(t)
    for k in ('a', 'b'):
        if k in t and isinstance(t[k], dict): out[k] = as_potable_kinds(t[k])
    return out

def observe(f, r):
    o = {'v': f(r), 'has_d': hasattr(f, 'deriv'), 'has_d2': hasattr(f, 'deriv2')}
    if o['has_d']: o['d'] = f.deriv(r)
    if o['has_d2']: o['d2'] = f.deriv2(r)
    return o

def gen_origin_case(rng):
    """the separation r = 0 (the first row of a table that starts at the origin) for potentials that are finite there, with at least
    one component that has no analytic derivative: the numerical fallback straddles the origin"""
    def leaf(kind):
        form = rng.choice(['bornmayer', 'polynomial', 'polynomial', 'constant'])
        if form == 'bornmayer': params = [fc.grid(rng, 1, 5), fc.grid(rng, 0.5, 2)]
        elif form == 'constant': params = [fc.grid(rng, 0.5, 3)]
        else: params = [fc.grid(rng, 0.5, 2), fc.grid(rng, 0.5, 1.5), fc.grid(rng, 0, 0.5)]
        return {'op': 'leaf', 'form': form, 'params': params, 'kind': kind}
    t = leaf(rng.choice(['plain', 'd1']))
    if t['form'] == 'constant': t = leaf('plain'); t['form'] = 'bornmayer'; t['params'] = [fc.grid(rng, 1, 5), fc.grid(rng, 0.5, 2)]
    for _ in range(rng.choice([0, 1, 1, 2])):
        o = leaf(rng.choice(['full', 'plain', 'd1']))
        t = {'op': rng.choice(['plus', 'product']), 'a': t, 'b': o} if rng.random() < 0.5 else {'op': rng.choice(['plus', 'product']), 'a': o, 'b': t}
    return {'tree': t, 'r': 0.0, 'route': 'api', 'smooth_at_r': True}     # bornmayer / polynomial / constant: smooth on the whole line

def gen_case(rng, depth):
    if rng.random() < 0.1: return gen_origin_case(rng)
    t = gen_tree(rng, depth)
    r = fc.grid(rng, 1.0, 4.0)
    if rng.random() < 0.15:
        # a factor / summand that is exactly zero at r while its slope is not (a node of the potential at the evaluated separation)
        node = {'op': 'leaf', 'form': 'polynomial', 'params': [-r, 1.0], 'kind': rng.choice(['full', 'full', 'd1'])}
        t = {'op': rng.choice(['product', 'product', 'plus']), 'a': node, 'b': t} if rng.random() < 0.5 else {'op': rng.choice(['product', 'product', 'plus']), 'a': t, 'b': node}
    return {'tree': t, 'r': r, 'route': rng.choice(['api', 'api', 'potable'])}

def gen_multi_case(rng):
    """multi-range potential with ranges of mixed analytic availability, r away from the starts"""
    n = rng.randint(2, 4)
    starts = sorted(rng.sample([0.0, 0.5, 1.0, 1.5, 2.0, 2.5, 3.0, 3.5], n))
    ranges = []
    for i, s in enumerate(starts):
        ranges.append({'marker': rng.choice(['>', '>=']), 'start': s, 'leaf': gen_leaf(rng)})
    r = rng.choice([s + 0.25 for s in starts] + [starts[-1] + 1.25] + [s for s in starts if s > 0])
    if rng.random() < 0.5: rng.shuffle(ranges)          # the ranges may be listed in any order: value and derivatives come from the same selected range
    return {'multi': ranges, 'r': r}

def py_multi(case):
    from atsim.potentials._multi_range_potential_form import create_Multi_Range_Potential_Form, Multi_Range_Defn
    defs = [Multi_Range_Defn(x['marker'], x['start'], py_leaf(x['leaf'])) for x in case['multi']]
    return create_Multi_Range_Potential_Form(*defs)

def run_case(case):
    try:
        if 'multi' in case:
            return observe(py_multi(case), case['r'])
        if case['route'] == 'potable':
            f, _ = potable_build(case['tree'])
            return observe(f, case['r'])
        return observe(py_build(case['tree']), case['r'])
    except Exception as e:
        return {'exc': type(e).__name__, 'msg': str(e)[:120]}

def case_goals(i, case, o):
    """Coq goals checking flags and the three values for case i"""
    gs = []
    if 'multi' in case:
        import p_c08
        c8 = {'ranges': [[x['marker'], x['start'], k] for k, x in enumerate(case['multi'])], 'r': case['r']}
        rk = p_c08._ranks(c8)
        rs = core.coq_list(['{| r_type := %s; r_start := %s; r_id := %s |}' % ('GE' if x['marker'] == '>=' else 'GT', core.z(rk[x['start']]), core.nat(k))
                            for k, x in enumerate(case['multi'])])
        sel = '(fun _ : R => ltac:(let v := eval vm_compute in (option_map r_id (mr_select %s %s)) in exact v))' % (rs, core.z(rk[case['r']]))
        cs = '[%s]' % '; '.join(coq_leaf(x['leaf'])[len('(Leaf '):-1] for x in case['multi'])
        term = '(c_multi %s %s)' % (sel, cs)
    else:
        t = as_potable_kinds(case['tree']) if case['route'] == 'potable' else case['tree']
        term = '(build %s)' % coq_tree(t)
    gs.append('Goal True. Proof. first [ assert (has_d %s = %s /\\ has_d2 %s = %s) by (split; vm_compute; reflexivity) | idtac "PFAIL %d" ]. exact I. Qed.'
              % (term, core.coq_bool(o['has_d']), term, core.coq_bool(o['has_d2']), i))
    # float evaluation of the implementation vs exact real arithmetic of the model: analytic expressions agree to
    # ~1e-12; a central difference with h = 1e-6 loses about eps/h = 1e-10 relative to the function's size, a nested
    # one (second derivative of a component without any analytic derivative) about 1e-4
    scale = max([1.0] + [abs(o[k]) for k in ('v', 'd', 'd2') if k in o])
    fb = uses_fallback(case)
    gs.append(fc.point_goal(i, '(cf %s %s)' % (term, fc.rq(case['r'])), o['v'], 1e-9 * scale))
    if o['has_d']:
        gs.append(fc.point_goal(i, '(match cd %s with Some d => d %s | None => 0 end)' % (term, fc.rq(case['r'])), o['d'], (1e-6 if fb else 1e-9) * scale))
    if o['has_d2']:
        gs.append(fc.point_goal(i, '(match cd2 %s with Some d => d %s | None => 0 end)' % (term, fc.rq(case['r'])), o['d2'], (5e-3 if fb else 1e-9) * scale))
    return gs

def uses_fallback(case):
    return '"plain"' in core.canon(case) or '"d1"' in core.canon(case)

def all_finite(o):
    return all(math.isfinite(o[k]) and abs(o[k]) < 1e12 for k in ('v', 'd', 'd2') if k in o)

def correspond(ctx):
    rng = ctx['rng']
    dis = []
    # (a) leaves: deriv and deriv2 of every form
    per = 25 if ctx['thorough'] else 4
    leaf_cases, goals = [], []
    for name in fc.FORM_NAMES:
        for _ in range(per):
            params, r = fc.sample_params(name, rng)
            for (meth, suffix) in fc.METHODS[1:]:
                c = {'form': name, 'method': meth, 'r': r, 'params': params}
                try: v = getattr(fc.impl_form(name), meth)(r, *params)
                except Exception as e:
                    dis.append({'case': c, 'what': 'implementation raised %s' % type(e).__name__}); continue
                if not math.isfinite(v): continue
                leaf_cases.append(c)
                goals.append(fc.point_goal(len(leaf_cases) - 1, fc.coq_apply(name, suffix, r, params), v, 1e-9 * max(1.0, abs(v))))
    for i in fc.run_point_goals('C07l', goals):
        dis.append({'case': leaf_cases[i], 'what': 'generated Coq term for %s.%s is not within tolerance of the implementation' % (leaf_cases[i]['form'], leaf_cases[i]['method'])})
    # (b) expression trees and multi-range potentials
    n = 260 if ctx['thorough'] else 50
    tcases, tgoals = [], []
    tries = 0
    while len(tcases) < n and tries < 20 * n:
        tries += 1
        c = gen_multi_case(rng) if rng.random() < 0.3 else gen_case(rng, rng.choice([1, 2, 2, 3]))
        o = run_case(c)
        if 'exc' in o:
            if o['exc'] in ('OverflowError', 'ZeroDivisionError', 'ValueError'): continue   # outside the domain (pow of a negative base, overflow)
            dis.append({'case': c, 'what': 'implementation raised %s: %s' % (o['exc'], o['msg'])}); continue
        if not all_finite(o): continue
        tcases.append(c)
        tgoals += case_goals(len(tcases) - 1, c, o)
    pre_extra = 'From V Require Import lib.Common lib.RangeTypes gen.GenC08 model.MultiRange.\n'
    old = fc.POINT_PRE
    fc.POINT_PRE = old.replace('Import ListNotations.', pre_extra + 'Import ListNotations.').replace('central_diff]', 'central_diff c_multi nth existsb zero_callable]')
    try:
        bad = sorted(set(fc.run_point_goals('C07t', tgoals, chunk=24))); undecided = sorted(set(fc.SKIPPED))
    finally:
        fc.POINT_PRE = old
    for i in bad:
        dis.append({'case': tcases[i], 'what': 'model of the built callable (flags or value/deriv/deriv2) differs from the implementation: %r' % (run_case(tcases[i]),)})
    dist = {'leaf_points': len(leaf_cases), 'trees': sum(1 for c in tcases if 'tree' in c), 'multi_range': sum(1 for c in tcases if 'multi' in c),
            'potable_route': sum(1 for c in tcases if c.get('route') == 'potable'),
            'with_numeric_fallback': sum(1 for c in tcases if 'plain' in core.canon(c) or 'd1' in core.canon(c)),
            'depth3': sum(1 for c in tcases if 'tree' in c and _depth(c['tree']) >= 3),
            'undecided_within_time_limit': len(undecided)}     # trees whose certification did not finish in 60 s per goal: neither agreement nor disagreement
    allc = leaf_cases + tcases
    return {'evaluations': len(allc), 'cases': allc, 'nontrivial': core.distinct_count([c for c in tcases if ('multi' in c or c['tree']['op'] != 'leaf')]) + core.distinct_count(leaf_cases),
            'rule': 'leaves: %d points per form for deriv and deriv2 (interval-certified against the code); expression trees to depth 3 over full/deriv-only/plain leaves '
                    '(plus, product, pow, trans; API and potable routes) and multi-range potentials with mixed analytic availability: flags has_deriv/has_deriv2 exact, '
                    'value/deriv/deriv2 interval-certified; non-trivial = a leaf derivative point or a non-leaf expression; distinct by canonical JSON' % per,
            'samples': leaf_cases[:1] + tcases[:2], 'distribution': dist, 'disagreements': dis[:20], 'oracle_cases': defn_corpus() + tcases + leaf_cases[:: 3]}

def _depth(t):
    if t['op'] == 'leaf': return 0
    return 1 + max(_depth(t[k]) for k in ('a', 'b') if k in t and isinstance(t[k], dict))

# ------------------------------------------------------------------ oracle
def abs_eval(t, r):
    """the expression evaluated with |.| at every leaf and magnitudes added / multiplied: the size of the terms that may cancel"""
    try:
        if t['op'] == 'leaf': return abs(py_leaf(t)(r))
        if t['op'] == 'trans': return abs_eval(t['a'], r + t['X'])
        if t['op'] == 'pow': return abs(py_build(t)(r))
        a, b = abs_eval(t['a'], r), abs_eval(t['b'], r)
        v = a + b if t['op'] == 'plus' else a * b
        return v if math.isfinite(v) else 0.0
    except Exception:
        return 0.0

def max_node_abs(t, r):
    """the largest |value| any sub-expression takes at r (a zero factor hides the size of what it multiplies)"""
    try:
        if t['op'] == 'leaf': return abs(py_leaf(t)(r))
        if t['op'] == 'trans': return max_node_abs(t['a'], r + t['X'])
        here = abs(py_build(t)(r))
        return max(here, max_node_abs(t['a'], r), max_node_abs(t['b'], r))
    except Exception:
        return float('inf')

def richardson(f, x, h=1e-3):
    """O(h^4) central difference with one Richardson step"""
    d1 = (f(x + h) - f(x - h)) / (2 * h)
    d2 = (f(x + h / 2) - f(x - h / 2)) / h
    return (4 * d2 - d1) / 3

def defn_build(d):
    from atsim.potentials.config import Configuration
    txt = '[Tabulation]\ntarget : LAMMPS\nnr : 5\ncutoff : 1.0\n[Pair]\nA-B : %s\n' % d
    return Configuration().read(io.StringIO(txt)).potentials[0].potentialFunction

def defn_corpus():
    """fixed potable definitions (judged by the statement alone: offered derivatives against the numerical derivative of the energy the
    same callable returns): powers whose exponent is itself a multi-range definition of constants, modifiers at the end of a spline"""
    ds = [('pow(as.bornmayer 1000.0 0.5, as.constant 2.0 >=3.0 as.constant 1.0)', [2.0, 3.5, 4.25]), ('pow(as.bornmayer 1000.0 0.5, >1 as.constant 2.0)', [0.5, 1.5]),
          ('pow(as.polynomial 1.0 0.5, as.constant 3.0)', [0.75, 2.0]), ('pow(as.bornmayer 10.0 1.5, as.polynomial 1.0 0.25)', [1.25]),
          ('spline(>0 as.zbl 14 8 >0.8 exp_spline >1.4 sum(as.buck 18003.7572 0.2052048149 133.5381, as.coul 2.4 -1.2))', [1.0, 1.3, 1.6]),
          ('sum(as.constant 1.0, >=2.0 sum(as.constant 10.0, as.polynomial 0.0 100.0))', [0.5, 2.5]), ('product(as.polynomial 1.0 -0.2, as.lj 0.0103 3.4)', [5.0, 3.4, 4.0]),
          ('trans(>=0 as.polynomial 1.0 2.0 1.5, as.constant -2.0)', [1.0, 2.5]),
          # a negative base with a constant integer exponent (the manual's own example): real and differentiable (fix 4dbb85c)
          # products of three and four factors: every cross term of the second derivative carries the remaining factors
          ('product(as.buck 1000.0 0.2 32.0, as.polynomial 0.0 2.0, as.polynomial 1.0 -3.0 0.5)', [1.6, 0.9]),
          ('product(as.polynomial 1.0 0.5, as.constant 3.0, as.bornmayer 10.0 1.5, as.polynomial 2.0 -0.25 0.125)', [1.25, 2.5]),
          ('sum(as.buck 1000.0 0.3 10.0, as.polynomial 0.0 2.0 0.5, as.bornmayer 10.0 1.5)', [1.5]),
          ('pow(sum(as.constant -1.0, as.polynomial 0.0 0.25), as.constant 2)', [1.0, 2.0, 6.0]), ('pow(as.polynomial -3.0 0.5, as.constant 3)', [1.0, 4.0])]
    return [{'defn': d, 'r': r} for d, rs in ds for r in rs]

def oracle(case):
    fails = []
    if 'form' in case and 'method' in case:
        import atsim.potentials.potentialforms as pfm
        f = getattr(pfm, case['form'])(*case['params'])
        r = case['r']
        checks = [('deriv', f, f.deriv), ('deriv2', f.deriv, f.deriv2)]
    else:
        try:
            if 'defn' in case: f = defn_build(case['defn'])
            elif 'multi' in case: f = py_multi(case)
            elif case['route'] == 'potable': f, _ = potable_build(case['tree'])
            else: f = py_build(case['tree'])
        except Exception as e:
            return [] if type(e).__name__ in ('OverflowError', 'ZeroDivisionError', 'ValueError') else ['building raised %s: %s' % (type(e).__name__, e)]
        r = case['r']
        checks = []
        if hasattr(f, 'deriv'): checks.append(('deriv', f, f.deriv))
        if hasattr(f, 'deriv2'):
            checks.append(('deriv2', f.deriv if hasattr(f, 'deriv') else (lambda x: richardson(f, x)), f.deriv2))
    if 'multi' in case and any(x['start'] == r for x in case['multi']):
        return []          # the statement is about separations away from range boundaries
    try:
        if not (abs(f(r)) < 1e8): return []      # outside the well-conditioned range the oracle can judge
        if 'tree' in case and not case.get('smooth_at_r') and not (max_node_abs(case['tree'], r) < 1e8): return []   # ... also when a zero factor hides it
    except Exception:
        return []
    for (nm, base, offered) in checks:
        try:
            num = richardson(base, r); got = offered(r)
        except Exception as e:
            if 'defn' in case:
                # a fixed definition, differentiable at r: the numerical slope exists, so the offered derivative must too
                try: ok_num = math.isfinite(richardson(base, r))
                except Exception: ok_num = False
                if ok_num: fails.append('%s(%r) raised %s: %s although the %s has the numerical slope %r there' % (nm, r, type(e).__name__, e, 'energy' if nm == 'deriv' else 'first derivative', richardson(base, r)))
                continue
            if type(e).__name__ in ('OverflowError', 'ZeroDivisionError', 'ValueError') and not case.get('smooth_at_r'): continue
            fails.append('%s(%r) raised %s: %s' % (nm, r, type(e).__name__, e)); continue
        scale = max(1.0, abs(num), abs(got), abs(base(r)) if nm == 'deriv2' else 0.0)
        if not (math.isfinite(num) and math.isfinite(got)): continue
        # a function that changes by orders of magnitude across the stencil of the numerical estimate (1^41567 next to 0.9995^41567)
        # cannot be judged by that estimate: outside the range the oracle is sound for
        try:
            st = [abs(base(r + k * 1e-3)) for k in (-1.0, -0.5, 0.5, 1.0)]
            if not all(math.isfinite(v) for v in st) or max(st) > 1e3 * max(1.0, abs(base(r)), min(st)): continue
        except Exception: continue
        # analytic derivatives: limited by the Richardson estimate (~1e-7); nested central differences of the
        # numerical fallback (h = 1e-6) are themselves only good to ~1e-4 of the function's size
        lim = (2e-2 if nm == 'deriv2' else 1e-4) if uses_fallback(case) else 2e-6
        # cancellation: when the terms of the expression are much larger than its value (a product of a decaying and a growing
        # exponential, say) the rounding noise of the nested differences (eps/h^2 = 1e-4 for deriv2, eps/h = 1e-10 for deriv) and
        # of the Richardson estimate is relative to the size M of those terms, not to the size of the result
        M = abs_eval(case['tree'], r) if 'tree' in case else 0.0
        k = ((1e-3 if nm == 'deriv2' else 1e-8) if uses_fallback(case) else 1e-9)
        if abs(num - got) > max(lim * scale, k * M):
            fails.append('%s(%r) = %r but the numerical derivative of the %s is %r' % (nm, r, got, 'energy' if nm == 'deriv' else 'first derivative', num))
    return fails

def search_cases(rng, n):
    for c in defn_corpus(): yield c
    for _ in range(n):
        if rng.random() < 0.35: yield gen_multi_case(rng)
        else: yield gen_case(rng, rng.choice([1, 2, 3]))

def finding_for(case, fails): return None
def replay_finding(f): return False
