"""C19 -- GULP, ADP, funcfl, Excel (pair / EAM) targets: layout models vs the writers (API and potable); oracle."""
import io, math
import core, layout, eam_common as ec, p_c01, p_c03
from layout import q

ID = 'C19'
GENMODS = ['gen_layout', 'gen_eam']
TARGET = 'props/C19.vo'
PROOF_FILES = ['proof/C19.v', 'props/C19.v']
AXIOMS = ['reals', 'classic']
TRUSTED = [
    'Coq 8.16.1 kernel; vm_compute for the correspondence evaluation; Reals axioms only for the funcfl conversion identity',
    'translator harness/gen_layout.py (_r_value_iterator, _rho_value_iterator, funcfl cutoff/conversion expressions asserted on the AST); writer structure modelled by hand (model/PairTables.v, EamTables.v, ExcelTables.v), compared byte for byte / cell by cell',
    'Excel workbooks are read back with openpyxl and compared sheet by sheet (the .xlsx container embeds the wall clock and is not compared); equal-length species labels so that label order is rank order',
    'correspondence harness (recording callables, Python formatting)',
]

WRITERS = ['gulp', 'gulp_wp', 'adp', 'funcfl', 'excel', 'excel_eam']

def gen_case(rng, thorough=False):
    w = rng.choice(WRITERS)
    if w in ('gulp', 'gulp_wp', 'excel'):
        c = p_c01.gen_case(rng, thorough)
        c['nr'] = rng.choice([2, 3, 4, 7, 11, rng.randint(2, 30)])
        c['writer'] = w
        return c
    c = ec.gen_eam_case(rng, False, thorough, max_el=3)
    c['writer'] = w
    if w == 'adp':
        els = [e['sp'] for e in c['elements']]
        allp = [(a, b) for i, a in enumerate(els) for b in els[i:]]
        c['dips'] = [[b, a] if rng.random() < 0.5 else [a, b] for (a, b) in allp if rng.random() < 0.6]
        c['quads'] = [[b, a] if rng.random() < 0.5 else [a, b] for (a, b) in allp if rng.random() < 0.6]
        if rng.random() < 0.15: c['dips'] = []; c['quads'] = []          # no angular term declared at all: every block is still written, zero filled
    if w == 'funcfl':
        c['elements'] = c['elements'][:1]; c['pairs'] = [[c['elements'][0]['sp'], c['elements'][0]['sp']]]
        c['labels'] = [c['elements'][0]['sp']] + c['labels'][len(c['labels']) - 8:]
        c['drho'] = rng.choice([0.5, 0.05, 0.002]); c['dr'] = rng.choice([0.1, 0.05, 0.0125])
        c['title'] = rng.choice(['', 'a title'])
        c['nr'] = rng.choice([2, 4, 5, 6, 10, 11, rng.randint(2, 30)]); c['nrho'] = rng.choice([1, 4, 5, 6, 10, rng.randint(1, 30)])
    if w == 'excel_eam':
        c['nr'] = min(c['nr'], 12); c['nrho'] = min(c['nrho'], 12)
    return c

def run_recorded(case, fault_at=None):
    from atsim.potentials import writePotentials, writeFuncFL, Potential
    from atsim.potentials.pair_tabulation import GULP_PairTabulation, Excel_PairTabulation
    from atsim.potentials.eam_tabulation import ADP_EAMTabulation, Excel_EAMTabulation
    rec = layout.Recorder(); rec.fault_at = fault_at; rec.zero_every = case.get('zero_every')
    w = case['writer']
    if w in ('gulp', 'gulp_wp', 'excel'):
        pots = p_c01.build_potentials(case, rec)
        if w == 'excel':
            out = ec.RecBytesFile(rec); Excel_PairTabulation(pots, case['cutoff'], case['nr']).write(out); return rec, ec.workbook_text(out.getvalue())
        out = layout.RecFile(rec)
        if w == 'gulp': GULP_PairTabulation(pots, case['cutoff'], case['nr']).write(out)
        else: writePotentials('GULP', pots, case['cutoff'], case['nr'], out)
        return rec, out.getvalue()
    eam, pots = ec.build_objects(case, rec)
    if w == 'adp':
        dips = [Potential(a, b, layout.rec_fn(rec, (1, k, 0))) for k, (a, b) in enumerate(case['dips'])]
        quads = [Potential(a, b, layout.rec_fn(rec, (2, k, 0))) for k, (a, b) in enumerate(case['quads'])]
        out = layout.RecFile(rec)
        ADP_EAMTabulation(pots, eam, dips, quads, case['cutoff'], case['nr'], case['cutoff_rho'], case['nrho']).write(out)
        return rec, out.getvalue()
    if w == 'funcfl':
        out = layout.RecFile(rec)
        writeFuncFL(case['nrho'], case['drho'], case['nr'], case['dr'], eam, pots, out, case['title'])
        return rec, out.getvalue()
    out = ec.RecBytesFile(rec)
    Excel_EAMTabulation(pots, eam, case['cutoff'], case['nr'], case['cutoff_rho'], case['nrho']).write(out)
    return rec, ec.workbook_text(out.getvalue())

def model_expr(case):
    w = case['writer']
    if w in ('gulp', 'gulp_wp', 'excel'):
        ids = {l: i for i, l in enumerate(case['labels'])}
        ps = p_c01.coq_pots(case['pots'], ids)
        if w == 'excel': return '(excel_pair_sheet %s %s %d)' % (ps, q(case['cutoff']), case['nr'])
        return '(gulp_file %s %s %d)' % (ps, q(case['cutoff']), case['nr'])
    ids = ec.label_ids(case)
    els, prs = ec.coq_elements(case), ec.coq_pairs(case['pairs'], case)
    grid = '%s %d %s %d' % (q(case['cutoff']), case['nr'], q(case['cutoff_rho']), case['nrho'])
    if w == 'adp': return '(adp_tabulation %s %s %s %s %s %d)' % (els, prs, ec.coq_pairs(case['dips'], case), ec.coq_pairs(case['quads'], case), grid, ids[''])
    if w == 'funcfl':
        e = case['elements'][0]
        el = '{| el_sp := %d; el_Z := %d; el_mass := %s; el_a0 := %s; el_lat := %d |}' % (ids[e['sp']], e['Z'], q(e['mass']), q(e['a0']), ids[e['lat']])
        return '(funcfl_file %d %s %d %s %d %s)' % (ids[case['title']], el, case['nrho'], q(case['drho']), case['nr'], q(case['dr']))
    return '(excel_eam_file false %s %s %s)' % (els, prs, grid)

# ------------------------------------------------------------------ potable routes
def gen_potable(rng):
    t = rng.choice(['GULP', 'excel', 'eam_adp', 'excel_eam'])
    if t in ('GULP', 'excel'):
        c = p_c01.gen_potable_case(rng); c['target'] = t; c['route'] = 'configuration'; c['nr'] = rng.choice([4, 7, 11])
        return c
    c = ec.gen_potable_eam(rng, False, t)
    if t == 'eam_adp':
        els = sorted({e for e, _ in c['embed']} | {e for e, _ in c['dens']})
        allp = [(a, b) for i, a in enumerate(els) for b in els[i:]]
        c['dips'] = [((b, a) if rng.random() < 0.5 else (a, b), rng.choice(['as.polynomial 0.5 0.25', '>=0 as.constant 0.75', 'as.bornmayer 2.0 1.5'])) for (a, b) in allp if rng.random() < 0.6]
        c['quads'] = [((b, a) if rng.random() < 0.5 else (a, b), rng.choice(['as.polynomial -0.5 0.125', '>=0 as.constant -1.5', 'as.morse 1.0 2.0 0.25'])) for (a, b) in allp if rng.random() < 0.6]
        if rng.random() < 0.15: c['dips'] = []; c['quads'] = []
    return c

def potable_text(c):
    if c['target'] in ('GULP', 'excel'): return p_c01.potable_text(c, c['target'])
    extra = ''
    if c['target'] == 'eam_adp':
        extra = '[EAM-ADP-Dipole]\n' + ''.join('%s-%s : %s\n' % (a, b, d) for (a, b), d in c['dips']) + '\n[EAM-ADP-Quadrupole]\n' + ''.join('%s-%s : %s\n' % (a, b, d) for (a, b), d in c['quads']) + '\n'
    return ec.potable_eam_text(c, extra)

def run_potable(c):
    from atsim.potentials.config import Configuration
    tab = Configuration().read(io.StringIO(potable_text(c)))
    if c['target'].startswith('excel'):
        out = io.BytesIO(); tab.write(out); return tab, ec.workbook_text(out.getvalue())
    out = io.StringIO(); tab.write(out); return tab, out.getvalue()

def potable_model(c, tab):
    if c['target'] in ('GULP', 'excel'):
        labels = c['labels']; ids = {l: i for i, l in enumerate(labels)}
        ps = p_c01.coq_pots([(p.speciesA, p.speciesB, False) for p in tab.potentials], ids)
        return labels, ('(gulp_file %s %s %d)' if c['target'] == 'GULP' else '(excel_pair_sheet %s %s %d)') % (ps, q(tab.cutoff), tab.nr)
    wc = ec.case_from_tabulation(c, tab); ids = ec.label_ids(wc)
    els, prs = ec.coq_elements(wc), ec.coq_pairs(wc['pairs'], wc)
    grid = '%s %d %s %d' % (q(wc['cutoff']), wc['nr'], q(wc['cutoff_rho']), wc['nrho'])
    if c['target'] == 'eam_adp':
        for p in list(tab.dipole_potentials) + list(tab.quadrupole_potentials):
            for s in (p.speciesA, p.speciesB):
                if s not in wc['labels']: raise ValueError('dipole species outside the element list')
        return wc['labels'], '(adp_tabulation %s %s %s %s %s %d)' % (els, prs, ec.coq_pairs([[p.speciesA, p.speciesB] for p in tab.dipole_potentials], wc),
                                                                  ec.coq_pairs([[p.speciesA, p.speciesB] for p in tab.quadrupole_potentials], wc), grid, ids[''])
    return wc['labels'], '(excel_eam_file false %s %s %s)' % (els, prs, grid)

def synth(tr, tab, c):
    if c['target'] in ('GULP', 'excel'):
        return [('eval', tuple(fn), k, float(a), tab.potentials[fn[1]].energy(float(a))) for (fn, k, a) in tr]
    return ec.synth_eam_events(tr, tab)

def wide_corpus():
    """fixed cases with many columns: an Excel pair sheet with 28 functions (all pairs of seven species: columns beyond Z) and a GULP table
    with as many blocks"""
    labs = sorted(layout.SPECIES_POOL)[:7]
    pots = [[a, b, (i + j) % 2 == 0] for i, a in enumerate(labs) for j, b in enumerate(labs) if j >= i]
    return [{'pots': pots, 'cutoff': 4.0, 'nr': 3, 'route': 'class', 'labels': labs, 'zero_every': None, 'writer': 'excel'},
            {'pots': pots, 'cutoff': 4.0, 'nr': 3, 'route': 'class', 'labels': labs, 'zero_every': None, 'writer': 'gulp'}]

def correspond(ctx):
    rng = ctx['rng']
    cases = wide_corpus() + [gen_case(rng, ctx['thorough']) for _ in range(240 if ctx['thorough'] else 60)]
    pcases = [gen_potable(rng) for _ in range(40 if ctx['thorough'] else 12)]
    dis = []
    runs = []
    for c in cases:
        try: runs.append(run_recorded(c))
        except Exception as e: runs.append(None); dis.append({'case': c, 'what': '%s writer raised %s: %s' % (c['writer'], type(e).__name__, str(e)[:100])})
    exprs = [model_expr(c) for c in cases]
    pruns = []
    for c in pcases:
        try:
            tab, text = run_potable(c); labels, ex = potable_model(c, tab)
            pruns.append((tab, text, labels)); exprs.append(ex)
        except Exception as e:
            pruns.append(None); exprs.append('([] : list item)'); dis.append({'case': c, 'what': 'potable %s model raised %s: %s' % (c['target'], type(e).__name__, str(e)[:120])})
    models = layout.eval_models('C19', ec.PRE, exprs)
    for c, r, (toks, tr) in zip(cases, runs, models):
        if r is None: continue
        d = ec.check(c, r[0], r[1], toks, tr)
        if d: dis.append({'case': c, 'what': c['writer'] + ': ' + d})
    for c, r, (toks, tr) in zip(pcases, pruns, models[len(cases):]):
        if r is None: continue
        tab, text, labels = r
        d = p_c01.compare_numeric(toks, synth(tr, tab, c), labels, text, tol=1e-9)
        if d: dis.append({'case': c, 'what': 'potable %s: %s' % (c['target'], d)})
    allc = cases + pcases
    dist = {'writers': {w: sum(1 for c in cases if c['writer'] == w) for w in WRITERS},
            'potable_targets': {t: sum(1 for c in pcases if c['target'] == t) for t in ('GULP', 'excel', 'eam_adp', 'excel_eam')},
            'excel_nrho_ne_nr': sum(1 for c in cases if c['writer'] == 'excel_eam' and c['nr'] != c['nrho'])}
    # how the numbers are printed (coq/model/NumFormat.v): the cells rendered in this run, edge values and random doubles
    import fmt_common
    nfmt, fdis, fdist = fmt_common.check_formats('C19', ctx['rng'], [11, 8, 9, 10], ctx['thorough'])
    dis = fdis + dis
    return {'number_format_cells': nfmt, 'number_format': fdist, 'evaluations': nfmt + len(allc), 'cases': allc, 'nontrivial': core.distinct_count([c for c in allc if c.get('nr', 0) >= 3]),
            'rule': 'pair/EAM/ADP models and recording callables through GULP_PairTabulation, writePotentials(GULP), ADP_EAMTabulation, writeFuncFL, Excel_PairTabulation, Excel_EAMTabulation, and potable targets GULP, excel, eam_adp, excel_eam; '
                    'whole output compared with the rendered model (workbooks read back cell by cell); nr != nrho generated deliberately; non-trivial = nr >= 3',
            'samples': cases[:2] + pcases[:1], 'distribution': dist, 'disagreements': dis[:20], 'oracle_cases': allc}

# ------------------------------------------------------------------ oracle
def oracle(case):
    fails = []
    if 'target' in case:
        try: tab, text = run_potable(case)
        except Exception as e: return ['valid %s model raised %s: %s' % (case['target'], type(e).__name__, str(e)[:100])]
        t = case['target']
        if t == 'GULP': return check_gulp(text, [(p.speciesA, p.speciesB) for p in tab.potentials], tab.cutoff, tab.nr, lambda i, x: tab.potentials[i].energy(x))
        if t == 'excel': return check_excel_pair(text, tab.potentials, tab.cutoff, tab.nr)
        if t == 'excel_eam': return check_excel_pair(text, tab.potentials, tab.cutoff, tab.nr) + check_excel_eam(text, tab)
        if t == 'eam_adp': return check_adp(text, tab, case)
        return []
    try: rec, text = run_recorded(case)
    except Exception as e: return ['%s writer raised %s: %s' % (case['writer'], type(e).__name__, str(e)[:100])]
    evs = rec.evals()
    def val(fn, x):
        for e in evs:
            if e[1] == fn and abs(e[3] - x) <= 1e-9 * max(1.0, abs(x)): return e[4]
        return float('nan')
    w = case['writer']
    if w in ('gulp', 'gulp_wp'):
        return check_gulp(text, [(a, b) for (a, b, _) in case['pots']], case['cutoff'], case['nr'], lambda i, x: val((0, i, 0), x))
    if w == 'funcfl':
        lines = text.split('\n')
        g = lines[2].split()
        nrho, drho, nr, dr, cut = int(g[0]), float(g[1]), int(g[2]), float(g[3]), float(g[4])
        if (nrho, nr) != (case['nrho'], case['nr']) or abs(drho - case['drho']) > 1e-6 or abs(dr - case['dr']) > 1e-6 or abs(cut - case['dr'] * (case['nr'] - 1)) > 1e-6:
            fails.append('header %r does not declare the grid tabulated' % (g,))
        vals = [float(x) for l in lines[3:] for x in l.split()]
        if any(len(l.split()) > 5 for l in lines[3:]): fails.append('a line holds more than five values')
        if len(vals) != nrho + 2 * nr: return fails + ['%d values, expected nrho + 2 nr = %d' % (len(vals), nrho + 2 * nr)]
        for i in range(nrho):
            if abs(vals[i] - val((3, 0, 0), i * case['drho'])) > 1e-12 * max(1, abs(vals[i])): fails.append('embedding value %d' % i); break
        for i in range(1, nr):
            r = i * case['dr']; z = vals[nrho + i]; phi = val((0, 0, 0), r)
            back = z * z * 27.2 * 0.529 / r
            if abs(back - phi) > 1e-9 * max(1.0, abs(phi)): fails.append('effective charge %d: Z^2*27.2*0.529/r = %r, pair potential %r' % (i, back, phi)); break
        for i in range(nr):
            if abs(vals[nrho + nr + i] - val((4, 0, 0), i * case['dr'])) > 1e-12 * max(1, abs(vals[nrho + nr + i])): fails.append('density value %d' % i); break
        return fails
    if w == 'adp':
        f = p_c03.parse_setfl(text)
        n = len(f['names']); nr = f['nr']
        rest = [float(x) for x in f['rest']]
        nblk = n * (n + 1) // 2
        if len(rest) != 2 * nblk * nr: return ['%d values after the setfl part, expected 2 * %d * %d' % (len(rest), nblk, nr)]
        names = f['names']
        for part, code, key in ((0, 1, 'dips'), (1, 2, 'quads')):
            last = {}
            for k, (a, b) in enumerate(case[key]): last[tuple(sorted([a, b]))] = k
            pos = part * nblk * nr
            for i in range(n):
                for j in range(i + 1):
                    k = last.get(tuple(sorted([names[i], names[j]])))
                    for m in range(nr):
                        want = 0.0 if k is None else val((code, k, 0), m * f['dr'])
                        if abs(rest[pos + m] - want) > 1e-9 * max(1.0, abs(want)):
                            fails.append('%s block (%s,%s) value %d is %r, function gives %r (unscaled)' % (key, names[i], names[j], m, rest[pos + m], want)); break
                    pos += nr
        return fails
    if w == 'excel':
        sheets = text.split('#sheet ')[1:]
        rows = sheets[0].split('\n')[1:-1]
        if len(rows) != case['nr'] + 1: fails.append('Pair sheet has %d rows, expected nr+1=%d' % (len(rows), case['nr'] + 1))
        return fails
    if w == 'excel_eam':
        sheets = {s.split('\n')[0]: s.split('\n')[1:-1] for s in text.split('#sheet ')[1:]}
        for nm, cnt in (('Pair', case['nr']), ('EAM-Density', case['nr']), ('EAM-Embed', case['nrho'])):
            if nm not in sheets: fails.append('sheet %s missing' % nm); continue
            if len(sheets[nm]) != cnt + 1: fails.append('sheet %s has %d data rows, expected %d' % (nm, len(sheets[nm]) - 1, cnt))
        if 'EAM-Embed' in sheets and len(sheets['EAM-Embed']) > 1:
            lastrho = float(sheets['EAM-Embed'][-1].split('\t')[0])
            if abs(lastrho - case['cutoff_rho']) > 1e-9 * case['cutoff_rho']: fails.append('last rho %r is not cutoff_rho %r' % (lastrho, case['cutoff_rho']))
        names = sorted(e['sp'] for e in case['elements'])
        idx = {e['sp']: i for i, e in enumerate(case['elements'])}
        for nm, code, step, cnt in (('EAM-Density', 4, case['cutoff'] / max(1, case['nr'] - 1), case['nr']), ('EAM-Embed', 3, case['cutoff_rho'] / max(1, case['nrho'] - 1), case['nrho'])):
            if nm not in sheets: continue
            head = sheets[nm][0].split('\t')
            if head[1:] != names: fails.append('%s columns %r, expected %r' % (nm, head[1:], names)); continue
            for k, row in enumerate(sheets[nm][1:]):
                cells = row.split('\t'); x = k * step
                if abs(float(cells[0]) - x) > 1e-9 * max(1.0, x): fails.append('%s row %d first column %r, expected %r' % (nm, k, cells[0], x)); break
                for sp, cv in zip(names, cells[1:]):
                    want = val((code, idx[sp], 0), x)
                    if abs(float(cv) - want) > 1e-12 * max(1.0, abs(want)): fails.append('%s[%s] row %d is %r, function gives %r' % (nm, sp, k, cv, want)); break
        return fails
    return fails

def check_gulp(text, species, cutoff, nr, energy):
    fails = []
    lines = text.split('\n')
    if lines[-1] == '': lines = lines[:-1]
    if len(lines) != len(species) * (nr + 2): return ['%d lines, expected %d blocks of nr+2=%d lines' % (len(lines), len(species), nr + 2)]
    for bi, (a, b) in enumerate(species):
        blk = lines[bi * (nr + 2):(bi + 1) * (nr + 2)]
        if blk[0] != 'spline cubic': fails.append('block %d does not start with "spline cubic"' % bi)
        h = blk[1].split()
        if h[:2] != [a, b] or abs(float(h[2]) - cutoff) > 1e-12 * cutoff: fails.append('block %d header %r, expected %s %s %r' % (bi, blk[1], a, b, cutoff))
        for i, row in enumerate(blk[2:]):
            e, r = [float(x) for x in row.split()]
            x = i * cutoff / (nr - 1)
            if abs(r - x) > 1e-9: fails.append('block %d row %d: separation %r, expected %r' % (bi, i, r, x)); break
            w = energy(bi, x)
            if abs(e - w) > 1e-9 + 1e-10 * abs(w): fails.append('block %d row %d: energy %r, potential gives %r' % (bi, i, e, w)); break
    return fails

def check_excel_pair(text, pots, cutoff, nr):
    fails = []
    sheets = {s.split('\n')[0]: s.split('\n')[1:-1] for s in text.split('#sheet ')[1:]}
    if 'Pair' not in sheets: return ['no Pair sheet']
    rows = sheets['Pair']
    d = {}
    for p in pots: d['{}-{}'.format(*sorted([p.speciesA, p.speciesB]))] = p
    head = rows[0].split('\t')
    if head[0] != 'r' or head[1:] != sorted(d): fails.append('Pair sheet header %r, expected r + %r' % (head, sorted(d)))
    if len(rows) != nr + 1: fails.append('Pair sheet has %d data rows, expected %d' % (len(rows) - 1, nr)); return fails
    for k, row in enumerate(rows[1:]):
        cells = row.split('\t'); x = k * cutoff / (nr - 1)
        if abs(float(cells[0]) - x) > 1e-9 * max(1.0, x): fails.append('Pair row %d: r=%r, expected %r' % (k, cells[0], x)); break
        for lab, cv in zip(head[1:], cells[1:]):
            w = d[lab].potentialFunction(x)
            if abs(float(cv) - w) > 1e-10 * max(1.0, abs(w)): fails.append('Pair[%s] row %d is %r, function gives %r' % (lab, k, cv, w)); break
    return fails

def check_excel_eam(text, tab):
    fails = []
    sheets = {s.split('\n')[0]: s.split('\n')[1:-1] for s in text.split('#sheet ')[1:]}
    eps = {ep.species: ep for ep in tab.eam_potentials}
    for nm, cnt, cut, get in (('EAM-Density', tab.nr, tab.cutoff, lambda ep: ep.electronDensityFunction), ('EAM-Embed', tab.nrho, tab.cutoff_rho, lambda ep: ep.embeddingFunction)):
        if nm not in sheets: fails.append('sheet %s missing' % nm); continue
        rows = sheets[nm]; head = rows[0].split('\t')
        if head[1:] != sorted(eps): fails.append('%s columns %r, expected %r' % (nm, head[1:], sorted(eps)))
        if len(rows) != cnt + 1: fails.append('%s has %d data rows, expected %d' % (nm, len(rows) - 1, cnt)); continue
        for k, row in enumerate(rows[1:]):
            cells = row.split('\t'); x = k * cut / (cnt - 1)
            if abs(float(cells[0]) - x) > 1e-9 * max(1.0, x): fails.append('%s row %d: first column %r, expected %r' % (nm, k, cells[0], x)); break
            for sp, cv in zip(head[1:], cells[1:]):
                w = get(eps[sp])(x)
                if abs(float(cv) - w) > 1e-10 * max(1.0, abs(w)): fails.append('%s[%s] row %d is %r, function gives %r' % (nm, sp, k, cv, w)); break
    return fails

def adp_value(defn, r):
    """the angular functions of the generator, written out by hand (a definition without a range is '>0 ...')"""
    import math
    t = defn.split()
    if t[0] == '>=0': return float(t[2])                                   # '>=0 as.constant X'
    if r <= 0: return 0.0
    if t[0] == 'as.polynomial': return float(t[1]) + float(t[2]) * r
    if t[0] == 'as.bornmayer': return float(t[1]) * math.exp(-r / float(t[2]))
    if t[0] == 'as.morse':
        g_, rs, D = float(t[1]), float(t[2]), float(t[3]); return D * (math.exp(-2.0 * g_ * (r - rs)) - 2.0 * math.exp(-g_ * (r - rs)))
    raise ValueError(defn)

def check_adp(text, tab, case):
    fails = []
    f = p_c03.parse_setfl(text)
    n = len(f['names']); nr = f['nr']; names = f['names']
    rest = [float(x) for x in f['rest']]
    nblk = n * (n + 1) // 2
    if len(rest) != 2 * nblk * nr: return ['%d values after the setfl part, expected %d' % (len(rest), 2 * nblk * nr)]
    for part, pots, key in ((0, tab.dipole_potentials, 'dips'), (1, tab.quadrupole_potentials, 'quads')):
        d = {tuple(sorted([p.speciesA, p.speciesB])): p for p in pots}
        declared = {tuple(sorted(k)) for k, _ in case[key]}
        defn_of = {tuple(sorted(k)): dd for k, dd in case[key]}
        pos = part * nblk * nr
        for i in range(n):
            for j in range(i + 1):
                k = tuple(sorted([names[i], names[j]]))
                for m in range(nr):
                    want = adp_value(defn_of[k], m * f['dr']) if k in declared else 0.0          # from the declaration, not from the built tabulation
                    if abs(rest[pos + m] - want) > 1e-12 * max(1.0, abs(want)):
                        fails.append('%s block (%s,%s) value %d is %r, function gives %r' % (key, names[i], names[j], m, rest[pos + m], want)); break
                pos += nr
    return fails

def search_cases(rng, n):
    for c in wide_corpus(): yield c
    for k in range(n // 4):
        yield gen_case(rng)
        if k % 5 == 0: yield gen_potable(rng)
def finding_for(case, fails): return None
def replay_finding(f): return False
