"""C20 -- duplicates are rejected: model/Duplicates.v (accept) vs Configuration().read on generated models and every
way of duplicating one of their entries."""
import copy, io, random
import core, store_common as sc

ID = 'C20'
GENMODS = ['gen_store']
TARGET = 'props/C20.vo'
PROOF_FILES = ['proof/C20.v', 'proof/IniProofs.v', 'proof/IniFile.v', 'proof/IniFile2.v', 'proof/StoreText.v', 'props/C20.v']
AXIOMS = []
TRUSTED = [
    'Coq 8.16.1 kernel; vm_compute for the correspondence evaluation; no axioms',
    'model/Duplicates.v is hand written (strict INI parse on normalised keys, _check_for_duplicate_pairs, check_for_duplicate_table_forms, registry label checks); optionxform, _key_transform and _check_for_duplicate_pairs are asserted on the AST; the accept/reject verdict is compared with Configuration().read on every run',
    'text level: proof/StoreText.v proves that the printed raw file is parsed (model/Ini.v) into the store; model/Ini.v restates the line parser of the stdlib configparser as the repository configures it - an assumption about a library outside the repository, compared with it on every run (generated files; the model\'s printer against the printer of the harness, text_store against the raw parser)',
]
PRE = 'From V Require Import lib.Common model.Store model.Duplicates.\nLocal Open Scope nat_scope.\n'
MUTATIONS = ['none', 'same_line', 'ws_pair', 'ws_pair_other', 'reversed_pair', 'ws_species', 'ws_fs', 'ws_sig', 'sig_other_params', 'dup_section', 'table_dup', 'table_ws_dup', 'table_ws_dup_apart',
             'table_vs_formula', 'table_vs_builtin', 'ws_option']

ADDABLE = ('same_line', 'ws_pair', 'reversed_pair', 'ws_species', 'ws_fs', 'ws_sig', 'ws_option')

def find_section(m, name):
    for s, es in m['sections']:
        if s[0] == name: return s, es
    return None, None

def mutate(rng, m, kind):
    m = copy.deepcopy(m)
    def dup(sec, pred, newsp=None, newkey=None):
        s, es = find_section(m, sec)
        if es is None: return False
        c = [e for e in es if pred(e)]
        if not c: return False
        e = copy.deepcopy(rng.choice(c))
        if newsp is not None: e['sp'] = (e.get('sp', 0) + newsp) % 20
        if newkey: e['key'] = newkey(e['key'])
        e['val'] = e['val']; e['_dup'] = True
        es.insert(rng.randint(0, len(es)), e); return True
    if kind == 'none': return m
    if kind == 'same_line': return m if dup(rng.choice(['Pair', 'Tabulation']), lambda e: True) else None
    if kind == 'ws_pair': return m if dup('Pair', lambda e: True, newsp=rng.randint(1, 4)) else None
    if kind == 'ws_pair_other':
        # the same pair, same species order, written with whitespace that optionxform does NOT remove (form feed, vertical tab, carriage return):
        # the two keys differ for the INI parser, the species (str.strip()) are the same -- the duplicate-pair check must refuse it
        s_, es = find_section(m, 'Pair')
        if not es: return None
        e = copy.deepcopy(rng.choice(es)); w = rng.choice(['\x0c', '\x0b', '\r'])
        a, b = e['key'][1], e['key'][2]
        e['rawkey'] = rng.choice(['%s%s-%s' % (a, w, b), '%s-%s%s' % (a, w, b), '%s%s-%s%s' % (a, w, w, b)]); e['_dup'] = True
        es.insert(rng.randint(0, len(es)), e); return m
    if kind == 'reversed_pair': return m if dup('Pair', lambda e: e['key'][1] != e['key'][2], newkey=lambda k: ('pair', k[2], k[1])) else None
    if kind == 'ws_species': return m if dup('EAM-Embed', lambda e: True) else None
    if kind == 'ws_fs': return m if dup('EAM-Density', lambda e: e['key'][0] == 'fs', newsp=rng.randint(1, 3)) else None
    if kind == 'ws_sig': return m if dup('Potential-Form', lambda e: True, newsp=rng.randint(1, 3)) else None
    if kind == 'sig_other_params': return m if dup('Potential-Form', lambda e: True, newkey=lambda k: ('sig', k[1], list(k[2]) + ['zz'])) else None
    if kind == 'ws_option': return m if dup('Tabulation', lambda e: True) else None
    if kind == 'dup_section':
        s, es = find_section(m, 'Pair'); m['sections'].append((s, [{'key': ('pair', 'Qq', 'Qq'), 'val': 'as.constant 1.0'}])); return m
    s, es = find_section(m, 'Table-Form')
    if kind == 'table_ws_dup_apart':
        # the two spellings of one table-form name with another table form between them
        if es is None: return None
        m['sections'].append((('Table-Form', 'tf_between', 0), [{'key': ('opt', 'x'), 'val': '0.0 1.0 2.0 3.0 4.5'}, {'key': ('opt', 'y'), 'val': '1.0 2.0 0.5 -0.25 0.0'}]))
        m['sections'].append((('Table-Form', s[1], (s[2] + rng.randint(1, 3)) % 4), copy.deepcopy(es))); return m
    if kind in ('table_dup', 'table_ws_dup'):
        if es is None: return None
        m['sections'].append((('Table-Form', s[1], s[2] if kind == 'table_dup' else (s[2] + rng.randint(1, 3)) % 4), copy.deepcopy(es))); return m
    if kind == 'table_vs_formula':
        fs, fes = find_section(m, 'Potential-Form')
        if fes is None: return None
        m['sections'].append((('Table-Form', fes[0]['key'][1], rng.randint(0, 3)), [{'key': ('opt', 'x'), 'val': '0.0 1.0 2.0 3.0 4.5'}, {'key': ('opt', 'y'), 'val': '5.0 2.0 0.5 -0.25 0.0'}])); return m
    if kind == 'table_vs_builtin':
        m['sections'].append((('Table-Form', 'as.buck', rng.randint(0, 3)), [{'key': ('opt', 'x'), 'val': '0.0 1.0 2.0 3.0 4.5'}, {'key': ('opt', 'y'), 'val': '5.0 2.0 0.5 -0.25 0.0'}])); return m
    return None

def gen_case(rng):
    kind = rng.choice(MUTATIONS + ['none'])
    for _ in range(20):
        base = sc.gen_model(rng, with_forms=True if kind in ('ws_sig', 'sig_other_params', 'table_vs_formula') else None,
                            with_table=True if kind.startswith('table_') and kind not in ('table_vs_formula', 'table_vs_builtin') else None,
                            kind=rng.choice(['eam', 'fs']) if kind == 'ws_species' else ('fs' if kind == 'ws_fs' else None))
        m = mutate(rng, base, kind)
        if m is not None:
            # the second definition may also arrive through the additional-items route (ConfigParser(additional=..), potable --add-item)
            route = 'additional' if (kind in ADDABLE and rng.random() < 0.35) else 'file'
            return {'model': m, 'mutation': kind, 'route': route}
    return {'model': base, 'mutation': 'none'}

def added_twice_corpus():
    """oracle-only: BOTH definitions arrive as additional items (potable --add-item twice): the same new pair twice, in two spellings,
    in the other species order; a new formula signature twice"""
    out = []
    for k, extras in enumerate([[['Pair', 'Qx-Qy', 'as.constant 1.0'], ['Pair', 'Qx-Qy', 'as.constant 2.0']],
                                [['Pair', 'Qx-Qy', 'as.constant 1.0'], ['Pair', 'Qx - Qy', 'as.constant 2.0']],
                                [['Pair', 'Qx-Qy', 'as.constant 1.0'], ['Pair', 'Qy-Qx', 'as.constant 2.0']],
                                [['Potential-Form', 'qf(r,A)', 'A'], ['Potential-Form', 'qf(r, A)', 'A*2']]]):
        out.append({'model': sc.gen_model(random.Random(2000 + k)), 'mutation': 'added_twice', 'route': 'additional_twice', 'extras': extras})
    # twelfth round: a table form of the file defined again by ADDED x / y items under another spelling of its section header
    for k in (10, 11, 12):
        m = sc.gen_model(random.Random(2000 + k), with_table=True)
        s, es = find_section(m, 'Table-Form')
        if s is None: continue
        other = sc.sect_name(('Table-Form', s[1], (s[2] + 1 + k % 3) % 4))
        if other == sc.sect_name(s): continue
        out.append({'model': m, 'mutation': 'table_added_other_spelling', 'route': 'additional_twice',
                    'extras': [[other, 'x', '0.0 1.0 2.0 3.0 4.5'], [other, 'y', '7.0 7.0 7.0 7.0 7.0']]})
    return out

def run_impl(case):
    from atsim.potentials.config import Configuration, ConfigParser, ConfigParserOverrideTuple as O
    if case.get('route') == 'additional_twice':
        extra = [O(a, b, c) for a, b, c in case['extras']]
        return sc.classify(lambda: Configuration().read_from_parser(ConfigParser(io.StringIO(sc.render(case['model'])), additional=extra)) and 'table')
    if case.get('route') == 'additional':
        m = copy.deepcopy(case['model']); extra = []
        for s, es in m['sections']:
            for e in list(es):
                if e.get('_dup'):
                    es.remove(e); extra.append(O(sc.sect_name(s), sc.key_text(tuple(e['key']) if not isinstance(e['key'][-1], list) else (e['key'][0], e['key'][1], list(e['key'][2])), e.get('sp', 0)), e['val']))
        if extra:
            return sc.classify(lambda: Configuration().read_from_parser(ConfigParser(io.StringIO(sc.render(m)), additional=extra)) and 'table')
    return sc.classify(lambda: Configuration().read(io.StringIO(sc.render(case['model']))) and 'table')

def correspond(ctx):
    rng = ctx['rng']
    cases = [gen_case(rng) for _ in range(400 if ctx['thorough'] else 110)]
    exprs, dis = [], []
    for c in cases:
        T = sc.Tables()
        b = T.lab('as.buck')
        exprs.append('(if accept [%d%%nat] %s then [0%%Z] else [1%%Z])' % (b, sc.coq_rawfile(c['model'], T)))
    res = sc.eval_results('C20', PRE, exprs)
    for c, zs in zip(cases, res):
        want = 'Ok' if zs == [0] else 'CfgErr'
        got = run_impl(c)
        if got[0] != want: dis.append({'case': c, 'what': 'model %s, Configuration().read gives %s %s' % (want, got[0], got[1] if got[0] != 'Ok' else '')})
    dist = {k: sum(1 for c in cases if c['mutation'] == k) for k in MUTATIONS}
    import ini_common as ic
    idis, istats, _ = ic.check_ini(ctx, 300 if ctx['thorough'] else 80, 'C20i'); dis += idis; dist.update(istats)
    # store model <-> characters (proof/StoreText.v): the model's printer is the harness' printer, and the raw parser of the repository
    # holds what text_store says whenever Store.parse accepts (and refuses the text whenever it does not)
    tdis, tstats = sc.check_store_text([c['model'] for c in cases][:(200 if ctx['thorough'] else 60)], 'C20t'); dis += tdis; dist.update(tstats)
    return {'evaluations': len(cases) + istats['ini_files'] + tstats['store_text_files'], 'cases': cases, 'nontrivial': core.distinct_count([c for c in cases if c['mutation'] != 'none']),
            'rule': 'generated pair/EAM/FS models, unmutated or with one entry duplicated in one of %d ways (same line, whitespace variants of A-B / A->B / f(r,a) / species / options, reversed pair, repeated section header, '
                    'repeated or whitespace-variant table-form name, table form named like a formula or like a built-in form, formula label with other parameters); verdict accept/reject compared; non-trivial = mutated; text level: parse_ini (model/Ini.v) vs the raw parser of the repository on generated files with repeated sections and keys in several spellings' % (len(MUTATIONS) - 1),
            'samples': cases[:2], 'distribution': dist, 'disagreements': dis[:20], 'oracle_cases': cases + added_twice_corpus()}

def oracle(case):
    if case.get('kind') in ('ini', 'store_text'): return []      # text-level correspondence cases: no verdict of this property's statement
    got = run_impl(case)
    if case['mutation'] == 'none':
        return [] if got[0] == 'Ok' else ['a model without duplicates was refused: %s' % (got[1],)]
    if got[0] == 'CfgErr': return []
    return ['a second definition of the same thing (%s) was %s instead of being rejected as a configuration error'
            % (case['mutation'], 'silently accepted' if got[0] == 'Ok' else 'answered with an internal error ' + got[1])]

def search_cases(rng, n):
    for c in added_twice_corpus(): yield c
    for _ in range(n // 3): yield gen_case(rng)
def finding_for(case, fails): return None
def replay_finding(f): return False
