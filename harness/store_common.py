"""Shared by C13/C14/C15/C16/C20: structured potable models, their rendering to INI text with whitespace
spellings, Coq literals for model/Store.v, decoding of encoded stores, reading back the implementation's store."""
import io, os, random, re, subprocess, sys, tempfile, shutil
import core, layout

SPECIES = ['Al', 'Cu', 'Fe', 'Mg', 'Na', 'Ni', 'Si', 'Th', 'Zr', 'Xe', 'O', 'U']
PAIR_DEFS = ['as.buck 1000.0 0.3 32.0', 'as.morse 1.5 2.0 0.75', 'as.lj 0.25 2.5', 'as.bornmayer 800.0 0.25', 'as.constant 1.5',
             'sum(as.bornmayer 600.0 0.3, as.constant -0.01)', '>=0 as.constant 2.0 >=1.5 as.buck 500.0 0.3 10.0', 'as.polynomial 1.0 -0.5 0.25']
EMBED_DEFS = ['as.sqrt -2.5', 'as.polynomial 0.0 -1.5 0.02', 'as.constant -1.0']
DENS_DEFS = ['as.bornmayer 12.5 0.6', 'as.exponential 2.5 -3.0', 'as.constant 4.0', 'as.morse 1.25 2.5 0.5']

def sect_name(s):
    if s[0] == 'Table-Form':
        nm = s[1]
        return ['Table-Form:%s', 'Table-Form: %s', 'Table-Form:%s ', 'Table-Form:  %s '][s[2] % 4] % nm
    if s[0] == 'Other': return s[1]
    return s[0]

def key_text(k, sp=0):
    t = k[0]
    if t == 'pair': return ['%s-%s', '%s - %s', '%s -%s', '%s- %s', '%s\t-\t%s'][sp % 5] % (k[1], k[2])
    if t == 'sp': return k[1]
    if t == 'fs': return ['%s->%s', '%s -> %s', '%s-> %s', '%s ->%s'][sp % 4] % (k[1], k[2])
    if t == 'sig':
        ps = ['r'] + list(k[2])
        return ['%s(%s)' % (k[1], ','.join(ps)), '%s(%s)' % (k[1], ', '.join(ps)), '%s( %s )' % (k[1], ' , '.join(ps)), '%s(%s)' % (k[1], ',\t'.join(ps))][sp % 4]
    return k[1]

def norm(text):
    return text.strip().replace(' ', '').replace('\t', '')

def render(model, delim=None):
    out = []
    for (s, entries) in model['sections']:
        out.append('[%s]' % sect_name(s))
        for e in entries:
            d = delim or [' : ', ' = ', ':', '=', ' :  '][e.get('sp', 0) % 5]
            val = e['val']
            out.append('%s%s%s' % (e.get('rawkey') or key_text(e['key'], e.get('sp', 0)), d, val.replace('\n', '\n    ')))
        out.append('')
    return '\n'.join(out) + '\n'

# ------------------------------------------------------------------ generation of valid models
def gen_model(rng, kind=None, with_forms=None, with_table=None, with_species=None):
    kind = kind or rng.choice(['pair', 'pair', 'eam', 'fs'])
    n = rng.choice([1, 2, 2, 3])
    els = rng.sample(SPECIES, n)
    tab = [{'key': ('opt', 'target'), 'val': {'pair': rng.choice(['LAMMPS', 'GULP', 'DL_POLY']), 'eam': rng.choice(['setfl', 'DL_POLY_EAM']), 'fs': rng.choice(['setfl_fs', 'DL_POLY_EAM_fs'])}[kind]},
           {'key': ('opt', 'nr'), 'val': str(rng.choice([8, 12, 16]))}, {'key': ('opt', 'cutoff'), 'val': rng.choice(['6.0', '5.5', '8.0'])}]
    if kind != 'pair':
        tab += [{'key': ('opt', 'nrho'), 'val': str(rng.choice([5, 9]))}, {'key': ('opt', 'cutoff_rho'), 'val': rng.choice(['50.0', '10.0'])}]
    rng.shuffle(tab)
    secs = [(('Tabulation',), tab)]
    allp = [(a, b) for i, a in enumerate(els) for b in els[i:]]
    pairs = [(a, b) if rng.random() < 0.5 else (b, a) for (a, b) in allp if rng.random() < 0.75] or [(els[0], els[0])]
    rng.shuffle(pairs)
    forms = []
    if with_forms if with_forms is not None else rng.random() < 0.5:
        forms = [{'key': ('sig', 'myf', ['a', 'b']), 'val': 'a*exp(-r/b)', 'sp': rng.randint(0, 3)}]
        if rng.random() < 0.5: forms.append({'key': ('sig', 'other', ['q']), 'val': 'q/r + myf(r, 1.0, 2.0)', 'sp': rng.randint(0, 3)})
    pdefs = PAIR_DEFS + (['myf 500.0 0.4'] if forms else [])
    table = with_table if with_table is not None else rng.random() < 0.3
    if table: pdefs = pdefs + ['tform']
    secs.append((('Pair',), [{'key': ('pair', a, b), 'val': rng.choice(pdefs), 'sp': rng.randint(0, 4)} for (a, b) in pairs]))
    if kind != 'pair':
        emb = [e for e in els if rng.random() < 0.9] or [els[0]]
        rng.shuffle(emb)
        secs.append((('EAM-Embed',), [{'key': ('sp', e), 'val': rng.choice(EMBED_DEFS)} for e in emb]))
        if kind == 'fs':
            dens = [(a, b) for a in els for b in els if rng.random() < 0.8] or [(els[0], els[0])]
            rng.shuffle(dens)
            secs.append((('EAM-Density',), [{'key': ('fs', a, b), 'val': rng.choice(DENS_DEFS), 'sp': rng.randint(0, 3)} for (a, b) in dens]))
        else:
            dens = [e for e in els if rng.random() < 0.9] or [els[0]]
            rng.shuffle(dens)
            secs.append((('EAM-Density',), [{'key': ('sp', e), 'val': rng.choice(DENS_DEFS)} for e in dens]))
    if forms: secs.append((('Potential-Form',), forms))
    if table:
        secs.append((('Table-Form', 'tform', rng.randint(0, 3)), [{'key': ('opt', 'x'), 'val': '0.0 1.0 2.0 3.0 4.5 9.0'}, {'key': ('opt', 'y'), 'val': '5.0 2.0 0.5 -0.25 -0.125 0.0'}]))
    if with_species if with_species is not None else rng.random() < 0.3:
        secs.append((('Species',), [{'key': ('opt', '%s.atomic_mass' % els[0]), 'val': '55.5'}, {'key': ('opt', '%s.lattice_type' % els[0]), 'val': 'bcc'}]))
    head = secs[:1]; rest = secs[1:]; rng.shuffle(rest)
    return {'kind': kind, 'els': els, 'sections': head + rest}

# ------------------------------------------------------------------ Coq literals and decoding
class Tables(object):
    """label and value tables of one case"""
    def __init__(self):
        self.labels = []; self.values = []
    def lab(self, x):
        if x not in self.labels: self.labels.append(x)
        return self.labels.index(x)
    def val(self, x):
        if x not in self.values: self.values.append(x)
        return self.values.index(x)

SECT_CODE = {'Pair': 'SPair', 'EAM-Embed': 'SEmbed', 'EAM-Density': 'SDensity', 'Potential-Form': 'SForm', 'Tabulation': 'STabulation', 'Species': 'SSpecies', 'Variables': 'SVariables'}
def coq_sect(s, T):
    if s[0] == 'Table-Form': return '(STable %d %d)' % (T.lab(s[1]), s[2])
    if s[0] == 'Other': return '(SOther %d)' % T.lab(s[1])
    return SECT_CODE[s[0]]
def coq_key(k, T):
    t = k[0]
    if t == 'pair': return '(KPair %d %d)' % (T.lab(k[1]), T.lab(k[2]))
    if t == 'sp': return '(KSp %d)' % T.lab(k[1])
    if t == 'fs': return '(KFS %d %d)' % (T.lab(k[1]), T.lab(k[2]))
    if t == 'sig': return '(KSig %d %s)' % (T.lab(k[1]), core.coq_list([str(T.lab(p)) for p in k[2]]))
    return '(KOpt %d)' % T.lab(k[1])
def coq_rawfile(model, T):
    return core.coq_list(['(%s, %s)' % (coq_sect(s, T), core.coq_list(['(mkentry %s %d %d)' % (coq_key(e['key'], T), e.get('sp', 0), T.val(e['val'])) for e in es]))
                          for (s, es) in model['sections']])

def decode_store(zs, T):
    """inverse of enc_result: returns ('CfgErr'|'Internal', None) or ('Ok', [(sect, [(key, value)])])"""
    if zs[0] == 1: return ('CfgErr', None)
    if zs[0] == 2: return ('Internal', None)
    i = 1; out = []
    inv = {v: k for k, v in SECT_CODE.items()}
    while i < len(zs):
        tag, a, b = zs[i:i + 3]; i += 3
        if tag == 7: s = ('Table-Form', T.labels[a], b)
        elif tag == 8: s = ('Other', T.labels[a])
        else: s = (inv[['SPair', 'SEmbed', 'SDensity', 'SForm', 'STabulation', 'SSpecies', 'SVariables'][tag]],)
        n = zs[i]; i += 1
        es = []
        for _ in range(n):
            kt, ka, kb, kn = zs[i:i + 4]; i += 4
            if kt == 0: k = ('pair', T.labels[ka], T.labels[kb])
            elif kt == 1: k = ('sp', T.labels[ka])
            elif kt == 2: k = ('fs', T.labels[ka], T.labels[kb])
            elif kt == 3:
                k = ('sig', T.labels[ka], [T.labels[x] for x in zs[i:i + kn]]); i += kn
            else: k = ('opt', T.labels[ka])
            es.append((k, T.values[zs[i]])); i += 1
        out.append((s, es))
    return ('Ok', out)

def canon_store(st):
    """comparable form: section names as written (stripped), keys normalised text"""
    return [(sect_name(s).strip() if s[0] != 'Table-Form' else sect_name(s), [(norm(key_text(k)), v) for (k, v) in es]) for (s, es) in st]

def impl_store(cp):
    """the store held by a ConfigParser (raw values), [Variables] (the default section) first when non-empty"""
    raw = cp.raw_config_parser
    out = []
    if raw.defaults():
        out.append(('Variables', [(k, v) for k, v in raw.defaults().items()]))
    for s in raw.sections():
        out.append((s, [(k, raw.get(s, k, raw=True)) for k in raw[s]]))
    return out

def classify(thunk):
    from atsim.potentials.config._common import ConfigurationException
    try:
        return ('Ok', thunk())
    except ConfigurationException as e:
        return ('CfgErr', '%s: %s' % (type(e).__name__, str(e)[:80]))
    except Exception as e:
        return ('Internal', '%s: %s' % (type(e).__name__, str(e)[:80]))

def tabulate(text, extra_args=None, cp=None):
    """output text of tabulating a model text in-process through Configuration (or a prepared parser)"""
    from atsim.potentials.config import Configuration, ConfigParser
    c = Configuration()
    tab = c.read_from_parser(cp) if cp is not None else c.read(io.StringIO(text))
    out = io.BytesIO() if tab.target.startswith('excel') else io.StringIO()
    tab.write(out)
    return out.getvalue()

def potable(args, text):
    """run the potable CLI in a subprocess on a model text; returns (returncode, stdout, stderr, output-file text or None)"""
    d = tempfile.mkdtemp(prefix='pot_')
    try:
        inp = os.path.join(d, 'm.aspot'); outp = os.path.join(d, 'out.table')
        open(inp, 'w').write(text)
        argv = [sys.executable, '-c', 'from atsim.potentials.tools.potable import main; main()', inp]
        if '--list-items' not in args and '--item-value' not in args and '--list-item-labels' not in args: argv.append(outp)
        p = subprocess.run(argv + list(args), stdout=subprocess.PIPE, stderr=subprocess.PIPE, text=True, env=dict(os.environ))
        content = open(outp).read() if os.path.exists(outp) else None
        return p.returncode, p.stdout, p.stderr, content
    finally:
        shutil.rmtree(d, ignore_errors=True)

def eval_results(tag, pre, exprs, chunk=40):
    """exprs of type `list Z`; returns decoded int lists"""
    from concurrent.futures import ThreadPoolExecutor
    CH = chunk
    chunks = [exprs[k:k + CH] for k in range(0, len(exprs), CH)]
    def one(ic):
        i, ch = ic
        out = core.coq_eval('%s_%d' % (tag, i), pre, '\n'.join('Eval vm_compute in (%s).' % e for e in ch))
        ls = layout.parse_z_lists(out)
        if len(ls) != len(ch): raise core.Broken('correspondence', 'cases file %s_%d printed %d answers for %d' % (tag, i, len(ls), len(ch)), out[-1500:])
        return ls
    with ThreadPoolExecutor(max_workers=8) as ex:
        res = list(ex.map(one, enumerate(chunks)))
    return [x for r in res for x in r]


# ------------------------------------------------------------------ character level (proof/StoreText.v)
PRE_TEXT = '''From Coq Require Import List ZArith.
From V Require Import lib.Common model.Store.
From V Require Import model.Ini proof.IniFile proof.IniFile2 proof.StoreText.
Import ListNotations.
Local Open Scope nat_scope.
Definition enc_s (s : list Z) : list Z := Z.of_nat (length s) :: s.
Definition ltab (tbl : list (list Z)) (n : nat) : list Z := nth n tbl [].
Definition run_store_text (tbl : list (list Z)) (f : rawfile val) : list Z :=
  let lt := ltab tbl in
  [match Store.parse f with Ok _ => 1%Z | _ => 0%Z end; if compat lt f then 1%Z else 0%Z]
  ++ (let ls := printed lt f in Z.of_nat (length ls) :: flat_map enc_s ls)
  ++ (let ts := text_store lt f in Z.of_nat (length ts) :: flat_map (fun sc => enc_s (fst sc) ++ Z.of_nat (length (snd sc)) :: flat_map (fun o => enc_s (fst o) ++ enc_s (snd o)) (snd sc)) ts).
'''
def zs_of(text): return '([%s]%%Z : list Z)' % '; '.join('%d' % ord(c) for c in text)
def coq_rawfile_text(model, T):
    """the raw file with its values as text: (first line, continuation lines as printed: four blanks + piece)"""
    def val(v):
        ps = v.split('\n')
        return '(%s, %s)' % (zs_of(ps[0]), core.coq_list([zs_of('    ' + p) for p in ps[1:]]))
    return core.coq_list(['(%s, %s)' % (coq_sect(s, T), core.coq_list(['(mkentry %s %d %s)' % (coq_key(e['key'], T), e.get('sp', 0), val(e['val'])) for e in es]))
                          for (s, es) in model['sections']])
def store_text_expr(model):
    T = Tables(); f = coq_rawfile_text(model, T)
    return '(run_store_text %s %s)' % (core.coq_list([zs_of(l) for l in T.labels]), f)
def dec_store_text(zs):
    ok, compat = zs[0], zs[1]; i = 2
    def rd_s(i):
        n = zs[i]; return ''.join(chr(c) for c in zs[i + 1:i + 1 + n]), i + 1 + n
    n = zs[i]; i += 1; lines = []
    for _ in range(n):
        l, i = rd_s(i); lines.append(l)
    n = zs[i]; i += 1; secs = []
    for _ in range(n):
        name, i = rd_s(i); m = zs[i]; i += 1; opts = []
        for _ in range(m):
            k, i = rd_s(i); v, i = rd_s(i); opts.append((k, v))
        secs.append((name, opts))
    assert i == len(zs)
    return bool(ok), bool(compat), lines, secs
def label_texts_ok(model):
    """the hypothesis of the theorems on label texts, for the labels of this model"""
    T = Tables(); coq_rawfile_text(model, T)
    bad = set(' \t\n\r=:[]#;->(),')
    return all(l and not (set(l) & bad) for l in T.labels)

def check_store_text(models, tag, tagged=None):
    """proof/StoreText.v against the harness' printer and the raw parser, on the given models (dicts with 'sections').
    Returns (disagreements, stats)."""
    import ini_common as ic
    dis = []
    ms = [m for m in models if label_texts_ok(m) and '$' not in render(m) and not any(e.get('rawkey') for _, es in m['sections'] for e in es)]
    res = eval_results(tag, PRE_TEXT, [store_text_expr(m) for m in ms], chunk=20)
    n_ok = 0
    for m, zs in zip(ms, res):
        case = {'kind': 'store_text', 'model': m}
        ok, compat, lines, secs = dec_store_text(zs)
        want_lines = render(m).split('\n')[:-1]
        if lines != want_lines: dis.append({'case': case, 'what': 'the printer of the model and the printer of the harness differ: %r vs %r' % (lines[:6], want_lines[:6])}); continue
        if not compat: dis.append({'case': case, 'what': 'compat is false for a generated file (distinct keys with one text)'}); continue
        im = ic.impl_ini(lines)
        if ok:
            n_ok += 1
            if not ic.compare(secs, im): dis.append({'case': case, 'what': 'Store.parse accepts; text_store says %r, the raw parser holds %r' % (secs, im)})
        elif im is not None and not any(s[0] == ('Variables',) for s, _ in m['sections']):
            dis.append({'case': case, 'what': 'Store.parse refuses the file but the raw parser reads its text'})
    return dis, {'store_text_files': len(ms), 'store_text_accepted': n_ok}
