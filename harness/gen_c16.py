"""C16: the arities of the standard potential forms, read from the signatures in potentialfunctions.py / potentialforms.py on
every run (gen/std_arity.json; the harness resolves labels of generated models with it), and exact-body assertions of the
checks that model/Validate.v restates (argument-count check, spline / trans validation, table-form construction, target
lookup, exception wrapping in potable)."""
import ast, json, os
from py2coq import assert_body, load_function, strip_docstring, Refuse

def std_arities(repo):
    out = {}
    p = os.path.join(repo, 'atsim/potentials/potentialfunctions.py')
    tree = ast.parse(open(p, encoding='utf-8').read())
    classes = {n.name: n for n in tree.body if isinstance(n, ast.ClassDef)}
    for n in tree.body:
        if isinstance(n, ast.Assign) and len(n.targets) == 1 and isinstance(n.targets[0], ast.Name) and isinstance(n.value, ast.Call) and isinstance(n.value.func, ast.Name) and n.value.func.id in classes:
            cls = classes[n.value.func.id]
            call = [f for f in cls.body if isinstance(f, ast.FunctionDef) and f.name == '__call__']
            if len(call) != 1: raise Refuse('potentialfunctions.%s: no single __call__' % cls.name)
            a = call[0].args
            if a.kwonlyargs or a.kwarg or a.defaults: raise Refuse('potentialfunctions.%s.__call__: unsupported signature' % cls.name)
            names = [x.arg for x in a.args][1:]
            if a.vararg:
                if names: raise Refuse('potentialfunctions.%s.__call__: positional and *args' % cls.name)
                out['as.' + n.targets[0].id] = None
            else:
                if not names or names[0] != 'r': raise Refuse('potentialfunctions.%s.__call__: first parameter is not r' % cls.name)
                out['as.' + n.targets[0].id] = len(names) - 1
    p = os.path.join(repo, 'atsim/potentials/potentialforms.py')
    tree = ast.parse(open(p, encoding='utf-8').read())
    for n in tree.body:
        if isinstance(n, ast.FunctionDef) and any(isinstance(d, ast.Name) and d.id == 'potential' for d in n.decorator_list):
            a = n.args
            if a.vararg or a.kwonlyargs or a.kwarg or a.defaults: raise Refuse('potentialforms.%s: unsupported signature' % n.name)
            out.setdefault('as.' + n.name, len(a.args))
    return out

def generate(repo):
    ar = std_arities(repo)
    CP = 'atsim/potentials/config/_config_parser.py'
    # species keys (model/ItemLabel.v: pair_key, fs_key)
    assert_body(repo, CP, 'ConfigParser._pair_species_func', """
        tokens = k.split("-")
        if len(tokens) != 2:
          raise ConfigParserException("Pair potential keys should be of the form 'SPECIES_A-SPECIES_B'. Invalid key found: '{}'".format(k))
        species_a, species_b = tokens
        species_a = species_a.strip()
        species_b = species_b.strip()
        if not species_a or not species_b:
          raise ConfigParserException("Pair potential keys should be of the form 'SPECIES_A-SPECIES_B'. Species missing in key: '{}'".format(k))
        return  SpeciesTuple(species_a, species_b)
    """)
    # signatures (model/ItemLabel.v: sig_key)
    src = open(os.path.join(repo, CP), encoding='utf-8').read()
    if '_signature_re = re.compile(r"^([a-zA-Z]\\w*?)\\((.*)\\)$")' not in src: raise Refuse('ConfigParser._signature_re is not the modelled pattern')
    assert_body(repo, CP, 'ConfigParser._parse_potential_form_signature', """
        pf = pf.strip()
        m = self._signature_re.match(pf)
        if not m:
          raise ConfigParserException("Invalid function signature found in [Potential-Form]: '{0}'".format(pf))
        label, params = m.groups()
        label = label.strip()
        params = [p.strip() for p in params.split(',')]
        for param in params:
          if not re.match(r"^[a-zA-Z]\\w*$", param):
            raise ConfigParserException("Invalid parameter name '{0}' in function signature found in [Potential-Form]: '{1}'".format(param, pf))
        return PotentialFormSignatureTuple(label, params, False)
    """)
    assert_body(repo, CP, 'ConfigParser._parse_eam_fs_density_line.species_func', """
        tokens = k.split("->")
        if len(tokens) != 2:
          raise ConfigParserException("invalid key '{}'".format(k))
        from_species, to_species = tokens
        from_species = from_species.strip()
        to_species = to_species.strip()
        if not from_species or not to_species:
          raise ConfigParserException("species missing in key '{}'".format(k))
        return  EAMFSDensitySpeciesTuple(from_species, to_species)
    """)
    C = 'atsim/potentials/config/_potential_form.py'
    assert_body(repo, C, '_Check_Call.args_valid', 'return self.signature.is_varargs or len(args) == self.required_arg_len()')
    assert_body(repo, C, '_Check_Call.required_arg_len', '''
        argl = len(self.signature.parameter_names)
        if not self.is_func_call:
          argl = argl-1
        return argl
    ''')
    assert_body(repo, 'atsim/potentials/config/_common.py', '_is_vararg_signature', '''
        if not sig.parameters:
          return False
        for p in sig.parameters.values():
          if not p.kind == Parameter.VAR_POSITIONAL:
            return False
        return True
    ''')
    M = 'atsim/potentials/_modifiers.py'
    fn = load_function(repo, M, 'trans')
    u = ast.unparse(ast.Module(body=strip_docstring(fn.body), type_ignores=[]))
    for needle in ("if not len(potential_forms) == 2:\n    raise ConfigurationException('trans() potential modifier only accepts two arguments')",
                   "second_form = potential_forms[1]\nif getattr(second_form, 'potential_form', None) != 'as.constant':\n    raise ConfigurationException(",
                   "if len(second_form.parameters) != 1:\n    raise ConfigurationException("):
        if needle not in u: raise Refuse('_modifiers.trans: check `%s` not found' % needle[:60])
    fn = load_function(repo, M, 'spline')
    u = ast.unparse(ast.Module(body=strip_docstring(fn.body), type_ignores=[]))
    for needle in ("if len(potential_forms) != 1:\n    raise ConfigurationException(", "if pform.next is None:\n    raise ConfigurationException(",
                   "if not (hasattr(pot2, 'potential_form') and form_label(pot2) in allowed_spline_types):", "if pform.next.next is None:\n    raise ConfigurationException(",
                   "if not pform.next.next.next is None:\n    raise ConfigurationException(", "if not pot1.start.start < pot2.start.start:\n    raise ConfigurationException(",
                   "if not pot2.start.start < pot3_old_start:\n    raise ConfigurationException("):
        if needle not in u: raise Refuse('_modifiers.spline: check `%s` not found' % needle[:60])
    P = 'atsim/potentials/tools/potable/__init__.py'
    assert_body(repo, P, 'main', '''
        _setup_logging()
        logger = logging.getLogger(__name__).getChild("main")
        p, args = _parse_command_line()

        try:
          _do_tabulation(p, args)
        except ConfigurationException as e:
          p.error("configuration error - {}".format(e))
    ''')
    # the exception hierarchy is rooted at ConfigurationException
    tree = ast.parse(open(os.path.join(repo, 'atsim/potentials/config/_common.py'), encoding='utf-8').read())
    bases = {n.name: [ast.unparse(b) for b in n.bases] for n in tree.body if isinstance(n, ast.ClassDef)}
    def rooted(c, seen=()):
        if c == 'ConfigurationException': return True
        return any(rooted(b, seen + (c,)) for b in bases.get(c, []) if b not in seen)
    for c in ('ConfigParserException', 'ConfigParserMissingSectionException', 'ConfigParserDuplicateEntryException', 'Potential_Form_Registry_Exception',
              'Potential_Form_Exception', 'Table_Form_Exception', 'Modifier_Exception', 'Unknown_Modifier_Exception'):
        if not rooted(c): raise Refuse('_common.%s is not a ConfigurationException' % c)
    return {'gen/std_arity.json': json.dumps(ar, indent=1, sort_keys=True)}
