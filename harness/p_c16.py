"""C16 -- malformed models are configuration errors, valid ones are accepted: model/Validate.v against Configuration().read and
the potable CLI on generated well-formed models and on every catalogue mutation of them; text-level malformations (below the
model's lexical level) through the oracle."""
import io, json, os, random, copy
import core, layout, store_common as sc

ID = 'C16'
GENMODS = ['gen_c16', 'gen_c10', 'gen_c18', 'gen_store', 'gen_c11']
TARGET = 'props/C16.vo'
PROOF_FILES = ['proof/C16.v', 'proof/IniProofs.v', 'proof/IniFile.v', 'proof/C16Text.v', 'proof/IniFile2.v', 'proof/C14Label.v', 'proof/StoreText.v', 'props/C16.v']
AXIOMS = []
TRUSTED = [
    'Coq 8.16.1 kernel; no axioms; vm_compute evaluates validate for the correspondence',
    'model/Validate.v is hand written over models after lexing (the harness renders the text); tie: standard-form arities regenerated from the signatures on every run, exact-body / statement assertions of the argument-count check, '
    'the trans / spline validation, _is_vararg_signature, potable main() and the exception hierarchy, and the outcome comparison on every generated model and mutation',
    'malformations below the lexical level of the model (non-numeric tokens, placeholders, text that is not an INI file, formula and signature syntax, table data) are decided by the oracle only; '
    'numeric failures while evaluating a well-formed model (overflow, division by zero) are outside the statement and skipped',
]
PRE = '''From V Require Import lib.Common model.Validate.
Local Open Scope Z_scope.
Definition enc (r : result unit) : list Z := match r with Ok _ => [0] | CfgErr => [1] | Internal => [2] end.
'''
EL = ['Al', 'Cu', 'Fe', 'Ni', 'O', 'Zr', 'U', 'Mg']
TARGETS = {'pair': ['LAMMPS', 'GULP', 'DL_POLY', 'excel', None], 'eam': ['setfl', 'DL_POLY_EAM', 'excel_eam'], 'fs': ['setfl_fs', 'DL_POLY_EAM_fs', 'excel_eam_fs'], 'adp': ['eam_adp']}

def std_arity():
    return json.load(open(os.path.join(core.COQ, 'gen', 'std_arity.json')))

# ------------------------------------------------------------------------------------------- well-formed models
SAFE = {'as.constant': lambda g: [g.choice([0.5, 1.0, 2.0, 3.5])], 'as.bornmayer': lambda g: [g.choice([100.0, 950.5, 20.0]), g.choice([0.25, 0.5, 0.3])],
        'as.exponential': lambda g: [g.choice([1.0, 2.5, 0.5]), g.choice([1.0, 2.0, 3.0])], 'as.polynomial': lambda g: [g.choice([0.5, 1.0, 2.0]) for _ in range(g.randint(0, 4))],
        'as.morse': lambda g: [g.choice([1.0, 1.5]), g.choice([1.0, 2.0]), g.choice([0.5, 1.25])], 'as.sqrt': lambda g: [g.choice([1.0, 2.0])], 'as.zero': lambda g: [],
        'as.buck': lambda g: [g.choice([1000.0, 500.5]), g.choice([0.3, 0.25]), 0.0]}
def gen_inst(g, env):
    pool = list(SAFE) + list(env['custom']) * 2 + list(env['tables']) * 2
    lab = g.choice(pool)
    if lab in SAFE: ps = SAFE[lab](g)
    elif lab in env['custom']: ps = [g.choice([0.5, 1.0, 2.0]) for _ in range(env['custom'][lab])]
    else: ps = []
    return {'t': 'inst', 'label': lab, 'params': ps}

def gen_part(g, env, depth):
    r = g.random()
    if depth <= 0 or r < 0.5: return gen_inst(g, env)
    if r < 0.72:
        return {'t': 'mod', 'name': g.choice(['sum', 'product', 'sum']), 'args': [gen_defn(g, env, depth - 1, single=True) for _ in range(g.choice([1, 2, 2, 3]))]}
    if r < 0.8:
        return {'t': 'mod', 'name': 'pow', 'args': [single({'t': 'inst', 'label': 'as.constant', 'params': [g.choice([1.5, 2.0])]}), single({'t': 'inst', 'label': 'as.constant', 'params': [g.choice([1.0, 2.0])]})]}
    if r < 0.88:
        shift = {'parts': [[g.choice(['>', '>=']), 0.0, {'t': 'inst', 'label': 'as.constant', 'params': [g.choice([0.25, 0.5])]}]]}
        return {'t': 'mod', 'name': 'trans', 'args': [gen_defn(g, env, depth - 1, single=True), shift]}
    s1 = g.choice([0.0, 0.25]); s2 = s1 + g.choice([0.75, 1.0]); s3 = s2 + g.choice([1.0, 1.5])
    if g.random() < 0.5: mid = {'t': 'inst', 'label': 'exp_spline', 'params': []}
    else: mid = {'t': 'inst', 'label': 'buck4_spline', 'params': [s2 + (s3 - s2) * g.choice([0.25, 0.5])]}
    ends = [gen_part(g, env, 0) if g.random() < 0.7 else {'t': 'mod', 'name': 'sum', 'args': [single(gen_inst(g, env)), single(gen_inst(g, env))]} for _ in range(2)]
    return {'t': 'mod', 'name': 'spline', 'args': [{'parts': [['>', s1, ends[0]], [g.choice(['>', '>=']), s2, mid], [g.choice(['>', '>=']), s3, ends[1]]]}]}

def single(p): return {'parts': [['>', 0.0, p]]}
def gen_defn(g, env, depth, single=False):
    n = 1 if single or g.random() < 0.6 else g.choice([2, 3])
    starts = sorted(g.sample([0.0, 0.5, 1.0, 1.5, 2.0, 2.5], n))
    if n > 1 and g.random() < 0.2: g.shuffle(starts)
    return {'parts': [[g.choice(['>', '>=']) if k else '>', starts[k] if k else g.choice([0.0, 0.0, starts[0]]), gen_part(g, env, depth)] for k in range(n)]}

def gen_wf(g):
    kind = g.choice(['pair', 'pair', 'pair', 'eam', 'fs', 'adp'])
    els = g.sample(EL, g.choice([1, 2, 2, 3]))
    env = {'custom': {}, 'tables': []}
    for i in range(g.choice([0, 1, 2])): env['custom']['cf%d' % i] = g.choice([0, 1, 2])
    for i in range(g.choice([0, 0, 1, 2])): env['tables'].append('tb%d' % i)
    m = {'kind': kind, 'target': g.choice(TARGETS[kind]), 'els': els, 'custom': env['custom'], 'tables': {t: {'state': 'ok', 'style': g.choice(['x_y', 'xy', 'xy_rows'])} for t in env['tables']}}
    allp = [(a, b) for i, a in enumerate(els) for b in els[i:]]
    m['pair'] = [{'key': '%s-%s' % ab, 'ok': True, 'defn': gen_defn(g, env, 2)} for ab in g.sample(allp, g.randint(1 if kind == 'pair' else 0, len(allp)))]
    if kind != 'pair':
        m['embed'] = [{'key': e, 'ok': True, 'defn': single(gen_inst(g, env))} for e in els]
        if kind == 'fs': m['density'] = [{'key': '%s->%s' % (a, b), 'style': 'arrow', 'defn': gen_defn(g, env, 1, single=True)} for a in els for b in els]
        else: m['density'] = [{'key': e, 'style': 'plain', 'defn': gen_defn(g, env, 1, single=True)} for e in els]
    if kind == 'adp':
        m['dipole'] = [{'key': '%s-%s' % ab, 'ok': True, 'defn': single(gen_inst(g, env))} for ab in allp]
        m['quadrupole'] = [{'key': '%s-%s' % ab, 'ok': True, 'defn': single(gen_inst(g, env))} for ab in allp]
    return m

# ------------------------------------------------------------------------------------------- rendering
def num(v): return repr(float(v))
def r_part(p):
    if p['t'] == 'inst': return ' '.join([p['label']] + [num(v) for v in p['params']])
    return '%s(%s)' % (p['name'], ', '.join(r_defn(a) for a in p['args']))
def r_defn(d):
    out = []
    for k, (mk, s, p) in enumerate(d['parts']):
        if k == 0 and mk == '>' and s == 0.0 and d.get('implicit', True): out.append(r_part(p))
        else: out.append('%s%s %s' % (mk, num(s), r_part(p)))
    return ' '.join(out)
def r_model(m):
    nr = 8
    t = '[Tabulation]\n' + ('target : %s\n' % m['target'] if m['target'] is not None else '') + 'nr : %d\ncutoff : 3.5\n' % nr
    if m['kind'] != 'pair': t += 'nrho : 4\ncutoff_rho : 3.0\n'
    if m.get('custom'):
        t += '[Potential-Form]\n' + ''.join('%s(%s) = %s\n' % (n, ', '.join(['r'] + ['p%d' % i for i in range(a)]), ' + '.join(['0.5*r'] + ['p%d*r' % i for i in range(a)])) for n, a in m['custom'].items())
    for name, tb in m.get('tables', {}).items():
        t += '[Table-Form:%s]\n' % name
        x = [0.0, 1.0, 2.0, 3.0, 4.0]; y = [2.0, 1.0, 0.5, 0.25, 0.0]
        if tb['state'] == 'few': x, y = x[:3], y[:3]
        if tb['state'] == 'order': x = [0.0, 1.0, 1.0, 3.0, 4.0]
        if tb['state'] == 'interp': t += 'interpolation : quadratic_foo\n'
        if tb['style'] == 'xy': t += 'xy : %s\n' % ' '.join('%r %r' % ab for ab in zip(x, y))
        elif tb['style'] == 'xy_rows':
            flat = [v for ab in zip(x, y) for v in ab]
            t += 'xy : %s\n' % '\n     '.join(' '.join(repr(v) for v in flat[k:k + 3]) for k in range(0, len(flat), 3))
        else: t += 'x : %s\ny : %s\n' % (' '.join(map(repr, x)), ' '.join(map(repr, y)))
    for sec, key in (('Pair', 'pair'), ('EAM-Embed', 'embed'), ('EAM-Density', 'density'), ('EAM-ADP-Dipole', 'dipole'), ('EAM-ADP-Quadrupole', 'quadrupole')):
        if m.get(key) is not None: t += '[%s]\n' % sec + ''.join('%s : %s\n' % (e['key'], r_defn(e['defn'])) for e in m[key])
    return t

# ------------------------------------------------------------------------------------------- the model term
def coq_model(m, ar):
    return model_terms(m, ar)[0]

def model_terms(m, ar):
    """(the Coq term deciding the model, closures: rank of a number, label term of an identifier, modifier term, term of a definition)"""
    vals = set()
    def collect(d):
        for (mk, s, p) in d['parts']:
            vals.add(float(s))
            if p['t'] == 'inst': vals.update(float(v) for v in p['params'])
            else:
                for a in p['args']: collect(a)
    for key in ('pair', 'embed', 'density', 'dipole', 'quadrupole'):
        for e in m.get(key) or []: collect(e['defn'])
    rank = {v: i for i, v in enumerate(sorted(vals))}
    def lab(l):
        if l == 'exp_spline': return 'LExpSpline'
        if l == 'buck4_spline': return 'LBuck4Spline'
        if l in ar: return '(LForm %s %s)' % ('true' if l == 'as.constant' else 'false', 'VarArgs' if ar[l] is None else '(Fixed %d)' % ar[l])
        if l in m.get('custom', {}): return '(LForm false (Fixed %d))' % m['custom'][l]
        if l in m.get('tables', {}): return '(LForm false (Fixed 0))'
        return 'LUnknown'
    def part(p):
        if p['t'] == 'inst': return '(PInst {| i_label := %s; i_params := [%s] |})' % (lab(p['label']), '; '.join(str(rank[float(v)]) for v in p['params']))
        mn = {'sum': 'MSum', 'product': 'MProduct', 'pow': 'MPow', 'trans': 'MTrans', 'spline': 'MSpline'}.get(p['name'], 'MUnknownMod')
        return '(PMod %s [%s])' % (mn, '; '.join(defn(a) for a in p['args']))
    def defn(d): return '(Defn [%s])' % '; '.join('(%d, %s)' % (rank[float(s)], part(p)) for (mk, s, p) in d['parts'])
    def sec(key, kf):
        if m.get(key) is None: return 'None'
        return '(Some [%s])' % '; '.join('(%s, %s)' % (kf(e), defn(e['defn'])) for e in m[key])
    b = lambda e: 'true' if e['ok'] else 'false'
    dk = lambda e: {'plain': 'KPlain', 'arrow': 'KArrow', 'bad': 'KBad'}[e['style']]
    tg = 'None' if m['target'] is None else '(Some %s)' % {'pair': 'TPair', 'eam': 'TEam', 'fs': 'TFs', 'adp': 'TAdp', 'unknown': 'TUnknown'}[m['tkind'] if 'tkind' in m else m['kind']]
    tabs = '[%s]' % '; '.join({'ok': 'TabOk', 'few': 'TabBadData', 'order': 'TabBadData', 'interp': 'TabBadInterp'}[tb['state']] for tb in m.get('tables', {}).values())
    modt = lambda n: {'sum': 'MSum', 'product': 'MProduct', 'pow': 'MPow', 'trans': 'MTrans', 'spline': 'MSpline'}.get(n, 'MUnknownMod')
    return (('(enc (validate {| m_target := %s; m_pair := %s; m_embed := %s; m_density := %s; m_dipole := %s; m_quadrupole := %s; m_tables := %s |}))'
             % (tg, sec('pair', b), sec('embed', b), sec('density', dk), sec('dipole', b), sec('quadrupole', b), tabs)), rank, lab, modt, defn)

# ------------------------------------------------------------------------------------------- definitions as text (proof/C16Text.v)
PRE_TEXT = '''From Coq Require Import List ZArith.
From V Require Import lib.Common model.DefnSyntax model.Lexer model.Validate proof.C16Text.
Import ListNotations.
Local Open Scope Z_scope.
Fixpoint assoc {B} (tbl : list (list Z * B)) (s : list Z) (dflt : B) : B := match tbl with [] => dflt | (k, v) :: r => if list_eqb k s then v else assoc r s dflt end.
Fixpoint index_of (tbl : list (list Z)) (s : list Z) (i : nat) : nat := match tbl with [] => i | x :: r => if list_eqb x s then i else index_of r s (S i) end.
Definition enc_label (l : label) : list Z :=
  match l with LForm c (Fixed n) => [1; if c then 1 else 0; Z.of_nat n] | LForm c VarArgs => [1; if c then 1 else 0; -1] | LExpSpline => [2] | LBuck4Spline => [3] | LUnknown => [4] end.
Definition enc_mod (m : modname) : Z := match m with MSum => 1 | MProduct => 2 | MPow => 3 | MTrans => 4 | MSpline => 5 | MUnknownMod => 6 end.
Fixpoint enc_defn (d : defn) : list Z :=
  match d with Defn parts => [10; Z.of_nat (length parts)] ++ (fix ep (l : list (Z * part)) : list Z := match l with [] => [] | (s, p) :: r => s :: enc_part p ++ ep r end) parts end
with enc_part (p : part) : list Z :=
  match p with
  | PInst i => [20] ++ enc_label (i_label i) ++ [Z.of_nat (length (i_params i))] ++ i_params i
  | PMod m args => [30; enc_mod m; Z.of_nat (length args)] ++ (fix ea (l : list defn) : list Z := match l with [] => [] | d :: r => enc_defn d ++ ea r end) args
  end.
Definition read_resolved (ids : list (list Z)) (labs : list label) (mods : list modname) (nums : list (list Z * Z)) (z0 : Z) (text : list Z) : list Z :=
  match read_value (fun s => index_of ids s 0%nat) (fun s => assoc nums s (-1)) text with
  | Some d => 1 :: enc_defn (resolve (fun n => nth n labs LUnknown) (fun n => nth n mods MUnknownMod) z0 d)
  | None => [0]
  end.
'''
def defn_text_goals(m, ar):
    """for every definition of the model: (text, Coq expr reading the text and resolving it, Coq expr of the harness' own term)"""
    _, rank, lab, modt, defn = model_terms(m, ar)
    out = []
    zs = lambda t: '[%s]' % '; '.join('%d' % ord(c) for c in t)
    for key in ('pair', 'embed', 'density', 'dipole', 'quadrupole'):
        for e in m.get(key) or []:
            d = e['defn']; text = r_defn(d)
            if not all(ord(c) < 128 for c in text): continue
            ids, nums = [], {}
            def walk(d):
                for (mk, s, p) in d['parts']:
                    nums[num(s)] = rank[float(s)]
                    if p['t'] == 'inst':
                        if p['label'] not in ids: ids.append(p['label'])
                        for v in p['params']: nums[num(v)] = rank[float(v)]
                    else:
                        if p['name'] not in ids: ids.append(p['name'])
                        for a in p['args']: walk(a)
            walk(d)
            if 0.0 not in rank: continue
            expr = '(read_resolved [%s] [%s] [%s] [%s] %d %s)' % ('; '.join(zs(i) for i in ids), '; '.join(lab(i) for i in ids), '; '.join(modt(i) for i in ids),
                                                                '; '.join('(%s, %d)' % (zs(k), v) for k, v in nums.items()), rank[0.0], zs(text))
            out.append((text, expr, '(1 :: enc_defn %s)' % defn(d)))
    return out

# ------------------------------------------------------------------------------------------- the catalogue (model level)
def nodes(m):
    """every (container, index) holding a part, and every definition, with the path kind"""
    parts, defns = [], []
    def walk(d, ctx):
        defns.append((d, ctx))
        for item in d['parts']:
            parts.append((item, ctx))
            p = item[2]
            if p['t'] == 'mod':
                for i, a in enumerate(p['args']):
                    walk(a, 'trans2' if (p['name'] == 'trans' and i == 1) else ('spline' if p['name'] == 'spline' else 'arg'))
    for key in ('pair', 'embed', 'density', 'dipole', 'quadrupole'):
        for e in m.get(key) or []: walk(e['defn'], 'top')
    return parts, defns

def mutate(g, m0):
    """one catalogue malformation; returns (name, model) or None when not applicable"""
    m = copy.deepcopy(m0)
    parts, defns = nodes(m)
    insts = [(it, c) for (it, c) in parts if it[2]['t'] == 'inst' and c != 'trans2' and it[2]['label'] not in ('exp_spline', 'buck4_spline')]
    splines = [it for (it, c) in parts if it[2]['t'] == 'mod' and it[2]['name'] == 'spline']
    transes = [it for (it, c) in parts if it[2]['t'] == 'mod' and it[2]['name'] == 'trans']
    mods = [it for (it, c) in parts if it[2]['t'] == 'mod']
    ar = std_arity()
    fixed = [(it, c) for (it, c) in insts if not (it[2]['label'] in ar and ar[it[2]['label']] is None)]
    ops = ['unknown_target', 'no_pair', 'bad_pair_key', 'unknown_form', 'spline_kw_outside']
    if fixed: ops += ['drop_param', 'extra_param'] * 2
    if mods: ops += ['unknown_modifier']
    if transes: ops += ['trans_one_arg', 'trans_three_args', 'trans_not_constant', 'trans_modifier_second']
    if splines: ops += ['spline_two_parts', 'spline_four_parts', 'exp_spline_param', 'buck4_no_rmin', 'buck4_two_params', 'rmin_outside', 'rmin_at_detach', 'rmin_at_attach', 'spline_order', 'spline_two_args', 'spline_bad_type', 'spline_mid_modifier']
    if m['kind'] != 'pair': ops += ['no_embed', 'no_density', 'density_key_style']
    if m['kind'] == 'adp': ops += ['no_dipole', 'no_quadrupole', 'bad_dipole_key']
    if m.get('tables'): ops += ['table_few_points', 'table_not_increasing', 'table_unknown_interpolation']
    op = g.choice(ops)
    if op == 'unknown_target': m['target'] = g.choice(['LAMMPZ', 'setfl2', 'lammps ', 'table']); m['tkind'] = 'unknown'
    elif op == 'no_pair': m['pair'] = None
    elif op == 'no_embed': m['embed'] = None
    elif op == 'no_density': m['density'] = None
    elif op == 'no_dipole': m['dipole'] = None
    elif op == 'no_quadrupole': m['quadrupole'] = None
    elif op == 'bad_pair_key':
        if not m['pair']: return None
        e = g.choice(m['pair']); a, b = e['key'].split('-'); e['key'] = g.choice([a + b, '%s-%s-%s' % (a, b, a), a + '>' + b, '-' + b, a + '-', a + ' - ']); e['ok'] = False     # also a missing species (fix fdfc609)
    elif op == 'bad_dipole_key':
        e = g.choice(m['dipole']); e['key'] = e['key'].replace('-', ''); e['ok'] = False
    elif op == 'density_key_style':
        e = g.choice(m['density'])
        if e['style'] == 'plain': e['key'] = '%s->%s' % (e['key'], e['key']); e['style'] = 'arrow'
        else: e['key'] = g.choice([e['key'].split('->')[0], e['key'] + '->' + e['key'].split('->')[0], '->' + e['key'].split('->')[1], e['key'].split('->')[0] + '->']); e['style'] = 'plain' if '->' not in e['key'] else 'bad'
        if m['target'] not in ('setfl', 'setfl_fs', 'eam_adp') and e['style'] == 'arrow': return None   # an 'A->B' species label is only refused where atomic numbers are needed
    elif op in ('table_few_points', 'table_not_increasing', 'table_unknown_interpolation'):
        tb = m['tables'][g.choice(sorted(m['tables']))]; tb['state'] = {'table_few_points': 'few', 'table_not_increasing': 'order', 'table_unknown_interpolation': 'interp'}[op]
    elif op in ('unknown_form', 'spline_kw_outside'):
        if not insts: return None
        it, c = g.choice(insts)
        it[2]['label'] = g.choice(['as.nothing', 'nosuchform', 'as.Buck']) if op == 'unknown_form' else g.choice(['exp_spline', 'buck4_spline'])
        if op == 'spline_kw_outside' and it[2]['label'] == 'buck4_spline': it[2]['params'] = [1.0]
        elif op == 'spline_kw_outside': it[2]['params'] = []
    elif op in ('drop_param', 'extra_param'):
        it, c = g.choice(fixed)
        if op == 'drop_param':
            if not it[2]['params']: return None
            it[2]['params'] = it[2]['params'][:-1]
        else: it[2]['params'] = it[2]['params'] + [1.0]
    elif op == 'unknown_modifier': g.choice(mods)[2]['name'] = g.choice(['add', 'summ', 'splines'])
    elif op == 'trans_one_arg': t = g.choice(transes)[2]; t['args'] = t['args'][:1]
    elif op == 'trans_three_args': t = g.choice(transes)[2]; t['args'] = t['args'] + [single({'t': 'inst', 'label': 'as.constant', 'params': [1.0]})]
    elif op == 'trans_not_constant': g.choice(transes)[2]['args'][1] = single({'t': 'inst', 'label': 'as.zero', 'params': []})
    elif op == 'trans_modifier_second': g.choice(transes)[2]['args'][1] = single({'t': 'mod', 'name': 'sum', 'args': [single({'t': 'inst', 'label': 'as.constant', 'params': [1.0]})]})
    else:
        sp = g.choice(splines)[2]; d = sp['args'][0]; P = d['parts']
        if op == 'spline_two_parts': d['parts'] = P[:2]
        elif op == 'spline_four_parts': d['parts'] = P + [['>', P[2][1] + 1.0, {'t': 'inst', 'label': 'as.zero', 'params': []}]]
        elif op == 'exp_spline_param': P[1][2] = {'t': 'inst', 'label': 'exp_spline', 'params': [1.0]}
        elif op == 'buck4_no_rmin': P[1][2] = {'t': 'inst', 'label': 'buck4_spline', 'params': []}
        elif op == 'buck4_two_params': P[1][2] = {'t': 'inst', 'label': 'buck4_spline', 'params': [(P[1][1] + P[2][1]) / 2, (P[1][1] + P[2][1]) / 2]}
        elif op == 'rmin_outside': P[1][2] = {'t': 'inst', 'label': 'buck4_spline', 'params': [g.choice([P[2][1] + 0.5, P[1][1] - 0.125])]}
        elif op == 'rmin_at_detach': P[1][2] = {'t': 'inst', 'label': 'buck4_spline', 'params': [P[1][1]]}
        elif op == 'rmin_at_attach': P[1][2] = {'t': 'inst', 'label': 'buck4_spline', 'params': [P[2][1]]}
        elif op == 'spline_order':
            if g.random() < 0.5: P[2][1] = P[1][1]
            else: P[0][1] = P[1][1] + g.choice([0.0, 0.5]); d['implicit'] = False
        elif op == 'spline_two_args': sp['args'] = sp['args'] + [single({'t': 'inst', 'label': 'as.zero', 'params': []})]
        elif op == 'spline_bad_type': P[1][2] = {'t': 'inst', 'label': 'as.zero', 'params': []}
        elif op == 'spline_mid_modifier': P[1][2] = {'t': 'mod', 'name': g.choice(['sum', 'exp_spline', 'buck4_spline']),   # also a modifier NAMED like a spline type
                                                           'args': [single({'t': 'inst', 'label': 'as.zero', 'params': []})]}
    m['mutation'] = op
    return m

# ------------------------------------------------------------------------------------------- text-level malformations (oracle only)
def text_mutations(g, m):
    t = r_model(m)
    lines = t.split('\n')
    out = []
    out.append(('not_ini', 'potential for Al\n' + t.replace('[', '').replace(']', '')))
    if m.get('kind') == 'pair' and '[Pair]\n' in t:
        # a function called with the right number of arguments by one entry and with the wrong number inside a formula used by a later entry
        # (the first, correct, use is tabulated first)
        t2 = t.replace('[Pair]\n', '[Pair]\nQa-Qa : as.buck 1000.0 0.3 32.0\nQa-Qb : soft_q 1000.0\n', 1)
        t2 = t2.replace('[Potential-Form]\n', '[Potential-Form]\nsoft_q(r, A) = as.buck(r, A, 0.3)\n', 1) if '[Potential-Form]\n' in t2 else t2 + '\n[Potential-Form]\nsoft_q(r, A) = as.buck(r, A, 0.3)\n'
        out.append(('wrong_arity_after_right', t2))
    out.append(('no_section_header', 'target : LAMMPS\n' + t.split('\n', 1)[1]))
    pl = [i for i, l in enumerate(lines) if ' : ' in l and (l.split(' : ')[1].startswith('as.') or '(' in l)]
    if pl:
        i = g.choice(pl); k, v = lines[i].split(' : ', 1)
        toks = v.split(' ')
        nums = [j for j, tk in enumerate(toks) if tk.replace('.', '').replace('-', '').isdigit()]
        if nums:
            j = g.choice(nums); tk2 = list(toks); tk2[j] = g.choice(['abc', '1.0.0', '1,5', '0x']); out.append(('nonnumeric_parameter', '\n'.join(lines[:i] + [k + ' : ' + ' '.join(tk2)] + lines[i + 1:])))
            tk3 = list(toks); tk3[j] = g.choice(['${missing}', '${Nowhere:x}', '${unclosed', '$dollar']); out.append(('unresolvable_placeholder', '\n'.join(lines[:i] + [k + ' : ' + ' '.join(tk3)] + lines[i + 1:])))
        out.append(('empty_definition', '\n'.join(lines[:i] + [k + ' : '] + lines[i + 1:])))
        if '(' in v: out.append(('unbalanced_parenthesis', '\n'.join(lines[:i] + [k + ' : ' + v.rsplit(')', 1)[0]] + lines[i + 1:])))
        out.append(('duplicate_option', '\n'.join(lines[:i + 1] + [lines[i]] + lines[i + 1:])))
        out.append(('bad_range_marker', '\n'.join(lines[:i] + [k + ' : >>1.0 ' + v] + lines[i + 1:])))
        out.append(('nonnumeric_range_start', '\n'.join(lines[:i] + [k + ' : >one ' + v] + lines[i + 1:])))
    out.append(('duplicate_section', t + '[Pair]\nAl-Al : as.zero\n'))
    out.append(('nr_nonnumeric', t.replace('nr : 8', 'nr : eight')))
    out.append(('nr_not_integer', t.replace('nr : 8', 'nr : 8.5')))
    out.append(('cutoff_nonnumeric', t.replace('cutoff : 3.5', 'cutoff : far')))
    out.append(('nr_zero', t.replace('nr : 8', 'nr : 0')))
    out.append(('cutoff_nonfinite', t.replace('cutoff : 3.5', 'cutoff : ' + g.choice(['nan', 'inf', '-inf']))))
    if m['kind'] != 'pair': out.append(('cutoff_rho_nonfinite', t.replace('cutoff_rho : 3.0', 'cutoff_rho : ' + g.choice(['nan', 'inf']))))
    out.append(('cutoff_negative', t.replace('cutoff : 3.5', 'cutoff : -3.5')))
    out.append(('single_row_grid', t.replace('nr : 8', 'nr : 1')))
    if m['kind'] != 'pair': out.append(('single_row_density_grid', t.replace('nrho : 4', 'nrho : 1')))
    if m['target'] in ('LAMMPS', None): out.append(('lammps_one_row', t.replace('nr : 8', 'nr : 2')))
    if m['target'] == 'DL_POLY': out.append(('dlpoly_four_rows', t.replace('nr : 8', 'nr : 4')))
    out.append(('all_three_grid_options', t.replace('nr : 8', 'nr : 8\ndr : 0.5')))
    # contradictory options whose DERIVED quantity is useless: a cutoff below half a step gives one row (checked after the derivation)
    out.append(('cutoff_below_half_step', t.replace('nr : 8\ncutoff : 3.5', 'dr : 0.5\ncutoff : 0.125')))
    if m['kind'] != 'pair': out.append(('cutoff_rho_below_half_step', t.replace('nrho : 4\ncutoff_rho : 3.0', 'drho : 0.5\ncutoff_rho : 0.125')))
    if m['kind'] != 'pair':
        out.append(('species_nonnumeric', t + '[Species]\n%s.atomic_mass : heavy\n' % m['els'][0]))
        for k_, v_ in enumerate(('inf', '-inf', '1e999')):      # twelfth round: a number that float() reads and int() cannot take is malformed, not an arithmetic failure
            out.append(('species_number_inf%d' % k_, t + '[Species]\n%s.atomic_number : %s\n' % (m['els'][0], v_)))
        out.append(('species_key_without_property', t + '[Species]\n%s : 12.0\n' % m['els'][0]))
        out.append(('species_key_empty_property', t + '[Species]\n%s. : 12.0\n' % m['els'][0]))                 # fix a2c736d
        out.append(('species_key_empty_species', t + '[Species]\n.atomic_mass : 12.0\n'))
        out.append(('unknown_species', t.replace(m['els'][0], 'Qq') if m['target'] in ('setfl', 'setfl_fs', 'eam_adp') else None))
    if m.get('custom'):
        n = sorted(m['custom'])[0]
        sig = [l for l in lines if l.startswith(n + '(')][0]
        # the formula is parsed when the form is first evaluated: only a form that a whole entry consists of is certainly evaluated
        used = any(len(e['defn']['parts']) == 1 and e['defn']['parts'][0][2]['t'] == 'inst' and e['defn']['parts'][0][2]['label'] == n and e['defn']['parts'][0][1] == 0.0
                   for key in ('pair', 'embed', 'density') for e in (m.get(key) or []))
        out.append(('signature_unclosed', t.replace(sig, sig.replace(') =', ' ='))))
        out.append(('signature_empty_parameter', t.replace(sig, sig.replace('(r', '(r, '))))
        out.append(('signature_trailing_text', t.replace(sig, sig.replace(') =', ') xyz ='))))          # fix 9a3d831
        out.append(('signature_bad_parameter_name', t.replace(sig, sig.replace('(r', '(r, 2x'))))
        out.append(('signature_bad_label', t.replace(sig, '9' + sig)))
        out.append(('duplicate_form_label', t.replace(sig, sig + '\n' + sig.replace('(r', '(r, zz'))))
        if used:
            out.append(('formula_syntax', t.replace(sig, sig + ' +* (')))
            out.append(('formula_unknown_variable', t.replace(sig, sig + ' + undefined_var')))
    if m.get('tables'):
        n = sorted(m['tables'])[0]
        hdr = '[Table-Form:%s]\n' % n
        body = t.split(hdr)[1].split('[')[0]
        out.append(('table_nonnumeric', t.replace(hdr + body, hdr + body.replace('1.0', 'one', 1))))
        out.append(('table_nonfinite', t.replace(hdr + body, hdr + body.replace('1.0', g.choice(['inf', 'nan', '-inf']), 1))))          # fix d43073a
        out.append(('table_without_name', t + '[Table-Form:]\nx : 0 1 2 3 4\ny : 2 1 0.5 0.25 0\n'))
        if 'xy :' in body: out.append(('table_xy_odd', t.replace(hdr + body, hdr + body.rstrip('\n') + ' 9.0\n')))
        else:
            out.append(('table_x_y_mismatch', t.replace(hdr + body, hdr + body.rstrip('\n') + ' 9.0\n')))
            out.append(('table_x_only', t.replace(hdr + body, hdr + body.split('y :')[0])))
            out.append(('table_both_spellings', t.replace(hdr + body, hdr + body + 'xy : 0.0 1.0 1.0 2.0\n')))
        out.append(('table_no_data', t.replace(hdr + body, hdr + 'interpolation : cubic_spline\n')))
        out.append(('parameters_after_table_form', t.replace(' : %s\n' % n, ' : %s 1.0\n' % n) if (' : %s\n' % n) in t else None))
    return [(n, x) for (n, x) in out if x is not None and x != t]

NUMERIC = ('OverflowError', 'ZeroDivisionError', 'LinAlgError', 'FloatingPointError')
def run_text(text):
    r = sc.classify(lambda: sc.tabulate(text))
    if r[0] == 'Internal' and (r[1].split(':')[0] in NUMERIC or r[1].startswith('ValueError: math domain')): return ('Numeric', r[1])
    return r

def cli(text):
    import subprocess, sys, tempfile, shutil
    d = tempfile.mkdtemp(prefix='c16_')
    try:
        inp = os.path.join(d, 'm.aspot'); outp = os.path.join(d, 'out.table')
        open(inp, 'w').write(text)
        p = subprocess.run([sys.executable, '-c', 'from atsim.potentials.tools.potable import main; main()', inp, outp], stdout=subprocess.PIPE, stderr=subprocess.PIPE, text=True)
        rc, err, content = p.returncode, p.stderr, (os.path.exists(outp) and os.path.getsize(outp) > 0) or None
    finally:
        shutil.rmtree(d, ignore_errors=True)
    if rc == 0 and content is not None: return ('Ok', '')
    if 'configuration error -' in err: return ('CfgErr', err.strip().split('\n')[-1][:120])
    return ('Internal', err.strip().split('\n')[-1][:160])

def gen_case(g):
    m = gen_wf(g)
    if g.random() < 0.3: return {'model': m, 'expect': 'Ok'}
    for _ in range(20):
        mm = mutate(g, m)
        if mm is not None: return {'model': mm, 'expect': 'CfgErr'}
    return {'model': m, 'expect': 'Ok'}

def correspond(ctx):
    g = ctx['rng']; ar = std_arity()
    n = 900 if ctx['thorough'] else 220
    cases = corpus() + [gen_case(g) for _ in range(n)]
    res = sc.eval_results('C16', PRE, [coq_model(c['model'], ar) for c in cases])
    dis = []; skipped = 0
    for c, zs in zip(cases, res):
        want = {0: 'Ok', 1: 'CfgErr', 2: 'Internal'}[zs[0]]
        if want != c['expect']:
            dis.append({'case': c, 'what': 'the model classifies a %s case (%s) as %s' % (c['expect'], c['model'].get('mutation', 'well formed'), want)}); continue
        got = run_text(r_model(c['model']))
        if got[0] == 'Numeric' and want == 'Ok': skipped += 1; continue
        if got[0] != want: dis.append({'case': c, 'what': 'model %s, Configuration().read %s %s (%s)' % (want, got[0], got[1] if got[0] != 'Ok' else '', c['model'].get('mutation', 'well formed'))})
    sub = cases[:: max(1, len(cases) // (60 if ctx['thorough'] else 14))]
    from concurrent.futures import ThreadPoolExecutor
    with ThreadPoolExecutor(max_workers=12) as ex: cl = list(ex.map(lambda c: cli(r_model(c['model'])), sub))
    for c, got in zip(sub, cl):
        want = c['expect']
        if got[0] != want and not (got[0] == 'Internal' and any(x in got[1] for x in NUMERIC + ('math domain',))):
            dis.append({'case': c, 'what': 'model %s, potable %s: %s' % (want, got[0], got[1])})
    muts = {}
    for c in cases: muts[c['model'].get('mutation', 'well_formed')] = muts.get(c['model'].get('mutation', 'well_formed'), 0) + 1
    dist = {'operators': muts, 'targets': {}, 'numeric_skips': skipped, 'cli_runs': len(sub),
            'with_spline': sum(1 for c in cases if 'spline(' in r_model(c['model'])), 'with_trans': sum(1 for c in cases if 'trans(' in r_model(c['model'])),
            'with_custom_forms': sum(1 for c in cases if c['model'].get('custom')), 'with_table_forms': sum(1 for c in cases if c['model'].get('tables'))}
    for c in cases: dist['targets'][str(c['model']['target'])] = dist['targets'].get(str(c['model']['target']), 0) + 1
    import ini_common as ic
    idis, istats, _ = ic.check_ini(ctx, 300 if ctx['thorough'] else 80, 'C16i'); dis += idis; dist.update(istats)
    # definitions as text (proof/C16Text.v): the text the harness prints for a definition, read by the character-level model and resolved,
    # is the tree the harness handed to validate
    goals = []
    for c in cases[:(300 if ctx['thorough'] else 60)]:
        for g3 in defn_text_goals(c['model'], ar): goals.append((c, g3))
    tres = sc.eval_results('C16t', PRE_TEXT, [x for (_, (t, e1, e2)) in goals for x in (e1, e2)], chunk=60)
    for k, (c, (t, e1, e2)) in enumerate(goals):
        if tres[2 * k] != tres[2 * k + 1]:
            dis.append({'case': {'kind': 'store_text', 'text': t}, 'what': 'the definition text %r read and resolved is %r, the tree given to validate is %r' % (t, tres[2 * k][:40], tres[2 * k + 1][:40])})
    dist['definition_texts_read'] = len(goals)
    # species keys (model/ItemLabel.v: pair_key, fs_key) against _pair_species_func / the FS species_func on key texts as the parser sees them
    from atsim.potentials.config import ConfigParser
    from atsim.potentials.config._common import ConfigurationException
    kcp = ConfigParser(io.StringIO('[Pair]\n'))
    keys = ['Al-Cu', 'Al-Al', 'O-U', 'Al', 'Al-Cu-O', '-Cu', 'Al-', '-', '', 'Al->Cu', 'Al->', '->Cu', '->', 'Al->Cu->O', 'Al>Cu', 'A - B', ' -B', 'A- ', 'a-->b', 'a->-b', 'a->b-c']
    keys += [''.join(g.choice('AlCu->- ') for _ in range(g.randint(0, 8))) for _ in range(150)]
    PRE_KEY = 'From Coq Require Import List ZArith.\nFrom V Require Import lib.Common model.Ini model.ItemLabel.\nImport ListNotations.\nLocal Open Scope Z_scope.\n' \
              'Definition enc_s (s : list Z) : list Z := Z.of_nat (length s) :: s.\nDefinition enc_k (o : option (list Z * list Z)) : list Z := match o with Some (a, b) => 1 :: enc_s a ++ enc_s b | None => [0] end.\n'
    zs_ = lambda t: '[%s]' % '; '.join('%d' % ord(ch) for ch in t)
    kres = sc.eval_results('C16k', PRE_KEY, [x for k in keys for x in ('(enc_k (pair_key %s))' % zs_(k), '(enc_k (fs_key %s))' % zs_(k))], chunk=120)
    def dec_k(zs):
        if zs[0] == 0: return None
        n = zs[1]; a = ''.join(chr(x) for x in zs[2:2 + n]); m = zs[2 + n]; return (a, ''.join(chr(x) for x in zs[3 + n:3 + n + m]))
    for j, k in enumerate(keys):
        try: got_p = tuple(kcp._pair_species_func(k))
        except ConfigurationException: got_p = None
        try: got_f = tuple(kcp._parse_eam_fs_density_line(k, 'as.zero').species)
        except ConfigurationException: got_f = None
        if dec_k(kres[2 * j]) != got_p: dis.append({'case': {'kind': 'store_text', 'key': k}, 'what': 'pair key %r: model %r, _pair_species_func %r' % (k, dec_k(kres[2 * j]), got_p)})
        if dec_k(kres[2 * j + 1]) != got_f: dis.append({'case': {'kind': 'store_text', 'key': k}, 'what': 'A->B key %r: model %r, species_func %r' % (k, dec_k(kres[2 * j + 1]), got_f)})
    dist['species_keys'] = len(keys)
    # signatures (model/ItemLabel.v: sig_key) against _parse_potential_form_signature on key texts as the parser sees them
    sigs = ['f(r)', 'f(r,a)', 'myform(r,A,rho_1)', 'f(r,a)xyz', 'f(r,a))', 'f((r,a)', 'f(r,,a)', 'f()', 'f(r,a', '1f(r)', 'f.g(r)', 'f(r,a)(b)', 'f(a)', 'f(r,r)', 'f', '(r)', 'f(r,2x)', 'f_1(r,_a)', 'f(r, a )', 'F9(R)', 'f(r,a,)', ' f(r)', 'f(r) ', '\tf(r,a)\t', ' f (r)']
    sigs += [''.join(g.choice('fr1_a(),. ') for _ in range(g.randint(0, 9))) for _ in range(150)]
    sres = sc.eval_results('C16s', PRE_KEY + 'Definition enc_sig (o : option (list Z * list (list Z))) : list Z := match o with Some (l, ps) => 1 :: enc_s l ++ Z.of_nat (length ps) :: flat_map enc_s ps | None => [0] end.\n',
                           ['(enc_sig (sig_key %s))' % zs_(k) for k in sigs], chunk=120)
    def dec_sig(zs):
        if zs[0] == 0: return None
        i = 1; n = zs[i]; lab = ''.join(chr(x) for x in zs[i + 1:i + 1 + n]); i += 1 + n
        m_ = zs[i]; i += 1; ps = []
        for _ in range(m_):
            n = zs[i]; ps.append(''.join(chr(x) for x in zs[i + 1:i + 1 + n])); i += 1 + n
        return (lab, ps)
    for k, zs in zip(sigs, sres):
        try: o = kcp._parse_potential_form_signature(k); got = (o.label, list(o.parameter_names))
        except ConfigurationException: got = None
        if dec_sig(zs) != got: dis.append({'case': {'kind': 'store_text', 'key': k}, 'what': 'signature %r: model %r, _parse_potential_form_signature %r' % (k, dec_sig(zs), got)})
    dist['signatures'] = len(sigs)
    return {'evaluations': len(cases) + istats['ini_files'], 'cases': cases, 'nontrivial': core.distinct_count([c for c in cases if c['expect'] == 'CfgErr']) + core.distinct_count([c for c in cases if c['expect'] == 'Ok']),
            'rule': 'well-formed models over all eleven targets (pair / EAM / Finnis-Sinclair / ADP; 1..3 species; custom and table forms; definitions to depth 2 with ranges, sum/product/pow/trans/spline, modifiers as spline ends) and one catalogue '
                    'malformation of each (%d operators: targets, sections, keys, key styles, table data, labels, parameter counts, modifier names and arities, every spline rule): validate vs Configuration().read, a sample through the potable CLI '
                    '(exit status and the "configuration error -" prefix); text-level malformations by the oracle; text level: parse_ini (model/Ini.v) vs the raw parser of the repository on generated files including stray lines before the first header and malformed lines' % len(muts),
            'samples': [{'expect': c['expect'], 'mutation': c['model'].get('mutation'), 'text': r_model(c['model'])[:400]} for c in cases[:3]], 'distribution': dist, 'disagreements': dis[:20], 'oracle_cases': cases[:120]}

def corpus():
    g = random.Random(16)
    base = gen_wf(g)
    out = [{'model': base, 'expect': 'Ok'}]
    sp = {'kind': 'pair', 'target': 'LAMMPS', 'els': ['Al'], 'custom': {}, 'tables': {}, 'pair': [{'key': 'Al-Al', 'ok': True, 'defn': {'parts': [['>', 0.0, {'t': 'mod', 'name': 'spline', 'args': [
        {'parts': [['>', 0.0, {'t': 'mod', 'name': 'sum', 'args': [single({'t': 'inst', 'label': 'as.bornmayer', 'params': [1000.0, 0.3]}), single({'t': 'inst', 'label': 'as.constant', 'params': [1.0]})]}],
                   ['>=', 1.0, {'t': 'inst', 'label': 'buck4_spline', 'params': [1.5]}], ['>', 2.0, {'t': 'inst', 'label': 'as.buck', 'params': [0.0, 1.0, 32.0]}]]}]}]]}}]}
    out.append({'model': sp, 'expect': 'Ok'})
    for op_rmin in (2.0, 1.0, 2.5):
        m = copy.deepcopy(sp); m['pair'][0]['defn']['parts'][0][2]['args'][0]['parts'][1][2]['params'] = [op_rmin]; m['mutation'] = 'rmin_outside'
        out.append({'model': m, 'expect': 'CfgErr'})
    # the middle part spelled as a modifier, also one NAMED like a spline type: exp_spline(as.zero), buck4_spline(as.zero), sum(as.zero)
    for name in ('exp_spline', 'buck4_spline', 'sum'):
        m = copy.deepcopy(sp); m['pair'][0]['defn']['parts'][0][2]['args'][0]['parts'][1][2] = {'t': 'mod', 'name': name, 'args': [single({'t': 'inst', 'label': 'as.zero', 'params': []})]}
        m['mutation'] = 'spline_mid_modifier'
        out.append({'model': m, 'expect': 'CfgErr'})
    return out

# ------------------------------------------------------------------------------------------- the statement as an oracle
def oracle(case):
    if case.get('kind') in ('ini', 'store_text'): return []      # text-level correspondence cases: no verdict of this property's statement
    m = case['model']; fails = []
    got = run_text(r_model(m))
    if got[0] == 'Numeric' and case['expect'] == 'Ok': return []
    if case['expect'] == 'Ok':
        if got[0] != 'Ok': fails.append('a well-formed model is refused: %s %s' % (got[0], got[1]))
        g = random.Random(len(r_model(m)))
        for name, text in text_mutations(g, m):
            r = run_text(text)
            # numeric failures while evaluating a model's functions are not structural; a malformed GRID must never get that far
            if r[0] == 'Numeric' and not name.startswith(('cutoff_', 'nr_', 'single_row', 'lammps_one_row', 'dlpoly_', 'all_three', 'species_number_inf')): continue
            if r[0] != 'CfgErr': fails.append('%s: expected a configuration error, got %s %s' % (name, r[0], r[1] if r[0] != 'Ok' else '(a table was written)'))
    else:
        if got[0] != 'CfgErr': fails.append('%s: expected a configuration error, got %s %s' % (m.get('mutation'), got[0], got[1] if got[0] != 'Ok' else '(a table was written)'))
    return fails[:6]

def search_cases(rng, n):
    for c in corpus(): yield c
    for _ in range(n): yield gen_case(rng)
def finding_for(case, fails): return None
def replay_finding(f): return False
