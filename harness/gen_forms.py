"""Regenerate coq/gen/PotFuncs.v (every __call__/deriv/deriv2 of atsim/potentials/potentialfunctions.py),
coq/gen/Combinators.v (closures of plus/product/pow in atsim/potentials/__init__.py, num_deriv of _util.py,
trans closures of _modifiers.py)."""
import ast, os
import py2coq
from py2coq import Refuse, RExpr, load_function, load_class_constants, translate_expr_fn, strip_docstring

PF = 'atsim/potentials/potentialfunctions.py'
# documented parameter order (docs/reference/potential_forms.rst, "potable signature"), r first
FORMS = [
    ('buck', '_buck', ['r', 'A', 'rho', 'C']),
    ('bornmayer', '_bornmayer', ['r', 'A', 'rho']),
    ('coul', '_coul', ['r', 'qi', 'qj']),
    ('constant', '_constant', ['r', 'constant']),
    ('exponential', '_exponential', ['r', 'A', 'n']),
    ('hbnd', '_hbnd', ['r', 'A', 'B']),
    ('lj', '_lj', ['r', 'epsilon', 'sigma']),
    ('morse', '_morse', ['r', 'gamma', 'r_star', 'D']),
    ('sqrt', '_sqrt', ['r', 'G']),
    ('tang_toennies', '_tang_toennies', ['r', 'A', 'b', 'C_6', 'C_8', 'C_10']),
    ('zbl', '_zbl', ['r', 'z1', 'z2']),
    ('zero', '_zero', ['r']),
    ('exp_spline', '_exp_spline', ['r', 'B0', 'B1', 'B2', 'B3', 'B4', 'B5', 'C']),
]
METHODS = [('__call__', 'call'), ('deriv', 'deriv'), ('deriv2', 'deriv2')]
CALLS = {'buck': ('buck_call', 4), 'buck.deriv': ('buck_deriv', 4), 'buck.deriv2': ('buck_deriv2', 4)}

def poly_method(repo, meth, coqname):
    """_polynomial.<meth>:   r, coefs = self._split_args(args)
                             v = [EXPR for (i,c) in enumerate(coefs) if i >= k]      (condition optional)
                             return sum(v) | sum([0]+v)"""
    fn = load_function(repo, PF, '_polynomial.' + meth)
    if not fn.args.vararg or fn.args.vararg.arg != 'args' or [a.arg for a in fn.args.args] != ['self']:
        raise Refuse('_polynomial.%s: signature is not (self, *args)' % meth)
    sp = load_function(repo, PF, '_polynomial._split_args')
    if ast.unparse(strip_docstring(sp.body)[0]) != 'return (args[0], args[1:])':
        raise Refuse('_polynomial._split_args no longer returns (args[0], args[1:])')
    body = strip_docstring(fn.body)
    if len(body) != 3: raise Refuse('_polynomial.%s: body shape' % meth)
    if ast.unparse(body[0]) != 'r, coefs = self._split_args(args)':
        raise Refuse('_polynomial.%s: first statement' % meth)
    st = body[1]
    if not (isinstance(st, ast.Assign) and ast.unparse(st.targets[0]) == 'v'): raise Refuse('_polynomial.%s: v assignment' % meth)
    val = st.value
    k = 0
    if isinstance(val, ast.Subscript):
        sl = val.slice
        if not (isinstance(sl, ast.Slice) and sl.upper is None and sl.step is None and isinstance(sl.lower, ast.Constant)
                and isinstance(sl.lower.value, int) and sl.lower.value >= 0):
            raise Refuse('_polynomial.%s: slice' % meth)
        k = sl.lower.value
        val = val.value
    if not (isinstance(val, ast.ListComp) and len(val.generators) == 1): raise Refuse('_polynomial.%s: comprehension' % meth)
    g = val.generators[0]
    if ast.unparse(g.target) != '(i, c)' or ast.unparse(g.iter) != 'enumerate(coefs)':
        raise Refuse('_polynomial.%s: generator' % meth)
    if g.ifs:
        # [EXPR for (i, c) in enumerate(coefs) if i >= k] : the first k terms are not evaluated at all (fix c98f76d; the earlier
        # form built them and sliced them off, so 0*r**-1 was evaluated at r = 0)
        c = g.ifs[0]
        if not (len(g.ifs) == 1 and k == 0 and isinstance(c, ast.Compare) and len(c.ops) == 1 and isinstance(c.ops[0], ast.GtE) and isinstance(c.left, ast.Name)
                and c.left.id == 'i' and isinstance(c.comparators[0], ast.Constant) and isinstance(c.comparators[0].value, int) and c.comparators[0].value >= 0):
            raise Refuse('_polynomial.%s: condition of the comprehension' % meth)
        k = c.comparators[0].value
    elif k > 0:
        raise Refuse('_polynomial.%s: the leading terms are built and sliced off: they are evaluated (0*r**-1 at r = 0 divides by zero)' % meth)
    ret = ast.unparse(body[2])
    if ret not in ('return sum(v)', 'return sum([0] + v)'): raise Refuse('_polynomial.%s: return' % meth)
    # translate EXPR with i : nat (as INR i), c : R; r**float(i - m) -> r ^ (i - m) (nat subtraction; needs m <= k)
    maxsub = [0]
    class PX(RExpr):
        def natexp(s, e):
            if isinstance(e, ast.Name) and e.id == 'i': return 'i'
            if isinstance(e, ast.BinOp) and isinstance(e.op, ast.Sub) and isinstance(e.left, ast.Name) and e.left.id == 'i' \
               and isinstance(e.right, ast.Constant) and isinstance(e.right.value, int) and e.right.value >= 0:
                maxsub[0] = max(maxsub[0], e.right.value)
                return '(i - %d)%%nat' % e.right.value
            raise Refuse('_polynomial.%s: exponent %s' % (meth, ast.unparse(e)))
        def tr(s, e):
            if isinstance(e, ast.BinOp) and isinstance(e.op, ast.Pow):
                ex = e.right
                if isinstance(ex, ast.Call) and isinstance(ex.func, ast.Name) and ex.func.id == 'float' and len(ex.args) == 1:
                    return '(%s ^ %s)' % (s.tr(e.left), s.natexp(ex.args[0]))
            if isinstance(e, ast.Call) and isinstance(e.func, ast.Name) and e.func.id == 'float' and len(e.args) == 1:
                return '(INR %s)' % s.natexp(e.args[0])
            if isinstance(e, ast.Name) and e.id == 'i': return '(INR i)'
            return RExpr.tr(s, e)
    px = PX('_polynomial.' + meth, {'r': 'r', 'c': 'c'})
    t = px.tr(val.elt)
    if maxsub[0] > k:
        raise Refuse('_polynomial.%s: subtracts %d from the index but only drops %d leading terms' % (meth, maxsub[0], k))
    return 'Definition %s (r : R) (coefs : list R) : R :=\n  isum %d (fun (i : nat) (c : R) => %s) coefs.\n' % (coqname, k, t)

def gen_potfuncs(repo):
    out = ['(* GENERATED by harness/gen_forms.py from %s -- do not edit *)\n' % PF,
           'From Coq Require Import Reals List.\nFrom V Require Import lib.RLib.\nImport ListNotations.\nLocal Open Scope R_scope.\n\n']
    meta = {}
    for (name, cls, params) in FORMS:
        consts = load_class_constants(repo, PF, cls)
        for (meth, suffix) in METHODS:
            r = translate_expr_fn(repo, PF, '%s.%s' % (cls, meth), '%s_%s' % (name, suffix), params=params,
                                  consts=consts, lift_digits=8, calls=CALLS)
            out.append(r['text'] + '\n')
            meta['%s_%s' % (name, suffix)] = {'params': params, 'lifted': r['lifted'], 'side': r['side']}
    for (meth, suffix) in METHODS:
        out.append(poly_method(repo, meth, 'polynomial_' + suffix) + '\n')
    # module-level instances must be the classes translated above
    tree = ast.parse(open(os.path.join(repo, PF)).read())
    insts = {ast.unparse(n.targets[0]): ast.unparse(n.value) for n in tree.body if isinstance(n, ast.Assign) and len(n.targets) == 1}
    for (name, cls, _) in FORMS + [('polynomial', '_polynomial', None)]:
        if insts.get(name) != cls + '()':
            raise Refuse('module attribute %s is %r, expected %s()' % (name, insts.get(name), cls))
    return ''.join(out), meta

INIT = 'atsim/potentials/__init__.py'
def gen_combinators(repo):
    out = ['(* GENERATED by harness/gen_forms.py from %s, _util.py, _modifiers.py -- do not edit *)\n' % INIT,
           'From Coq Require Import Reals List.\nFrom V Require Import lib.RLib.\nLocal Open Scope R_scope.\n\n']
    fnv = {'a': ('a', 1), 'b': ('b', 1), 'deriv_a': ('deriv_a', 1), 'deriv_b': ('deriv_b', 1),
           'deriv2_a': ('deriv2_a', 1), 'deriv2_b': ('deriv2_b', 1)}
    def closure(outer, inner, coqname, fparams, extra_calls):
        fn = load_function(repo, INIT, '%s.%s' % (outer, inner))
        if [a.arg for a in fn.args.args] != ['r']: raise Refuse('%s.%s: parameters' % (outer, inner))
        calls = dict((k, v) for k, v in fnv.items() if k in fparams)
        calls.update(extra_calls)
        src = open(os.path.join(repo, INIT)).read()
        rx = RExpr('%s.%s' % (outer, inner), {'r': 'r'}, source=src, calls=calls)
        lets = []
        body = strip_docstring(fn.body)
        for st in body[:-1]:
            if isinstance(st, ast.Assign) and len(st.targets) == 1 and isinstance(st.targets[0], ast.Name):
                lets.append((st.targets[0].id, rx.tr(st.value))); rx.env[st.targets[0].id] = st.targets[0].id
            elif isinstance(st, ast.Expr) and isinstance(st.value, ast.Constant): pass
            else: raise Refuse('%s.%s: statement' % (outer, inner))
        if not isinstance(body[-1], ast.Return): raise Refuse('%s.%s: no return' % (outer, inner))
        t = rx.tr(body[-1].value)
        for (nm, v) in reversed(lets): t = 'let %s := %s in\n  %s' % (nm, v, t)
        ps = ' '.join('(%s : R -> R)' % p for p in fparams)
        return 'Definition %s %s (r : R) : R :=\n  %s.\n\n' % (coqname, ps, t)
    out.append(closure('plus', 'potential', 'plus_call', ['a', 'b'], {}))
    out.append(closure('plus', 'deriv', 'plus_deriv', ['deriv_a', 'deriv_b'], {}))
    out.append(closure('plus', 'deriv2', 'plus_deriv2', ['deriv2_a', 'deriv2_b'], {}))
    out.append(closure('product', 'potential', 'product_call', ['a', 'b'], {}))
    out.append(closure('product', 'deriv', 'product_deriv', ['a', 'b', 'deriv_a', 'deriv_b'], {}))
    out.append(closure('product', 'deriv2', 'product_deriv2', ['a', 'b', 'deriv_a', 'deriv_b', 'deriv2_a', 'deriv2_b'], {}))
    # pow: a(r)**b(r) is a real power (Rpower), defined for a(r) > 0
    # _scaled_log(x, ar) is x*log(ar), written so that a zero x gives zero without evaluating log (fix for a negative base); over the
    # reals, with the total ln, it IS x * ln ar: its body is asserted and its calls are translated as that product
    from py2coq import assert_body
    assert_body(repo, INIT, '_scaled_log', 'if x == 0.0:\n    return 0.0\nreturn x * math.log(ar)')
    SL = {'_scaled_log': ('(%s * (ln %s))', 2)}
    out.append(closure('pow', 'potential', 'pow_call', ['a', 'b'], {}))
    out.append(closure('pow', 'deriv', 'pow_deriv', ['a', 'b', 'deriv_a', 'deriv_b'], dict(SL, potential=('pow_call a b', 1))))
    out.append(closure('pow', 'deriv2', 'pow_deriv2', ['a', 'b', 'deriv_a', 'deriv_b', 'deriv2_a', 'deriv2_b'],
                       dict(SL, potential=('pow_call a b', 1), deriv=('pow_deriv a b deriv_a deriv_b', 1))))
    # the wiring: deriv_a = gradient(a), deriv2_a = gradient(deriv_a), and the hasattr tests
    for outer in ('plus', 'product', 'pow'):
        src = ast.unparse(load_function(repo, INIT, outer))
        for needle in ("if hasattr(a, 'deriv') or hasattr(b, 'deriv'):", 'deriv_a = gradient(a)', 'deriv_b = gradient(b)',
                       "if hasattr(deriv_a, 'deriv') or hasattr(deriv_b, 'deriv'):", 'deriv2_a = gradient(deriv_a)',
                       'deriv2_b = gradient(deriv_b)', 'potential.deriv = deriv', 'potential.deriv2 = deriv2', 'return potential'):
            if needle not in src: raise Refuse('%s(): wiring changed (%s)' % (outer, needle))
    # num_deriv
    U = '_util.py'
    fn = load_function(repo, 'atsim/potentials/' + U, 'num_deriv')
    if [a.arg for a in fn.args.args] != ['r', 'func', 'h']: raise Refuse('num_deriv parameters')
    if not (len(fn.args.defaults) == 1 and isinstance(fn.args.defaults[0], ast.Constant) and fn.args.defaults[0].value == 1e-6):
        raise Refuse('num_deriv default step is not 1e-6')
    src = open(os.path.join(repo, 'atsim/potentials', U)).read()
    rx = RExpr('num_deriv', {'r': 'r', 'h': 'h'}, source=src, calls={'func': ('func', 1)})
    lets = []
    body = strip_docstring(fn.body)
    for st in body[:-1]:
        if isinstance(st, ast.Assign) and len(st.targets) == 1 and isinstance(st.targets[0], ast.Name):
            lets.append((st.targets[0].id, rx.tr(st.value))); rx.env[st.targets[0].id] = st.targets[0].id
        else: raise Refuse('num_deriv: statement')
    t = rx.tr(body[-1].value)
    for (nm, v) in reversed(lets): t = 'let %s := %s in\n  %s' % (nm, v, t)
    out.append('Definition num_deriv (r : R) (func : R -> R) (h : R) : R :=\n  %s.\n\n' % t)
    out.append('Definition num_deriv_default_h : R := 1 / 1000000.\n\n')
    # deriv(): analytic if hasattr else num_deriv ; _GradientWrapper
    src = ast.unparse(load_function(repo, 'atsim/potentials/' + U, 'deriv'))
    for needle in ("if hasattr(func, 'deriv'):", 'return func.deriv(r)', 'return num_deriv(r, func, h)'):
        if needle not in src: raise Refuse('_util.deriv changed (%s)' % needle)
    src = ast.unparse(load_function(repo, 'atsim/potentials/' + U, '_GradientWrapper.__init__'))
    for needle in ("if hasattr(self._wrapped, 'deriv2'):", 'return self._wrapped.deriv2(r)'):
        if needle not in src: raise Refuse('_GradientWrapper.__init__ changed (%s)' % needle)
    src = ast.unparse(load_function(repo, 'atsim/potentials/' + U, '_GradientWrapper.__call__'))
    if 'return deriv(r, self._wrapped, self._h)' not in src: raise Refuse('_GradientWrapper.__call__ changed')
    # trans closures
    M = 'atsim/potentials/_modifiers.py'
    srcm = open(os.path.join(repo, M)).read()
    for (inner, coqname, callee) in (('transformed', 'trans_call', 'potential_func'), ('deriv', 'trans_deriv', 'potential_func.deriv'),
                                     ('deriv2', 'trans_deriv2', 'potential_func.deriv2')):
        fn = load_function(repo, M, 'trans.' + inner)
        rx = RExpr('trans.' + inner, {'r': 'r', 'trans_value': 'X'}, source=srcm, calls={callee: ('f', 1)})
        body = strip_docstring(fn.body)
        if len(body) != 1 or not isinstance(body[0], ast.Return): raise Refuse('trans.%s body' % inner)
        out.append('Definition %s (f : R -> R) (X : R) (r : R) : R :=\n  %s.\n\n' % (coqname, rx.tr(body[0].value)))
    src = ast.unparse(load_function(repo, M, 'trans'))
    for needle in ("if hasattr(potential_func, 'deriv'):", "if hasattr(potential_func, 'deriv2'):", 'transformed.deriv = deriv', 'transformed.deriv2 = deriv2',
                   'trans_value = second_form.parameters[0]', 'potential_func = potential_form_builder.create_potential_function(potential_forms[0])'):
        if needle not in src: raise Refuse('trans(): wiring changed (%s)' % needle)
    # access routes (C06): exact bodies of the glue functions modelled by model/Routes.v
    from py2coq import assert_body
    assert_body(repo, 'atsim/potentials/_util.py', '_rpartial.__call__', """
        kw = self.keywords.copy()
        kw.update(kwargs)
        return self.func(*(args + self.args), **kwargs)
    """)
    assert_body(repo, 'atsim/potentials/potentialforms.py', '_FunctionFactory.__call__', """
        wrapper = _rpartial(self._func, *args)
        if hasattr(self._func, "deriv"):
          wrapper.deriv = _rpartial(self._func.deriv, *args)
        if hasattr(self._func, "deriv2"):
          wrapper.deriv2 = _rpartial(self._func.deriv2, *args)
        return wrapper
    """)
    assert_body(repo, 'atsim/potentials/potentialforms.py', '_FunctionFactory.__init__', "self._func = func")
    assert_body(repo, 'atsim/potentials/config/_potential_form.py', 'Potential_Form.__call__', """
        self._check_call(*args)
        f = self._functionfactory(*args)
        return f
    """)
    assert_body(repo, 'atsim/potentials/config/_potential_form.py', 'Existing_Potential_Form.__call__', """
        self._check_call(*args)
        f = self._potential_form(*args)
        return f
    """)
    assert_body(repo, 'atsim/potentials/config/_python_potential_function.py', '_Python_Potential_Function.__call__', """
        self._check_call(*args)
        return self._pyfunc(*args)
    """)
    assert_body(repo, 'atsim/potentials/config/_potential_form.py', '_Check_Call.args_valid',
                "return self.signature.is_varargs or len(args) == self.required_arg_len()")
    assert_body(repo, 'atsim/potentials/config/_potential_form.py', '_Check_Call.required_arg_len', """
        argl = len(self.signature.parameter_names)
        if not self.is_func_call:
          argl = argl-1
        return argl
    """)
    return ''.join(out)

def generate(repo):
    text, meta = gen_potfuncs(repo)
    import json
    return {'gen/PotFuncs.v': text, 'gen/Combinators.v': gen_combinators(repo), 'gen/potfuncs_meta.json': json.dumps(meta, indent=1)}
