"""C17 -- no partial table: every writer's interleaving of evaluations and writes is "all evaluations, then one write";
fault injection at evaluation k (all k for small grids) through the Python API; failing formula through potable."""
import io, os, random, subprocess, sys, tempfile, shutil
import core, layout, eam_common as ec, p_c01, p_c02, p_c03, p_c04, p_c05, p_c19

ID = 'C17'
GENMODS = ['gen_layout', 'gen_eam', 'gen_glue']
TARGET = 'props/C17.vo'
PROOF_FILES = ['lib/Effects.v', 'props/C17.v']
AXIOMS = []
TRUSTED = [
    'Coq 8.16.1 kernel; no axioms',
    'lib/Effects.v models a writer as "all evaluations, then one write of the whole table"; that this IS what every writer does is checked on every run by recording the interleaving of evaluations and write() calls on the caller\'s file object, and by injecting a fault at evaluation k',
    'potable route: the output file is opened (truncated) by action_tabulate before write(); after a failing evaluation it must be empty or absent; OS-level behaviour of open/close is outside the model',
    'fault = an exception raised by a user function; faults in the runtime itself (MemoryError, signals, disk full) are outside the model',
]

SOURCES = [('lammps', p_c01, None), ('dlpoly', p_c02, None), ('setfl', p_c03, None), ('fs', p_c04, None), ('tabeam', p_c05, None), ('c19', p_c19, None)]

def gen_case(rng, thorough=False):
    name, mod, _ = rng.choice(SOURCES)
    c = mod.gen_case(rng)
    # keep grids small enough to try every fault position
    if 'nr' in c: c['nr'] = min(c['nr'], 9 if name != 'dlpoly' else 8)
    if name == 'dlpoly': c['nr'] = rng.choice([4 * 2, 12]) ; 
    if 'nrho' in c: c['nrho'] = min(c['nrho'], 7)
    if c.get('writer') == 'funcfl': c['nrho'] = max(1, c['nrho'])
    c['_src'] = name
    return c

def large_corpus(full):
    """fixed cases whose table is megabytes of text before the failing evaluation: a writer that hands finished parts over once some
    volume has accumulated is invisible on the small grids above (one per kind of writer; quick: the pair writers and one EAM writer)"""
    out = []
    want = [('lammps', None), ('dlpoly', None), ('c19', 'gulp'), ('setfl', None)] + ([('fs', None), ('tabeam', None), ('c19', 'adp'), ('c19', 'funcfl')] if full else [])
    mods = dict((n, m) for n, m, _ in SOURCES)
    for k, (name, writer) in enumerate(want):
        for t in range(200):
            g = random.Random(1700 + 37 * k + t); c = mods[name].gen_case(g)
            if writer and c.get('writer') != writer: continue
            if len(c.get('pots', [])) >= 2 or len(c.get('elements', [])) >= 2: break
        if 'nr' in c: c['nr'] = 30000 if name == 'dlpoly' else 30001
        if 'nrho' in c: c['nrho'] = 20001
        c['_src'] = name; c['_large'] = True; c['_maxpos'] = 2
        out.append(c)
    return out

def runner(case):
    return dict((n, m) for n, m, _ in SOURCES)[case['_src']].run_recorded

def one_run(case, fault_at, fault_class=None):
    layout.FAULT_CLASS[0] = fault_class
    try:
        runner(case)({k: v for k, v in case.items() if k != '_src'}, fault_at)
        raised = None
    except layout.InjectedFault:
        raised = 'fault'
    except StopIteration:
        raised = 'fault' if fault_class is StopIteration else 'StopIteration'
    except Exception as e:
        raised = type(e).__name__
    finally:
        layout.FAULT_CLASS[0] = None
    rec, f = layout.LAST.get('rec'), layout.LAST.get('file')
    return raised, rec, f

def analyse(case, max_positions=None):
    """returns list of failures for this case"""
    fails = []
    raised, rec, f = one_run(case, None)
    if raised: return [] if case['_src'] == 'dlpoly' and case['nr'] % 4 else ['writer raised %s without a fault' % raised]
    ev = rec.events
    n = rec.nevals
    writes = [i for i, e in enumerate(ev) if e[0] == 'write']
    lastev = max([i for i, e in enumerate(ev) if e[0] == 'eval'] or [-1])
    if len(writes) != 1 or writes[0] < lastev:
        fails.append('%d write() calls on the output file, %d of them before the last evaluation (expected: one write after all %d evaluations)' % (len(writes), sum(1 for w in writes if w < lastev), n))
    ks = list(range(n))
    if max_positions and n > max_positions:
        rng = random.Random(n); ks = sorted(set([0, 1, n - 2, n - 1] + rng.sample(ks, max_positions)))
        if case.get('_large'): ks = sorted(set([n - 1, (2 * n) // 3] + rng.sample(range(n // 2, n), max_positions)))
    for k in ks:
        raised, rec2, f2 = one_run(case, k)
        if raised != 'fault': fails.append('fault at evaluation %d of %d: writer %s' % (k, n, 'did not propagate it' if raised is None else 'raised ' + raised)); break
        content = f2.getvalue() if f2 is not None else ''
        if len(content) != 0 or any(e[0] == 'write' for e in rec2.events):
            fails.append('fault at evaluation %d of %d (%s): %d characters of a partial table were written' % (k, n, layout.FN_NAMES.get(_kth_fn(rec, k), '?'), len(content))); break
    # the failure of a function may be ANY exception - also one the iteration machinery gives a meaning to (StopIteration raised by a
    # function that reads its values from an exhausted stream): it propagates and nothing is written
    if not fails and not case.get('_large'):
        for k in sorted(set([0, n // 2, n - 1])):
            if k < 0 or k >= n: continue
            raised, rec2, f2 = one_run(case, k, StopIteration)
            content = f2.getvalue() if f2 is not None else ''
            if raised != 'fault' and not (isinstance(raised, str) and raised == 'RuntimeError'):
                fails.append('a function failing with StopIteration at evaluation %d of %d: writer %s' % (k, n, 'returned normally' if raised is None else 'raised ' + str(raised)))
            if len(content) != 0 or any(e[0] == 'write' for e in rec2.events):
                fails.append('a function failing with StopIteration at evaluation %d of %d (%s): %d characters were written' % (k, n, layout.FN_NAMES.get(_kth_fn(rec, k), '?'), len(content)))
            if fails: break
    return fails

def _kth_fn(rec, k):
    evs = rec.evals()
    return evs[k][1][0] if k < len(evs) else -1

# ------------------------------------------------------------------ potable with a formula that leaves its domain
TARGET_MODELS = {
    'LAMMPS': 'pair', 'DL_POLY': 'pair', 'GULP': 'pair', 'excel': 'pair',
    'setfl': 'eam', 'setfl_fs': 'fs', 'DL_POLY_EAM': 'eam', 'DL_POLY_EAM_fs': 'fs', 'eam_adp': 'adp', 'excel_eam': 'eam', 'excel_eam_fs': 'fs',
}
def potable_fault_text(target, where, frac):
    """a model whose function `where` fails once r (or rho) exceeds frac of the range: pymath.sqrt of a negative number"""
    bad = 'bad(x, lim) = pymath.sqrt(lim - x)'
    nr, cutoff, nrho, cutoff_rho = 12, 6.0, 8, 10.0
    limr, limrho = repr(frac * cutoff), repr(frac * cutoff_rho)
    t = '[Tabulation]\ntarget : %s\nnr : %d\ncutoff : %r\nnrho : %d\ncutoff_rho : %r\n\n[Potential-Form]\n%s\n\n' % (target, nr, cutoff, nrho, cutoff_rho, bad)
    kind = TARGET_MODELS[target]
    pair1 = 'bad %s' % limr if where == 'pair' else 'as.buck 1000.0 0.3 10.0'
    t += '[Pair]\nAl-Al : as.lj 0.5 2.0\nAl-Cu : %s\n\n' % pair1
    if kind == 'pair': return t
    emb = 'bad %s' % limrho if where == 'embed' else 'as.sqrt -1.0'
    t += '[EAM-Embed]\nAl : as.sqrt -2.0\nCu : %s\n\n' % emb
    if kind == 'fs':
        d = 'bad %s' % limr if where == 'density' else 'as.bornmayer 5.0 0.5'
        t += '[EAM-Density]\nAl->Al : as.bornmayer 3.0 0.5\nAl->Cu : as.bornmayer 4.0 0.5\nCu->Al : %s\nCu->Cu : as.bornmayer 6.0 0.5\n\n' % d
    else:
        d = 'bad %s' % limr if where == 'density' else 'as.bornmayer 5.0 0.5'
        t += '[EAM-Density]\nAl : as.bornmayer 3.0 0.5\nCu : %s\n\n' % d
    if kind == 'adp':
        t += '[EAM-ADP-Dipole]\nAl-Al : as.constant 0.5\nAl-Cu : %s\n\n' % ('bad %s' % limr if where == 'dipole' else 'as.constant 0.25')
        t += '[EAM-ADP-Quadrupole]\nAl-Cu : %s\nCu-Cu : as.constant 2.0\n\n' % ('bad %s' % limr if where == 'quadrupole' else 'as.constant 0.125')
    return t

def potable_fault(case):
    d = tempfile.mkdtemp(prefix='c17_')
    try:
        inp = os.path.join(d, 'm.aspot'); outp = os.path.join(d, 'out.table')
        open(inp, 'w').write(potable_fault_text(case['target'], case['where'], case['frac']))
        p = subprocess.run([sys.executable, '-c', 'from atsim.potentials.tools.potable import main; main()', inp, outp],
                           stdout=subprocess.PIPE, stderr=subprocess.PIPE, text=True, env=dict(os.environ))
        size = os.path.getsize(outp) if os.path.exists(outp) else None
        return p.returncode, size, p.stderr[-300:]
    finally:
        shutil.rmtree(d, ignore_errors=True)

def gen_potable(rng):
    target = rng.choice(sorted(TARGET_MODELS))
    kind = TARGET_MODELS[target]
    where = rng.choice({'pair': ['pair'], 'eam': ['pair', 'embed', 'density'], 'fs': ['pair', 'embed', 'density'], 'adp': ['pair', 'embed', 'density', 'dipole', 'quadrupole']}[kind])
    return {'potable_fault': True, 'target': target, 'where': where, 'frac': rng.choice([0.05, 0.3, 0.5, 0.75, 0.95])}

def rewrite_corpus():
    return [{'rewrite_after_fault': True, 'cls': c, 'nr': 8, 'fault_at': k} for c in ('LAMMPS', 'DL_POLY', 'GULP') for k in (5, 11)]

def check_rewrite(case):
    """the same tabulation OBJECT written again after a write that failed part-way: the failed write left nothing on the object either -
    the second write is the whole table (what a newly built object writes), or it fails again; never a shorter table"""
    from atsim.potentials.pair_tabulation import LAMMPS_PairTabulation, DLPoly_PairTabulation, GULP_PairTabulation
    cls = {'LAMMPS': LAMMPS_PairTabulation, 'DL_POLY': DLPoly_PairTabulation, 'GULP': GULP_PairTabulation}[case['cls']]
    c = {'pots': [['Al', 'Al', False], ['Al', 'Cu', True]], 'labels': ['Al', 'Cu']}
    def build():
        rec = layout.Recorder(); return rec, cls(p_c01.build_potentials(c, rec), 6.0, case['nr'])
    rec0, fresh = build(); ref = io.StringIO(); fresh.write(ref)
    rec, tab = build(); rec.fault_at = case['fault_at']
    first = io.StringIO()
    try: tab.write(first); return ['the injected fault at evaluation %d did not propagate' % case['fault_at']]
    except layout.InjectedFault: pass
    if first.getvalue(): return ['%d characters written by the failing write' % len(first.getvalue())]
    rec.fault_at = None
    second = io.StringIO()
    try: tab.write(second)
    except Exception as e: return []
    shape = lambda t: [len(l.split()) for l in t.split('\n')]        # the recorded values depend on how many evaluations came before: compare the layout
    if shape(second.getvalue()) != shape(ref.getvalue()):
        return ['%s tabulation written again after a failed write: %d characters, a newly built object writes %d (%d lines vs %d)'
                % (case['cls'], len(second.getvalue()), len(ref.getvalue()), second.getvalue().count('\n'), ref.getvalue().count('\n'))]
    return []

def oracle(case):
    if case.get('rewrite_after_fault'): return check_rewrite(case)
    if case.get('potable_fault'):
        rc, size, err = potable_fault(case)
        fails = []
        if rc == 0: fails.append('potable exited 0 although the %s function fails part-way' % case['where'])
        if size: fails.append('potable target %s, failing %s function: a partial output file of %d bytes was left behind' % (case['target'], case['where'], size))
        return fails
    return analyse(case, max_positions=case.get('_maxpos'))

def correspond(ctx):
    rng = ctx['rng']
    cases = large_corpus(ctx['thorough']) + [gen_case(rng) for _ in range(120 if ctx['thorough'] else 36)]
    pcases = potable_corpus(ctx['thorough']) + [gen_potable(rng) for _ in range(44 if ctx['thorough'] else 6)]
    dis = []
    nfaults = 0
    for c in cases:
        if not c.get('_large'): c['_maxpos'] = None if ctx['thorough'] else 40
        f = analyse(c, c['_maxpos'])
        nfaults += 1
        if f: dis.append({'case': c, 'what': '; '.join(f)[:300]})
    for c in pcases + rewrite_corpus():
        f = oracle(c)
        if f: dis.append({'case': c, 'what': '; '.join(f)[:300]})
    allc = cases + pcases
    dist = {'writer_sources': {n: sum(1 for c in cases if c['_src'] == n) for n, _, _ in SOURCES},
            'c19_writers': {w: sum(1 for c in cases if c.get('writer') == w and c['_src'] == 'c19') for w in p_c19.WRITERS},
            'potable_targets': {t: sum(1 for c in pcases if c['target'] == t) for t in sorted(TARGET_MODELS)},
            'potable_failing_function': {w: sum(1 for c in pcases if c['where'] == w) for w in ('pair', 'embed', 'density', 'dipole', 'quadrupole')}}
    return {'evaluations': len(allc), 'cases': allc, 'nontrivial': core.distinct_count(allc),
            'rule': 'every writer (LAMMPS, DL_POLY, GULP, Excel, setfl, setfl_fs, ADP, funcfl, TABEAM, TABEAM_fs, Excel EAM/FS) on small generated models: recorded interleaving of evaluations and writes must be "all evaluations, one write"; '
                    'a fault is injected at every evaluation position k (quick: first/last + 40 sampled when more) and the file object must have received nothing; fixed large-volume cases (30001 rows: megabytes of text before the failing evaluation, faults in the second half) per kind of writer; '
                    'potable subprocess on every target with a formula that leaves its domain part-way (pair/embedding/density/dipole/quadrupole): non-zero exit and empty-or-absent output file; all cases are non-trivial',
            'samples': [{k: v for k, v in c.items()} for c in cases[:1]] + pcases[:2], 'distribution': dist, 'disagreements': dis[:20], 'oracle_cases': []}

def potable_corpus(full):
    """fixed potable cases: every target with the failure in every kind of function (full), or in its second pair potential (the first is written whole)"""
    wheres = {'pair': ['pair'], 'eam': ['pair', 'embed', 'density'], 'fs': ['pair', 'embed', 'density'], 'adp': ['pair', 'embed', 'density', 'dipole', 'quadrupole']}
    return [{'potable_fault': True, 'target': t, 'where': w, 'frac': 0.5} for t in sorted(TARGET_MODELS) for w in (wheres[TARGET_MODELS[t]] if (full or t in ('eam_adp', 'setfl', 'DL_POLY_EAM_fs')) else ['pair'])]

def search_cases(rng, n):
    for c in potable_corpus(True): yield c
    for c in large_corpus(True): yield c
    for c in rewrite_corpus(): yield c
    for k in range(min(n, 120)):
        c = gen_case(rng); c['_maxpos'] = 12
        yield c
        if k % 4 == 0: yield gen_potable(rng)
def finding_for(case, fails): return None
def replay_finding(f): return False
