(* How the consuming codes index the Finnis-Sinclair density functions of the files (hand-written from the
   formats' definitions; ASSUMED, neither code is installed here):

   LAMMPS pair_style eam/fs (setfl): the block of element b holds N density arrays, "density function rho(r)
     for element b at element 1, .., at element N"; the density at a site of type alpha contributed by a
     neighbour of type beta is read from the alpha-th array of element beta's block
     (pair_eam_fs.cpp: type2rhor[jtype][itype] -> rhor of element j, array i).
   DL_POLY EEAM (TABEAM): the density at a site of type alpha from a neighbour of type beta is the block
     "dens alpha beta".
   Excel workbook: column "alpha->beta" of the EAM-Density sheet.

   A file is abstracted by what it stores where: `fs_slot`s. *)
From V Require Import lib.Common lib.Layout.

(* element indices are positions in the file's element list *)
Definition setfl_fs_block (nels : nat) (b : nat) : list fnid := map (fun o => FDensFS o b) (seq 0 nels).
   (* the density arrays of element b's block, in file order (model/EamTables.v setfl_density) *)

Definition consumer_lammps (blocks : nat -> list fnid) (alpha beta : nat) : option fnid := nth_error (blocks beta) alpha.

(* TABEAM EEAM / Excel: blocks (columns) labelled by the ordered species pair *)
Definition consumer_labelled (labelled : list ((nat * nat) * fnid)) (alpha beta : nat) : option fnid :=
  option_map snd (find (fun e => Nat.eqb (fst (fst e)) alpha && Nat.eqb (snd (fst e)) beta) labelled).

(* the model: "central species a, neighbouring species b" is EAMPotential(a).electronDensityFunction[b] *)
Definition declared_density (a b : nat) : fnid := FDensFS a b.
