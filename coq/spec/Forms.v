(* Documented closed forms of the built-in potential forms, written by hand from
   docs/reference/potential_forms.rst and the __call__ docstrings of
   atsim/potentials/potentialfunctions.py, with the documented ("potable signature") parameter
   order as the argument order after r.  This file is the specification side of C06/C07: it never
   mentions the generated definitions. *)
From Coq Require Import Reals List.
Import ListNotations.
Local Open Scope R_scope.

(* Born-Mayer: A exp(-r/rho) *)
Definition spec_bornmayer (r A rho : R) : R := A * exp (- r / rho).
(* Buckingham: A exp(-r/rho) - C/r^6 *)
Definition spec_buck (r A rho C : R) : R := A * exp (- r / rho) - C / r ^ 6.
(* constant: C *)
Definition spec_constant (r C : R) : R := C.
(* Coulomb: qi qj / (4 pi eps0 r), eps0 = 0.0055264 (Angstrom, eV) *)
Definition eps0 : R := 55264 / 10000000.
Definition spec_coul (r qi qj : R) : R := (qi * qj) / (4 * PI * eps0 * r).
(* exponential: A r^n (real exponent; r > 0) *)
Definition spec_exponential (r A n : R) : R := A * Rpower r n.
(* exponential spline: exp(B0 + B1 r + ... + B5 r^5) + C *)
Definition spec_exp_spline (r B0 B1 B2 B3 B4 B5 C : R) : R :=
  exp (B0 + B1 * r + B2 * r ^ 2 + B3 * r ^ 3 + B4 * r ^ 4 + B5 * r ^ 5) + C.
(* hydrogen bond 12-10: A/r^12 - B/r^10 *)
Definition spec_hbnd (r A B : R) : R := A / r ^ 12 - B / r ^ 10.
(* Lennard-Jones: 4 eps (sigma^12/r^12 - sigma^6/r^6) *)
Definition spec_lj (r epsilon sigma : R) : R := 4 * epsilon * (sigma ^ 12 / r ^ 12 - sigma ^ 6 / r ^ 6).
(* Morse: D [exp(-2 gamma (r - r_star)) - 2 exp(-gamma (r - r_star))]; signature gamma r_star D *)
Definition spec_morse (r gamma r_star D : R) : R :=
  D * (exp (- 2 * gamma * (r - r_star)) - 2 * exp (- gamma * (r - r_star))).
(* polynomial: C0 + C1 r + ... + Cn r^n, any order *)
Fixpoint spec_polynomial_from (i : nat) (r : R) (coefs : list R) : R :=
  match coefs with
  | [] => 0
  | c :: cs => c * r ^ i + spec_polynomial_from (S i) r cs
  end.
Definition spec_polynomial (r : R) (coefs : list R) : R := spec_polynomial_from 0 r coefs.
(* square root: G sqrt(r) *)
Definition spec_sqrt (r G : R) : R := G * sqrt r.
(* zero *)
Definition spec_zero (r : R) : R := 0.

(* Tang-Toennies: V = [A exp(-b R) - sum_{n=3..5} f_2n(b R) C_2n / R^2n] * 27.211 with R = r / 0.5292
   (r in Angstrom, parameters in atomic units; the conversion is the one spelled out in _as_sympy),
   f_2n(x) = 1 - exp(-x) sum_{k=0..2n} x^k / k! *)
Definition tt_bohr : R := 5292 / 10000.
Definition tt_hartree : R := 27211 / 1000.
Fixpoint fact_R (n : nat) : R := match n with O => 1 | S m => INR (S m) * fact_R m end.
Fixpoint tsum (x : R) (n : nat) : R := match n with O => 1 | S m => tsum x m + x ^ (S m) / fact_R (S m) end.
Definition f2n (x : R) (n : nat) : R := 1 - exp (- x) * tsum x (2 * n).
Definition spec_tang_toennies (r A b C6 C8 C10 : R) : R :=
  let R_ := r / tt_bohr in
  (A * exp (- b * R_)
   - (f2n (b * R_) 3 * C6 / R_ ^ 6 + f2n (b * R_) 4 * C8 / R_ ^ 8 + f2n (b * R_) 5 * C10 / R_ ^ 10)) * tt_hartree.

(* ZBL universal screening (the cited closed form, = _as_sympy):
   V = 14.39942 z1 z2 / r * phi(r / a),  a = 0.8854 * 0.529 / (z1^0.23 + z2^0.23),
   phi(x) = 0.1818 e^(-3.2 x) + 0.5099 e^(-0.9423 x) + 0.2802 e^(-0.4029 x) + 0.02817 e^(-0.2016 x) *)
Definition zbl_phi (x : R) : R :=
  1818 / 10000 * exp (- (32 / 10) * x) + 5099 / 10000 * exp (- (9423 / 10000) * x)
  + 2802 / 10000 * exp (- (4029 / 10000) * x) + 2817 / 100000 * exp (- (2016 / 10000) * x).
Definition zbl_a (z1 z2 : R) : R := (8854 / 10000 * (529 / 1000)) / (Rpower z1 (23 / 100) + Rpower z2 (23 / 100)).
Definition spec_zbl (r z1 z2 : R) : R := 1439942 / 100000 * (z1 * z2) / r * zbl_phi (r / zbl_a z1 z2).
