(* C12: the custom potential-form evaluator (_Cexptrk_Potential_Function) as a state machine.
   Every [Potential-Form] owns ONE symbol table shared by all its uses; a call overwrites the table's variables with
   the call's arguments and then evaluates the form's expression, whose variable references read the table and whose
   calls to other forms overwrite THOSE forms' tables.  (Body of __call__ asserted on the AST, harness/gen_c12.py.)
   Forms are numbered so that a form only calls lower-numbered forms (definitions are not recursive). *)
From Coq Require Import QArith List.
Import ListNotations.
Local Open Scope Q_scope.

Inductive expr :=
| Var (i : nat)                       (* i-th parameter of the enclosing form *)
| Const (q : Q)
| Add (a b : expr) | Sub (a b : expr) | Mul (a b : expr)
| Un (f : Q -> Q) (a : expr)                          (* a built-in unary function or operator, e.g. -x, x^2, floor *)
| Bin (f : Q -> Q -> Q) (a b : expr)                  (* a built-in binary operator or function, e.g. x / y *)
| Tern (f : Q -> Q -> Q -> Q) (a b c : expr)          (* if(c, a, b) *)
| Call (j : nat) (args : exprs)       (* another potential form *)
with exprs := ENil | ECons (e : expr) (es : exprs).

Definition state := list (list Q).     (* symbol table (parameter values) of every form *)
Definition set_table (j : nat) (vals : list Q) (s : state) : state :=
  firstn j s ++ vals :: skipn (S j) s.
Definition callee := list Q -> state -> Q * state.

(* evaluation of the expression of form `self` in state s; `cs` are the callables of the forms it may call *)
Fixpoint eval (cs : list callee) (self : nat) (e : expr) (s : state) : Q * state :=
  match e with
  | Var i => (nth i (nth self s []) 0, s)
  | Const q => (q, s)
  | Add a b => let '(x, s1) := eval cs self a s in let '(y, s2) := eval cs self b s1 in (x + y, s2)
  | Sub a b => let '(x, s1) := eval cs self a s in let '(y, s2) := eval cs self b s1 in (x - y, s2)
  | Mul a b => let '(x, s1) := eval cs self a s in let '(y, s2) := eval cs self b s1 in (x * y, s2)
  | Un f a => let '(x, s1) := eval cs self a s in (f x, s1)
  | Bin f a b => let '(x, s1) := eval cs self a s in let '(y, s2) := eval cs self b s1 in (f x y, s2)
  | Tern f a b c => let '(x, s1) := eval cs self a s in let '(y, s2) := eval cs self b s1 in let '(z, s3) := eval cs self c s2 in (f x y z, s3)
  | Call j args =>
      let '(vals, s1) := eval_args cs self args s in
      match nth_error cs j with
      | Some c => c vals s1
      | None => (0, s1)               (* unknown function: a parse error in the implementation; excluded by wf *)
      end
  end
with eval_args (cs : list callee) (self : nat) (es : exprs) (s : state) : list Q * state :=
  match es with
  | ENil => ([], s)
  | ECons e es' => let '(x, s1) := eval cs self e s in let '(xs, s2) := eval_args cs self es' s1 in (x :: xs, s2)
  end.

(* __call__ of form j: bind the arguments into the form's own table, then evaluate its expression *)
Definition mk_call (cs : list callee) (j : nat) (body : expr) : callee :=
  fun vals s => eval cs j body (set_table j vals s).
Fixpoint build_from (bodies : list expr) (acc : list callee) : list callee :=
  match bodies with
  | [] => acc
  | b :: rest => build_from rest (acc ++ [mk_call acc (length acc) b])
  end.
Definition build_calls (bodies : list expr) : list callee := build_from bodies [].

(* the mathematical meaning: substitution of the arguments, no state *)
Definition pure := list Q -> Q.
Fixpoint den (ds : list pure) (env : list Q) (e : expr) : Q :=
  match e with
  | Var i => nth i env 0
  | Const q => q
  | Add a b => den ds env a + den ds env b
  | Sub a b => den ds env a - den ds env b
  | Mul a b => den ds env a * den ds env b
  | Un f a => f (den ds env a)
  | Bin f a b => f (den ds env a) (den ds env b)
  | Tern f a b c => f (den ds env a) (den ds env b) (den ds env c)
  | Call j args => match nth_error ds j with Some d => d (den_args ds env args) | None => 0 end
  end
with den_args (ds : list pure) (env : list Q) (es : exprs) : list Q :=
  match es with
  | ENil => []
  | ECons e es' => den ds env e :: den_args ds env es'
  end.
Fixpoint den_from (bodies : list expr) (acc : list pure) : list pure :=
  match bodies with
  | [] => acc
  | b :: rest => den_from rest (acc ++ [fun vals => den acc vals b])
  end.
Definition build_pure (bodies : list expr) : list pure := den_from bodies [].

(* well-formed: calls go to lower-numbered forms only *)
Fixpoint wf (n : nat) (e : expr) : Prop :=
  match e with
  | Var _ | Const _ => True
  | Add a b | Sub a b | Mul a b | Bin _ a b => wf n a /\ wf n b
  | Un _ a => wf n a
  | Tern _ a b c => wf n a /\ wf n b /\ wf n c
  | Call j args => (j < n)%nat /\ wf_args n args
  end
with wf_args (n : nat) (es : exprs) : Prop :=
  match es with ENil => True | ECons e es' => wf n e /\ wf_args n es' end.
Fixpoint wf_bodies_from (k : nat) (bodies : list expr) : Prop :=
  match bodies with [] => True | b :: rest => wf k b /\ wf_bodies_from (S k) rest end.
Definition wf_bodies (bodies : list expr) : Prop := wf_bodies_from 0 bodies.

(* a history of evaluations: (form, arguments) in any order and interleaving, threading the tables *)
Fixpoint run (cs : list callee) (h : list (nat * list Q)) (s : state) : list Q * state :=
  match h with
  | [] => ([], s)
  | (j, vals) :: h' =>
      let '(v, s1) := match nth_error cs j with Some c => c vals s | None => (0, s) end in
      let '(vs, s2) := run cs h' s1 in (v :: vs, s2)
  end.
