(* Splined potentials (atsim/potentials/spline/__init__.py, _modifiers.spline, potentialforms.buck4) over the
   callables of model/Callable.v.  The two linear systems are REGENERATED from the np.array literals (gen/Splines.v);
   numpy.linalg.solve is modelled by its contract only (`solves`: the returned vector satisfies the system);
   the glue restated here is asserted on the AST (harness/gen_c10.py). *)
From Coq Require Import Reals List Bool.
From V Require Import lib.RLib gen.PotFuncs gen.Splines model.Callable.
Import ListNotations.
Local Open Scope R_scope.

Fixpoint dot (row x : list R) : R :=
  match row, x with
  | a :: row', b :: x' => a * b + dot row' x'
  | _, _ => 0
  end.
(* x solves A x = rhs *)
Definition solves (A : list (list R)) (x rhs : list R) : Prop := map (fun row => dot row x) A = rhs.

(* Spline_Point(potential_function, r): v, deriv = gradient(f)(r), deriv2 = gradient(gradient(f))(r) *)
Record spoint := { sp_fn : callable; sp_r : R }.
Definition sp_dc (p : spoint) : callable := gradient (sp_fn p).
Definition sp_d2c (p : spoint) : callable := gradient (sp_dc p).
Definition sp_v (p : spoint) : R := cf (sp_fn p) (sp_r p).
Definition sp_d (p : spoint) : R := cf (sp_dc p) (sp_r p).
Definition sp_dd (p : spoint) : R := cf (sp_d2c p) (sp_r p).

(* Exp_Spline: values that are not positive are shifted upwards before taking logarithms; the shift comes back as
   the constant C = -inter of exp_spline *)
Definition exp_inter (sy ey : R) : R :=
  if Rle_dec sy 0 then 1 - Rmin sy ey else if Rle_dec ey 0 then 1 - Rmin sy ey else 0.
Definition exp_coeffs_ok (d a : spoint) (B : list R) (C : R) : Prop :=
  let inter := exp_inter (sp_v d) (sp_v a) in
  C = - inter /\ length B = 6%nat /\
  solves (exp_A (sp_r d) (sp_r a)) B (exp_rhs (sp_v d + inter) (sp_v a + inter) (sp_d d) (sp_d a) (sp_dd d) (sp_dd a)).
(* exp_spline applied to the coefficients: the potential form of gen/PotFuncs.v with its analytic derivatives *)
Definition exp_spline_callable (B : list R) (C : R) : callable :=
  let b i := nth i B 0 in
  {| cf := fun r => exp_spline_call r (b 0%nat) (b 1%nat) (b 2%nat) (b 3%nat) (b 4%nat) (b 5%nat) C;
     cd := Some (fun r => exp_spline_deriv r (b 0%nat) (b 1%nat) (b 2%nat) (b 3%nat) (b 4%nat) (b 5%nat) C);
     cd2 := Some (fun r => exp_spline_deriv2 r (b 0%nat) (b 1%nat) (b 2%nat) (b 3%nat) (b 4%nat) (b 5%nat) C) |}.

(* Buck4_Spline: polynomial of coefficients[:6] below r_min, polynomial of coefficients[6:] from r_min on *)
Definition buck4_coeffs_ok (d a : spoint) (r_min : R) (x : list R) : Prop :=
  length x = 10%nat /\
  solves (buck4_M (sp_r d) r_min (sp_r a)) x (buck4_V (sp_v d) (sp_d d) (sp_dd d) (sp_v a) (sp_d a) (sp_dd a)).
Definition poly_callable (coefs : list R) : callable :=
  {| cf := fun r => polynomial_call r coefs;
     cd := Some (fun r => polynomial_deriv r coefs);
     cd2 := Some (fun r => polynomial_deriv2 r coefs) |}.
Definition which_spline (r_min : R) (s5 s3 : callable) (r : R) : callable := if Rlt_dec r r_min then s5 else s3.
Definition buck4_spline_callable (r_min : R) (x : list R) : callable :=
  let s5 := poly_callable (firstn 6 x) in let s3 := poly_callable (skipn 6 x) in
  {| cf := fun r => cf (which_spline r_min s5 s3 r) r;
     cd := Some (fun r => match cd (which_spline r_min s5 s3 r) with Some f => f r | None => 0 end);
     cd2 := Some (fun r => match cd2 (which_spline r_min s5 s3 r) with Some f => f r | None => 0 end) |}.

(* Custom_SplinePotential(spline): start potential up to and including detach, end potential from attach on,
   the spline strictly in between; deriv / deriv2 select gradient(..) / gradient(gradient(..)) of the same three *)
Definition region {A} (detach attach r : R) (s m e : A) : A :=
  if Rle_dec r detach then s else if Rle_dec attach r then e else m.
Definition custom_spline (d a : spoint) (spl : callable) : callable :=
  let ip := {| sp_fn := spl; sp_r := 0 |} in
  {| cf := fun r => region (sp_r d) (sp_r a) r (cf (sp_fn d)) (cf spl) (cf (sp_fn a)) r;
     cd := if has_d (sp_fn d) || has_d (sp_fn a) || has_d spl
           then Some (fun r => region (sp_r d) (sp_r a) r (cf (sp_dc d)) (cf (sp_dc ip)) (cf (sp_dc a)) r) else None;
     cd2 := if has_d2 (sp_fn d) || has_d2 (sp_fn a) || has_d2 spl
            then Some (fun r => region (sp_r d) (sp_r a) r (cf (sp_d2c d)) (cf (sp_d2c ip)) (cf (sp_d2c a)) r) else None |}.

(* the three construction routes *)
Definition leaf3 (f f' f'' : R -> R) : callable := {| cf := f; cd := Some f'; cd2 := Some f'' |}.
Definition bornmayer_c (A rho : R) : callable :=
  leaf3 (fun r => bornmayer_call r A rho) (fun r => bornmayer_deriv r A rho) (fun r => bornmayer_deriv2 r A rho).
Definition buck_c (A rho C : R) : callable :=
  leaf3 (fun r => buck_call r A rho C) (fun r => buck_deriv r A rho C) (fun r => buck_deriv2 r A rho C).
(* SplinePotential(start, end, detach, attach) and the spline(>s0 START >=detach exp_spline >=attach END) modifier *)
Definition spline_potential (start fin : callable) (detach attach : R) (B : list R) (C : R) : callable :=
  custom_spline {| sp_fn := start; sp_r := detach |} {| sp_fn := fin; sp_r := attach |} (exp_spline_callable B C).
(* Buck4_SplinePotential(start, end, detach, attach, r_min), spline(.. buck4_spline r_min ..) *)
Definition buck4_spline_potential (start fin : callable) (detach attach r_min : R) (x : list R) : callable :=
  custom_spline {| sp_fn := start; sp_r := detach |} {| sp_fn := fin; sp_r := attach |} (buck4_spline_callable r_min x).
(* as.buck4 A rho C r_detach r_min r_attach *)
Definition buck4_form (A rho C r_detach r_min r_attach : R) (x : list R) : callable :=
  buck4_spline_potential (bornmayer_c A rho) (buck_c 0 1 C) r_detach r_attach r_min x.
(* its documented expansion: spline(as.buck A rho 0 >r_detach buck4_spline r_min >r_attach as.buck 0 1 C) *)
Definition buck4_expansion (A rho C r_detach r_min r_attach : R) (x : list R) : callable :=
  buck4_spline_potential (buck_c A rho 0) (buck_c 0 1 C) r_detach r_attach r_min x.
