(* Model of Multi_Range_Potential_Form: the range_defns setter (stable sort with the key made from
   _range_defn_cmp) followed by _range_search, and __call__/deriv/deriv2 on top of the selection.
   range_defn_cmp and range_search are REGENERATED from the Python source (gen/GenC08.v). *)
From V Require Import lib.Common lib.RangeTypes lib.Sorting gen.GenC08.
Local Open Scope Z_scope.

(* K(a) <= K(b) for functools.cmp_to_key keys *)
Definition key_leb (a b : rdef) : bool := (range_defn_cmp a b <=? 0).

Definition sorted_ranges (rs : list rdef) : list rdef := sort key_leb rs.

(* the range a Multi_Range_Potential_Form built from `rs` (in listing order) selects at r *)
Definition mr_select (rs : list rdef) (r : Z) : option rdef := range_search (sorted_ranges rs) r.

(* __call__, deriv and deriv2: value of the selected sub-potential's function, else the default.
   `f i` stands for the i-th sub-potential's energy / first / second derivative callable at r. *)
Definition mr_eval {V : Type} (default : V) (f : nat -> V) (rs : list rdef) (r : Z) : V :=
  match mr_select rs r with
  | None => default
  | Some d => f (r_id d)
  end.

(* does the range contain r *)
Definition contains (d : rdef) (r : Z) : bool :=
  match r_type d with
  | GE => (r_start d <=? r)
  | GT => (r_start d <? r)
  end.

Definition rkey (d : rdef) : Z * rtype := (r_start d, r_type d).

(* last element of a list satisfying p *)
Fixpoint last_such {A} (p : A -> bool) (l : list A) (acc : option A) : option A :=
  match l with
  | [] => acc
  | x :: l' => last_such p l' (if p x then Some x else acc)
  end.
Definition last_containing (l : list rdef) (r : Z) : option rdef := last_such (fun d => contains d r) l None.

(* a potable definition written without a leading range marker: one range with the parser's default start *)
Definition default_range (i : nat) : rdef := {| r_type := default_range_type; r_start := default_range_start; r_id := i |}.
