(* EAM_Potential_Builder: order of the elements of an EAM tabulation built from a potable file, and the
   precedence of per-element metadata (Reference_Data.get with the [Species] section as extra_data). *)
From V Require Import lib.Common.
Local Open Scope Z_scope.

Definition mem (x : Z) (l : list Z) : bool := existsb (Z.eqb x) l.

(* a dictionary keeps the position of the first insertion of a key *)
Fixpoint dedup (l : list Z) (seen : list Z) : list Z :=
  match l with
  | [] => []
  | x :: l' => if mem x seen then dedup l' seen else x :: dedup l' (x :: seen)
  end.

Fixpoint insert_sorted (x : Z) (l : list Z) : list Z :=
  match l with
  | [] => [x]
  | y :: l' => if x =? y then l else if x <? y then x :: l else y :: insert_sorted x l'
  end.
Definition sort_unique (l : list Z) : list Z := fold_left (fun acc x => insert_sorted x acc) l [].

(* species labels are ranks, so that sorted() on labels is the order on ids.
   embed: species of the [EAM-Embed] entries in file order; dens: species mentioned by [EAM-Density] entries
   (both species of an A->B key for Finnis-Sinclair) *)
Definition builder_order (embed dens : list Z) : list Z :=
  let e := dedup embed [] in
  e ++ sort_unique (filter (fun s => negb (mem s e)) dens).

(* metadata precedence: [Species] override, else built-in element table, else the documented default;
   no default (atomic number, mass) -> configuration error *)
Definition metadata {V} (species_section builtin default : option V) : result V :=
  match species_section, builtin, default with
  | Some v, _, _ => Ok v
  | None, Some v, _ => Ok v
  | None, None, Some d => Ok d
  | None, None, None => CfgErr
  end.
