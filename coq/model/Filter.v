(* FilteredConfigParser (C13): filtered views of the parsed pair / embedding / density lists.
   check_tuple is REGENERATED from the source (gen/GenFilter.v). *)
From V Require Import lib.Common model.Store gen.GenFilter.
Local Open Scope nat_scope.

(* species mentioned by an entry *)
Definition key_species (k : key) : list label :=
  match k with KPair a b => [a; b] | KSp a => [a] | KFS a b => [a; b] | _ => [] end.

Record view := { v_exclude : bool; v_species : list label }.
(* FilteredConfigParser(cp, exclude=S) / (cp, include=S) *)
Definition view_exclude (S : list label) : view := {| v_exclude := true; v_species := S |}.
Definition view_include (S : list label) : view := {| v_exclude := false; v_species := S |}.

Definition keeps (v : view) (k : key) : bool := check_tuple (v_species v) (v_exclude v) (key_species k).

(* .pair / .eam_embed / .eam_density / .eam_density_fs of a view: the wrapped parser's list, filtered *)
Definition view_entries {V} (v : view) (es : list (key * V)) : list (key * V) := filter (fun kv => keeps v (fst kv)) es.

(* the file edited by hand: every line of the pair / embedding / density sections that mentions an unwanted species
   is deleted; everything else is left as it is *)
Definition filterable (s : sect) : bool := match s with SPair | SEmbed | SDensity => true | SOther _ => false | _ => false end.
Definition offending (v : view) (k : key) : bool :=
  if v_exclude v then existsb (fun x => existsb (Nat.eqb x) (v_species v)) (key_species k)
  else existsb (fun x => negb (existsb (Nat.eqb x) (v_species v))) (key_species k).
Definition hand_delete {V} (v : view) (f : rawfile V) : rawfile V :=
  map (fun se => if filterable (fst se) then (fst se, filter (fun e => negb (offending v (e_key e))) (snd se)) else se) f.

(* several views of one parsed file: each keeps its own settings (stored on the proxy itself).
   A history creates views and reads through them. *)
Inductive vop := Create (v : view) | Read (i : nat).
Definition vstate := list view.
Definition vstep {V} (es : list (key * V)) (st : vstate) (o : vop) : vstate * option (list (key * V)) :=
  match o with
  | Create v => (st ++ [v], None)
  | Read i => (st, option_map (fun v => view_entries v es) (nth_error st i))
  end.
(* the same with the settings stored on the shared wrapped parser (the behaviour before the repair):
   every view reads with the settings of the most recently created one *)
Definition vstep_shared {V} (es : list (key * V)) (st : vstate) (o : vop) : vstate * option (list (key * V)) :=
  match o with
  | Create v => (st ++ [v], None)
  | Read i => (st, match nth_error st i with Some _ => option_map (fun v => view_entries v es) (nth_error st (length st - 1)) | None => None end)
  end.
Fixpoint vrun {V} (step : vstate -> vop -> vstate * option (list (key * V))) (st : vstate) (ops : list vop) : list (option (list (key * V))) :=
  match ops with
  | [] => []
  | o :: r => let '(st', out) := step st o in out :: vrun step st' r
  end.
