(* Callables with optional analytic derivatives, and the combinators of atsim/potentials/__init__.py,
   _util.py (gradient, num_deriv) and _modifiers.py (trans) on top of the REGENERATED closures of
   gen/Combinators.v.  Python's "has a .deriv attribute" is `cd = Some _`. *)
From Coq Require Import Reals List Bool.
From V Require Import lib.RLib gen.Combinators.
Import ListNotations.
Local Open Scope R_scope.
Local Open Scope bool_scope.

Record callable := { cf : R -> R; cd : option (R -> R); cd2 : option (R -> R) }.

Definition has_d (c : callable) : bool := match cd c with Some _ => true | None => false end.
Definition has_d2 (c : callable) : bool := match cd2 c with Some _ => true | None => false end.

(* gradient(func, h) = _GradientWrapper: calling it gives func.deriv(r) when func has one, else
   num_deriv(r, func, h); it has a .deriv exactly when func has .deriv2 (delegating to it); never .deriv2 *)
Definition gradient_h (h : R) (c : callable) : callable :=
  {| cf := match cd c with Some d => d | None => fun r => num_deriv r (cf c) h end;
     cd := cd2 c;
     cd2 := None |}.
Definition gradient := gradient_h num_deriv_default_h.

(* plus(a, b), product(a, b), pow(a, b): `mk` is the shared wiring (the hasattr tests and the
   gradient() calls, asserted to be unchanged by the generator), the three closures are generated *)
Definition comb3 (pot : (R -> R) -> (R -> R) -> R -> R)
                   (der : (R -> R) -> (R -> R) -> (R -> R) -> (R -> R) -> R -> R)
                   (der2 : (R -> R) -> (R -> R) -> (R -> R) -> (R -> R) -> (R -> R) -> (R -> R) -> R -> R)
                   (a b : callable) : callable :=
  let deriv_a := gradient a in let deriv_b := gradient b in
  let deriv2_a := gradient deriv_a in let deriv2_b := gradient deriv_b in
  {| cf := pot (cf a) (cf b);
     cd := if has_d a || has_d b then Some (der (cf a) (cf b) (cf deriv_a) (cf deriv_b)) else None;
     cd2 := if (has_d a || has_d b) && (has_d deriv_a || has_d deriv_b)
            then Some (der2 (cf a) (cf b) (cf deriv_a) (cf deriv_b) (cf deriv2_a) (cf deriv2_b)) else None |}.

Definition c_plus := comb3 plus_call (fun _ _ da db => plus_deriv da db) (fun _ _ _ _ d2a d2b => plus_deriv2 d2a d2b).
Definition c_product := comb3 product_call product_deriv product_deriv2.
Definition c_pow := comb3 pow_call pow_deriv pow_deriv2.

(* trans(f, as.constant X) *)
Definition c_trans (f : callable) (X : R) : callable :=
  {| cf := trans_call (cf f) X;
     cd := option_map (fun d => trans_deriv d X) (cd f);
     cd2 := option_map (fun d => trans_deriv2 d X) (cd2 f) |}.

(* sum(...), product(...), pow(...) modifiers: functools.reduce over the argument potentials *)
Definition reduce (op : callable -> callable -> callable) (first : callable) (rest : list callable) : callable :=
  fold_left op rest first.

(* Potential.force = - gradient(energy, h) *)
Definition force (h : R) (energy : callable) (r : R) : R := - cf (gradient_h h energy) r.

(* Multi_Range_Potential_Form over callables: `select r` is the index of the range selected at r (C08);
   every Multi_Range_Defn carries deriv = gradient(form) and deriv2 = gradient(gradient(form)); the class
   returned by create_Multi_Range_Potential_Form offers deriv if any range has deriv or deriv2, and deriv2 if
   any range has deriv2; below the first range value and derivatives are 0 *)
Definition zero_callable : callable := {| cf := fun _ => 0; cd := None; cd2 := None |}.
Definition c_multi (select : R -> option nat) (cs : list callable) : callable :=
  let pick (g : callable -> callable) (r : R) : R :=
      match select r with None => 0 | Some i => cf (g (nth i cs zero_callable)) r end in
  {| cf := pick (fun c => c);
     cd := if existsb has_d cs || existsb has_d2 cs then Some (pick gradient) else None;
     cd2 := if existsb has_d2 cs then Some (pick (fun c => gradient (gradient c))) else None |}.

(* potential expressions of any nesting depth *)
Inductive pexpr :=
| Leaf (c : callable)
| Plus (a b : pexpr)
| Product (a b : pexpr)
| Pow (a b : pexpr)
| Trans (a : pexpr) (X : R).

Fixpoint build (e : pexpr) : callable :=
  match e with
  | Leaf c => c
  | Plus a b => c_plus (build a) (build b)
  | Product a b => c_product (build a) (build b)
  | Pow a b => c_pow (build a) (build b)
  | Trans a X => c_trans (build a) X
  end.

(* pointwise mathematical meaning, independent of the code *)
Fixpoint denote (e : pexpr) (r : R) : R :=
  match e with
  | Leaf c => cf c r
  | Plus a b => denote a r + denote b r
  | Product a b => denote a r * denote b r
  | Pow a b => Rpower (denote a r) (denote b r)
  | Trans a X => denote a (r + X)
  end.
