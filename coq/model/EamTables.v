(* Layout models of the EAM writers: setfl (eam/alloy), setfl Finnis-Sinclair (eam/fs), ADP, funcfl
   (_lammpsWriteEAM.py, eam_tabulation.py), DL_POLY TABEAM / EEAM (_dlpoly_writeTABEAM.py) and the Excel
   EAM workbooks.  Sample positions and steps are the REGENERATED formulas of gen/GridArith.v. *)
From V Require Import lib.Common lib.Layout lib.Sorting gen.GridArith model.PairTables.
Local Open Scope Q_scope.

Record element := { el_sp : Z;      (* species id *)
                    el_Z : Z;       (* atomic number *)
                    el_mass : Q; el_a0 : Q;
                    el_lat : Z }.   (* lattice type, as a label id *)

(* pair potential used for elements (a, b): the LAST declared one whose two species are {a, b} in either
   order (dictionary keyed by the sorted pair); None = no potential declared -> zero function *)
Definition find_pair (a b : Z) (pairs : list pot) : option nat :=
  last_with (if (a <=? b)%Z then (a, b) else (b, a)) (indexed pairs) None.

Definition F_el : Z := F_s.

(* ---------------- setfl ---------------- *)
Definition setfl_header (comments : list Z) (els : list element) (nrho : Z) (drho : Q) (nr : Z) (dr cutoff : Q) : list item :=
  flat_map (fun c => [IStr F_s c; nl]) comments
  ++ [IInt F_d (Z.of_nat (length els))] ++ flat_map (fun e => [sp; IStr F_s (el_sp e)]) els ++ [nl]
  ++ [IInt F_d nrho; sp; sp; IQ F_2016e drho; sp; IInt F_d nr; sp; sp; IQ F_2016e dr; sp; sp; IQ F_2016e cutoff; nl].

Definition setfl_element_header (e : element) : list item :=
  [IInt F_d (el_Z e); sp; IQ F_2016e (el_mass e); sp; IQ F_2016e (el_a0 e); sp; IStr F_s (el_lat e); nl].

Definition column (fn : fnid) (n : Z) (step : Q) (sc : scale) : list item :=
  flat_map (fun i => [IVal F_s2016e [mkev fn KCall (setfl_sample i step)] (fun _ => sc); nl]) (zseq 0 (Z.to_nat n)).
Definition zero_column (n : Z) : list item :=
  flat_map (fun i => [IQ F_s2016e 0; nl]) (zseq 0 (Z.to_nat n)).

(* density part of the block of element x (index ix): plain EAM: its own density; Finnis-Sinclair: for every
   element o (in element order) the function EAMPotential(o).electronDensityFunction[x] *)
Definition setfl_density (fs : bool) (nels : nat) (ix : nat) (nr : Z) (dr : Q) : list item :=
  if fs then flat_map (fun io => column (FDensFS io ix) nr dr SPlain) (seq 0 nels)
  else column (FDens ix) nr dr SPlain.

Definition setfl_element_block (fs : bool) (nels : nat) (nrho : Z) (drho : Q) (nr : Z) (dr : Q) (ie : nat * element) : list item :=
  let '(ix, e) := ie in
  setfl_element_header e ++ column (FEmbed ix) nrho drho SPlain ++ setfl_density fs nels ix nr dr.

(* lower-triangular pair blocks (i, j <= i) in element order; mkfn says which declared function list is used *)
Definition setfl_pairs (mkfn : nat -> fnid) (sc : scale) (els : list element) (pairs : list pot) (nr : Z) (dr : Q) : list item :=
  flat_map (fun i =>
    flat_map (fun j =>
      match find_pair (el_sp (nth i els {| el_sp := 0; el_Z := 0; el_mass := 0; el_a0 := 0; el_lat := 0 |}))
                      (el_sp (nth j els {| el_sp := 0; el_Z := 0; el_mass := 0; el_a0 := 0; el_lat := 0 |})) pairs with
      | Some k => column (mkfn k) nr dr sc
      | None => zero_column nr
      end) (seq 0 (S i))) (seq 0 (length els)).

Definition setfl_body (fs : bool) (comments : list Z) (els : list element) (pairs : list pot)
                      (nrho : Z) (drho : Q) (nr : Z) (dr cutoff : Q) : list item :=
  setfl_header comments els nrho drho nr dr cutoff
  ++ flat_map (setfl_element_block fs (length els) nrho drho nr dr) (indexed els)
  ++ setfl_pairs FPair STimesArg els pairs nr dr.

(* writeSetFL / writeSetFLFinnisSinclair with an explicit cutoff argument (None -> nr * dr) *)
Definition write_setfl (fs : bool) (comments : list Z) (els : list element) (pairs : list pot)
                       (nrho : Z) (drho : Q) (nr : Z) (dr : Q) (cutoff : option Q) : list item :=
  setfl_body fs comments els pairs nrho drho nr dr (match cutoff with Some c => c | None => setfl_default_cutoff nr dr end).

(* SetFL_EAMTabulation / SetFL_FS_EAMTabulation .write: grid from (cutoff, nr, cutoff_rho, nrho); the header cutoff is nr*dr *)
Definition setfl_tabulation (fs : bool) (els : list element) (pairs : list pot) (cutoff : Q) (nr : Z) (cutoff_rho : Q) (nrho : Z)
                            (blank : Z) : list item :=
  write_setfl fs [blank; blank; blank] els pairs nrho (eam_drho cutoff_rho nrho) nr (pair_dr cutoff nr) None.

(* ADP_EAMTabulation.write: the setfl file, then dipole and quadrupole functions, unscaled *)
Definition adp_tabulation (els : list element) (pairs dips quads : list pot) (cutoff : Q) (nr : Z) (cutoff_rho : Q) (nrho : Z)
                          (blank : Z) : list item :=
  setfl_tabulation false els pairs cutoff nr cutoff_rho nrho blank
  ++ setfl_pairs FDip SPlain els dips nr (pair_dr cutoff nr)
  ++ setfl_pairs FQuad SPlain els quads nr (pair_dr cutoff nr).

(* ---------------- funcfl ---------------- *)
(* evaluation order: embedding values, density values, pair energies; print order: embedding, charges, density *)
Fixpoint value_block_run (fmt : Z) (mk : nat -> item) (n : nat) (k : nat) (i : nat) : list item * nat :=
  (* k: next value index, i: values already on the current line; returns items and final i *)
  match n with
  | O => ([], i)
  | S n' => let i' := S i in
            if Nat.eqb i' 5 then let '(rest, fi) := value_block_run fmt mk n' (S k) 0 in ([sp; mk k; nl] ++ rest, fi)
            else let '(rest, fi) := value_block_run fmt mk n' (S k) i' in ([sp; mk k] ++ rest, fi)
  end.
(* a None separator: newline unless the previous run ended exactly at a line end *)
Definition block_sep (i : nat) : list item := if Nat.eqb i 0 then [] else [nl].

Definition L_title : Z := 30.
Definition funcfl_file (title : Z) (e : element) (nrho : Z) (drho : Q) (nr : Z) (dr : Q) : list item :=
  let nrho' := Z.to_nat nrho in let nr' := Z.to_nat nr in
  let embed_evs := map (fun i => mkev (FEmbed 0) KCall (setfl_sample i drho)) (zseq 0 nrho') in
  let dens_evs := map (fun i => mkev (FDens 0) KCall (setfl_sample i dr)) (zseq 0 nr') in
  let pair_evs := map (fun i => mkev (FPair 0) KCall (setfl_sample i dr)) (zseq 0 nr') in
  let '(b1, i1) := value_block_run F_s2016e (fun k => IRef F_s2016e k SPlain) nrho' 0 0 in
  let '(b2, i2) := value_block_run F_s2016e (fun k => IRef F_s2016e (nrho' + nr' + k) SFuncfl) nr' 0 0 in
  let '(b3, i3) := value_block_run F_s2016e (fun k => IRef F_s2016e (nrho' + k) SPlain) nr' 0 0 in
  [IStr F_s title; nl;
   IInt F_d (el_Z e); sp; IQ F_f (el_mass e); sp; IQ F_f (el_a0 e); sp; IStr F_s (el_lat e); nl;
   IInt F_d nrho; sp; IQ F_f drho; sp; IInt F_d nr; sp; IQ F_f dr; sp; IQ F_f (funcfl_cutoff dr nr); nl;
   IDo (embed_evs ++ dens_evs ++ pair_evs)]
  ++ b1 ++ block_sep i1 ++ b2 ++ block_sep i2 ++ b3.

(* ---------------- DL_POLY TABEAM ---------------- *)
Fixpoint rows_of_four (cells : list item) (i : nat) : list item :=
  (* "%f" values, four per line joined by single blanks, shorter last line *)
  match cells with
  | [] => if Nat.eqb i 0 then [] else [nl]
  | c :: rest => (if Nat.eqb i 0 then [c] else [sp; c]) ++ (if Nat.eqb (S i) 4 then nl :: rows_of_four rest 0 else rows_of_four rest (S i))
  end.
Definition tab_values (cell : Z -> item) (n : Z) : list item := rows_of_four (map cell (zseq 0 (Z.to_nat n))) 0.
Definition tab_fn (fn : fnid) (n : Z) (step : Q) : list item :=
  tab_values (fun i => IVal F_f [mkev fn KCall (tabeam_sample i step)] (fun _ => SPlain)) n.
Definition tab_zero (n : Z) : list item := tab_values (fun _ => IQ F_f 0) n.

(* sorted([ep.species for ep in eampots]) *)
Definition sorted_species (els : list element) : list Z := sort Z.leb (map el_sp els).

(* all unordered element pairs in sorted order: the code collects tuple(sorted([i.species, j.species])) for all
   i, j in a set and iterates sorted(set).  For distinct elements that is (s_i, s_j), i <= j, over the sorted
   species s_0 < s_1 < ..., in lexicographic order. *)
Fixpoint tri_keys (ss : list Z) : list (Z * Z) :=
  match ss with
  | [] => []
  | s :: rest => map (fun t => (s, t)) (s :: rest) ++ tri_keys rest
  end.
Definition all_pair_keys (els : list element) : list (Z * Z) := tri_keys (sorted_species els).

Definition tabeam_pairs (els : list element) (pairs : list pot) (nr : Z) (dr : Q) : list item :=
  flat_map (fun k =>
    match last_with k (indexed pairs) None with
    | Some i => let p := nth i pairs {| p_a := 0; p_b := 0; p_hasd := false |} in
                [ILit L_pair; IStr F_s (p_a p); sp; IStr F_s (p_b p); sp; IInt F_d nr; ILit L_zero_sp; IQ F_f (tabeam_end nr dr); nl]
                ++ tab_fn (FPair i) nr dr
    | None => [ILit L_pair; IStr F_s (fst k); sp; IStr F_s (snd k); sp; IInt F_d nr; ILit L_zero_sp; IQ F_f (tabeam_end nr dr); nl]
              ++ tab_zero nr
    end) (all_pair_keys els).

Definition tabeam_embed (nrho : Z) (drho : Q) (ie : nat * element) : list item :=
  [ILit L_embe; IStr F_s (el_sp (snd ie)); sp; IInt F_d nrho; ILit L_zero_sp; IQ F_f (tabeam_end nrho drho); nl]
  ++ tab_fn (FEmbed (fst ie)) nrho drho.

Definition tabeam_file (fs : bool) (els : list element) (pairs : list pot) (nrho : Z) (drho : Q) (nr : Z) (dr : Q) : list item :=
  let n := Z.of_nat (length els) in
  [ILit L_title100; nl; IQ F_d (if fs then tabeam_count_fs n else tabeam_count n); nl]
  ++ tabeam_pairs els pairs nr dr
  ++ flat_map (tabeam_embed nrho drho) (indexed els)
  ++ (if fs then
        (* for every element a (in element order) and every species b in sorted order: EAMPotential(a).density[b] *)
        flat_map (fun ia =>
          flat_map (fun b =>
            match find (fun jb => (el_sp (snd jb) =? b)%Z) (indexed els) with
            | Some jb => [ILit L_dens; IStr F_s (el_sp (snd ia)); sp; IStr F_s b; sp; IInt F_d nr; ILit L_zero_sp; IQ F_f (tabeam_end nr dr); nl]
                         ++ tab_fn (FDensFS (fst ia) (fst jb)) nr dr
            | None => []
            end) (sorted_species els)) (indexed els)
      else
        flat_map (fun ia => [ILit L_dens; IStr F_s (el_sp (snd ia)); sp; IInt F_d nr; ILit L_zero_sp; IQ F_f (tabeam_end nr dr); nl]
                            ++ tab_fn (FDens (fst ia)) nr dr) (indexed els)).
