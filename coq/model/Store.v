(* The potable input file as a store, and the operations of ConfigParser on it.
   Text-level lexing (how a key is written, with which blanks) is by generation: a key is its structure plus a
   "spelling" number that only selects the whitespace the harness prints; normalisation (optionxform:
   strip, remove blanks and tabs) forgets the spelling, so two keys are the same option iff their structure is. *)
From V Require Import lib.Common.
Local Open Scope nat_scope.

Definition label := nat.

Inductive key :=
| KPair (a b : label)                 (* A-B *)
| KSp (a : label)                     (* SPECIES      ([EAM-Embed], [EAM-Density]) *)
| KFS (a b : label)                   (* A->B         ([EAM-Density], Finnis-Sinclair) *)
| KSig (name : label) (params : list label)   (* name(r, p1, ..)   ([Potential-Form]) *)
| KOpt (n : label).                   (* any other option: nr, cutoff, x, y, SPECIES.property, variable names ... *)

Inductive sect :=
| SPair | SEmbed | SDensity | SForm | STabulation | SSpecies | SVariables
| STable (name : label) (spelling : nat)      (* [Table-Form:name], blanks around the name vary with the spelling *)
| SOther (n : label).                         (* EAM-ADP-Dipole, EAM-ADP-Quadrupole, user sections *)

Fixpoint list_eqb (l1 l2 : list nat) : bool :=
  match l1, l2 with
  | [], [] => true
  | x :: r1, y :: r2 => Nat.eqb x y && list_eqb r1 r2
  | _, _ => false
  end.
Definition key_eqb (k1 k2 : key) : bool :=
  match k1, k2 with
  | KPair a b, KPair c d => Nat.eqb a c && Nat.eqb b d
  | KSp a, KSp c => Nat.eqb a c
  | KFS a b, KFS c d => Nat.eqb a c && Nat.eqb b d
  | KSig n p, KSig m q => Nat.eqb n m && list_eqb p q
  | KOpt n, KOpt m => Nat.eqb n m
  | _, _ => false
  end.
(* INI section names are compared as written: two spellings of a table-form name are different INI sections *)
Definition sect_eqb (s1 s2 : sect) : bool :=
  match s1, s2 with
  | SPair, SPair | SEmbed, SEmbed | SDensity, SDensity | SForm, SForm | STabulation, STabulation
  | SSpecies, SSpecies | SVariables, SVariables => true
  | STable n sp, STable m sq => Nat.eqb n m && Nat.eqb sp sq
  | SOther n, SOther m => Nat.eqb n m
  | _, _ => false
  end.

Lemma list_eqb_eq l1 l2 : list_eqb l1 l2 = true <-> l1 = l2.
Proof.
  revert l2; induction l1 as [|x l1 IH]; intros [|y l2]; cbn; split; try discriminate; try reflexivity.
  - intro H. apply andb_true_iff in H. destruct H as [H1 H2]. apply Nat.eqb_eq in H1. apply IH in H2. subst. reflexivity.
  - intros [= -> ->]. rewrite Nat.eqb_refl. apply IH. reflexivity.
Qed.
Lemma key_eqb_eq k1 k2 : key_eqb k1 k2 = true <-> k1 = k2.
Proof.
  destruct k1, k2; cbn; split; try discriminate; intro H;
  try (apply andb_true_iff in H; destruct H as [H1 H2]); try apply Nat.eqb_eq in H; try apply Nat.eqb_eq in H1; try apply Nat.eqb_eq in H2;
  try apply list_eqb_eq in H2; subst; try reflexivity;
  try (injection H as -> ->; rewrite ?Nat.eqb_refl; try reflexivity; apply list_eqb_eq; reflexivity);
  try (injection H as ->; apply Nat.eqb_refl).
Qed.
Lemma sect_eqb_eq s1 s2 : sect_eqb s1 s2 = true <-> s1 = s2.
Proof.
  destruct s1, s2; cbn; split; try discriminate; try reflexivity; intro H;
  try (apply andb_true_iff in H; destruct H as [H1 H2]; apply Nat.eqb_eq in H1; apply Nat.eqb_eq in H2; subst; reflexivity);
  try (apply Nat.eqb_eq in H; subst; reflexivity);
  try (injection H as -> ->; rewrite !Nat.eqb_refl; reflexivity);
  try (injection H as ->; apply Nat.eqb_refl).
Qed.

(* ---------------- raw file (what is written) and store (what the parser holds) ---------------- *)
Record entry (V : Type) := mkentry { e_key : key; e_spelling : nat; e_val : V }.
Arguments mkentry {V}. Arguments e_key {V}. Arguments e_spelling {V}. Arguments e_val {V}.

Definition rawfile (V : Type) := list (sect * list (entry V)).
Definition store (V : Type) := list (sect * list (key * V)).

Section Ops.
  Variable V : Type.

  Definition forget_entry (e : entry V) : key * V := (e_key e, e_val e).
  Definition forget (f : rawfile V) : store V := map (fun se => (fst se, map forget_entry (snd se))) f.

  Definition has_key (k : key) (es : list (key * V)) : bool := existsb (fun kv => key_eqb (fst kv) k) es.
  Fixpoint nodup_keys (es : list (key * V)) : bool :=
    match es with [] => true | kv :: r => negb (has_key (fst kv) r) && nodup_keys r end.
  Definition has_sect (s : sect) (st : store V) : bool := existsb (fun se => sect_eqb (fst se) s) st.
  Fixpoint nodup_sects (st : store V) : bool :=
    match st with [] => true | se :: r => negb (has_sect (fst se) r) && nodup_sects r end.

  (* strict INI parsing: a repeated section header or a repeated (normalised) key is a configuration error *)
  Definition parse (f : rawfile V) : result (store V) :=
    let st := forget f in
    if nodup_sects st && forallb (fun se => nodup_keys (snd se)) st then Ok st else CfgErr.

  Definition section (s : sect) (st : store V) : option (list (key * V)) :=
    option_map snd (find (fun se => sect_eqb (fst se) s) st).
  Definition has_option (s : sect) (k : key) (st : store V) : bool :=
    match section s st with Some es => has_key k es | None => false end.
  Definition lookup (s : sect) (k : key) (st : store V) : option V :=
    match section s st with Some es => option_map snd (find (fun kv => key_eqb (fst kv) k) es) | None => None end.

  (* dictionary operations: assignment to an existing key keeps its position, a new key is appended *)
  Fixpoint set_key (k : key) (v : V) (es : list (key * V)) : list (key * V) :=
    match es with
    | [] => [(k, v)]
    | kv :: r => if key_eqb (fst kv) k then (k, v) :: r else kv :: set_key k v r
    end.
  Definition del_key (k : key) (es : list (key * V)) : list (key * V) := filter (fun kv => negb (key_eqb (fst kv) k)) es.

  Fixpoint update_sect (s : sect) (f : list (key * V) -> list (key * V)) (st : store V) : store V :=
    match st with
    | [] => []
    | se :: r => if sect_eqb (fst se) s then (fst se, f (snd se)) :: r else se :: update_sect s f r
    end.
  Definition drop_if_empty (s : sect) (st : store V) : store V :=
    filter (fun se => negb (sect_eqb (fst se) s && is_nil (snd se))) st.

  (* ConfigParser(fp, overrides, additional): override (value None = remove; an emptied section is dropped), then add *)
  Inductive op := Override (s : sect) (k : key) (v : V) | Remove (s : sect) (k : key) | Add (s : sect) (k : key) (v : V).

  Definition apply_op (st : store V) (o : op) : result (store V) :=
    match o with
    | Override s k v => if has_option s k st then Ok (update_sect s (set_key k v) st) else CfgErr
    | Remove s k => if has_option s k st then Ok (drop_if_empty s (update_sect s (del_key k) st)) else CfgErr
    | Add s k v => if has_option s k st then CfgErr
                   else if has_sect s st then Ok (update_sect s (set_key k v) st)
                   else Ok (st ++ [(s, [(k, v)])])
    end.
  Fixpoint apply_ops (st : store V) (ops : list op) : result (store V) :=
    match ops with
    | [] => Ok st
    | o :: r => match apply_op st o with Ok st' => apply_ops st' r | CfgErr => CfgErr | Internal => Internal end
    end.

  (* the same edits made by hand in the file: change the value on the line, delete the line (and the header of a
     section left without lines), append a line to the section or a new section at the end of the file *)
  Definition raw_has (s : sect) (k : key) (f : rawfile V) : bool := has_option s k (forget f).
  Fixpoint raw_set (k : key) (sp : nat) (v : V) (es : list (entry V)) : list (entry V) :=
    match es with
    | [] => [mkentry k sp v]
    | e :: r => if key_eqb (e_key e) k then mkentry (e_key e) (e_spelling e) v :: r else e :: raw_set k sp v r
    end.
  Fixpoint raw_update (s : sect) (g : list (entry V) -> list (entry V)) (f : rawfile V) : rawfile V :=
    match f with
    | [] => []
    | se :: r => if sect_eqb (fst se) s then (fst se, g (snd se)) :: r else se :: raw_update s g r
    end.
  Definition hand_edit_op (f : rawfile V) (sp : nat) (o : op) : option (rawfile V) :=
    match o with
    | Override s k v => if raw_has s k f then Some (raw_update s (raw_set k sp v) f) else None
    | Remove s k => if raw_has s k f
                    then Some (filter (fun se => negb (sect_eqb (fst se) s && is_nil (snd se)))
                                      (raw_update s (filter (fun e => negb (key_eqb (e_key e) k))) f))
                    else None
    | Add s k v => if raw_has s k f then None
                   else if has_sect s (forget f) then Some (raw_update s (raw_set k sp v) f)
                   else Some (f ++ [(s, [mkentry k sp v])])
    end.
  Fixpoint hand_edit (f : rawfile V) (sp : nat) (ops : list op) : option (rawfile V) :=
    match ops with
    | [] => Some f
    | o :: r => match hand_edit_op f sp o with Some f' => hand_edit f' sp r | None => None end
    end.

  (* potable command line: all --override-item options, then all --remove-item options, then the --add-item options,
     each group in the order given; nothing is collated (fix 3dcaed8: they used to be put in a dictionary keyed by the
     label as typed) *)
  Definition cli_ops (overrides removes additions : list op) : list op := overrides ++ removes ++ additions.

  (* --list-items: every item of every section, once *)
  Definition list_items (st : store V) : list (sect * key * V) :=
    flat_map (fun se => map (fun kv => (fst se, fst kv, snd kv)) (snd se)) st.
End Ops.
Arguments forget {V}. Arguments parse {V}. Arguments apply_ops {V}. Arguments apply_op {V}. Arguments hand_edit {V}. Arguments hand_edit_op {V}.
Arguments has_option {V}. Arguments lookup {V}. Arguments section {V}. Arguments list_items {V}. Arguments cli_ops {V}.
Arguments Override {V}. Arguments Remove {V}. Arguments Add {V}. Arguments nodup_keys {V}. Arguments nodup_sects {V}. Arguments has_sect {V}. Arguments has_key {V}.
Arguments update_sect {V}. Arguments set_key {V}. Arguments del_key {V}. Arguments drop_if_empty {V}. Arguments raw_update {V}. Arguments raw_set {V}. Arguments raw_has {V}.

(* ---- flat encodings read by the harness ---- *)
Local Open Scope Z_scope.
Definition zn (n : nat) : Z := Z.of_nat n.
Definition enc_sect (s : sect) : list Z :=
  match s with
  | SPair => [0; 0; 0] | SEmbed => [1; 0; 0] | SDensity => [2; 0; 0] | SForm => [3; 0; 0] | STabulation => [4; 0; 0]
  | SSpecies => [5; 0; 0] | SVariables => [6; 0; 0] | STable n sp => [7; zn n; zn sp] | SOther n => [8; zn n; 0]
  end.
Definition enc_key (k : key) : list Z :=
  match k with
  | KPair a b => [0; zn a; zn b; 0] | KSp a => [1; zn a; 0; 0] | KFS a b => [2; zn a; zn b; 0]
  | KSig n ps => [3; zn n; 0; zn (length ps)] ++ map zn ps | KOpt n => [4; zn n; 0; 0]
  end.
Definition enc_store (st : store nat) : list Z :=
  flat_map (fun se => enc_sect (fst se) ++ [zn (length (snd se))] ++ flat_map (fun kv => enc_key (fst kv) ++ [zn (snd kv)]) (snd se)) st.
Definition enc_result (r : result (store nat)) : list Z :=
  match r with Ok st => 0 :: enc_store st | CfgErr => [1] | Internal => [2] end.
