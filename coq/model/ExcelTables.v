(* Excel workbooks (Excel_PairTabulation, Excel_EAMTabulation, Excel_FinnisSinclair_EAMTabulation), as read
   back sheet by sheet by the harness: "#sheet NAME", a header row, then one row per grid point with r (or rho)
   in the first column and every function's value at that row in the labelled column (tab separated). *)
From V Require Import lib.Common lib.Layout gen.GridArith model.PairTables model.EamTables.
Local Open Scope Q_scope.

(* a sheet: first-column heading, labelled columns (label items, function), sample positions *)
Definition fn_sheet (name head : Z) (cols : list (list item * fnid)) (xs : list Q) : list item :=
  [ILit L_sheet; ILit name; nl; ILit head]
  ++ flat_map (fun c => ILit L_tab :: fst c) cols ++ [nl]
  ++ flat_map (fun x => [IQ F_repr x] ++ flat_map (fun c => [ILit L_tab; IVal F_repr [mkev (snd c) KCall x] (fun _ => SPlain)]) cols ++ [nl]) xs.

Definition r_values (cutoff : Q) (nr : Z) : list Q := map (r_value cutoff nr) (zseq 0 (Z.to_nat nr)).
Definition rho_values (cutoff_rho : Q) (nrho : Z) : list Q := map (rho_value cutoff_rho nrho) (zseq 0 (Z.to_nat nrho)).

(* element indices in sorted species order *)
Definition sorted_elements (els : list element) : list (Z * Z) :=
  fold_left (fun acc ie => insert_key (el_sp (snd ie), Z.of_nat (fst ie)) acc) (indexed els) [].

Definition L_arrow : Z := 14.
Definition excel_density_cols (fs : bool) (els : list element) : list (list item * fnid) :=
  if fs then
    flat_map (fun a => map (fun b => ([IStr F_s (fst a); ILit L_arrow; IStr F_s (fst b)], FDensFS (Z.to_nat (snd a)) (Z.to_nat (snd b))))
                           (sorted_elements els)) (sorted_elements els)
  else map (fun a => ([IStr F_s (fst a)], FDens (Z.to_nat (snd a)))) (sorted_elements els).

Definition excel_eam_file (fs : bool) (els : list element) (pairs : list pot) (cutoff : Q) (nr : Z) (cutoff_rho : Q) (nrho : Z) : list item :=
  excel_pair_sheet pairs cutoff nr
  ++ fn_sheet 22 L_r_head (excel_density_cols fs els) (r_values cutoff nr)
  ++ fn_sheet 23 24 (map (fun a => ([IStr F_s (fst a)], FEmbed (Z.to_nat (snd a)))) (sorted_elements els)) (rho_values cutoff_rho nrho).
