(* C14, command line: how potable reads SECTION_NAME:KEY=VALUE (atsim/potentials/tools/potable/_query_actions.py
   _split_item_label and potable/__init__.py _create_override_tuple; both asserted on the AST).  Characters are code points. *)
From Coq Require Import ZArith List Bool.
From V Require Import lib.Common model.Ini.
Import ListNotations.
Local Open Scope Z_scope.

(* str.split(c, 1): the text before and after the first occurrence of c; None when c does not occur *)
Fixpoint split_first (c : Z) (l : list Z) : option (list Z * list Z) :=
  match l with
  | [] => None
  | x :: r => if x =? c then Some ([], r) else match split_first c r with Some (a, b) => Some (x :: a, b) | None => None end
  end.
Definition before_first (c : Z) (l : list Z) : list Z := match split_first c l with Some (a, _) => a | None => l end.
Definition contains (c : Z) (l : list Z) : bool := existsb (fun x => x =? c) l.
Definition table_form : list Z := [84; 97; 98; 108; 101; 45; 70; 111; 114; 109].       (* "Table-Form" *)

(* section, key = label.split(":", 1)   -- ValueError (None) without a colon
   if section.strip() == "Table-Form" and ":" in key.split("=", 1)[0]: name, key = key.split(":", 1); section = section + ":" + name *)
Definition split_item_label (label : list Z) : option (list Z * list Z) :=
  match split_first 58 label with
  | None => None
  | Some (section, key) =>
      if zlist_eqb (strip section) table_form && contains 58 (before_first 61 key)
      then match split_first 58 key with Some (name, key') => Some (section ++ 58 :: name, key') | None => None end
      else Some (section, key)
  end.
(* _create_override_tuple(key, has_value): the label, then key, value = key.split("=", 1) -- ValueError (None) without "=" *)
Definition override_tuple (item : list Z) (has_value : bool) : option (list Z * list Z * option (list Z)) :=
  match split_item_label item with
  | None => None
  | Some (s, k) =>
      if has_value then match split_first 61 k with Some (k', v) => Some (s, k', Some v) | None => None end
      else Some (s, k, None)
  end.

(* ---- species keys (ConfigParser._pair_species_func and the species_func of _parse_eam_fs_density_line; asserted on the AST):
        tokens = k.split("-") / k.split("->") must be exactly two, both non-empty after strip() (fix fdfc609) *)
Fixpoint split_arrow (l : list Z) : option (list Z * list Z) :=
  match l with
  | [] => None
  | c :: r => match r with
              | d :: r' => if (c =? 45) && (d =? 62) then Some ([], r') else match split_arrow r with Some (a, b) => Some (c :: a, b) | None => None end
              | [] => None
              end
  end.
Definition is_empty (l : list Z) : bool := match l with [] => true | _ => false end.
Definition two_species (a b : list Z) : option (list Z * list Z) :=
  if is_empty (strip a) || is_empty (strip b) then None else Some (strip a, strip b).
Definition pair_key (k : list Z) : option (list Z * list Z) :=
  match split_first 45 k with Some (a, b) => if contains 45 b then None else two_species a b | None => None end.
Definition fs_key (k : list Z) : option (list Z * list Z) :=
  match split_arrow k with Some (a, b) => match split_arrow b with Some _ => None | None => two_species a b end | None => None end.

(* ---- [Potential-Form] signatures (ConfigParser._parse_potential_form_signature and its pattern, anchored at both ends since
        fix 9a3d831): a label made of a letter and word characters, an opening bracket, the parameter list up to the LAST character,
        which must be the closing bracket; the parameters are the comma-separated pieces, stripped, each a letter followed by word
        characters *)
Definition is_letter (c : Z) : bool := ((65 <=? c) && (c <=? 90)) || ((97 <=? c) && (c <=? 122)).
Definition is_word (c : Z) : bool := is_letter c || ((48 <=? c) && (c <=? 57)) || (c =? 95).
Definition ident_word (s : list Z) : bool := match s with c :: r => is_letter c && forallb is_word r | [] => false end.
Fixpoint split_all (c : Z) (l : list Z) : list (list Z) :=
  match l with
  | [] => [[]]
  | x :: r => if x =? c then [] :: split_all c r
              else match split_all c r with p :: ps => (x :: p) :: ps | [] => [[x]] end
  end.
Definition sig_key (k0 : list Z) : option (list Z * list (list Z)) :=
  let k := strip k0 in          (* pf = pf.strip() *)
  match split_first 40 k with
  | Some (lab, rest) =>
      if ident_word lab then
        match rev rest with
        | c :: rp => if c =? 41 then (let params := map strip (split_all 44 (rev rp)) in if forallb ident_word params then Some (lab, params) else None) else None
        | [] => None
        end
      else None
  | None => None
  end.
