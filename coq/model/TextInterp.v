(* C15 at the level of characters: placeholders in the values of a parsed file (model/Ini.v gives the sections).
   Restates configparser.ExtendedInterpolation._interpolate_some together with the repository's
   _VariablesFirstInterpolation (a name is looked up in [Variables] first, then in the section the text belongs to, at every
   nesting level) and _RawConfigParser.get / has_option (a ${SECTION:KEY} reference must name an option of that very section).
   "$$" is a literal dollar sign; "${NAME}"; "${SECTION:KEY}"; anything else after "$" is an error; depth limit 10. *)
From Coq Require Import ZArith List Bool.
From V Require Import lib.Common model.Ini.
Import ListNotations.
Local Open Scope Z_scope.

Inductive tfrag := TLit (s : list Z) | TDollar | TVar (name : list Z) | TRef (sect key : list Z).

(* the text up to the first "}" (at least one character), and what follows it *)
Fixpoint upto_brace (l : list Z) : option (list Z * list Z) :=
  match l with
  | [] => None
  | c :: r => if c =? 125 then Some ([], r) else match upto_brace r with Some (a, b) => Some (c :: a, b) | None => None end
  end.
Fixpoint split_colon (l : list Z) : list (list Z) :=
  match l with
  | [] => [[]]
  | x :: r => if x =? 58 then [] :: split_colon r else match split_colon r with p :: ps => (x :: p) :: ps | [] => [[x]] end
  end.
(* structural on the text; [skip] characters belong to the placeholder just read, [lit] is the literal collected so far (reversed) *)
Definition flush (lit : list Z) (k : list tfrag) : list tfrag := match lit with [] => k | _ => TLit (rev lit) :: k end.
Fixpoint tlex (skip : nat) (lit : list Z) (l : list Z) : option (list tfrag) :=
  match l with
  | [] => Some (flush lit [])
  | c :: r =>
      match skip with
      | S k => tlex k lit r
      | O =>
          if c =? 36 then
            match r with
            | d :: r' =>
                if d =? 36 then option_map (fun t => flush lit (TDollar :: t)) (tlex 1 [] r)
                else if d =? 123 then
                  match upto_brace r' with
                  | Some (path, _) =>
                      match path with
                      | [] => None
                      | _ => match split_colon path with
                             | [n] => option_map (fun t => flush lit (TVar (xform n) :: t)) (tlex (S (S (length path))) [] r)
                             | [s; k] => option_map (fun t => flush lit (TRef s (xform k) :: t)) (tlex (S (S (length path))) [] r)
                             | _ => None
                             end
                      end
                  | None => None
                  end
                else None
            | [] => None
            end
          else tlex 0 (c :: lit) r
      end
  end.
Definition template (v : list Z) : option (list tfrag) := tlex 0 [] v.

(* ---- the parsed file and look-ups *)
Definition tstore := list (list Z * list (list Z * list Z)).
Definition sect_of (n : list Z) (st : tstore) : option (list (list Z * list Z)) := option_map snd (find (fun s => zlist_eqb (fst s) n) st).
Definition opt_of (k : list Z) (os : list (list Z * list Z)) : option (list Z) := option_map snd (find (fun o => zlist_eqb (fst o) k) os).
Definition defaults (st : tstore) : list (list Z * list Z) := match sect_of variables st with Some os => os | None => [] end.
Definition has_dollar (v : list Z) : bool := existsb (fun c => c =? 36) v.

(* ${NAME} in a text that belongs to section s: [Variables] first, then the options of s (which configparser merges with the
   defaults; in [Variables] itself only its own options) *)
Definition lookup_name (st : tstore) (s : list Z) (name : list Z) : option (list Z) :=
  match opt_of name (defaults st) with
  | Some v => Some v
  | None => match sect_of s st with Some os => opt_of name os | None => None end
  end.
(* ${SECTION:KEY}: an option of that very section ([Variables]: of the defaults) *)
Definition lookup_ref (st : tstore) (s k : list Z) : option (list Z) :=
  if zlist_eqb s variables then opt_of k (defaults st)
  else match sect_of s st with Some os => opt_of k os | None => None end.

Fixpoint tinterp (fuel : nat) (st : tstore) (s : list Z) (v : list Z) : option (list Z) :=
  match fuel with
  | O => None
  | S f =>
      match template v with
      | None => None
      | Some frs =>
          fold_right (fun fr acc =>
            match acc with
            | None => None
            | Some rest =>
                match fr with
                | TLit t => Some (t ++ rest)
                | TDollar => Some (36 :: rest)
                | TVar name => match lookup_name st s name with
                               | Some v' => if has_dollar v' then option_map (fun x => x ++ rest) (tinterp f st s v') else Some (v' ++ rest)
                               | None => None end
                | TRef s' k => match lookup_ref st s' k with
                               | Some v' => if has_dollar v' then option_map (fun x => x ++ rest) (tinterp f st s' v') else Some (v' ++ rest)
                               | None => None end
                end
            end) (Some []) frs
      end
  end.
(* parser.get(section, key): MAX_INTERPOLATION_DEPTH = 10 nested expansions *)
Definition tget (st : tstore) (s k : list Z) : option (list Z) :=
  match sect_of s st with
  | Some os => match opt_of (xform k) os with Some v => tinterp 10 st s v | None => None end
  | None => None
  end.
