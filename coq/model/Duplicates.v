(* Duplicate detection (C20): the strict INI parse on normalised keys, _check_for_duplicate_pairs,
   check_for_duplicate_table_forms and the label checks of Potential_Form_Registry, over the store of model/Store.v. *)
From V Require Import lib.Common model.Store.
Local Open Scope nat_scope.

(* what an entry (or a table-form section) defines *)
Inductive thing :=
| TPair (a b : label)          (* the pair interaction {a, b}: a <= b *)
| TEmbed (a : label)
| TDens (a : label)
| TDensFS (a b : label)
| TForm (name : label).        (* a potential form label: [Potential-Form] formula or [Table-Form:name] *)

Definition pair_mem (p : label * label) (l : list (label * label)) : bool :=
  existsb (fun q => Nat.eqb (fst q) (fst p) && Nat.eqb (snd q) (snd p)) l.
Definition mem (x : label) (l : list label) : bool := existsb (Nat.eqb x) l.

(* _check_for_duplicate_pairs: p in seen or reversed(p) in seen -> error; else seen.add(p) *)
Fixpoint check_pairs (ks : list (label * label)) (seen : list (label * label)) : bool :=
  match ks with
  | [] => true
  | (a, b) :: r => if pair_mem (a, b) seen || pair_mem (b, a) seen then false else check_pairs r ((a, b) :: seen)
  end.

Fixpoint nodupb (l : list label) : bool := match l with [] => true | x :: r => negb (mem x r) && nodupb r end.

(* registry: table forms must not be named like a built-in form; a formula label must differ from every built-in,
   table-form and earlier formula label *)
Fixpoint check_forms (forms : list label) (taken : list label) : bool :=
  match forms with
  | [] => true
  | f :: r => if mem f taken then false else check_forms r (f :: taken)
  end.

Section Dup.
  Variable V : Type.

  Definition pair_keys (st : store V) : list (label * label) :=
    match section SPair st with
    | Some es => flat_map (fun kv => match fst kv with KPair a b => [(a, b)] | _ => [] end) es
    | None => []
    end.
  Definition form_labels (st : store V) : list label :=
    match section SForm st with
    | Some es => flat_map (fun kv => match fst kv with KSig n _ => [n] | _ => [] end) es
    | None => []
    end.
  Definition table_names (st : store V) : list label :=
    flat_map (fun se => match fst se with STable n _ => [n] | _ => [] end) st.

  (* all duplicate checks together: true = accepted *)
  Definition accept (builtin : list label) (f : rawfile V) : bool :=
    match parse f with
    | Ok st => check_pairs (pair_keys st) []
               && nodupb (table_names st)
               && forallb (fun t => negb (mem t builtin)) (table_names st)
               && check_forms (form_labels st) (table_names st ++ builtin)
    | _ => false
    end.

  Definition things_of_section (se : sect * list (key * V)) : list thing :=
    match fst se with
    | SPair => flat_map (fun kv => match fst kv with KPair a b => [TPair (Nat.min a b) (Nat.max a b)] | _ => [] end) (snd se)
    | SEmbed => flat_map (fun kv => match fst kv with KSp a => [TEmbed a] | _ => [] end) (snd se)
    | SDensity => flat_map (fun kv => match fst kv with KSp a => [TDens a] | KFS a b => [TDensFS a b] | _ => [] end) (snd se)
    | SForm => flat_map (fun kv => match fst kv with KSig n _ => [TForm n] | _ => [] end) (snd se)
    | STable n _ => [TForm n]
    | _ => []
    end.
  Definition things (st : store V) : list thing := flat_map things_of_section st.
End Dup.
Arguments accept {V}. Arguments things {V}. Arguments pair_keys {V}. Arguments form_labels {V}. Arguments table_names {V}. Arguments things_of_section {V}.
