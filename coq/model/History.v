(* C12: histories of build / write / evaluate operations on several tabulations in one process.
   Concrete state: the tabulation objects built so far, each with its lazily filled caches (_potlist of the builders,
   _workbook / _inner_tabulation of the Excel tabulations), the symbol tables of each model's custom forms, and the
   objects shared between builds through default arguments (Reference_Data(), extra_data = {}, overrides = []).
   `render` (the writers: C01..C05, C19) and `energy` (C06..C10, model/Evaluator.v) are parameters. *)
From Coq Require Import List.
Import ListNotations.

Section History.
  Variables model out val arg shared tables : Type.
  Variable render : shared -> model -> out.                       (* what writing a freshly built tabulation produces *)
  Variable energy : model -> tables -> nat -> arg -> val * tables. (* Potential.energy through the model's symbol tables *)
  Variable pure_energy : model -> nat -> arg -> val.
  Variable init_tables : model -> tables.
  Variable shared0 : shared.

  Record tab := { t_model : model; t_cache : option out; t_tables : tables }.
  Record st := { tabs : list tab; defaults : shared }.
  Definition init : st := {| tabs := []; defaults := shared0 |}.

  Inductive op :=
  | Build (m : model)                 (* Configuration().read(...) / constructing the tabulation object *)
  | Write (i : nat)                   (* tabulation.write(fp) on the i-th object built *)
  | Eval (i k : nat) (x : arg).       (* potentials[k].energy(x) of the i-th object *)
  Inductive obs := Nothing | Written (o : out) | Value (v : val) | NoSuch.

  Fixpoint update (i : nat) (t : tab) (l : list tab) : list tab :=
    match l, i with
    | [], _ => []
    | _ :: r, O => t :: r
    | h :: r, S i' => h :: update i' t r
    end.

  Definition step (s : st) (o : op) : st * obs :=
    match o with
    | Build m => ({| tabs := tabs s ++ [{| t_model := m; t_cache := None; t_tables := init_tables m |}]; defaults := defaults s |}, Nothing)
    | Write i =>
        match nth_error (tabs s) i with
        | None => (s, NoSuch)
        | Some t =>
            let o := match t_cache t with Some c => c | None => render (defaults s) (t_model t) end in
            ({| tabs := update i {| t_model := t_model t; t_cache := Some o; t_tables := t_tables t |} (tabs s); defaults := defaults s |}, Written o)
        end
    | Eval i k x =>
        match nth_error (tabs s) i with
        | None => (s, NoSuch)
        | Some t =>
            let '(v, tb) := energy (t_model t) (t_tables t) k x in
            ({| tabs := update i {| t_model := t_model t; t_cache := t_cache t; t_tables := tb |} (tabs s); defaults := defaults s |}, Value v)
        end
    end.

  Fixpoint run (s : st) (h : list op) : list obs :=
    match h with
    | [] => []
    | o :: h' => let '(s', b) := step s o in b :: run s' h'
    end.

  (* the specification: what each operation shows when performed on a freshly built, never used object in a fresh
     process -- no caches, pristine symbol tables, pristine shared defaults *)
  Fixpoint models_of (h : list op) : list model :=
    match h with [] => [] | Build m :: h' => m :: models_of h' | _ :: h' => models_of h' end.
  Definition spec_obs (built : list model) (o : op) : obs :=
    match o with
    | Build _ => Nothing
    | Write i => match nth_error built i with Some m => Written (render shared0 m) | None => NoSuch end
    | Eval i k x => match nth_error built i with Some m => Value (pure_energy m k x) | None => NoSuch end
    end.
  Fixpoint spec_run (built : list model) (h : list op) : list obs :=
    match h with
    | [] => []
    | o :: h' => spec_obs built o :: spec_run (match o with Build m => built ++ [m] | _ => built end) h'
    end.
End History.
Arguments Build {model arg} m.
Arguments Write {model arg} i.
Arguments Eval {model arg} i k x.
Arguments Nothing {out val}.
Arguments Written {out val} o.
Arguments Value {out val} v.
Arguments NoSuch {out val}.
