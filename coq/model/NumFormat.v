(* How the writers print numbers: the conversions "%.8f", "%f", "{:.10f}", "% 14.7e", "%15.8e", "% 20.16e", "%20.16e", "%d",
   "%10d" applied to a finite binary floating-point number.  A finite double is  (-1)^neg * m * 2^e  with m >= 0 (so -0.0 is
   neg = true, m = 0); C's printf and Python's format are *exact*: the decimal expansion of that dyadic rational is rounded to
   the requested number of digits, ties to even.  Characters are code points (48 = "0", 45 = "-", 46 = ".", 32 = " ",
   43 = "+", 101 = "e"). *)
From Coq Require Import ZArith List Bool.
Import ListNotations.
Local Open Scope Z_scope.

(* num/den rounded to the nearest integer, ties to even (den > 0, num >= 0) *)
Definition rhe (num den : Z) : Z :=
  let q := num / den in let r := num mod den in
  if 2 * r <? den then q else if den <? 2 * r then q + 1 else if Z.even q then q else q + 1.

(* exactly w decimal digits of n (n mod 10^w), most significant first *)
Fixpoint digits_w (w : nat) (n : Z) (acc : list Z) : list Z :=
  match w with O => acc | S k => digits_w k (n / 10) ((48 + n mod 10) :: acc) end.
(* the decimal digits of n >= 0, no leading zero ("0" for 0); fuel = binary length *)
Fixpoint digits_f (fuel : nat) (n : Z) (acc : list Z) : list Z :=
  match fuel with
  | O => (48 + n mod 10) :: acc
  | S f => if n <? 10 then (48 + n) :: acc else digits_f f (n / 10) ((48 + n mod 10) :: acc)
  end.
Definition digits (n : Z) : list Z := digits_f (Z.to_nat (Z.log2 n)) n [].
Definition ndigits (n : Z) : Z := Z.of_nat (length (digits n)).

(* the value as a fraction of non-negative integers *)
Definition frac (m e : Z) : Z * Z := if 0 <=? e then (m * 2 ^ e, 1) else (m, 2 ^ (- e)).

(* ---- fixed notation, d digits after the point *)
Definition fixed_int (d : nat) (m e : Z) : Z := let '(n, q) := frac m e in rhe (n * 10 ^ Z.of_nat d) q.
Definition fixed (d : nat) (neg : bool) (m e : Z) : list Z :=
  let N := fixed_int d m e in
  (if neg then [45] else []) ++ digits (N / 10 ^ Z.of_nat d) ++ match d with O => [] | _ => 46 :: digits_w d (N mod 10 ^ Z.of_nat d) [] end.

(* ---- scientific notation, p digits after the point.  The decimal exponent x of v = n/q > 0 is the one with
        10^x <= v < 10^(x+1): from the digit count of floor(v) when v >= 1, of ceil(1/v) - 1 otherwise. *)
Definition dexp (n q : Z) : Z :=
  if q <=? n then ndigits (n / q) - 1 else - ndigits ((q + n - 1) / n - 1).
Definition sci_parts (p : nat) (m e : Z) : Z * Z :=        (* (mantissa as an integer of p+1 digits, decimal exponent) *)
  if m =? 0 then (0, 0) else
  let '(n, q) := frac m e in
  let x := dexp n q in
  let s := Z.of_nat p - x in
  let M := if 0 <=? s then rhe (n * 10 ^ s) q else rhe n (q * 10 ^ (- s)) in
  if M =? 10 ^ (Z.of_nat p + 1) then (10 ^ Z.of_nat p, x + 1) else (M, x).
Definition exp_text (x : Z) : list Z :=
  (if x <? 0 then 45 else 43) :: (if Z.abs x <? 10 then 48 :: digits (Z.abs x) else digits (Z.abs x)).
Definition sci (p : nat) (space : bool) (neg : bool) (m e : Z) : list Z :=
  let '(M, x) := sci_parts p m e in
  (if neg then [45] else if space then [32] else [])
  ++ [48 + M / 10 ^ Z.of_nat p] ++ match p with O => [] | _ => 46 :: digits_w p (M mod 10 ^ Z.of_nat p) [] end
  ++ 101 :: exp_text x.

(* ---- integers and padding *)
Definition int_text (n : Z) : list Z := if n <? 0 then 45 :: digits (- n) else digits n.
Definition pad (w : nat) (t : list Z) : list Z := repeat 32 (w - length t) ++ t.

(* the format codes of lib/Layout.v that print floating-point numbers: (scientific?, digits after the point, blank for "+", width) *)
Definition float_spec (code : Z) : option (bool * nat * bool * nat) :=
  if code =? 3 then Some (false, 8%nat, false, 0%nat)            (* %.8f *)
  else if code =? 4 then Some (true, 7%nat, true, 14%nat)        (* % 14.7e *)
  else if code =? 5 then Some (true, 8%nat, false, 15%nat)       (* %15.8e *)
  else if code =? 8 then Some (true, 16%nat, true, 20%nat)       (* % 20.16e *)
  else if code =? 9 then Some (true, 16%nat, false, 20%nat)      (* %20.16e *)
  else if code =? 10 then Some (false, 6%nat, false, 0%nat)      (* %f *)
  else if code =? 11 then Some (false, 10%nat, false, 0%nat)     (* {:.10f} *)
  else None.
Definition fmt_spec (sp : bool * nat * bool * nat) (neg : bool) (m e : Z) : list Z :=
  let '(issci, d, space, w) := sp in pad w (if issci then sci d space neg m e else fixed d neg m e).
Definition fmt_float (code : Z) (neg : bool) (m e : Z) : option (list Z) :=
  match float_spec code with Some sp => Some (fmt_spec sp neg m e) | None => None end.
Definition fmt_int (code : Z) (n : Z) : option (list Z) :=
  if code =? 2 then Some (int_text n) else if code =? 6 then Some (pad 10 (int_text n)) else None.

(* ---- reading a printed number back: sign, the integer made of all digits, the number of digits after the point, and the
        decimal exponent (0 when absent).  The value read is  (-1)^neg * all * 10^(exp - nfrac). *)
Definition is_digit (c : Z) : bool := (48 <=? c) && (c <=? 57).
Fixpoint read_digits (l : list Z) (acc : Z) (cnt : nat) : Z * nat * list Z :=
  match l with
  | c :: r => if is_digit c then read_digits r (acc * 10 + (c - 48)) (S cnt) else (acc, cnt, l)
  | [] => (acc, cnt, [])
  end.
Fixpoint skip_sp (l : list Z) : list Z := match l with c :: r => if c =? 32 then skip_sp r else l | [] => [] end.
Record printed := mkp { p_neg : bool; p_all : Z; p_nfrac : nat; p_exp : Z }.
Definition read_sign (t : list Z) : bool * list Z := match t with c :: r => if c =? 45 then (true, r) else (false, t) | [] => (false, t) end.
Definition read_frac (ip : Z) (t : list Z) : Z * nat * list Z :=
  match t with c :: r => if c =? 46 then read_digits r ip 0 else (ip, 0%nat, t) | [] => (ip, 0%nat, t) end.
Definition read_exp (t : list Z) : option Z :=
  match t with
  | [] => Some 0
  | c :: s :: r =>
      if c =? 101 then
        let '(x, nx, t') := read_digits r 0 0 in
        match nx, t' with
        | S _, [] => if s =? 45 then Some (- x) else if s =? 43 then Some x else None
        | _, _ => None
        end
      else None
  | _ => None
  end.
Definition read_number (t : list Z) : option printed :=
  let '(neg, t1) := read_sign (skip_sp t) in
  let '(ip, ni, t2) := read_digits t1 0 0 in
  match ni with
  | O => None
  | S _ => let '(all, nf, t3) := read_frac ip t2 in
           match read_exp t3 with Some x => Some (mkp neg all nf x) | None => None end
  end.
