(* C09, end to end: from the tree a definition text spells (model/Lexer.v, model/DefnSyntax.v) to the function it denotes.
   Single-range definitions (no explicit ranges: C08 is about those): form instances and the modifiers sum / product / pow /
   trans(f, as.constant X), nested to any depth.  [form] says what a label with its parameter tokens denotes (the built-in and
   custom forms: C06, C12), [num] what a number token is worth, [mk] which identifiers are modifiers. *)
From Coq Require Import Reals List ZArith.
From V Require Import lib.Common model.DefnSyntax.
Import ListNotations.

Inductive mkind := MKSum | MKProduct | MKPow | MKTrans.
Inductive sexpr :=
| SInst (l : nat) (ps : list Z)
| SFold (k : mkind) (a : sexpr) (args : list sexpr)      (* sum / product / pow: left fold over the arguments *)
| STrans (a : sexpr) (x : Z).

Section ToS.
  Variable mk : nat -> option mkind.
  Variable is_const : nat -> bool.                        (* the label of as.constant *)
  Fixpoint to_sexpr (d : rdefn) : option sexpr :=
    match d with
    | RDefn None p [] => to_sexpr_p p
    | _ => None
    end
  with to_sexpr_p (p : rpart) : option sexpr :=
    match p with
    | RInst l ps => match mk l with None => Some (SInst l ps) | Some _ => None end
    | RMod n a args =>
        match mk n, to_sexpr a with
        | Some MKTrans, Some a' =>
            match args with
            | [RDefn None (RInst c [x]) []] => if is_const c then Some (STrans a' x) else None
            | _ => None
            end
        | Some k, Some a' =>
            match (fix all (l : list rdefn) : option (list sexpr) :=
                     match l with [] => Some [] | d :: r => match to_sexpr d, all r with Some e, Some es => Some (e :: es) | _, _ => None end end) args with
            | Some es => Some (SFold k a' es)
            | None => None
            end
        | _, _ => None
        end
    end.
End ToS.

Local Open Scope R_scope.
Section Den.
  Variable form : nat -> list Z -> R -> R.
  Variable num : Z -> R.
  Definition op_of (k : mkind) : R -> R -> R := match k with MKSum => Rplus | MKProduct => Rmult | MKPow => Rpower | MKTrans => fun a _ => a end.
  Fixpoint denote_s (e : sexpr) (r : R) : R :=
    match e with
    | SInst l ps => form l ps r
    | SFold k a args => fold_left (op_of k) (map (fun x => denote_s x r) args) (denote_s a r)
    | STrans a x => denote_s a (r + num x)
    end.
End Den.
