(* Layout models of the pair-potential writers: LAMMPS pair_style table (_lammps_writeTABLE.py through
   LAMMPS_PairTabulation.write), DL_POLY TABLE (_dlpoly_writeTABLE.py), GULP (GULP_PairTabulation) and the
   "Pair" sheet of the Excel workbook.  Row positions and steps are the REGENERATED formulas of gen/GridArith.v. *)
From V Require Import lib.Common lib.Layout gen.GridArith.
Local Open Scope Q_scope.

Record pot := { p_a : Z; p_b : Z; p_hasd : bool }.   (* species ids; does the energy callable offer .deriv *)

Definition force_h : Q := 1 # 1000000.   (* Potential(..., h = 1e-6) *)

(* Potential.energy / Potential.force at r for the i-th potential *)
Definition energy_evs (i : nat) (r : Q) : list ev := [mkev (FPair i) KCall r].
Definition force_evs (i : nat) (hasd : bool) (r : Q) : list ev :=
  if hasd then [mkev (FPair i) KDeriv r]
  else [mkev (FPair i) KCall (r + force_h / 2); mkev (FPair i) KCall (r - force_h / 2)].

(* ---------------- LAMMPS ---------------- *)
Definition lammps_row (i : nat) (p : pot) (minr maxr : Q) (N n : Z) : list item :=
  let r := lammps_row_r minr maxr n N in
  [IInt F_s n; sp; IQ F_8f r; sp;
   IVal F_8f (energy_evs i r) (fun _ => SPlain); sp;
   IVal F_8f (force_evs i (p_hasd p) r) (fun _ => if p_hasd p then SNeg else SNegNum); nl].

Definition lammps_block (minr maxr : Q) (N : Z) (ip : nat * pot) : list item :=
  let '(i, p) := ip in
  [IStr F_s (p_a p); ILit L_dash; IStr F_s (p_b p); nl;
   ILit L_N; IInt F_d N; ILit L_R; IQ F_8f minr; sp; IQ F_8f maxr; nl; nl]
  ++ flat_map (lammps_row i p minr maxr N) (zseq 1 (Z.to_nat N)).

Fixpoint join_blocks (sep : list item) (bs : list (list item)) : list item :=
  match bs with
  | [] => []
  | [b] => b
  | b :: bs' => b ++ sep ++ join_blocks sep bs'
  end.

Definition indexed {A} (l : list A) : list (nat * A) := combine (seq 0 (length l)) l.

(* LAMMPS_PairTabulation(pots, cutoff, nr).write == writePotentials("LAMMPS", pots, cutoff, nr) *)
Definition lammps_file (pots : list pot) (cutoff : Q) (nr : Z) : list item :=
  let dr := pair_dr cutoff nr in
  join_blocks [nl] (map (lammps_block dr cutoff (nr - 1)) (indexed pots)).

(* ---------------- DL_POLY ---------------- *)
(* r accumulated by `r += meshResolution`, k times from 0.0 *)
(* (Qred keeps the rational in lowest terms so that the model stays cheap to evaluate; it does not change the value) *)
Fixpoint dl_r (mesh : Q) (k : nat) : Q := match k with O => 0 | S k' => Qred (dl_r mesh k' + mesh) end.

Definition evs_per_pot (ngrid : nat) (p : pot) : nat := (ngrid + (if p_hasd p then ngrid else 2 * ngrid))%nat.

Definition dl_value_items (mk : nat -> item) (ngrid : nat) : list item :=
  flat_map (fun k => [sp; mk k] ++ (if Nat.eqb (k mod 4) 0 then [nl] else [])) (seq 1 ngrid).

Definition dlpoly_block (mesh : Q) (ngrid : nat) (base : nat) (i : nat) (p : pot) : list item :=
  [IStr F_8s (p_a p); IStr F_8s (p_b p); nl]
  ++ dl_value_items (fun k => IVal F_147e (energy_evs i (dl_r mesh k)) (fun _ => SPlain)) ngrid
  ++ dl_value_items (fun k => IVal F_147e (force_evs i (p_hasd p) (dl_r mesh k))
                                   (fun _ => if p_hasd p then SArgNeg else SArgNegNum (base + (k - 1)))) ngrid.

Fixpoint dlpoly_blocks (mesh : Q) (ngrid : nat) (base : nat) (i : nat) (pots : list pot) : list item :=
  match pots with
  | [] => []
  | p :: rest => dlpoly_block mesh ngrid base i p ++ dlpoly_blocks mesh ngrid (base + evs_per_pot ngrid p) (S i) rest
  end.

(* None: rejected (WritePotentialException) before anything reaches the caller's file object *)
Definition dlpoly_file (pots : list pot) (cutoff : Q) (ngrid : Z) : option (list item) :=
  let mesh := dlpoly_mesh cutoff ngrid in
  if negb (is_nil pots) && negb (ngrid mod 4 =? 0)%Z then None
  else Some ([ILit L_blank80; nl; IQ F_158e mesh; IQ F_158e cutoff; IInt F_10d ngrid; nl]
             ++ dlpoly_blocks mesh (Z.to_nat ngrid) 0 0 pots).

(* ---------------- GULP ---------------- *)
Definition gulp_block (cutoff : Q) (nr : Z) (ip : nat * pot) : list item :=
  let '(i, p) := ip in
  [ILit L_spline; IStr F_s (p_a p); sp; IStr F_s (p_b p); sp; IQ F_repr cutoff; nl]
  ++ flat_map (fun n => let r := r_value cutoff nr n in
                        [IVal F_10f (energy_evs i r) (fun _ => SPlain); sp; IQ F_10f r; nl]) (zseq 0 (Z.to_nat nr)).
Definition gulp_file (pots : list pot) (cutoff : Q) (nr : Z) : list item :=
  flat_map (gulp_block cutoff nr) (indexed pots).

(* ---------------- Excel "Pair" sheet ---------------- *)
(* columns: one per distinct sorted label "a-b" (a <= b), in sorted label order; a later potential with the same
   sorted label replaces an earlier one (dictionary).  `cols` is that column list as (label ids, potential index),
   computed by excel_columns below; species ids are ranks of the labels, and the generated labels have equal
   length, so that the string order of "a-b" is the lexicographic order of (a, b). *)
Definition sorted_key (p : pot) : Z * Z := if (p_a p <=? p_b p)%Z then (p_a p, p_b p) else (p_b p, p_a p).
Definition key_eqb (x y : Z * Z) : bool := (fst x =? fst y)%Z && (snd x =? snd y)%Z.
Definition key_leb (x y : Z * Z) : bool := (fst x <? fst y)%Z || ((fst x =? fst y)%Z && (snd x <=? snd y)%Z).
(* last potential with a given key *)
Fixpoint last_with (k : Z * Z) (l : list (nat * pot)) (acc : option nat) : option nat :=
  match l with
  | [] => acc
  | (i, p) :: rest => last_with k rest (if key_eqb (sorted_key p) k then Some i else acc)
  end.
Fixpoint insert_key (k : Z * Z) (l : list (Z * Z)) : list (Z * Z) :=
  match l with
  | [] => [k]
  | y :: l' => if key_eqb k y then l else if key_leb k y then k :: l else y :: insert_key k l'
  end.
Definition excel_keys (pots : list pot) : list (Z * Z) := fold_left (fun acc p => insert_key (sorted_key p) acc) pots [].
Definition excel_columns (pots : list pot) : list ((Z * Z) * nat) :=
  flat_map (fun k => match last_with k (indexed pots) None with Some i => [(k, i)] | None => [] end) (excel_keys pots).

Definition L_r_head : Z := 20.   (* "r" *)
Definition excel_pair_sheet (pots : list pot) (cutoff : Q) (nr : Z) : list item :=
  let cols := excel_columns pots in
  [ILit L_sheet; ILit 21 (* "Pair" *); nl; ILit L_r_head]
  ++ flat_map (fun c => [ILit L_tab; IStr F_s (fst (fst c)); ILit L_dash; IStr F_s (snd (fst c))]) cols ++ [nl]
  ++ flat_map (fun n => let r := r_value cutoff nr n in
                        [IQ F_repr r] ++ flat_map (fun c => [ILit L_tab; IVal F_repr [mkev (FPair (snd c)) KCall r] (fun _ => SPlain)]) cols ++ [nl])
              (zseq 0 (Z.to_nat nr)).
