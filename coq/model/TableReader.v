(* Legacy TableReader (atsim/potentials/_tablereaders.py): DatReader._populate, TableReaderBase._findIndex / getValue
   (linear interpolation, 0 outside), and the [Table-Form] data spellings x / y versus xy (config/_config_parser.py).
   Bodies asserted on the AST (harness/gen_c18.py).  Numbers are rationals here (float rounding not modelled). *)
From Coq Require Import QArith List Bool.
From V Require Import lib.Common lib.Sorting.
Import ListNotations.
Local Open Scope Q_scope.

(* ---------------- [Table-Form] data ---------------- *)
Fixpoint interleave {A} (x y : list A) : list A :=
  match x, y with
  | a :: x', b :: y' => a :: b :: interleave x' y'
  | _, _ => []
  end.
(* _parse_xy: values alternately appended to x and y (an odd count is rejected before) *)
Fixpoint split_xy {A} (l : list A) (even : bool) : list A * list A :=
  match l with
  | [] => ([], [])
  | v :: r => let '(x, y) := split_xy r (negb even) in if even then (v :: x, y) else (x, v :: y)
  end.
Definition parse_xy {A} (l : list A) : result (list A * list A) :=
  if Nat.even (length l) then Ok (split_xy l true) else CfgErr.
(* _parse_x_y: the two lists as given; different lengths are rejected *)
Definition parse_x_y {A} (x y : list A) : result (list A * list A) :=
  if Nat.eqb (length x) (length y) then Ok (x, y) else CfgErr.

(* ---------------- DatReader._populate ---------------- *)
Inductive line := Blank | Comment | Data (x y : Q).
Definition point_leb (p q : Q * Q) : bool :=     (* tuple order: by x, then y *)
  Qle_bool (fst p) (fst q) && (negb (Qeq_bool (fst p) (fst q)) || Qle_bool (snd p) (snd q)).
Definition populate (ls : list line) : list (Q * Q) :=
  sort point_leb (flat_map (fun l => match l with Data x y => [(x, y)] | _ => [] end) ls).

(* ---------------- getValue ---------------- *)
(* bisect.bisect_left(xs, x): number of leading elements < x (xs sorted) *)
Fixpoint bisect_left (pts : list (Q * Q)) (x : Q) : nat :=
  match pts with
  | [] => O
  | p :: r => if Qlt_le_dec (fst p) x then S (bisect_left r x) else O
  end.
Definition first_x (pts : list (Q * Q)) : Q := match pts with p :: _ => fst p | [] => 0 end.
Definition last_x (pts : list (Q * Q)) : Q := fst (last pts (0, 0)).

Definition find_index (pts : list (Q * Q)) (x : Q) : option nat :=
  if Qlt_le_dec x (first_x pts) then None
  else if Qlt_le_dec (last_x pts) x then None
  else let idx := bisect_left pts x in
       if Qeq_bool (fst (nth idx pts (0, 0))) x then Some idx else Some (idx - 1)%nat.

Definition get_value (pts : list (Q * Q)) (x : Q) : Q :=
  match find_index pts x with
  | None => 0
  | Some lowidx =>
      let '(lx, ly) := nth lowidx pts (0, 0) in
      if Qeq_bool lx x then ly
      else let highidx := S lowidx in
           if Nat.eqb highidx (length pts) then 0
           else let '(hx, hy) := nth highidx pts (0, 0) in
                let m := (hy - ly) / (hx - lx) in
                let c := ly - m * lx in
                m * x + c
  end.

(* ---------------- Cubic_Spline_Table_Form ----------------
   scipy's InterpolatedUnivariateSpline(x, y, ext=1) is not modelled as an algorithm; the model is the
   piecewise polynomial it built (pieces (x0, coefficients, low order first) in the local variable x - x0,
   as read back from the fitted object by the correspondence harness) with the ext=1 convention:
   zero outside [xmin, xmax].  deriv / deriv2 are the derivatives of the pieces (scipy .derivative()
   keeps ext=1, so they are zero outside as well). *)
Fixpoint poly (c : list Q) (t : Q) : Q := match c with [] => 0 | a :: r => a + t * poly r t end.
Fixpoint poly_d (c : list Q) (t : Q) : Q := match c with [] => 0 | _ :: r => poly r t + t * poly_d r t end.
Fixpoint poly_d2 (c : list Q) (t : Q) : Q := match c with [] => 0 | _ :: r => (2#1) * poly_d r t + t * poly_d2 r t end.

Definition piece := (Q * list Q)%type.
Fixpoint pp_select (ps : list piece) (x : Q) (cur : option piece) : option piece :=
  match ps with
  | [] => cur
  | p :: r => if Qlt_le_dec x (fst p) then cur else pp_select r x (Some p)
  end.
Record table_form := { tf_pieces : list piece; tf_xmin : Q; tf_xmax : Q }.
Definition tf_eval (ev : list Q -> Q -> Q) (tf : table_form) (x : Q) : Q :=
  if Qlt_le_dec x (tf_xmin tf) then 0
  else if Qlt_le_dec (tf_xmax tf) x then 0
  else match pp_select (tf_pieces tf) x None with
       | None => 0
       | Some (x0, c) => ev c (x - x0)
       end.
Definition tf_value := tf_eval poly.
Definition tf_deriv := tf_eval poly_d.
Definition tf_deriv2 := tf_eval poly_d2.

(* ---------------- plotToFile / plot ----------------
   step = (highx - lowx) / float(steps); for i in range(steps): v = lowx + float(i)*step; y = func(v); one row "v y".
   plot_step / plot_x are translated from the source (gen/GridArith.v); the loop shape is asserted on the AST. *)
From V Require Import gen.GridArith.
Definition plot_xs (lowx highx : Q) (steps : nat) : list Q :=
  map (fun i => plot_x lowx (Z.of_nat i) (plot_step lowx highx (Z.of_nat steps))) (seq 0 steps).
