(* _TabulationCutoff._init_cutoff over IEEE binary64 (Flocq): any two of nr / dr / cutoff fix the third.
   This is the one place where floating-point rounding is modelled: whether cutoff/dr lands on the integer k
   depends on it.  The body of _init_cutoff and _check_positive is asserted on the AST (harness/gen_c11.py). *)
From Coq Require Import ZArith Reals.
From Flocq Require Import Core BinarySingleNaN.
From V Require Import lib.Common.

Definition prec := 53%Z.
Definition emax := 1024%Z.
#[global] Instance Hprec : FLX.Prec_gt_0 prec. Proof. unfold FLX.Prec_gt_0, prec; lia. Qed.
#[global] Instance Hmax : Prec_lt_emax prec emax. Proof. unfold Prec_lt_emax, prec, emax; lia. Qed.
Definition b64 := binary_float prec emax.

(* the float nearest to m * 2^e *)
Definition of_Z2 (m e : Z) : b64 := binary_normalize prec emax Hprec Hmax mode_NE m e false.
Definition b64_of_Z (n : Z) : b64 := of_Z2 n 0.          (* float(n) for an int *)
Definition bzero : b64 := B754_zero false.

(* Python: not (0 < x < float("inf")) for a float: zero, negative, infinite or NaN (a comparison with NaN is False) *)
Definition binf : b64 := B754_infinity false.
Definition le0 (x : b64) : bool := negb (Bltb bzero x && Bltb x binf).

(* Python's round(x) for a float (round half to even, exact int); None: x is inf/nan (OverflowError / ValueError) *)
Definition py_round (x : b64) : option Z :=
  if is_finite x then Some (Btrunc (Bnearbyint mode_NE x)) else None.

(* nr = int(round(cutoff/dr)) + 1 *)
Definition nr_of (cutoff dr : b64) : option Z := option_map (fun n => (n + 1)%Z) (py_round (Bdiv mode_NE cutoff dr)).
(* the expression before the repair: nr = int(cutoff/dr + 1) *)
Definition nr_of_old (cutoff dr : b64) : Z := Btrunc (Bplus mode_NE (Bdiv mode_NE cutoff dr) (b64_of_Z 1)).
(* cutoff = (nr-1)*dr : int * float *)
Definition cutoff_of (nr : Z) (dr : b64) : b64 := Bmult mode_NE (b64_of_Z (nr - 1)) dr.

Definition check_positive (nr : option Z) (dr cutoff : option b64) : bool :=   (* true = a value is not strictly positive and finite -> ConfigParserException *)
  match nr with Some n => (n <=? 1)%Z | None => false end
  || match dr with Some d => le0 d | None => false end
  || match cutoff with Some c => le0 c | None => false end.

(* (nr, cutoff) returned; CfgErr = ConfigParserException; Internal = another exception escapes *)
Definition init_cutoff (nr : option Z) (dr cutoff : option b64) : result (option Z * option b64) :=
  if check_positive nr dr cutoff then CfgErr else
  match nr, dr, cutoff with
  | Some _, Some _, Some _ => CfgErr
  | Some n, Some d, None =>
      let c := cutoff_of n d in if check_positive (Some n) (Some d) (Some c) then CfgErr else Ok (Some n, Some c)
  | None, Some d, Some c =>
      match nr_of c d with
      | Some n => if check_positive (Some n) (Some d) (Some c) then CfgErr else Ok (Some n, Some c)
      | None => Internal
      end
  | _, Some _, _ => CfgErr                      (* a step alone *)
  | n, None, c => Ok (n, c)
  end.

(* defaults applied by the tabulation factories when a value is absent *)
Definition default_cutoff : Z := 10.   Definition default_nr : Z := 1001.
Definition default_cutoff_rho : Z := 100.   Definition default_nrho : Z := 1001.
