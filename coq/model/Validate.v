(* C16: which potable models are accepted.  A model is represented after lexing (the harness renders the text from this
   structure): the potential definitions of [Pair] / [EAM-*] entries as trees of ranges, potential-form instances and
   modifiers; the labels resolved against the registered forms (standard forms with the arities REGENERATED from the
   signatures in potentialfunctions.py / potentialforms.py, custom [Potential-Form] entries, [Table-Form] entries); the
   target kind, the sections present, the key styles, the state of every [Table-Form].
   `validate` follows the implementation's checks; `wf_*` below is the declarative grammar of the reference manual. *)
From V Require Import lib.Common.
Local Open Scope Z_scope.

Inductive arity := Fixed (n : nat) | VarArgs.
Inductive label :=
| LForm (is_constant : bool) (a : arity)   (* a registered potential form taking these parameters after r *)
| LExpSpline | LBuck4Spline                (* spline keywords: only meaningful in the middle of spline(...) *)
| LUnknown.
Record inst := { i_label : label; i_params : list Z }.    (* parameters as order-isomorphic integers (only compared) *)
Inductive modname := MSum | MProduct | MPow | MTrans | MSpline | MUnknownMod.

(* a definition is a chain of ranges "(>|>=) start PART"; a part is a form instance or a modifier applied to definitions *)
Inductive defn := Defn (parts : list (Z * part))
with part := PInst (i : inst) | PMod (m : modname) (args : list defn).

Definition ok_inst (i : inst) : bool :=
  match i_label i with
  | LForm _ (Fixed n) => Nat.eqb (length (i_params i)) n
  | LForm _ VarArgs => true
  | _ => false
  end.
Definition is_shift (d : defn) : bool :=      (* the second argument of trans(): an as.constant instance with one parameter *)
  match d with
  | Defn ((_, PInst i) :: _) => match i_label i with LForm true _ => Nat.eqb (length (i_params i)) 1 | _ => false end
  | _ => false
  end.
Definition ok_spline_mid (s2 s3 : Z) (p : part) : bool :=
  match p with
  | PInst i =>
      match i_label i, i_params i with
      | LExpSpline, [] => true
      | LBuck4Spline, [rmin] => (s2 <? rmin) && (rmin <? s3)
      | _, _ => false
      end
  | PMod _ _ => false
  end.

Fixpoint ok_defn (d : defn) : bool :=
  match d with
  | Defn parts => negb (is_nil parts) && (fix all (l : list (Z * part)) : bool := match l with [] => true | (_, p) :: r => ok_part p && all r end) parts
  end
with ok_part (p : part) : bool :=
  match p with
  | PInst i => ok_inst i
  | PMod m args =>
      let all_ok := (fix all (l : list defn) : bool := match l with [] => true | d :: r => ok_defn d && all r end) in
      match m with
      | MSum | MProduct | MPow => negb (is_nil args) && all_ok args
      | MTrans => match args with [a; b] => ok_defn a && is_shift b | _ => false end
      | MSpline =>
          match args with
          | [Defn [(s1, p1); (s2, p2); (s3, p3)]] => (s1 <? s2) && (s2 <? s3) && ok_spline_mid s2 s3 p2 && ok_part p1 && ok_part p3
          | _ => false
          end
      | MUnknownMod => false
      end
  end.

(* ---- the whole model *)
Inductive target := TPair | TEam | TFs | TAdp | TUnknown.
Inductive dkey := KPlain | KArrow | KBad.                    (* 'Al', 'Al->Cu', anything else *)
Inductive tstate := TabOk | TabBadData | TabBadInterp.       (* a [Table-Form] section: usable, unusable data, unknown interpolation *)
Record model := {
  m_target : option target;                                  (* None: no target option, LAMMPS is assumed *)
  m_pair : option (list (bool * defn));                      (* [Pair]: key well formed?, definition; None: no such section *)
  m_embed : option (list (bool * defn));                     (* [EAM-Embed] *)
  m_density : option (list (dkey * defn));                   (* [EAM-Density] *)
  m_dipole : option (list (bool * defn));
  m_quadrupole : option (list (bool * defn));
  m_tables : list tstate }.

Definition all_entries {K} (okk : K -> bool) (l : list (K * defn)) : bool := forallb (fun kd => okk (fst kd) && ok_defn (snd kd)) l.
Definition section_ok {K} (okk : K -> bool) (s : option (list (K * defn))) : bool :=
  match s with Some l => all_entries okk l | None => false end.

Definition accepts (m : model) : bool :=
  forallb (fun t => match t with TabOk => true | _ => false end) (m_tables m) &&
  section_ok (fun b : bool => b) (m_pair m) &&
  match m_target m with
  | None | Some TPair => true
  | Some TEam => section_ok (fun b : bool => b) (m_embed m) && section_ok (fun k => match k with KPlain => true | _ => false end) (m_density m)
  | Some TFs => section_ok (fun b : bool => b) (m_embed m) && section_ok (fun k => match k with KArrow => true | _ => false end) (m_density m)
  | Some TAdp => section_ok (fun b : bool => b) (m_embed m) && section_ok (fun k => match k with KPlain => true | _ => false end) (m_density m)
                 && section_ok (fun b : bool => b) (m_dipole m) && section_ok (fun b : bool => b) (m_quadrupole m)
  | Some TUnknown => false
  end.
(* the outcome of Configuration().read / potable: a table, or a configuration error -- never anything else *)
Definition validate (m : model) : result unit := if accepts m then Ok tt else CfgErr.
