(* C09, character level: how the text of a potential definition is cut into the tokens of model/DefnSyntax.v.
   The pyparsing grammar (atsim/potentials/config/_multi_range_parser.py) is scannerless: at each position it skips the
   default whitespace (space, tab, newline, carriage return) and tries the terminals the grammar allows there.  Its
   terminals have pairwise disjoint first characters, so the cut is the same whatever the grammar expects; this file
   models the terminals (characters are their code points, ASCII only -- every other code point is rejected here):
     identifier  = Combine(identifier + ZeroOrMore("." + identifier)),  identifier = [A-Za-z_][A-Za-z0-9_]*
     number      = sci_real | real | signed_integer   (three regular expressions tried in that order)
     ">=" before ">", "(", ")", ","
   and the one look-ahead of the grammar: a *parameter* is a number followed by WordEnd(alphanums + "._"), i.e. not
   directly followed by a letter, digit, "." or "_" (recorded in the token as [wend]); the number of a range start has no
   such condition.  *)
From Coq Require Import ZArith List Bool Lia.
From V Require Import lib.Common model.DefnSyntax.
Import ListNotations.
Local Open Scope Z_scope.

Definition is_digit (c : Z) : bool := (48 <=? c) && (c <=? 57).
Definition is_upper (c : Z) : bool := (65 <=? c) && (c <=? 90).
Definition is_lower (c : Z) : bool := (97 <=? c) && (c <=? 122).
Definition is_idstart (c : Z) : bool := is_upper c || is_lower c || (c =? 95).
Definition is_idbody (c : Z) : bool := is_idstart c || is_digit c.
Definition is_ws (c : Z) : bool := (c =? 32) || (c =? 9) || (c =? 10) || (c =? 13).
Definition is_wordchar (c : Z) : bool := is_idbody c || (c =? 46).      (* alphanums + "._" *)
Definition is_sign (c : Z) : bool := (c =? 43) || (c =? 45).
Definition is_e (c : Z) : bool := (c =? 101) || (c =? 69).
Definition is_dot (c : Z) : bool := c =? 46.

Inductive ctok := CId (s : list Z) | CNum (s : list Z) (wend : bool) | CGt | CGe | CLp | CRp | CComma.

Fixpoint span (p : Z -> bool) (l : list Z) : list Z * list Z :=
  match l with
  | c :: r => if p c then let '(a, b) := span p r in (c :: a, b) else ([], l)
  | [] => ([], [])
  end.

(* \d+ *)
Definition digits1 (l : list Z) : option (list Z * list Z) :=
  match span is_digit l with ([], _) => None | (ds, r) => Some (ds, r) end.

(* [eE][+-]?\d+ *)
Definition exponent (l : list Z) : option (list Z * list Z) :=
  match l with
  | c :: r =>
      if is_e c then
        match r with
        | s :: r' =>
            if is_sign s then match digits1 r' with Some (ds, r2) => Some (c :: s :: ds, r2) | None => None end
            else match digits1 r with Some (ds, r2) => Some (c :: ds, r2) | None => None end
        | [] => None
        end
      else None
  | [] => None
  end.

Definition with_exponent (pre : list Z) (r : list Z) : list Z * list Z :=
  match exponent r with Some (ex, r') => (pre ++ ex, r') | None => (pre, r) end.

(* the part of `number` after the optional sign.  sci_real = \d+(?:[eE][+-]?\d+) | (?:\d+\.\d* | \.\d+)(?:[eE][+-]?\d+)? ;
   real is subsumed by the second alternative of sci_real; signed_integer = \d+ is what is left.  Backtracking never finds a
   shorter \d+ or \d* useful: the character after a shortened run is a digit, which neither "." nor [eE] matches. *)
Definition unsigned_number (l : list Z) : option (list Z * list Z) :=
  match span is_digit l with
  | ([], r) =>
      match r with
      | d :: r1 => if is_dot d then match digits1 r1 with Some (fs, r2) => Some (with_exponent (d :: fs) r2) | None => None end else None
      | [] => None
      end
  | (ds, r) =>
      match exponent r with
      | Some (ex, r1) => Some (ds ++ ex, r1)
      | None =>
          match r with
          | d :: r1 => if is_dot d then let '(fs, r2) := span is_digit r1 in Some (with_exponent (ds ++ d :: fs) r2) else Some (ds, r)
          | [] => Some (ds, r)
          end
      end
  end.

Definition number (l : list Z) : option (list Z * list Z) :=
  match l with
  | c :: r => if is_sign c then match unsigned_number r with Some (s, r') => Some (c :: s, r') | None => None end else unsigned_number l
  | [] => None
  end.

(* the rest of an identifier after its first character: body characters, and "." when an identifier start follows *)
Fixpoint id_body (l : list Z) : list Z * list Z :=
  match l with
  | c :: r =>
      if is_idbody c then let '(s, r') := id_body r in (c :: s, r')
      else if is_dot c then
        match r with
        | d :: r2 => if is_idstart d then let '(s, r') := id_body r2 in (c :: d :: s, r') else ([], l)
        | [] => ([], l)
        end
      else ([], l)
  | [] => ([], [])
  end.

Definition wordend (rest : list Z) : bool := match rest with [] => true | c :: _ => negb (is_wordchar c) end.

(* the token starting at the head of l (not whitespace) and the number of characters it takes *)
Definition scan (l : list Z) : option (ctok * nat) :=
  match l with
  | [] => None
  | c :: r =>
      if c =? 40 then Some (CLp, 1%nat) else if c =? 41 then Some (CRp, 1%nat) else if c =? 44 then Some (CComma, 1%nat)
      else if c =? 62 then match r with d :: _ => if d =? 61 then Some (CGe, 2%nat) else Some (CGt, 1%nat) | [] => Some (CGt, 1%nat) end
      else if is_idstart c then let '(s, _) := id_body r in Some (CId (c :: s), S (length s))
      else match number l with Some (s, rest) => Some (CNum s (wordend rest), length s) | None => None end
  end.

(* structural on the text: [skip] characters belong to the token just emitted *)
Fixpoint lexa (skip : nat) (l : list Z) : option (list ctok) :=
  match l with
  | [] => Some []
  | c :: r =>
      match skip with
      | S k => lexa k r
      | O =>
          if is_ws c then lexa 0 r
          else match scan l with
               | Some (t, n) => match lexa (pred n) r with Some ts => Some (t :: ts) | None => None end
               | None => None
               end
      end
  end.
Definition lex (l : list Z) : option (list ctok) := lexa 0 l.

(* --- from characters to the tokens of DefnSyntax.  idn / numv name identifiers and number spellings (the label tables of
       the registries, float()); a number that is not at a word end is acceptable only as the number of a range start *)
Fixpoint flags_ok (after_marker : bool) (ts : list ctok) : bool :=
  match ts with
  | [] => true
  | CNum _ w :: r => (w || after_marker) && flags_ok false r
  | CGt :: r | CGe :: r => flags_ok true r
  | _ :: r => flags_ok false r
  end.
Section Abs.
  Variable idn : list Z -> nat.
  Variable numv : list Z -> Z.
  Definition abs_tok (t : ctok) : tok :=
    match t with CId s => TId (idn s) | CNum s _ => TNum (numv s) | CGt => TGt | CGe => TGe | CLp => TLp | CRp => TRp | CComma => TComma end.
  Definition read_value (text : list Z) : option rdefn :=
    match lex text with
    | Some cts => if flags_ok false cts then parse_value (map abs_tok cts) else None
    | None => None
    end.
End Abs.

(* --- rendering: token texts with arbitrary whitespace before each token and at the end *)
Definition text_of (t : ctok) : list Z :=
  match t with CId s => s | CNum s _ => s | CGt => [62] | CGe => [62; 61] | CLp => [40] | CRp => [41] | CComma => [44] end.
Fixpoint render (ts : list ctok) (sp : list (list Z)) (tr : list Z) : list Z :=
  match ts, sp with
  | t :: ts', s :: sp' => s ++ text_of t ++ render ts' sp' tr
  | _, _ => tr
  end.
Definition wordlike (t : ctok) : bool := match t with CId _ | CNum _ _ => true | _ => false end.
Fixpoint list_eqb (a b : list Z) : bool :=
  match a, b with [], [] => true | x :: a', y :: b' => (x =? y) && list_eqb a' b' | _, _ => false end.
Definition ident_ok (s : list Z) : bool :=
  match s with c :: b => is_idstart c && (let '(x, y) := id_body b in list_eqb x b && list_eqb y []) | [] => false end.
Definition number_ok (s : list Z) : bool :=
  match number s with Some (x, y) => list_eqb x s && list_eqb y [] | None => false end.
Definition tok_ok (t : ctok) : bool := match t with CId s => ident_ok s | CNum s w => number_ok s && w | _ => true end.
(* whitespace only; at least one character between two word-like tokens *)
Fixpoint seps_ok (prevw : bool) (ts : list ctok) (sp : list (list Z)) : bool :=
  match ts, sp with
  | [], [] => true
  | t :: ts', s :: sp' => forallb is_ws s && (negb (prevw && wordlike t) || negb (list_eqb s [])) && seps_ok (wordlike t) ts' sp'
  | _, _ => false
  end.
