(* C09: the potential-definition language of potable files (atsim/potentials/config/_multi_range_parser.py and
   ConfigParser._descend_tree): tokens, the tree of ranges / form instances / modifiers, the printer and a
   recursive-descent parser.  Lexing (whitespace, number spellings) is by generation: the harness renders token lists
   with arbitrary whitespace.  The pyparsing grammar's body is asserted on the AST (harness/gen_c09.py). *)
From V Require Import lib.Common.
Local Open Scope Z_scope.

Inductive tok := TId (s : nat) | TNum (z : Z) | TGt | TGe | TLp | TRp | TComma.
Inductive marker := Gt | Ge.
Definition rstart := (marker * Z)%type.

(* multi_range = [range_start] definition (range_start definition)*
   definition  = label '(' multi_range (',' multi_range)* ')'  |  label number*            *)
Inductive rdefn := RDefn (first : option rstart) (p : rpart) (rest : list (rstart * rpart))
with rpart := RInst (label : nat) (params : list Z) | RMod (name : nat) (arg : rdefn) (args : list rdefn).

Definition print_start (s : rstart) : list tok := [match fst s with Gt => TGt | Ge => TGe end; TNum (snd s)].
Fixpoint print_defn (d : rdefn) : list tok :=
  match d with
  | RDefn first p rest =>
      match first with Some s => print_start s | None => [] end ++ print_part p ++
      (fix pr (l : list (rstart * rpart)) : list tok := match l with [] => [] | (s, q) :: r => print_start s ++ print_part q ++ pr r end) rest
  end
with print_part (p : rpart) : list tok :=
  match p with
  | RInst l ps => TId l :: map TNum ps
  | RMod n a args => TId n :: TLp :: print_defn a ++
      (fix pr (l : list rdefn) : list tok := match l with [] => [] | d :: r => TComma :: print_defn d ++ pr r end) args ++ [TRp]
  end.

Fixpoint take_nums (ts : list tok) : list Z * list tok :=
  match ts with
  | TNum z :: r => let '(zs, r') := take_nums r in (z :: zs, r')
  | _ => ([], ts)
  end.
Definition parse_start (ts : list tok) : option (rstart * list tok) :=
  match ts with
  | TGt :: TNum z :: r => Some ((Gt, z), r)
  | TGe :: TNum z :: r => Some ((Ge, z), r)
  | _ => None
  end.

(* fuel bounds the recursion depth; each call consumes one unit *)
Fixpoint parse_defn (fuel : nat) (ts : list tok) : option (rdefn * list tok) :=
  match fuel with
  | O => None
  | S f =>
      let '(first, ts1) := match parse_start ts with Some (s, r) => (Some s, r) | None => (None, ts) end in
      match parse_part f ts1 with
      | None => None
      | Some (p, ts2) =>
          match parse_rest f ts2 with
          | Some (rest, ts3) => Some (RDefn first p rest, ts3)
          | None => None
          end
      end
  end
with parse_part (fuel : nat) (ts : list tok) : option (rpart * list tok) :=
  match fuel with
  | O => None
  | S f =>
      match ts with
      | TId n :: TLp :: ts1 =>
          match parse_defn f ts1 with
          | None => None
          | Some (a, ts2) =>
              match parse_args f ts2 with
              | Some (args, TRp :: ts3) => Some (RMod n a args, ts3)
              | _ => None
              end
          end
      | TId l :: ts1 => let '(ps, ts2) := take_nums ts1 in Some (RInst l ps, ts2)
      | _ => None
      end
  end
with parse_rest (fuel : nat) (ts : list tok) : option (list (rstart * rpart) * list tok) :=
  match fuel with
  | O => None
  | S f =>
      match parse_start ts with
      | None => Some ([], ts)
      | Some (s, ts1) =>
          match parse_part f ts1 with
          | None => None
          | Some (q, ts2) =>
              match parse_rest f ts2 with
              | Some (r, ts3) => Some ((s, q) :: r, ts3)
              | None => None
              end
          end
      end
  end
with parse_args (fuel : nat) (ts : list tok) : option (list rdefn * list tok) :=
  match fuel with
  | O => None
  | S f =>
      match ts with
      | TComma :: ts1 =>
          match parse_defn f ts1 with
          | None => None
          | Some (d, ts2) =>
              match parse_args f ts2 with
              | Some (ds, ts3) => Some (d :: ds, ts3)
              | None => None
              end
          end
      | _ => Some ([], ts)
      end
  end.

(* a whole option value: the definition and nothing after it (parseAll = True) *)
Definition parse_value (ts : list tok) : option rdefn :=
  match parse_defn (S (4 * length ts)) ts with Some (d, []) => Some d | _ => None end.
