(* The access routes to a built-in form (C06): potential function f(r, p..), factory f(p..)(r)
   (_FunctionFactory + _rpartial), `as.NAME p..` in a potable section (Potential_Form.__call__: arity check
   then the factory) and as.NAME(r, p..) inside a formula (_Python_Potential_Function.__call__: arity check then
   the function).  A potential function is a function of its argument list (r first). *)
From Coq Require Import Reals List.
From V Require Import lib.Common.
Import ListNotations.

Section Routes.
  Variable V : Type.
  Variable func : list V -> V.          (* the potential function, applied to r :: params *)
  Variable n_params : option nat.       (* number of parameters after r; None = varargs (polynomial) *)

  (* _rpartial(func, bound..)(call..) = func(call.. + bound..): call arguments first, bound arguments after *)
  Definition rpartial (bound call : list V) : V := func (call ++ bound).
  (* _FunctionFactory(func)(params..) = _rpartial(func, params..) *)
  Definition factory (params : list V) (r : V) : V := rpartial params [r].

  Definition arity_ok (given : nat) (is_func_call : bool) : bool :=
    match n_params with
    | None => true
    | Some n => Nat.eqb given (if is_func_call then S n else n)
    end.
  (* `as.NAME p1 .. pn` : _Check_Call(signature) on the parameters, then the factory *)
  Definition potable_form (params : list V) : result (V -> V) :=
    if arity_ok (length params) false then Ok (factory params) else CfgErr.
  (* as.NAME(r, p1, .., pn) inside a formula *)
  Definition potable_call (args : list V) : result V :=
    if arity_ok (length args) true then Ok (func args) else CfgErr.

  Theorem routes_agree : forall (r : V) (params : list V),
    arity_ok (length params) false = true ->
    factory params r = func (r :: params) /\
    (exists g, potable_form params = Ok g /\ g r = func (r :: params)) /\
    potable_call (r :: params) = Ok (func (r :: params)).
  Proof.
    intros r params H. unfold factory, rpartial, potable_form, potable_call. cbn [app length].
    rewrite H. split; [reflexivity|]. split; [eexists; split; reflexivity|].
    unfold arity_ok in *. destruct n_params as [n|]; [|reflexivity]. cbn. cbn in H. rewrite H. reflexivity.
  Qed.

  Theorem routes_wrong_arity : forall params,
    arity_ok (length params) false = false -> potable_form params = CfgErr.
  Proof. intros params H. unfold potable_form. rewrite H. reflexivity. Qed.
End Routes.
