(* The text level of a potable file: how its lines become sections, option keys and values.
   This restates configparser.RawConfigParser._read (Python 3 standard library, as configured by the repository's
   _RawConfigParser: strict, delimiters "=" and ":", full-line comments "#" and ";", no inline comments, empty lines allowed
   in values, default section "Variables") together with the repository's own optionxform (strip, delete blanks and tabs).
   Characters are code points; a file is its list of lines without the line terminators.  Interpolation ("$") is the
   subject of model/Variables.v: texts here contain no "$".  The standard library is not part of the repository: this
   model is an assumption about it that the correspondence check compares with the real parser on every run. *)
From Coq Require Import ZArith List Bool Lia.
From V Require Import lib.Common.
Import ListNotations.
Local Open Scope Z_scope.

(* str.strip() whitespace, ASCII part *)
Definition is_sp (c : Z) : bool := (c =? 32) || ((9 <=? c) && (c <=? 13)) || ((28 <=? c) && (c <=? 31)).
Fixpoint lstrip (l : list Z) : list Z := match l with c :: r => if is_sp c then lstrip r else l | [] => [] end.
Definition rstrip (l : list Z) : list Z := rev (lstrip (rev l)).
Definition strip (l : list Z) : list Z := rstrip (lstrip l).
Fixpoint indent_of (l : list Z) : nat := match l with c :: r => if is_sp c then S (indent_of r) else O | [] => O end.

Fixpoint zlist_eqb (a b : list Z) : bool :=
  match a, b with [], [] => true | x :: a', y :: b' => (x =? y) && zlist_eqb a' b' | _, _ => false end.

(* the repository's optionxform / _ConfigParserDict._key_transform: strip, then delete blanks and tabs *)
Definition xform (k : list Z) : list Z := filter (fun c => negb ((c =? 32) || (c =? 9))) (strip k).

(* SECTCRE (an opening bracket, one or more characters, a closing bracket) matched at the start of the stripped line:
   the header runs up to the LAST closing bracket and has at least one character *)
Fixpoint last_index (x : Z) (l : list Z) (i : nat) (acc : option nat) : option nat :=
  match l with [] => acc | c :: r => last_index x r (S i) (if c =? x then Some i else acc) end.
Definition header_of (v : list Z) : option (list Z) :=
  match v with
  | c :: rest => if c =? 91 then match last_index 93 rest 0 None with
                                | Some i => if Nat.leb 1 i then Some (firstn i rest) else None
                                | None => None end
                 else None
  | [] => None
  end.
(* OPTCRE (shortest option text, blanks, "=" or ":", blanks, value): the first delimiter splits the line *)
Definition is_delim (c : Z) : bool := (c =? 61) || (c =? 58).
Fixpoint split_delim (v : list Z) : option (list Z * list Z) :=
  match v with
  | [] => None
  | c :: r => if is_delim c then Some ([], r) else match split_delim r with Some (a, b) => Some (c :: a, b) | None => None end
  end.
Definition option_of (v : list Z) : option (list Z * list Z) :=
  match split_delim v with
  | Some (k, x) => match rstrip k with [] => None | k' => Some (xform k', strip x) end
  | None => None
  end.

Definition is_comment (l : list Z) : bool := match strip l with c :: _ => (c =? 35) || (c =? 59) | [] => false end.

(* parser state.  sections in file order; each option keeps the list of its value lines (joined at the end) *)
Definition optlines := (list Z * list (list Z))%type.
Definition sect := (list Z * list optlines)%type.
Record st := mk { secs : list sect; cur : option (list Z); opt : option (list Z); ind : nat; bad : bool }.
Definition variables : list Z := [86; 97; 114; 105; 97; 98; 108; 101; 115].     (* "Variables", the default section *)

Definition has_sect (n : list Z) (ss : list sect) : bool := existsb (fun s => zlist_eqb (fst s) n) ss.
Fixpoint upd_sect (n : list Z) (f : list optlines -> list optlines) (ss : list sect) : list sect :=
  match ss with [] => [] | s :: r => if zlist_eqb (fst s) n then (fst s, f (snd s)) :: r else s :: upd_sect n f r end.
Definition sect_opts (n : list Z) (ss : list sect) : list optlines :=
  match find (fun s => zlist_eqb (fst s) n) ss with Some s => snd s | None => [] end.
Definition has_opt (k : list Z) (os : list optlines) : bool := existsb (fun o => zlist_eqb (fst o) k) os.
Fixpoint app_line (k : list Z) (x : list Z) (os : list optlines) : list optlines :=
  match os with [] => [] | o :: r => if zlist_eqb (fst o) k then (fst o, snd o ++ [x]) :: r else o :: app_line k x r end.

Inductive outcome := Go (s : st) | Fatal.
Definition step (s : st) (line : list Z) : outcome :=
  let value := if is_comment line then [] else strip line in
  match value with
  | [] =>
      (* blank line: an empty line of the current value; comment line: nothing *)
      if is_comment line then Go s
      else match cur s, opt s with
           | Some n, Some k => Go (mk (upd_sect n (app_line k []) (secs s)) (cur s) (opt s) (ind s) (bad s))
           | _, _ => Go s
           end
  | _ =>
      let i := indent_of line in
      match cur s, opt s with
      | Some n, Some k =>
          if Nat.ltb (ind s) i then Go (mk (upd_sect n (app_line k value) (secs s)) (cur s) (opt s) (ind s) (bad s))
          else
            match header_of value with
            | Some h =>
                if has_sect h (secs s) then (if zlist_eqb h variables then Go (mk (secs s) (Some h) None i (bad s)) else Fatal)
                else Go (mk (secs s ++ [(h, [])]) (Some h) None i (bad s))
            | None =>
                match option_of value with
                | Some (k', x) => if has_opt k' (sect_opts n (secs s)) then Fatal
                                  else Go (mk (upd_sect n (fun os => os ++ [(k', [x])]) (secs s)) (cur s) (Some k') i (bad s))
                | None => Go (mk (secs s) (cur s) (opt s) i true)
                end
            end
      | Some n, None =>
          match header_of value with
          | Some h =>
              if has_sect h (secs s) then (if zlist_eqb h variables then Go (mk (secs s) (Some h) None i (bad s)) else Fatal)
              else Go (mk (secs s ++ [(h, [])]) (Some h) None i (bad s))
          | None =>
              match option_of value with
              | Some (k', x) => if has_opt k' (sect_opts n (secs s)) then Fatal
                                else Go (mk (upd_sect n (fun os => os ++ [(k', [x])]) (secs s)) (cur s) (Some k') i (bad s))
              | None => Go (mk (secs s) (cur s) (opt s) i true)
              end
          end
      | None, _ =>
          match header_of value with
          | Some h => Go (mk (secs s ++ [(h, [])]) (Some h) None i (bad s))
          | None => Fatal                      (* MissingSectionHeaderError *)
          end
      end
  end.
Fixpoint run (s : st) (lines : list (list Z)) : outcome :=
  match lines with [] => Go s | l :: r => match step s l with Go s' => run s' r | Fatal => Fatal end end.

(* '\n'.join(lines).rstrip() *)
Fixpoint join_nl (ls : list (list Z)) : list Z :=
  match ls with [] => [] | l :: r => match r with [] => l | _ => l ++ 10 :: join_nl r end end.
Definition final_value (ls : list (list Z)) : list Z := rstrip (join_nl ls).
Definition init : st := mk [] None None O false.
Definition parse_ini (lines : list (list Z)) : option (list (list Z * list (list Z * list Z))) :=
  match run init lines with
  | Go s => if bad s then None else Some (map (fun sc => (fst sc, map (fun o => (fst o, final_value (snd o))) (snd sc))) (secs s))
  | Fatal => None
  end.
