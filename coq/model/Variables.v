(* [Variables] (C15): the default section of the INI parser.  Values are templates; a ${NAME} placeholder is
   resolved from [Variables], then from the section itself; ${SECTION:KEY} from that section.  The stdlib's
   ExtendedInterpolation is an oracle: `interp` states what it is assumed to do. *)
From V Require Import lib.Common model.Store.
Local Open Scope nat_scope.

Inductive frag := Lit (n : nat) | Var (name : label) | Ref (s : sect) (k : key).
Definition template := list frag.
Definition tstore := store template.

(* options of a section as the consumers iterate them: the section's own keys (after the repair) *)
Definition options (st : tstore) (s : sect) : list key :=
  match section s st with Some es => map fst es | None => [] end.
(* before the repair the keys of [Variables] were appended to every section's keys *)
Definition options_leaky (st : tstore) (s : sect) : list key :=
  options st s ++ (match s with SVariables => [] | _ => filter (fun k => negb (existsb (key_eqb k) (options st s))) (options st SVariables) end).

(* interpolation with bounded depth (the stdlib stops at depth 10 with an error) *)
Fixpoint interp (fuel : nat) (st : tstore) (s : sect) (t : template) : option (list nat) :=
  match fuel with
  | O => None
  | S fuel' =>
    fold_right (fun fr acc =>
      match acc with
      | None => None
      | Some rest =>
        match fr with
        | Lit n => Some (n :: rest)
        | Var name =>
            (* [Variables] first (_VariablesFirstInterpolation, at every nesting level); a name it does not define is looked for
               among the options of the section the text belongs to (an option name or a species key) *)
            match lookup SVariables (KOpt name) st with
            | Some t' => option_map (fun x => x ++ rest) (interp fuel' st s t')      (* the variable's value is read in the context of s *)
            | None => match (match lookup s (KOpt name) st with Some t' => Some t' | None => lookup s (KSp name) st end) with
                      | Some t' => option_map (fun x => x ++ rest) (interp fuel' st s t')
                      | None => None
                      end
            end
        | Ref s' k => match lookup s' k st with
                      | Some t' => option_map (fun x => x ++ rest) (interp fuel' st s' t')
                      | None => None
                      end
        end
      end) (Some []) t
  end.

Definition get (fuel : nat) (st : tstore) (s : sect) (k : key) : option (list nat) :=
  match lookup s k st with Some t => interp fuel st s t | None => None end.

(* the file obtained by substituting the placeholder values by hand (and dropping nothing else) *)
Definition substituted (fuel : nat) (st : tstore) : option (store (list nat)) :=
  fold_right (fun se acc =>
    match acc with
    | None => None
    | Some rest =>
      match fold_right (fun kv a => match a, interp fuel st (fst se) (snd kv) with
                                    | Some r, Some v => Some ((fst kv, v) :: r) | _, _ => None end) (Some []) (snd se) with
      | Some es => Some ((fst se, es) :: rest)
      | None => None
      end
    end) (Some []) st.
