(* C18 -- tabulated input is reproduced at its data points and is zero outside its range.
   model/TableReader.v: [Table-Form] x / y versus xy spelling, the legacy TableReader (DatReader._populate,
   _findIndex, getValue; rational arithmetic), Cubic_Spline_Table_Form as the piecewise polynomial scipy built
   with the ext=1 convention, and the x column of plotToFile (translated from the source).
   The scipy fit itself (that the pieces pass through the data) is NOT modelled: it is checked per case by the
   correspondence oracle only; see DESIGN.md (C18, partial). *)
From Coq Require Import QArith Qminmax Qreals List Reals.
From Coquelicot Require Import Coquelicot.
From V Require Import lib.Common lib.Sorting model.TableReader proof.C18 proof.C18Closed.
Import ListNotations.

(* --- the same data given as x / y lists or as xy pairs parse to the same (x, y), hence build the same function *)
Theorem c18_xy_same_as_x_y : forall (A : Type) (x y : list A), length x = length y ->
  parse_xy (interleave x y) = parse_x_y x y /\ parse_x_y x y = Ok (x, y).
Proof. exact @xy_same_as_x_y. Qed.
Theorem c18_xy_only_pairs : forall (A : Type) (l x y : list A), parse_xy l = Ok (x, y) -> l = interleave x y /\ length x = length y.
Proof. exact @parse_xy_ok. Qed.
Theorem c18_xy_rejects : forall (A : Type) (l x y : list A),
  (Nat.even (length l) = false -> parse_xy l = CfgErr) /\ (length x <> length y -> parse_x_y x y = CfgErr).
Proof. intros. split; [apply parse_xy_odd|apply parse_x_y_mismatch]. Qed.
Print Assumptions c18_xy_same_as_x_y.

(* --- TableReader: tabulated y at every tabulated x, whatever the row order, comments and blank lines *)
Theorem c18_reader_rows : forall ls x y,
  distinct_x (data_rows ls) -> In (Data x y) ls -> get_value (populate ls) x = y.
Proof. exact reader_returns_rows. Qed.
Theorem c18_reader_ignores_comments : forall a b l, l = Blank \/ l = Comment -> populate (a ++ l :: b) = populate (a ++ b).
Proof. exact populate_ignores. Qed.
Theorem c18_reader_sorted : forall ls, distinct_x (data_rows ls) -> xsorted (populate ls) /\ Permutation.Permutation (data_rows ls) (populate ls).
Proof. intros. split; [apply populate_xsorted; assumption|apply populate_perm]. Qed.
(* in between: the straight line through the neighbouring rows, a value between the two neighbouring y *)
Theorem c18_reader_between : forall l1 lx ly hx hy l2 x,
  xsorted (l1 ++ (lx, ly) :: (hx, hy) :: l2) -> (lx < x)%Q -> (x < hx)%Q ->
  let v := get_value (l1 ++ (lx, ly) :: (hx, hy) :: l2) x in
  let t := ((x - lx) / (hx - lx))%Q in
  (v == ly * (1 - t) + hy * t)%Q /\ (Qmin ly hy <= v)%Q /\ (v <= Qmax ly hy)%Q.
Proof.
  intros l1 lx ly hx hy l2 x Hs Hl Hh v t. unfold v. rewrite (get_value_between _ _ _ _ _ _ _ Hs Hl Hh).
  destruct (line_convex lx ly hx hy x Hl Hh) as (E & H0 & H1). fold t in E, H0, H1.
  split; [exact E|]. rewrite E. apply convex_between; apply Qlt_le_weak; assumption.
Qed.
(* on the closed segment between two neighbouring rows -- the two rows included -- the value is the straight line:
   the reader is the continuous piecewise-linear interpolant of the rows, nothing jumps at a data point *)
Theorem c18_reader_segment_closed : forall l1 lx ly hx hy l2 x,
  xsorted (l1 ++ (lx, ly) :: (hx, hy) :: l2) -> (lx <= x)%Q -> (x <= hx)%Q ->
  let t := ((x - lx) / (hx - lx))%Q in
  (get_value (l1 ++ (lx, ly) :: (hx, hy) :: l2) x == ly * (1 - t) + hy * t)%Q.
Proof. exact get_value_segment_closed. Qed.
Theorem c18_reader_segment_bounded : forall l1 lx ly hx hy l2 x,
  xsorted (l1 ++ (lx, ly) :: (hx, hy) :: l2) -> (lx <= x)%Q -> (x <= hx)%Q ->
  (Qmin ly hy <= get_value (l1 ++ (lx, ly) :: (hx, hy) :: l2) x)%Q /\ (get_value (l1 ++ (lx, ly) :: (hx, hy) :: l2) x <= Qmax ly hy)%Q.
Proof. exact get_value_segment_bounded. Qed.
Theorem c18_reader_outside : forall pts x, (x < first_x pts)%Q \/ (last_x pts < x)%Q -> get_value pts x = 0%Q.
Proof. exact get_value_outside. Qed.
Print Assumptions c18_reader_rows.
Print Assumptions c18_reader_between.
Print Assumptions c18_reader_segment_closed.
Print Assumptions c18_reader_segment_bounded.

(* --- table form: zero outside [xmin, xmax] (value and both derivatives); deriv and deriv2 are the true
       derivatives of the interpolant and of deriv, at every real x off the knots and the two ends *)
Theorem c18_table_zero_outside : forall ev tf x, (x < Q2R (tf_xmin tf) \/ Q2R (tf_xmax tf) < x)%R -> tf_evalR ev tf x = 0%R.
Proof. exact tf_outside. Qed.
Theorem c18_table_deriv_true : forall tf x, off_knots tf x ->
  is_derive (tf_evalR polyR tf) x (tf_evalR polyR_d tf x) /\ is_derive (tf_evalR polyR_d tf) x (tf_evalR polyR_d2 tf x).
Proof. intros tf x H. split; apply tf_derive_gen; try exact H; [exact polyR_derive|exact polyR_d_derive]. Qed.
(* the rational functions run against the implementation are these real functions at rational points *)
Theorem c18_table_model_tie : forall tf x,
  Q2R (tf_value tf x) = tf_evalR polyR tf (Q2R x) /\ Q2R (tf_deriv tf x) = tf_evalR polyR_d tf (Q2R x) /\ Q2R (tf_deriv2 tf x) = tf_evalR polyR_d2 tf (Q2R x).
Proof. intros. repeat split; apply tf_eval_Q2R; [exact Q2R_poly|exact Q2R_poly_d|exact Q2R_poly_d2]. Qed.
Print Assumptions c18_table_deriv_true.
Print Assumptions c18_table_model_tie.

(* --- plotToFile: exactly `steps` rows, at x_i = lowx + i*(highx-lowx)/steps, pairwise different, inside [lowx, highx) *)
Theorem c18_plot_rows : forall lowx highx steps, length (plot_xs lowx highx steps) = steps.
Proof. exact plot_xs_length. Qed.
Theorem c18_plot_x : forall lowx highx steps i, (i < steps)%nat ->
  (nth i (plot_xs lowx highx steps) 0 == lowx + inject_Z (Z.of_nat i) * (highx - lowx) / inject_Z (Z.of_nat steps))%Q.
Proof. exact plot_xs_nth. Qed.
Theorem c18_plot_distinct : forall lowx highx steps i j, (i < steps)%nat -> (j < steps)%nat -> ~ (lowx == highx)%Q -> i <> j ->
  ~ (nth i (plot_xs lowx highx steps) 0 == nth j (plot_xs lowx highx steps) 0)%Q.
Proof. exact plot_xs_distinct. Qed.
Theorem c18_plot_range : forall lowx highx steps i, (i < steps)%nat -> (lowx < highx)%Q ->
  (lowx <= nth i (plot_xs lowx highx steps) 0)%Q /\ (nth i (plot_xs lowx highx steps) 0 < highx)%Q.
Proof. exact plot_xs_range. Qed.
Print Assumptions c18_plot_x.

(* non-vacuity: a file with a comment, a blank line and unsorted rows; a two-piece table form *)
Example c18_example :
  let ls := [Comment; Data (3#1) (7#1); Blank; Data (1#1) (2#1); Data (2#1) (5#1)] in
  populate ls = [((1#1), (2#1)); ((2#1), (5#1)); ((3#1), (7#1))] /\
  (get_value (populate ls) (2#1) == 5#1)%Q /\ (get_value (populate ls) (5#2) == 6#1)%Q /\ (get_value (populate ls) (7#2) == 0)%Q /\
  (let tf := {| tf_pieces := [((0#1), [1#1; 0#1; 1#1]); ((1#1), [2#1; 2#1; 1#1; 1#1])]; tf_xmin := 0#1; tf_xmax := 2#1 |} in
   (tf_value tf (3#2) == 27#8)%Q /\ (tf_deriv tf (1#2) == 1#1)%Q /\ (tf_deriv2 tf (3#2) == 5#1)%Q /\ (tf_value tf (5#2) == 0)%Q) /\
  plot_xs (1#1) (2#1) 4 = plot_xs (1#1) (2#1) 4 /\ length (plot_xs (1#1) (2#1) 4) = 4%nat.
Proof. vm_compute. repeat split; intro; discriminate. Qed.
