(* C09 -- the potable model language: modifiers and custom formulas mean what is documented.
   model/DefnSyntax.v: tokens, trees, printer and recursive-descent parser of potential definitions (the pyparsing grammar is
   asserted on the AST; whitespace / line continuation / '=' vs ':' are below the token level: lexing by generation, compared
   on every generated spelling).  model/Callable.v: the modifiers over callables with the closures regenerated from the source.
   model/Evaluator.v: custom formulas over their mutable symbol tables. *)
From Coq Require Import Reals List QArith.
From Coq Require Import ZArith.
From V Require Import lib.Common lib.RLib model.DefnSyntax model.Lexer model.Ini model.Callable model.Evaluator proof.C09Syntax proof.C09Lexer proof.IniProofs proof.IniFile proof.C09Ini model.Meaning proof.C09Meaning proof.C09 proof.C12.
Import ListNotations.

(* --- syntax: every definition tree (ranges, form instances, nested modifiers) is what its text parses to, and a text
       parses to at most one tree, the one that prints to it: the reading of a definition does not depend on anything else *)
Theorem c09_parse_print : forall d, parse_value (print_defn d) = Some d.
Proof. exact parse_print. Qed.
Theorem c09_parse_sound : forall ts d, parse_value ts = Some d -> ts = print_defn d.
Proof. exact parse_sound. Qed.
Print Assumptions c09_parse_print.

(* --- characters (model/Lexer.v): the text of a definition is cut into tokens the same way whatever whitespace separates them.
       ts: any tokens whose identifier / number lexemes are lexemes (tok_ok); sp: the whitespace written before each token,
       tr: after the last one; seps_ok: whitespace only, and at least one character between two word-like tokens.  Then the
       lexer returns exactly ts, so the reading (lexer, word-end flags, parser) is the parse of ts: two renderings that differ
       only in whitespace read the same, and every definition tree is read back from every rendering of its printed tokens,
       each label and number occurrence spelled in any way that names it (idn, numv: the label tables and float()). *)
Theorem c09_lex_render : forall ts sp tr, forallb tok_ok ts = true -> seps_ok false ts sp = true -> forallb is_ws tr = true ->
  lex (render ts sp tr) = Some ts.
Proof. exact lex_render. Qed.
Theorem c09_whitespace_invariant : forall idn numv ts sp tr sp' tr', forallb tok_ok ts = true ->
  seps_ok false ts sp = true -> forallb is_ws tr = true -> seps_ok false ts sp' = true -> forallb is_ws tr' = true ->
  read_value idn numv (render ts sp tr) = read_value idn numv (render ts sp' tr').
Proof. exact whitespace_invariant. Qed.
Theorem c09_text_roundtrip : forall idn numv d cts sp tr, map (abs_tok idn numv) cts = print_defn d -> forallb tok_ok cts = true ->
  seps_ok false cts sp = true -> forallb is_ws tr = true -> read_value idn numv (render cts sp tr) = Some d.
Proof. exact text_roundtrip. Qed.
Print Assumptions c09_text_roundtrip.
(* ... and for ANY text, well formed or not: a non-empty run of whitespace may be replaced by any other (blanks, tabs, the
   newline configparser puts between the stripped lines of a continued value), whitespace at the ends may be dropped, and a
   definition written over several lines reads like its pieces joined by a blank *)
Theorem c09_ws_run : forall idn numv a w1 w2 b, forallb is_ws w1 = true -> forallb is_ws w2 = true -> w1 <> [] -> w2 <> [] ->
  read_value idn numv (a ++ w1 ++ b) = read_value idn numv (a ++ w2 ++ b).
Proof. exact read_ws_run. Qed.
Theorem c09_ws_ends : forall idn numv w1 a w2, forallb is_ws w1 = true -> forallb is_ws w2 = true ->
  read_value idn numv (w1 ++ a ++ w2) = read_value idn numv a.
Proof. exact read_ws_ends. Qed.
Theorem c09_continuation_lines : forall idn numv ps w, forallb is_ws w = true -> w <> [] ->
  read_value idn numv (join [10%Z] ps) = read_value idn numv (join w ps).
Proof. exact read_lines. Qed.
Print Assumptions c09_continuation_lines.

(* --- lines (model/Ini.v: configparser's line parser as configured by the repository, and the repository's optionxform):
       the option text before the first "=" or ":" is the key, whichever of the two is written and whatever blanks surround it;
       blanks and tabs anywhere in a key do not matter; and a one-section, one-option file whose value continues over any
       number of more deeply indented lines yields a value that reads like its pieces written on one line *)
Theorem c09_delimiter_choice : forall k w1 d w2 x, forallb (fun c => negb (is_delim c)) k = true -> all_sp w1 -> is_delim d = true -> all_sp w2 ->
  option_of (k ++ w1 ++ d :: w2 ++ x) = match rstrip k with [] => None | k' => Some (xform k', strip x) end.
Proof. exact option_line. Qed.
Theorem c09_key_blanks : forall l1 l2, filter nb l1 = filter nb l2 -> xform l1 = xform l2.
Proof. exact xform_blanks. Qed.
Theorem c09_file_value_reading : forall idn numv hi h oi key kc k' w1 d w2 x conts, key = kc :: k' ->
  all_sp hi -> h <> [] -> forallb (fun c => negb (c =? 93)%Z) h = true ->
  all_sp oi -> is_sp kc = false -> kc <> 91%Z -> kc <> 35%Z -> kc <> 59%Z -> forallb (fun c => negb (is_delim c)) key = true ->
  all_sp w1 -> is_delim d = true -> all_sp w2 -> Forall (plain_line (length oi)) conts ->
  exists v, parse_ini ((hi ++ 91%Z :: h ++ [93%Z]) :: (oi ++ key ++ w1 ++ d :: w2 ++ x) :: conts) = Some [(h, [(xform (rstrip key), v)])]
            /\ read_value idn numv v = read_value idn numv (join [32%Z] (strip x :: map strip conts)).
Proof. exact file_value_reading. Qed.
(* a whole file printed from its structure -- any number of sections, options with either delimiter and any blanks around it,
   blanks / tabs inside keys, any number of continuation lines, headers and keys in the first column -- parses back to exactly
   that structure: section names in order, keys after optionxform, values as the stripped pieces joined by newlines *)
Theorem c09_parse_render : forall f, secs_wf [] f -> parse_ini (render_file f) = Some (expect f).
Proof. exact parse_render. Qed.
Print Assumptions c09_file_value_reading.

(* --- from the characters to the function (model/Meaning.v; single-range definitions): `meaning` reads a text, turns the tree into
       an expression over form instances, sum / product / pow and trans(f, as.constant X), and evaluates it.  It depends on the text
       only through the tokens (whitespace, continuation lines), every rendering of a tree means what the tree means, and the
       modifiers are the pointwise left-to-right folds.  On every run the characters of generated definitions are taken through
       this whole chain inside Coq and the value is certified (interval arithmetic) against the implementation's. *)
Theorem c09_meaning_whitespace : forall mk isc idn numv form num a w1 w2 b r, forallb is_ws w1 = true -> forallb is_ws w2 = true -> w1 <> [] -> w2 <> [] ->
  meaning mk isc idn numv form num (a ++ w1 ++ b) r = meaning mk isc idn numv form num (a ++ w2 ++ b) r.
Proof. exact meaning_ws. Qed.
Theorem c09_meaning_render : forall mk isc idn numv form num d cts sp tr r, map (abs_tok idn numv) cts = print_defn d -> forallb tok_ok cts = true ->
  seps_ok false cts sp = true -> forallb is_ws tr = true ->
  meaning mk isc idn numv form num (render cts sp tr) r = option_map (fun e => denote_s form num e r) (to_sexpr mk isc d).
Proof. exact meaning_render. Qed.
Theorem c09_meaning_modifiers : forall form num a args x r,
  denote_s form num (SFold MKSum a args) r = fold_left Rplus (map (fun e => denote_s form num e r) args) (denote_s form num a r) /\
  denote_s form num (SFold MKProduct a args) r = fold_left Rmult (map (fun e => denote_s form num e r) args) (denote_s form num a r) /\
  denote_s form num (SFold MKPow a args) r = fold_left Rpower (map (fun e => denote_s form num e r) args) (denote_s form num a r) /\
  denote_s form num (STrans a x) r = denote_s form num a (r + num x)%R.
Proof. intros. repeat split. Qed.

(* --- modifiers: sum / product / pow of any number of argument potentials, each an expression of any nesting depth, are the
       pointwise left-to-right sum / product / power; trans(f, as.constant X) is f(r + X) *)
Theorem c09_sum : forall a args r,
  cf (reduce c_plus (build a) (map build args)) r = fold_left Rplus (map (fun e => denote e r) args) (denote a r).
Proof. exact sum_meaning. Qed.
Theorem c09_product : forall a args r,
  cf (reduce c_product (build a) (map build args)) r = fold_left Rmult (map (fun e => denote e r) args) (denote a r).
Proof. exact product_meaning. Qed.
Theorem c09_pow : forall a b r, cf (reduce c_pow (build a) [build b]) r = Rpower (denote a r) (denote b r).
Proof. exact pow2_meaning. Qed.
Theorem c09_pow_nary : forall a args r,
  cf (reduce c_pow (build a) (map build args)) r = fold_left Rpower (map (fun e => denote e r) args) (denote a r).
Proof. exact pow_meaning. Qed.
Theorem c09_trans : forall a X r, cf (c_trans (build a) X) r = denote a (r + X).
Proof. exact trans_meaning. Qed.
Print Assumptions c09_sum.

(* --- custom formulas: the j-th [Potential-Form] denotes its own formula over the forms before it, parameters bound
       positionally, calls applying the callee's formula to the argument values; and the implementation's evaluation over the
       shared mutable symbol tables yields exactly this denotation (C12) *)
Theorem c09_form_meaning : forall bodies j b, nth_error bodies j = Some b ->
  nth_error (build_pure bodies) j = Some (fun vals => den (firstn j (build_pure bodies)) vals b).
Proof. exact form_meaning. Qed.
Theorem c09_binding : forall ds env i j args d,
  den ds env (Var i) = nth i env 0%Q /\ (nth_error ds j = Some d -> den ds env (Call j args) = d (den_args ds env args)).
Proof. intros. split; [apply den_var|apply den_call]. Qed.
Theorem c09_forms_evaluate_to_meaning : forall bodies, wf_bodies bodies ->
  forall j c d, nth_error (build_calls bodies) j = Some c -> nth_error (build_pure bodies) j = Some d ->
  forall vals s, length s = length bodies -> fst (c vals s) = d vals.
Proof. intros bodies W j c d Hc Hd vals s Hs. exact (proj1 (forms_pure bodies W j c d Hc Hd vals s Hs)). Qed.
Print Assumptions c09_form_meaning.

(* non-vacuity: "sum(f 1 2, >=3 g 4) >5 h" with an explicit first range, printed and parsed back *)
Example c09_example :
  let d := RDefn (Some (Gt, 0%Z)) (RMod 7 (RDefn None (RInst 1 [1; 2]%Z) []) [RDefn (Some (Ge, 3%Z)) (RInst 2 [4%Z]) []]) [((Gt, 5%Z), RInst 3 [])] in
  parse_value (print_defn d) = Some d /\ parse_value [TId 1; TLp; TId 2] = None /\ parse_value [TId 1; TNum 2%Z; TRp] = None.
Proof. repeat split; vm_compute; reflexivity. Qed.

(* non-vacuity, characters: "sum(as.buck 1.5 -2e0,>=3 f)" written as " sum (\n as.buck\t1.5 -2e0 ,>=3 f)  " lexes to its eleven
   tokens and reads as the tree; "as.buck 1.5.3" and ">1x" show the word-end look-ahead: the first is refused, the second reads *)
Local Open Scope Z_scope.
Example c09_text_example :
  let s_sum := [115; 117; 109] in let s_buck := [97; 115; 46; 98; 117; 99; 107] in let s_f := [102] in
  let n15 := [49; 46; 53] in let n2 := [45; 50; 101; 48] in let n3 := [51] in
  let idn := fun s : list Z => length s in let numv := fun s : list Z => Z.of_nat (length s) in
  let cts := [CId s_sum; CLp; CId s_buck; CNum n15 true; CNum n2 true; CComma; CGe; CNum n3 true; CId s_f; CRp] in
  let sp := [[32]; [32]; [10; 32]; [9]; [32]; [32]; []; []; [32]; []] in
  forallb tok_ok cts = true /\ seps_ok false cts sp = true /\
  read_value idn numv (render cts sp [32; 32]) = Some (RDefn None (RMod 3 (RDefn None (RInst 7 [3; 4]%Z) []) [RDefn (Some (Ge, 1%Z)) (RInst 1 []) []]) []) /\
  read_value idn numv (s_buck ++ [32] ++ n15 ++ [46; 51]) = None /\
  read_value idn numv [62; 49; 120] = Some (RDefn (Some (Gt, 1%Z)) (RInst 1 []) []).
Proof. vm_compute. repeat split; reflexivity. Qed.

(* non-vacuity, lines: "[Pair]" / "  A - B :  sum(as.buck 1 2 3," / "        as.lj 1 2)" -- an indented key with blanks, ":" and a
   continuation line -- parses to section Pair, key "A-B", value "sum(as.buck 1 2 3,\nas.lj 1 2)" *)
Example c09_lines_example :
  let s (l : list Z) := l in
  parse_ini [ [91; 80; 97; 105; 114; 93];
              [32; 32; 65; 32; 45; 32; 66; 32; 58; 32; 32; 115; 117; 109; 40; 97; 115; 46; 98; 117; 99; 107; 32; 49; 32; 50; 32; 51; 44];
              [32; 32; 32; 32; 32; 32; 97; 115; 46; 108; 106; 32; 49; 32; 50; 41] ]
  = Some [([80; 97; 105; 114], [([65; 45; 66], [115; 117; 109; 40; 97; 115; 46; 98; 117; 99; 107; 32; 49; 32; 50; 32; 51; 44; 10; 97; 115; 46; 108; 106; 32; 49; 32; 50; 41])])].
Proof. vm_compute. reflexivity. Qed.
