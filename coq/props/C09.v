(* C09 -- the potable model language: modifiers and custom formulas mean what is documented.
   model/DefnSyntax.v: tokens, trees, printer and recursive-descent parser of potential definitions (the pyparsing grammar is
   asserted on the AST; whitespace / line continuation / '=' vs ':' are below the token level: lexing by generation, compared
   on every generated spelling).  model/Callable.v: the modifiers over callables with the closures regenerated from the source.
   model/Evaluator.v: custom formulas over their mutable symbol tables. *)
From Coq Require Import Reals List QArith.
From V Require Import lib.Common lib.RLib model.DefnSyntax model.Callable model.Evaluator proof.C09Syntax proof.C09 proof.C12.
Import ListNotations.

(* --- syntax: every definition tree (ranges, form instances, nested modifiers) is what its text parses to, and a text
       parses to at most one tree, the one that prints to it: the reading of a definition does not depend on anything else *)
Theorem c09_parse_print : forall d, parse_value (print_defn d) = Some d.
Proof. exact parse_print. Qed.
Theorem c09_parse_sound : forall ts d, parse_value ts = Some d -> ts = print_defn d.
Proof. exact parse_sound. Qed.
Print Assumptions c09_parse_print.

(* --- modifiers: sum / product / pow of any number of argument potentials, each an expression of any nesting depth, are the
       pointwise left-to-right sum / product / power; trans(f, as.constant X) is f(r + X) *)
Theorem c09_sum : forall a args r,
  cf (reduce c_plus (build a) (map build args)) r = fold_left Rplus (map (fun e => denote e r) args) (denote a r).
Proof. exact sum_meaning. Qed.
Theorem c09_product : forall a args r,
  cf (reduce c_product (build a) (map build args)) r = fold_left Rmult (map (fun e => denote e r) args) (denote a r).
Proof. exact product_meaning. Qed.
Theorem c09_pow : forall a b r, cf (reduce c_pow (build a) [build b]) r = Rpower (denote a r) (denote b r).
Proof. exact pow2_meaning. Qed.
Theorem c09_pow_nary : forall a args r,
  cf (reduce c_pow (build a) (map build args)) r = fold_left Rpower (map (fun e => denote e r) args) (denote a r).
Proof. exact pow_meaning. Qed.
Theorem c09_trans : forall a X r, cf (c_trans (build a) X) r = denote a (r + X).
Proof. exact trans_meaning. Qed.
Print Assumptions c09_sum.

(* --- custom formulas: the j-th [Potential-Form] denotes its own formula over the forms before it, parameters bound
       positionally, calls applying the callee's formula to the argument values; and the implementation's evaluation over the
       shared mutable symbol tables yields exactly this denotation (C12) *)
Theorem c09_form_meaning : forall bodies j b, nth_error bodies j = Some b ->
  nth_error (build_pure bodies) j = Some (fun vals => den (firstn j (build_pure bodies)) vals b).
Proof. exact form_meaning. Qed.
Theorem c09_binding : forall ds env i j args d,
  den ds env (Var i) = nth i env 0%Q /\ (nth_error ds j = Some d -> den ds env (Call j args) = d (den_args ds env args)).
Proof. intros. split; [apply den_var|apply den_call]. Qed.
Theorem c09_forms_evaluate_to_meaning : forall bodies, wf_bodies bodies ->
  forall j c d, nth_error (build_calls bodies) j = Some c -> nth_error (build_pure bodies) j = Some d ->
  forall vals s, length s = length bodies -> fst (c vals s) = d vals.
Proof. intros bodies W j c d Hc Hd vals s Hs. exact (proj1 (forms_pure bodies W j c d Hc Hd vals s Hs)). Qed.
Print Assumptions c09_form_meaning.

(* non-vacuity: "sum(f 1 2, >=3 g 4) >5 h" with an explicit first range, printed and parsed back *)
Example c09_example :
  let d := RDefn (Some (Gt, 0%Z)) (RMod 7 (RDefn None (RInst 1 [1; 2]%Z) []) [RDefn (Some (Ge, 3%Z)) (RInst 2 [4%Z]) []]) [((Gt, 5%Z), RInst 3 [])] in
  parse_value (print_defn d) = Some d /\ parse_value [TId 1; TLp; TId 2] = None /\ parse_value [TId 1; TNum 2%Z; TRp] = None.
Proof. repeat split; vm_compute; reflexivity. Qed.
