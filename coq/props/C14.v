(* C14 -- --override-item / --add-item / --remove-item equal editing the file by hand.
   model/Store.v: `apply_ops` is ConfigParser._init_config_parser on the parsed store, `hand_edit` the same edits made
   in the file, `cli_ops` potable's collation of the command-line options.  Keys are structures; the whitespace a key is
   written with (its spelling) is forgotten by normalisation, so operations address keys irrespective of whitespace. *)
From V Require Import lib.Common model.Store proof.C14.

(* tabulating with the operations = tabulating the hand-edited file: the parsed stores are equal; an invalid
   operation (override/remove of a missing item, add of an existing one) is a configuration error in both *)
Theorem c14_equiv : forall (V : Type) (ops : list (op V)) (f : rawfile V) (sp : nat),
  match hand_edit f sp ops with
  | Some f' => apply_ops (forget f) ops = Ok (forget f')
  | None => apply_ops (forget f) ops = CfgErr
  end.
Proof. exact hand_edit_commutes. Qed.
Print Assumptions c14_equiv.

(* the potable command line (all --override-item, then all --remove-item, then all --add-item options, each group in the
   order given) is that sequence of operations: same store as the file edited by hand in that order, or a configuration
   error exactly when one of the edits cannot be made; in particular repeating --remove-item for one item is refused
   (before fix 3dcaed8 the options were collated by their typed label and the repetition went unnoticed) *)
Theorem c14_cli_equiv : forall (V : Type) (ov rm ad : list (op V)) (f : rawfile V) (sp : nat),
  match hand_edit f sp (ov ++ rm ++ ad) with
  | Some f' => apply_ops (forget f) (cli_ops ov rm ad) = Ok (forget f')
  | None => apply_ops (forget f) (cli_ops ov rm ad) = CfgErr
  end.
Proof. intros V ov rm ad f sp. exact (hand_edit_commutes V (ov ++ rm ++ ad) f sp). Qed.
Theorem c14_cli_remove_twice : forall (V : Type) (st : store V) (ov rm1 rm2 rm3 ad : list (op V)) s k, wf_store V st = true ->
  forallb (fun o => negb (is_add V o)) rm2 = true ->
  forall st', apply_ops st (cli_ops ov (rm1 ++ Remove s k :: rm2 ++ Remove s k :: rm3) ad) <> Ok st'.
Proof. exact cli_remove_twice. Qed.
Print Assumptions c14_cli_remove_twice.

(* the edited store is again duplicate free (the hand-edited file parses) *)
Theorem c14_edited_parses : forall (V : Type) (ops : list (op V)) (st st' : store V),
  wf_store V st = true -> apply_ops st ops = Ok st' -> wf_store V st' = true.
Proof. exact apply_ops_wf. Qed.

Theorem c14_reject_override : forall (V : Type) s k (v : V) (st : store V), has_option s k st = false -> apply_op st (Override s k v) = CfgErr.
Proof. exact override_missing. Qed.
Theorem c14_reject_remove : forall (V : Type) s k (st : store V), has_option s k st = false -> apply_op st (Remove s k) = CfgErr.
Proof. exact remove_missing. Qed.
Theorem c14_reject_add : forall (V : Type) s k (v : V) (st : store V), has_option s k st = true -> apply_op st (Add s k v) = CfgErr.
Proof. exact add_existing. Qed.

(* option keys match irrespective of embedded whitespace: the spelling of a line plays no role *)
Theorem c14_keys_modulo_ws : forall (V : Type) (f : rawfile V) s k sp1 sp2 (v : V) es1 es2 f1 f2,
  f = f1 ++ (s, es1 ++ mkentry k sp1 v :: es2) :: f2 ->
  forget f = forget (f1 ++ (s, es1 ++ mkentry k sp2 v :: es2) :: f2).
Proof.
  intros V f s k sp1 sp2 v es1 es2 f1 f2 ->. unfold forget. rewrite !map_app. cbn [map fst snd]. rewrite !map_app. reflexivity.
Qed.

(* --list-items reports every item of the (edited) file, once *)
Theorem c14_list_items_complete : forall (V : Type) (st : store V) s k v es,
  In (s, es) st -> In (k, v) es -> In (s, k, v) (list_items st).
Proof. exact list_items_complete. Qed.
Theorem c14_list_items_count : forall (V : Type) (st : store V),
  length (list_items st) = fold_right (fun se n => (length (snd se) + n)%nat) 0%nat st.
Proof. exact list_items_length. Qed.
Print Assumptions c14_list_items_complete.

Example c14_example :
  let f : rawfile nat := [(SPair, [mkentry (KPair 0 1) 2 10; mkentry (KPair 1 1) 0 11]); (STabulation, [mkentry (KOpt 5) 0 12])] in
  wf_store nat (forget f) = true /\
  apply_ops (forget f) [Override SPair (KPair 0 1) 20; Remove STabulation (KOpt 5); Add (SOther 3) (KOpt 6) 21]
  = Ok [(SPair, [(KPair 0 1, 20); (KPair 1 1, 11)]); (SOther 3, [(KOpt 6, 21)])] /\
  apply_ops (forget f) [Add SPair (KPair 0 1) 20] = CfgErr /\
  apply_ops (forget f) (cli_ops [Override STabulation (KOpt 5) 13; Override STabulation (KOpt 5) 14] [Remove SPair (KPair 1 1)] []) 
  = Ok [(SPair, [(KPair 0 1, 10)]); (STabulation, [(KOpt 5, 14)])] /\
  apply_ops (forget f) (cli_ops [] [Remove STabulation (KOpt 5); Remove STabulation (KOpt 5)] []) = CfgErr.
Proof. repeat split; vm_compute; reflexivity. Qed.

(* --- down to characters (proof/StoreText.v): the file edited by hand, printed (every key in the spelling its entry carries,
       ":" or "=", continuation lines, an empty line after each section), is read by the line parser (model/Ini.v) as exactly
       the store the operations produce -- keys as their blank-free texts *)
From Coq Require Import ZArith.
From V Require Import model.Ini proof.IniProofs proof.IniFile proof.IniFile2 proof.StoreText.
Theorem c14_edited_file_text : forall (ltext : nat -> list Z), (forall n, label_ok (ltext n)) ->
  forall (f f' : rawfile val) sp ops st, hand_edit f sp ops = Some f' -> values_ok f' -> compat ltext f' = true -> Store.parse f' = Ok st ->
  apply_ops (forget f) ops = Ok (forget f') /\ parse_ini (printed ltext f') = Some (text_store ltext f').
Proof.
  intros ltext L f f' sp ops st He Hv Hc Hp. split.
  - pose proof (hand_edit_commutes val ops f sp) as H. rewrite He in H. exact H.
  - exact (store_text_printed ltext L f' st Hv Hc Hp).
Qed.
Print Assumptions c14_edited_file_text.

(* --- SECTION_NAME:KEY=VALUE on the command line (model/ItemLabel.v: _split_item_label and _create_override_tuple): the section is
       what stands before the first colon (before the second for Table-Form:NAME), the key what follows up to the first "=", the
       value everything after it -- colons and equals signs inside the value (">=2.0", "${Variables:rho}", "a ? b : c") included.
       Together with c20_key_spellings the key then addresses its item whatever blanks it is typed with. *)
From V Require Import model.ItemLabel proof.C14Label.
Theorem c14_item_plain : forall S K V, without 58%Z S -> zlist_eqb (strip S) table_form = false -> without 61%Z K ->
  override_tuple (S ++ 58%Z :: K ++ 61%Z :: V) true = Some (S, K, Some V) /\ override_tuple (S ++ 58%Z :: K) false = Some (S, K, None).
Proof. exact item_plain. Qed.
Theorem c14_item_table : forall S0 N K V, without 58%Z S0 -> zlist_eqb (strip S0) table_form = true -> without 58%Z N -> without 61%Z N -> without 58%Z K -> without 61%Z K ->
  override_tuple (S0 ++ 58%Z :: N ++ 58%Z :: K ++ 61%Z :: V) true = Some (S0 ++ 58%Z :: N, K, Some V)
  /\ override_tuple (S0 ++ 58%Z :: N ++ 58%Z :: K) false = Some (S0 ++ 58%Z :: N, K, None).
Proof. exact item_table. Qed.
Print Assumptions c14_item_table.
