(* C08 -- Multi-range potentials select exactly the range that contains r.
   Property theorems only; each is closed by lemmas of proof/C08.v.  `mr_select rs r` is the
   range selected at r by a Multi_Range_Potential_Form built from the ranges `rs` in listing order
   (model/MultiRange.v over the REGENERATED _range_defn_cmp and _range_search). *)
From Coq Require Import Permutation Sorted.
From V Require Import lib.Common lib.RangeTypes lib.Sorting gen.GenC08 model.MultiRange proof.C08.
Local Open Scope Z_scope.

(* the selected range is one of the listed ranges and contains r *)
Theorem c08_contains : forall rs r d, mr_select rs r = Some d -> In d rs /\ contains d r = true.
Proof.
  intros rs r d H. unfold mr_select in H. rewrite search_spec in H by apply sorted_ranges_sorted.
  apply spec_some_in in H. destruct H as [Hi Hc]. split; [|exact Hc]. apply (sort_In _ key_leb), Hi.
Qed.
Print Assumptions c08_contains.

(* no listed range containing r has a greater start *)
Theorem c08_greatest_start : forall rs r d d',
  mr_select rs r = Some d -> In d' rs -> contains d' r = true -> r_start d' <= r_start d.
Proof.
  intros rs r d d' H Hi Hc. unfold mr_select in H. rewrite search_spec in H by apply sorted_ranges_sorted.
  eapply spec_greatest; [apply sorted_ranges_sorted|exact H|apply (sort_In _ key_leb), Hi|exact Hc].
Qed.
Print Assumptions c08_greatest_start.

(* at r equal to the start of an inclusive range, an inclusive range starting at r is selected
   (so an inclusive range wins over an exclusive one that shares its start) *)
Theorem c08_inclusive_at_start : forall rs r,
  (exists d', In d' rs /\ r_type d' = GE /\ r_start d' = r) ->
  exists d, mr_select rs r = Some d /\ r_type d = GE /\ r_start d = r.
Proof.
  intros rs r (d' & Hi & H). unfold mr_select. rewrite search_spec by apply sorted_ranges_sorted.
  apply spec_inclusive. exists d'. split; [apply (sort_In _ key_leb), Hi|exact H].
Qed.
Print Assumptions c08_inclusive_at_start.

(* nothing is selected exactly when no listed range contains r; then value and derivatives are the defaults *)
Theorem c08_below_first : forall rs r,
  mr_select rs r = None <-> (forall d, In d rs -> contains d r = false).
Proof.
  intros rs r. unfold mr_select. rewrite search_spec by apply sorted_ranges_sorted. rewrite spec_none.
  split; intros H d Hi; apply H; apply (sort_In _ key_leb); exact Hi.
Qed.
Print Assumptions c08_below_first.

Theorem c08_below_first_zero : forall (V : Type) (default : V) f rs r,
  (forall d, In d rs -> contains d r = false) -> mr_eval default f rs r = default.
Proof. intros V default f rs r H. unfold mr_eval. apply c08_below_first in H. rewrite H. reflexivity. Qed.
Print Assumptions c08_below_first_zero.

(* value, first and second derivative are taken from the same selected range *)
Theorem c08_derivs_same_range : forall (V : Type) (d0 d1 d2 : V) (f f' f'' : nat -> V) rs r,
  match mr_select rs r with
  | Some d => mr_eval d0 f rs r = f (r_id d) /\ mr_eval d1 f' rs r = f' (r_id d) /\ mr_eval d2 f'' rs r = f'' (r_id d)
  | None => mr_eval d0 f rs r = d0 /\ mr_eval d1 f' rs r = d1 /\ mr_eval d2 f'' rs r = d2
  end.
Proof. intros. unfold mr_eval. destruct (mr_select rs r); repeat split. Qed.
Print Assumptions c08_derivs_same_range.

(* with distinct (start, marker) keys the selection is the last containing range in key order ... *)
Theorem c08_spec : forall rs r,
  NoDup (map rkey rs) -> mr_select rs r = last_containing (sorted_ranges rs) r.
Proof.
  intros rs r Hn. unfold mr_select. rewrite search_spec by apply sorted_ranges_sorted.
  apply spec_last_containing; [apply sorted_ranges_sorted|].
  eapply Permutation_NoDup; [apply Permutation_map, sort_perm|exact Hn].
Qed.
Print Assumptions c08_spec.

(* ... and does not depend on the order in which the ranges were listed *)
Theorem c08_order_independent : forall rs rs' r,
  NoDup (map rkey rs) -> Permutation rs rs' -> mr_select rs r = mr_select rs' r.
Proof.
  intros rs rs' r Hn Hp. unfold mr_select, sorted_ranges.
  rewrite (sort_order_independent _ key_leb key_leb_total key_leb_trans rs rs' Hp); [reflexivity|].
  intros x y Hx Hy H1 H2. eapply nodup_key_eq; eauto. apply key_leb_antisym; assumption.
Qed.
Print Assumptions c08_order_independent.

(* the selection depends on r only through which ranges contain it, so it is constant on every stretch of separations that
   contains no range start: this is the local constancy that C07's multi-range derivative theorem (c07_multirange) assumes *)
Theorem c08_locally_constant : forall rs r r', NoDup (map rkey rs) -> r <= r' ->
  (forall d, In d rs -> r_start d < r \/ r' < r_start d) -> mr_select rs r = mr_select rs r'.
Proof. intros rs r r' Hn Hle H. apply select_locally_constant; [exact Hn|apply no_start_between; assumption]. Qed.
Print Assumptions c08_locally_constant.

(* The statement without the distinct-key hypothesis is FALSE of the faithful model (and of the code):
   two ranges with identical start and marker -- recorded as known finding C08-dupkey. *)
Definition c08_order_independent_full : Prop :=
  forall rs rs' r, Permutation rs rs' -> mr_select rs r = mr_select rs' r.
Theorem c08_dupkey_refuted : ~ c08_order_independent_full.
Proof.
  intro H.
  specialize (H [ {| r_type := GE; r_start := 1; r_id := 0 |}; {| r_type := GE; r_start := 1; r_id := 1 |} ]
                [ {| r_type := GE; r_start := 1; r_id := 1 |}; {| r_type := GE; r_start := 1; r_id := 0 |} ]
                1 (perm_swap _ _ _)).
  vm_compute in H. discriminate H.
Qed.
Print Assumptions c08_dupkey_refuted.

(* a potable definition without a leading range marker: one range with the parser's default start *)
Theorem c08_default_range : forall i r,
  mr_select [default_range i] r = (if 0 <? r then Some (default_range i) else None).
Proof.
  intros i r. unfold mr_select, sorted_ranges, default_range. cbn [sort insert].
  unfold range_search, default_range_type, default_range_start. cbn -[Z.ltb Z.eqb Z.leb].
  repeat split_if; try reflexivity; lia.
Qed.
Print Assumptions c08_default_range.

(* hypotheses are satisfiable by a non-trivial input, and the selection is what the statement says *)
Example c08_example :
  let rs := [ {| r_type := GT; r_start := 2; r_id := 0 |}; {| r_type := GE; r_start := 2; r_id := 1 |};
              {| r_type := GT; r_start := 0; r_id := 2 |}; {| r_type := GE; r_start := 5; r_id := 3 |} ] in
  NoDup (map rkey rs) /\
  map (fun r => option_map r_id (mr_select rs r)) [-1; 0; 1; 2; 3; 5; 9] =
      [None; None; Some 2%nat; Some 1%nat; Some 0%nat; Some 3%nat; Some 3%nat].
Proof.
  split; [|vm_compute; reflexivity].
  cbn. repeat constructor; cbn; intuition (try discriminate).
Qed.
