(* C11 -- any two of nr/dr/cutoff (nrho/drho/cutoff_rho) fix the grid actually tabulated.
   model/TabCutoff.v is _TabulationCutoff._init_cutoff over IEEE binary64 (Flocq); its body is asserted on the AST and the
   model is compared bit for bit (float.hex) with the parser on decimal lattices on every run. *)
From Coq Require Import ZArith Reals.
From Flocq Require Import Core BinarySingleNaN.
From V Require Import lib.Common model.TabCutoff proof.C11.

(* cutoff with dr, cutoff a whole multiple k of dr: exactly k + 1 rows -- for every real (hence every decimal) step
   delta in the normal range and every k up to 2^40, with cutoff and dr the floats nearest to k*delta and delta *)
Theorem c11_rows : forall (k : Z) (delta : R) (c d : b64),
  (1 <= k <= 2^40)%Z -> (bpow radix2 (-1022) <= delta)%R ->
  is_finite c = true -> is_finite d = true ->
  B2R c = RN (IZR k * delta) -> B2R d = RN delta ->
  nr_of c d = Some (k + 1)%Z.
Proof. exact rows_commensurate. Qed.
Print Assumptions c11_rows.

(* the expression before the repair, int(cutoff/dr + 1), loses a row for cutoff 0.3, dr 0.1 *)
Theorem c11_rows_old_refuted :
  let c := of_Z2 5404319552844595 (-54) in let d := of_Z2 7205759403792794 (-56) in
  nr_of_old c d = 3%Z /\ nr_of c d = Some 4%Z.
Proof. exact rows_old_refuted. Qed.

(* nr with dr gives cutoff = (nr-1)*dr (the IEEE product of float(nr-1) and dr); cutoff with nr is kept (dr = cutoff/(nr-1) is
   taken by the writers, C01/C03/C19 grid theorems); cutoff with dr gives nr = round(cutoff/dr) + 1 *)
Theorem c11_nr_dr : forall n d, (1 < n)%Z -> le0 d = false -> le0 (cutoff_of n d) = false ->
  init_cutoff (Some n) (Some d) None = Ok (Some n, Some (cutoff_of n d)).
Proof. exact nr_dr_gives_cutoff. Qed.
Theorem c11_cutoff_nr : forall n c, (1 < n)%Z -> le0 c = false -> init_cutoff (Some n) None (Some c) = Ok (Some n, Some c).
Proof. exact cutoff_nr_kept. Qed.
Theorem c11_cutoff_dr : forall c d n, le0 c = false -> le0 d = false -> nr_of c d = Some n -> (1 < n)%Z ->
  init_cutoff None (Some d) (Some c) = Ok (Some n, Some c).
Proof. exact cutoff_dr_gives_nr. Qed.

(* giving all three, a step alone, or a non-positive value is a configuration error *)
Theorem c11_reject_all_three : forall n d c, init_cutoff (Some n) (Some d) (Some c) = CfgErr.
Proof. exact all_three_rejected. Qed.
Theorem c11_reject_step_alone : forall d, init_cutoff None (Some d) None = CfgErr.
Proof. exact step_alone_rejected. Qed.
Theorem c11_reject_nonpositive : forall n d c nr dr cutoff,
  ((n <= 1)%Z -> init_cutoff (Some n) dr cutoff = CfgErr) /\
  (le0 d = true -> init_cutoff nr (Some d) cutoff = CfgErr) /\
  (le0 c = true -> init_cutoff nr dr (Some c) = CfgErr).
Proof. intros. repeat split; [apply nonpositive_nr_rejected|apply nonpositive_dr_rejected|apply nonpositive_cutoff_rejected]. Qed.
Print Assumptions c11_reject_nonpositive.

(* nan and the infinities are refused wherever they are given; a step or cutoff that passes the check is finite and positive
   (the check is `not (0 < x < inf)` since the repair d92f13e; before it nan / inf were accepted: known finding C16-nonfinite) *)
Theorem c11_reject_nonfinite : forall nr dr cutoff s,
  init_cutoff nr (Some (B754_nan : b64)) cutoff = CfgErr /\ init_cutoff nr (Some (B754_infinity s : b64)) cutoff = CfgErr /\
  init_cutoff nr dr (Some (B754_nan : b64)) = CfgErr /\ init_cutoff nr dr (Some (B754_infinity s : b64)) = CfgErr.
Proof. exact nonfinite_rejected. Qed.
Theorem c11_accepted_finite_positive : forall x : b64, le0 x = false -> is_finite x = true /\ (0 < B2R x)%R.
Proof. exact le0_false_finite_pos. Qed.

(* omitted values are left to the documented defaults (10.0 / 1001, 100.0 / 1001), asserted on extract_cutoffs *)
Theorem c11_defaults : init_cutoff None None None = Ok (None, None) /\ default_cutoff = 10%Z /\ default_nr = 1001%Z /\ default_cutoff_rho = 100%Z /\ default_nrho = 1001%Z.
Proof. repeat split. Qed.

Example c11_example :
  (match init_cutoff None (Some (of_Z2 7205759403792794 (-56))) (Some (of_Z2 5404319552844595 (-54))) with
   | Ok (Some n, Some c) => (n =? 4)%Z && Beqb c (of_Z2 5404319552844595 (-54))
   | _ => false end) = true
  /\ (match init_cutoff (Some 0%Z) (Some (of_Z2 1 0)) (Some (of_Z2 1 0)) with CfgErr => true | _ => false end) = true.
Proof. split; vm_compute; reflexivity. Qed.
