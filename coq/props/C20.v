(* C20 -- each interaction/form is defined at most once; duplicates are rejected.
   model/Duplicates.v restates the strict INI parse on normalised keys, _check_for_duplicate_pairs,
   check_for_duplicate_table_forms and the registry's label checks. *)
From V Require Import lib.Common model.Store model.Duplicates proof.C20 model.Ini proof.IniProofs proof.IniFile proof.IniFile2 proof.StoreText.

(* a second definition of the same pair interaction, in either species order, is rejected ... *)
Theorem c20_pairs_reject : forall ks1 ks2 ks3 a b c d,
  unordered (a, b) = unordered (c, d) -> check_pairs (ks1 ++ (a, b) :: ks2 ++ (c, d) :: ks3) [] = false.
Proof. exact pairs_reject. Qed.
(* ... and when the check passes every pair interaction is defined once *)
Theorem c20_pairs_once : forall ks, check_pairs ks [] = true -> NoDup (map unordered ks).
Proof. exact pairs_once. Qed.
Print Assumptions c20_pairs_reject.

(* two lines of one section whose keys differ only in whitespace ('A-B' / 'A - B', 'A->B' / 'A -> B',
   'f(r,a)' / 'f(r, a)', species, options) are rejected by the parse *)
Theorem c20_whitespace_variant_rejected : forall (V : Type) (f1 f2 : rawfile V) s es1 es2 es3 k sp1 sp2 v1 v2,
  parse (f1 ++ (s, es1 ++ mkentry k sp1 v1 :: es2 ++ mkentry k sp2 v2 :: es3) :: f2) = CfgErr.
Proof. exact whitespace_variant_rejected. Qed.
Theorem c20_keys_once : forall (V : Type) (f : rawfile V) st s es, parse f = Ok st -> In (s, es) st -> NoDup (map fst es).
Proof. exact parse_keys_once. Qed.
Print Assumptions c20_whitespace_variant_rejected.

(* an accepted file binds every pair interaction and every potential-form label (formula or table form) to exactly
   one definition; no table form or formula shadows a built-in form *)
Theorem c20_unique_binding : forall (V : Type) builtin (f : rawfile V), accept builtin f = true ->
  exists st, parse f = Ok st /\ NoDup (map unordered (pair_keys st)) /\ NoDup (table_names st ++ form_labels st)
             /\ (forall t, In t (table_names st ++ form_labels st) -> ~ In t builtin).
Proof. exact accept_unique. Qed.
Print Assumptions c20_unique_binding.

Example c20_example :
  let f : rawfile nat := [(SPair, [mkentry (KPair 0 1) 0 10]); (SForm, [mkentry (KSig 5 [0; 1]) 0 11]); (STable 6 0, [mkentry (KOpt 9) 0 12])] in
  accept [7] f = true /\
  accept [7] (f ++ [(STable 5 1, [mkentry (KOpt 9) 0 13])]) = false /\        (* table form named like the formula *)
  accept [7] [(SPair, [mkentry (KPair 0 1) 0 10; mkentry (KPair 1 0) 1 11])] = false /\   (* reversed pair *)
  accept [6] f = false.                                                        (* table form named like a built-in *)
Proof. repeat split; vm_compute; reflexivity. Qed.

(* --- the same at the level of characters (model/Ini.v): after any well-formed file, a second header with the name of an earlier
       section (other than [Variables]), or a further option of the last section whose key is that of an earlier one after
       optionxform -- that is, up to blanks and tabs anywhere in it (c09_key_blanks / xform_blanks) -- makes the parse fail *)
Theorem c20_duplicate_section_text : forall f1 s f2 rest, secs_wf [] (f1 ++ s :: f2) -> zlist_eqb (fst s) variables = false ->
  parse_ini (render_file (f1 ++ s :: f2) ++ (91%Z :: fst s ++ [93%Z]) :: rest) = None.
Proof. exact duplicate_section. Qed.
Theorem c20_duplicate_option_text : forall f s o' rest, secs_wf [] (f ++ [s]) -> wf_opt o' ->
  existsb (fun k => zlist_eqb k (keyx o')) (map keyx (snd s)) = true ->
  parse_ini (render_file (f ++ [s]) ++ render_opt o' ++ rest) = None.
Proof. exact duplicate_option. Qed.
Theorem c20_key_blanks : forall l1 l2, filter nb l1 = filter nb l2 -> xform l1 = xform l2.
Proof. exact xform_blanks. Qed.
Print Assumptions c20_duplicate_option_text.

(* --- the store model and the characters agree (proof/StoreText.v): print a raw file -- every key in the spelling its entry
       carries (blanks / tabs around "-", "->", inside "f( r , a )", around a table-form name), ":" or "=" with the blanks of that
       spelling, continuation lines, an empty line after every section -- and the line parser reads back exactly the store that
       Store.parse accepts, keys as their blank-free texts.  ltext gives the labels their text (any non-empty texts without
       whitespace, delimiters, brackets, comment characters, "-", ">", "(", ")", ","); compat says that distinct keys of a section
       and distinct sections have distinct texts (computable; evaluated on every generated file). *)
Theorem c20_store_text : forall (ltext : nat -> list Z), (forall n, label_ok (ltext n)) ->
  forall (f : rawfile val) st, values_ok f -> compat ltext f = true -> Store.parse f = Ok st ->
  parse_ini (printed ltext f) = Some (text_store ltext f).
Proof. exact store_text_printed. Qed.
Theorem c20_key_spellings : forall (ltext : nat -> list Z), (forall n, label_ok (ltext n)) -> forall k sp, xform (key_text ltext k sp) = canon ltext k.
Proof. exact xform_key_text. Qed.
(* why compat holds: with labels of distinct texts, two keys have the same blank-free text only if they are equal or are a
   species key and an option key of one label (which never share a section) *)
Theorem c20_key_texts_distinct : forall (ltext : nat -> list Z), (forall n, label_ok (ltext n)) -> (forall a b, ltext a = ltext b -> a = b) ->
  forall k1 k2, canon ltext k1 = canon ltext k2 -> k1 = k2 \/ single_clash k1 k2.
Proof. exact canon_inj. Qed.
Print Assumptions c20_store_text.
