(* C17 -- a failed tabulation never leaves a partial table behind.
   Every writer is modelled as `atomic_events (layout)`: all evaluations, then ONE write of the whole table
   (lib/Effects.v).  On every run the harness checks, for every writer and generated input, that the recorded
   interleaving of evaluations and writes to the caller's file object IS that sequence, and injects a fault at
   evaluation k (every k for small grids) checking that nothing was written. *)
From V Require Import lib.Common lib.Layout lib.Effects gen.GridArith model.PairTables model.EamTables model.ExcelTables.
Local Open Scope Z_scope.

(* for every table layout and every position k of the failing evaluation: nothing has been written *)
Theorem c17_atomic : forall items k, (k < length (trace items))%nat ->
  tokens_written (run_until_fault (atomic_events items) k) = 0%nat.
Proof. exact atomic_nothing_written. Qed.
(* without a fault the whole table is written *)
Theorem c17_complete : forall items, tokens_written (atomic_events items) = length (tokens items).
Proof. exact atomic_complete. Qed.
Print Assumptions c17_atomic.

(* instantiated for the targets (any model, any grid, any k): LAMMPS, DL_POLY, GULP, setfl, setfl_fs, ADP, TABEAM,
   TABEAM_fs, funcfl, Excel *)
Theorem c17_lammps : forall pots cutoff nr k, (k < length (trace (lammps_file pots cutoff nr)))%nat ->
  tokens_written (run_until_fault (atomic_events (lammps_file pots cutoff nr)) k) = 0%nat.
Proof. intros. apply c17_atomic. assumption. Qed.
Theorem c17_gulp : forall pots cutoff nr k, (k < length (trace (gulp_file pots cutoff nr)))%nat ->
  tokens_written (run_until_fault (atomic_events (gulp_file pots cutoff nr)) k) = 0%nat.
Proof. intros. apply c17_atomic. assumption. Qed.
Theorem c17_adp : forall els pairs dips quads cutoff nr cutoff_rho nrho blank k,
  (k < length (trace (adp_tabulation els pairs dips quads cutoff nr cutoff_rho nrho blank)))%nat ->
  tokens_written (run_until_fault (atomic_events (adp_tabulation els pairs dips quads cutoff nr cutoff_rho nrho blank)) k) = 0%nat.
Proof. intros. apply c17_atomic. assumption. Qed.
Theorem c17_setfl : forall fs els pairs cutoff nr cutoff_rho nrho blank k,
  (k < length (trace (setfl_tabulation fs els pairs cutoff nr cutoff_rho nrho blank)))%nat ->
  tokens_written (run_until_fault (atomic_events (setfl_tabulation fs els pairs cutoff nr cutoff_rho nrho blank)) k) = 0%nat.
Proof. intros. apply c17_atomic. assumption. Qed.
Theorem c17_tabeam : forall fs els pairs nrho drho nr dr k,
  (k < length (trace (tabeam_file fs els pairs nrho drho nr dr)))%nat ->
  tokens_written (run_until_fault (atomic_events (tabeam_file fs els pairs nrho drho nr dr)) k) = 0%nat.
Proof. intros. apply c17_atomic. assumption. Qed.

(* a writer that writes piece by piece is NOT atomic: the GULP target (one write per row) and the ADP target
   (setfl part, dipoles, quadrupoles written separately) before their repair *)
Theorem c17_piecewise_refuted :
  exists pieces k, (k < length (flat_map trace pieces))%nat /\ tokens_written (run_until_fault (piecewise_events pieces) k) <> 0%nat.
Proof.
  exists [gulp_file [{| p_a := 0; p_b := 0; p_hasd := false |}] (1 # 1) 2; gulp_file [{| p_a := 0; p_b := 0; p_hasd := false |}] (1 # 1) 2], 2%nat.
  split; vm_compute; [lia|discriminate].
Qed.

Example c17_example :
  let f := lammps_file [{| p_a := 0; p_b := 1; p_hasd := true |}] (2 # 1) 3 in
  length (trace f) = 4%nat /\ tokens_written (run_until_fault (atomic_events f) 3) = 0%nat /\ tokens_written (atomic_events f) = length (tokens f).
Proof. repeat split; vm_compute; reflexivity. Qed.
