(* C15 -- [Variables] substitution equals textual substitution and changes nothing else.
   model/Variables.v: options of a section are its own keys (the parser's options()/has_option()/get() are asserted
   to be the repaired ones); `interp` states what the stdlib's ExtendedInterpolation is assumed to do. *)
From V Require Import lib.Common model.Store model.Variables proof.C15.

(* the templated file and the file with the placeholder values substituted by hand have the same sections, the same
   keys in the same order, and every value of the latter is the interpolated value of the former *)
Theorem c15_equiv : forall fuel (st : tstore) st', substituted fuel st = Some st' ->
  forall s, (match section s st with Some es => exists es', section s st' = Some es' /\ map fst es' = map fst es | None => section s st' = None end)
            /\ forall k, lookup s k st' = get fuel st s k.
Proof. exact substituted_equiv. Qed.
Print Assumptions c15_equiv.

(* ${NAME} is the [Variables] entry NAME whatever options the section being read has: a species label or an option of the
   same name does not shadow it (the stock interpolation looked in the section first; known finding before the repair) *)
Theorem c15_variables_first : forall fuel (st : tstore) s name t rest,
  lookup SVariables (KOpt name) st = Some t ->
  interp (S fuel) st s (Var name :: rest) =
    match interp (S fuel) st s rest with
    | None => None
    | Some r => option_map (fun x => x ++ r) (interp fuel st s t)
    end.
Proof. exact variables_first. Qed.

(* defining (or changing) variables does not change the keys or the templates of any other section *)
Theorem c15_unused_inert : forall (st st' : tstore),
  (forall s, s <> SVariables -> section s st' = section s st) ->
  forall s, s <> SVariables -> options st' s = options st s /\ (forall k, lookup s k st' = lookup s k st).
Proof. exact variables_inert. Qed.

(* before the repair the keys of [Variables] appeared in the iteration of every section *)
Theorem c15_leak_refuted :
  let st : tstore := [(SVariables, [(KOpt 7, [Lit 1])]); (SPair, [(KPair 0 1, [Var 7])])] in
  options_leaky st SPair <> options st SPair.
Proof. exact leaky_refuted. Qed.
Print Assumptions c15_unused_inert.

Example c15_example :
  let st : tstore := [(SVariables, [(KOpt 7, [Lit 1]); (KOpt 8, [Var 7; Lit 2])]); (SSpecies, [(KOpt 9, [Lit 5])]);
                      (SPair, [(KPair 0 1, [Lit 3; Var 8; Ref SSpecies (KOpt 9)])])] in
  get 5 st SPair (KPair 0 1) = Some [3; 1; 2; 5]%nat /\ options st SPair = [KPair 0 1] /\
  get 5 [(SVariables, [(KOpt 7, [Lit 6])]); (SDensity, [(KSp 7, [Lit 4; Var 7])])] SDensity (KSp 7) = Some [4; 6]%nat /\
  exists st', substituted 5 st = Some st' /\ lookup SPair (KPair 0 1) st' = Some [3; 1; 2; 5]%nat.
Proof. split; [vm_compute; reflexivity|]. split; [reflexivity|]. split; [vm_compute; reflexivity|]. eexists. split; vm_compute; reflexivity. Qed.

(* --- at the level of characters (model/TextInterp.v over the sections model/Ini.v parses; restates ExtendedInterpolation and the
       repository's _VariablesFirstInterpolation / get / has_option): a value is cut into literal text and placeholders exactly as
       it was written (c15_text_template: any literals without "$", "$$", ${NAME} and ${SECTION:KEY} with names in the form
       optionxform gives them); interpolating a text whose placeholders name values without "$" is writing those values in their
       place (c15_text_substitution), so a text without "$" is its own value; and ${NAME} is the entry of [Variables] whenever
       [Variables] has one, whatever the section holds under that name (c15_text_variables_first) *)
From Coq Require Import ZArith.
From V Require Import model.Ini model.TextInterp proof.C15Text.
Theorem c15_text_template : forall frs, frags_ok frs -> template (render frs) = Some frs.
Proof. exact template_render. Qed.
Theorem c15_text_substitution : forall st s frs f, frags_ok frs -> plain_values st s frs ->
  tinterp (S f) st s (render frs) = C15Text.substituted st s frs.
Proof. exact interp_is_substitution. Qed.
Theorem c15_text_variables_first : forall st s n v, opt_of n (defaults st) = Some v -> lookup_name st s n = Some v.
Proof. exact name_variables_first. Qed.
Print Assumptions c15_text_substitution.
