(* C13 -- species filtering equals deleting the unwanted interactions from the file.
   check_tuple is REGENERATED from FilteredConfigParser._check_tuple; model/Filter.v restates the four filtered views. *)
From V Require Import lib.Common model.Store gen.GenFilter model.Filter proof.C13.

Theorem c13_include : forall S k, keeps (view_include S) k = forallb (inS S) (key_species k).
Proof. exact include_spec. Qed.
Theorem c13_exclude : forall S k, keeps (view_exclude S) k = negb (existsb (inS S) (key_species k)).
Proof. exact exclude_spec. Qed.
Print Assumptions c13_include.

(* the filtered pair / embedding / density lists are the parse of the file from which the offending lines were deleted *)
Theorem c13_filter_is_delete : forall (V : Type) (v : view) (es : list (entry V)),
  view_entries v (map (forget_entry V) es) = map (forget_entry V) (filter (fun e => negb (offending v (e_key e))) es).
Proof. intros. apply filter_is_delete. Qed.
Theorem c13_tabulation : forall (V : Type) (v : view) (f : rawfile V),
  forget (hand_delete v f) = map (fun se => if filterable (fst se) then (fst se, view_entries v (snd se)) else se) (forget f).
Proof. intros. apply hand_delete_store. Qed.
(* surviving entries are unchanged and keep their relative order *)
Theorem c13_survivors : forall (V : Type) v (es : list (key * V)) kv, In kv (view_entries v es) <-> In kv es /\ keeps v (fst kv) = true.
Proof. intros. apply view_entries_in. Qed.
Theorem c13_order : forall (V : Type) v (a b : list (key * V)), view_entries v (a ++ b) = view_entries v a ++ view_entries v b.
Proof. intros. apply view_entries_app. Qed.
Print Assumptions c13_tabulation.

(* a filtered view is unaffected by any other view created from the same parsed file *)
Theorem c13_views_independent : forall (V : Type) (es : list (key * V)) st ops i v,
  nth_error st i = Some v -> snd (vstep es (vfinal es st ops) (Read i)) = Some (view_entries v es).
Proof. intros. apply views_independent. assumption. Qed.
Theorem c13_views_shared_refuted :
  let es := [(KPair 0 0, 10%nat); (KPair 1 1, 11%nat)] in
  vrun (vstep_shared es) [] [Create (view_include [0%nat]); Create (view_exclude [0%nat]); Read 0] <>
  vrun (vstep es) [] [Create (view_include [0%nat]); Create (view_exclude [0%nat]); Read 0].
Proof. exact views_shared_refuted. Qed.
Print Assumptions c13_views_independent.

Example c13_example :
  view_entries (view_include [0%nat; 1%nat]) [(KPair 0 1, 1%nat); (KPair 0 2, 2%nat); (KSp 1, 3%nat)] = [(KPair 0 1, 1%nat); (KSp 1, 3%nat)] /\
  view_entries (view_exclude []) [(KPair 0 1, 1%nat)] = [(KPair 0 1, 1%nat)] /\ view_entries (view_include []) [(KPair 0 1, 1%nat)] = [].
Proof. repeat split; vm_compute; reflexivity. Qed.

(* --- down to characters (proof/StoreText.v): the file from which the offending lines were deleted, printed (every key in the
       spelling its entry carries, ":" or "=", continuation lines, an empty line after each section), is read by the line parser
       (model/Ini.v) as exactly the filtered store -- keys as their blank-free texts *)
From Coq Require Import ZArith.
From V Require Import model.Ini proof.IniProofs proof.IniFile proof.IniFile2 proof.StoreText.
Theorem c13_deleted_file_text : forall (ltext : nat -> list Z), (forall n, label_ok (ltext n)) ->
  forall (v : view) (f : rawfile val) st, values_ok (hand_delete v f) -> compat ltext (hand_delete v f) = true -> Store.parse (hand_delete v f) = Ok st ->
  forget (hand_delete v f) = map (fun se => if filterable (fst se) then (fst se, view_entries v (snd se)) else se) (forget f)
  /\ parse_ini (printed ltext (hand_delete v f)) = Some (text_store ltext (hand_delete v f)).
Proof.
  intros ltext L v f st Hv Hc Hp. split; [apply hand_delete_store|exact (store_text_printed ltext L _ st Hv Hc Hp)].
Qed.
Print Assumptions c13_deleted_file_text.
