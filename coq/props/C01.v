(* C01 -- LAMMPS pair table: rows, header and force column are faithful to the model.
   `lammps_file pots cutoff nr` (model/PairTables.v) is the layout written by LAMMPS_PairTabulation.write,
   writePotentials('LAMMPS', ..) and potable; its text is compared byte for byte with the implementation on every run.
   Row positions and dr are the REGENERATED formulas (gen/GridArith.v). *)
From Coq Require Import Reals Qreals.
From V Require Import lib.Common lib.Layout lib.RLib gen.GridArith gen.Combinators model.PairTables model.Callable
                      proof.LayoutLemmas proof.C07Comb proof.C01.
From V Require Import model.NumFormat proof.NumFormatProofs.
Local Open Scope Q_scope.

(* one block per potential, in the order given, headed by that potential's two species labels, then
   "N <nr-1> R <dr> <cutoff>", a blank line, and exactly nr-1 rows *)
Theorem c01_blocks : forall pots cutoff nr,
  lammps_file pots cutoff nr = join_blocks [nl] (map (lammps_block (pair_dr cutoff nr) cutoff (nr - 1)) (indexed pots))
  /\ length (map (lammps_block (pair_dr cutoff nr) cutoff (nr - 1)) (indexed pots)) = length pots
  /\ forall k d, (k < length pots)%nat ->
       nth k (map (lammps_block (pair_dr cutoff nr) cutoff (nr - 1)) (indexed pots)) [] =
       lammps_block (pair_dr cutoff nr) cutoff (nr - 1) (k, nth k pots d).
Proof.
  intros pots cutoff nr. split; [reflexivity|]. split; [rewrite map_length; apply indexed_length|].
  intros k d H. erewrite nth_indep by (rewrite map_length, indexed_length; exact H).
  rewrite (map_nth (lammps_block _ _ _) (indexed pots) (O, d)). rewrite indexed_nth by exact H. reflexivity.
Qed.
Print Assumptions c01_blocks.

Theorem c01_header_body : forall minr maxr N i p,
  lammps_block minr maxr N (i, p) =
    [IStr F_s (p_a p); ILit L_dash; IStr F_s (p_b p); nl;
     ILit L_N; IInt F_d N; ILit L_R; IQ F_8f minr; sp; IQ F_8f maxr; nl; nl]
    ++ flat_map (lammps_row i p minr maxr N) (zseq 1 (Z.to_nat N))
  /\ length (zseq 1 (Z.to_nat N)) = Z.to_nat N
  /\ (forall k, (k < Z.to_nat N)%nat -> nth k (zseq 1 (Z.to_nat N)) 0%Z = (1 + Z.of_nat k)%Z).
Proof.
  intros. split; [reflexivity|]. split; [apply zseq_length|]. intros k H. apply zseq_nth. exact H.
Qed.

(* the grid: row n is at r_n = n * dr with dr = cutoff/(nr-1); first row at dr, last at cutoff; no r = 0 row *)
Theorem c01_grid : forall cutoff nr n, (3 <= nr)%Z ->
  lammps_row_r (pair_dr cutoff nr) cutoff n (nr - 1) == inject_Z n * pair_dr cutoff nr.
Proof. exact lammps_grid. Qed.
Theorem c01_grid_first : forall cutoff nr, (3 <= nr)%Z ->
  lammps_row_r (pair_dr cutoff nr) cutoff 1 (nr - 1) == pair_dr cutoff nr.
Proof. exact lammps_grid_first. Qed.
Theorem c01_grid_last : forall cutoff nr, (3 <= nr)%Z ->
  lammps_row_r (pair_dr cutoff nr) cutoff (nr - 1) (nr - 1) == cutoff.
Proof. exact lammps_grid_last. Qed.
Theorem c01_dr : forall cutoff nr, pair_dr cutoff nr = cutoff / inject_Z (nr - 1).
Proof. reflexivity. Qed.
Print Assumptions c01_grid.

(* in every row the energy cell and the force cell evaluate the SAME potential's callable at the SAME r_n:
   the evaluations performed for the whole file are, potential by potential and row by row,
   energy(r_n) then force(r_n) *)
Theorem c01_cells : forall pots cutoff nr,
  trace (lammps_file pots cutoff nr) =
  flat_map (fun ip => flat_map (fun n => row_evs (fst ip) (snd ip) (lammps_row_r (pair_dr cutoff nr) cutoff n (nr - 1)))
                               (zseq 1 (Z.to_nat (nr - 1)))) (indexed pots).
Proof. exact lammps_trace. Qed.
Theorem c01_row : forall i p minr maxr N n,
  lammps_row i p minr maxr N n =
  let r := lammps_row_r minr maxr n N in
  [IInt F_s n; sp; IQ F_8f r; sp; IVal F_8f (energy_evs i r) (fun _ => SPlain); sp;
   IVal F_8f (force_evs i (p_hasd p) r) (fun _ => if p_hasd p then SNeg else SNegNum); nl].
Proof. reflexivity. Qed.
Print Assumptions c01_cells.

(* the number printed in the force cell is Potential.force = - gradient(energy) of the same callable at r:
   minus its analytic derivative when it offers one, minus the secant slope of the energy otherwise (C07) *)
Theorem c01_force_is_minus_gradient : forall (c : callable) (i : nat) (r : Q),
  let evs := force_evs i (has_d c) r in
  let v := fun j => perform c (nth j evs (mkev (FPair i) KCall 0)) in
  let a := fun j => Q2R (e_arg (nth j evs (mkev (FPair i) KCall 0))) in
  sem_scale (if has_d c then SNeg else SNegNum) v a 0 = force (Q2R force_h) c (Q2R r).
Proof. exact force_cell_is_force. Qed.
Print Assumptions c01_force_is_minus_gradient.

(* what the printed cells mean.  Every number of the table is printed with "%.8f"; the text of a cell reads back (sign, digits,
   point, digits) as the value rounded to 8 decimals, ties to even: within half a unit of the last printed decimal of the binary
   floating-point value (-1)^neg * m * 2^e the writer held; the rounding is monotone and exact on multiples of 1e-8 *)
Theorem c01_cell_text : forall neg m e t, (0 <= m)%Z -> fmt_float F_8f neg m e = Some t ->
  read_number t = Some (mkp neg (fixed_int 8 m e) 8 0).
Proof. intros neg m e t Hm H. inversion H. apply (fmt_reads false 7 false 0 neg m e Hm). Qed.
Theorem c01_cell_value : forall m e, (0 <= m)%Z -> let '(n, q) := frac m e in
  (Z.abs (2 * fixed_int 8 m e * q - 2 * (n * 10 ^ 8)) <= q)%Z.
Proof. exact (fixed_close 8). Qed.
Theorem c01_cell_monotone : forall m1 m2 e, (0 <= m1 <= m2)%Z -> (fixed_int 8 m1 e <= fixed_int 8 m2 e)%Z.
Proof. exact (fixed_monotone 8). Qed.
Print Assumptions c01_cell_text.

(* the row count "N %d" and the row numbers: the text reads back as the number *)
Theorem c01_count_text : forall n t, fmt_int F_d n = Some t -> read_number t = Some (mkp (n <? 0)%Z (Z.abs n) 0 0).
Proof. exact (fmt_int_reads F_d). Qed.

(* a printed cell contains no blank, tab or line break: a row splits at the writer's blanks into exactly its four cells *)
Theorem c01_cell_no_blank : forall neg m e, (0 <= m)%Z -> Forall (fun c => cell_char c = true) (fixed 8 neg m e).
Proof. exact (fixed_chars 8). Qed.
Theorem c01_cell_chars_not_blank : forall c, cell_char c = true -> c <> 32%Z /\ c <> 10%Z /\ c <> 9%Z.
Proof. exact cell_char_not_blank. Qed.

(* non-vacuity: a concrete two-potential table *)
Example c01_example :
  let pots := [{| p_a := 0; p_b := 1; p_hasd := true |}; {| p_a := 1; p_b := 1; p_hasd := false |}] in
  (3 <= 5)%Z /\ length (trace (lammps_file pots (3 # 1) 5)) = (4 * 2 + 4 * 3)%nat /\
  Qeq_bool (lammps_row_r (pair_dr (3 # 1) 5) (3 # 1) 4 4) (3 # 1) = true.
Proof. split; [lia|]. split; vm_compute; reflexivity. Qed.
