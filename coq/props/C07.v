(* C07 -- offered first/second derivatives are the true derivatives of the energy.
   Leaves: generated deriv/deriv2 of every built-in form (all r in the domain, all parameters).
   Combinators: plus/product/pow/trans at ANY nesting depth by structural induction; numerical fallback for
   the component without an analytic derivative only; num_deriv is a secant slope (mean value form).
   Floats are modelled as reals. *)
From Coq Require Import Reals List Lra.
From Coquelicot Require Import Coquelicot.
From V Require Import lib.Common lib.RLib gen.PotFuncs gen.Combinators spec.Forms model.Callable
                      proof.TTIdeal proof.C07Leaves proof.C07Zbl proof.C07TT proof.C07Comb.
Import ListNotations.
Local Open Scope R_scope.

Theorem c07_buck_d : forall r A rho C, r <> 0 -> rho <> 0 -> is_derive (fun x => buck_call x A rho C) r (buck_deriv r A rho C).
Proof. exact buck_d. Qed.
Theorem c07_buck_d2 : forall r A rho C, r <> 0 -> rho <> 0 -> is_derive (fun x => buck_deriv x A rho C) r (buck_deriv2 r A rho C).
Proof. exact buck_d2. Qed.
Theorem c07_bornmayer_d : forall r A rho, r <> 0 -> rho <> 0 -> is_derive (fun x => bornmayer_call x A rho) r (bornmayer_deriv r A rho).
Proof. exact bornmayer_d. Qed.
Theorem c07_bornmayer_d2 : forall r A rho, r <> 0 -> rho <> 0 -> is_derive (fun x => bornmayer_deriv x A rho) r (bornmayer_deriv2 r A rho).
Proof. exact bornmayer_d2. Qed.
Theorem c07_constant_d : forall r c, is_derive (fun x => constant_call x c) r (constant_deriv r c).
Proof. exact constant_d. Qed.
Theorem c07_constant_d2 : forall r c, is_derive (fun x => constant_deriv x c) r (constant_deriv2 r c).
Proof. exact constant_d2. Qed.
Theorem c07_zero_d : forall r, is_derive zero_call r (zero_deriv r).
Proof. exact zero_d. Qed.
Theorem c07_zero_d2 : forall r, is_derive zero_deriv r (zero_deriv2 r).
Proof. exact zero_d2. Qed.
Theorem c07_exponential_d : forall r A n, 0 < r -> is_derive (fun x => exponential_call x A n) r (exponential_deriv r A n).
Proof. exact exponential_d. Qed.
Theorem c07_exponential_d2 : forall r A n, 0 < r -> is_derive (fun x => exponential_deriv x A n) r (exponential_deriv2 r A n).
Proof. exact exponential_d2. Qed.
Theorem c07_hbnd_d : forall r A B, r <> 0 -> is_derive (fun x => hbnd_call x A B) r (hbnd_deriv r A B).
Proof. exact hbnd_d. Qed.
Theorem c07_hbnd_d2 : forall r A B, r <> 0 -> is_derive (fun x => hbnd_deriv x A B) r (hbnd_deriv2 r A B).
Proof. exact hbnd_d2. Qed.
Theorem c07_lj_d : forall r e s, r <> 0 -> is_derive (fun x => lj_call x e s) r (lj_deriv r e s).
Proof. exact lj_d. Qed.
Theorem c07_lj_d2 : forall r e s, r <> 0 -> is_derive (fun x => lj_deriv x e s) r (lj_deriv2 r e s).
Proof. exact lj_d2. Qed.
Theorem c07_morse_d : forall r g rs D, is_derive (fun x => morse_call x g rs D) r (morse_deriv r g rs D).
Proof. exact morse_d. Qed.
Theorem c07_morse_d2 : forall r g rs D, is_derive (fun x => morse_deriv x g rs D) r (morse_deriv2 r g rs D).
Proof. exact morse_d2. Qed.
Theorem c07_sqrt_d : forall r G, 0 < r -> is_derive (fun x => sqrt_call x G) r (sqrt_deriv r G).
Proof. exact sqrt_d. Qed.
Theorem c07_sqrt_d2 : forall r G, 0 < r -> is_derive (fun x => sqrt_deriv x G) r (sqrt_deriv2 r G).
Proof. exact sqrt_d2. Qed.
Theorem c07_exp_spline_d : forall r B0 B1 B2 B3 B4 B5 C,
  is_derive (fun x => exp_spline_call x B0 B1 B2 B3 B4 B5 C) r (exp_spline_deriv r B0 B1 B2 B3 B4 B5 C).
Proof. exact exp_spline_d. Qed.
Theorem c07_exp_spline_d2 : forall r B0 B1 B2 B3 B4 B5 C,
  is_derive (fun x => exp_spline_deriv x B0 B1 B2 B3 B4 B5 C) r (exp_spline_deriv2 r B0 B1 B2 B3 B4 B5 C).
Proof. exact exp_spline_d2. Qed.
(* polynomial: every order *)
Theorem c07_polynomial_d : forall r coefs, is_derive (fun x => polynomial_call x coefs) r (polynomial_deriv r coefs).
Proof. exact polynomial_d. Qed.
Theorem c07_polynomial_d2 : forall r coefs, is_derive (fun x => polynomial_deriv x coefs) r (polynomial_deriv2 r coefs).
Proof. exact polynomial_d2. Qed.
Print Assumptions c07_polynomial_d2.

(* Coulomb: the rounded literal is within 1e-13 of 1/(4 eps0); the offered derivative is within 1e-13 (relative) of the true one *)
Theorem c07_coul_d : forall r qi qj, r <> 0 ->
  exists d, is_derive (fun x => coul_call x qi qj) r d /\ Rabs (coul_deriv r qi qj - d) <= Rabs d / 10 ^ 13.
Proof. exact coul_d_close. Qed.
Theorem c07_coul_d2_exact : forall r qi qj, r <> 0 ->
  is_derive (fun x => coul_deriv_K coul_K x qi qj) r (coul_deriv2_K (2 * coul_K) r qi qj).
Proof. exact coul_d2. Qed.
Theorem c07_coul_constants : Forall2 lit_close coul_deriv_lits [coul_K] /\ Forall2 lit_close coul_deriv2_lits [2 * coul_K].
Proof. exact coul_constants. Qed.
Print Assumptions c07_coul_d.

(* ZBL and Tang-Toennies: exact for the ideal constants + every literal within 1e-13 of its ideal.  The
   literals sit inside exponentials; the continuity estimate that would turn the pair into a bound on the
   offered value is not mechanised, hence `_partial`. *)
Theorem c07_zbl_d_partial : forall r z1 z2, r <> 0 -> 0 < z1 -> 0 < z2 ->
  is_derive (fun x => zbl_call x z1 z2) r (zbl_deriv_K zbl_k r z1 z2).
Proof. exact zbl_d. Qed.
Theorem c07_zbl_d2_partial : forall r z1 z2, r <> 0 -> 0 < z1 -> 0 < z2 ->
  is_derive (fun x => zbl_deriv_K zbl_k x z1 z2) r (zbl_deriv2_K (1439942 / 100000 * zbl_k ^ 2) zbl_k r z1 z2).
Proof. exact zbl_d2. Qed.
Theorem c07_zbl_constants :
  Forall2 lit_close zbl_deriv_lits [zbl_k] /\ Forall2 lit_close zbl_deriv2_lits [1439942 / 100000 * zbl_k ^ 2; zbl_k].
Proof. exact zbl_constants. Qed.
Theorem c07_tang_toennies_d_partial : forall r A b C6 C8 C10, r <> 0 ->
  is_derive (fun x => tt_call_I x A b C6 C8 C10) r (tt_deriv_I r A b C6 C8 C10).
Proof. exact tt_d. Qed.
Theorem c07_tang_toennies_d2_partial : forall r A b C6 C8 C10, r <> 0 ->
  is_derive (fun x => tt_deriv_I x A b C6 C8 C10) r (tt_deriv2_I r A b C6 C8 C10).
Proof. exact tt_d2. Qed.
Theorem c07_tang_toennies_constants :
  Forall2 lit_close tang_toennies_call_lits tang_toennies_call_ideal /\
  Forall2 lit_close tang_toennies_deriv_lits tang_toennies_deriv_ideal /\
  Forall2 lit_close tang_toennies_deriv2_lits tang_toennies_deriv2_ideal.
Proof. exact tt_constants. Qed.
Print Assumptions c07_tang_toennies_d2_partial.
Print Assumptions c07_tang_toennies_constants.

(* combinators, any depth: if every leaf offers true first and second derivatives at the points where it is
   evaluated (and bases of powers are positive there), so does the expression built by the code *)
Theorem c07_any_depth : forall e r, okat e r -> analytic_at (build e) r.
Proof. exact any_depth. Qed.
Theorem c07_value : forall e r, cf (build e) r = denote e r.
Proof. exact build_denote. Qed.
Print Assumptions c07_any_depth.

(* numerical differentiation is applied to the component without an analytic derivative only *)
Theorem c07_fallback_plus : forall a b da, cd a = Some da -> cd b = None ->
  cd (c_plus a b) = Some (fun r => da r + num_deriv r (cf b) num_deriv_default_h).
Proof. exact plus_fallback. Qed.
Theorem c07_fallback_product : forall a b da, cd a = Some da -> cd b = None ->
  cd (c_product a b) = Some (fun r => cf a r * num_deriv r (cf b) num_deriv_default_h + cf b r * da r).
Proof. exact product_fallback. Qed.
Theorem c07_no_deriv : forall a b op1 op2 op3, cd a = None -> cd b = None ->
  cd (comb3 op1 op2 op3 a b) = None /\ cd2 (comb3 op1 op2 op3 a b) = None.
Proof. exact no_deriv_no_deriv. Qed.

(* the tabulated force: minus the analytic derivative when offered, else minus a secant slope of the energy,
   which is minus the energy's derivative at some point within h/2 of r *)
Theorem c07_force_analytic : forall h c d r, cd c = Some d -> force h c r = - d r.
Proof. exact force_analytic. Qed.
Theorem c07_force_numeric : forall h c r, cd c = None -> force h c r = - num_deriv r (cf c) h.
Proof. exact force_numeric. Qed.
Theorem c07_numd_secant : forall (f f' : R -> R) h r, 0 < h ->
  (forall x, r - h / 2 <= x <= r + h / 2 -> is_derive f x (f' x)) ->
  exists xi, r - h / 2 <= xi <= r + h / 2 /\ num_deriv r f h = f' xi.
Proof. exact num_deriv_mvt. Qed.
Print Assumptions c07_numd_secant.

(* piecewise potentials (multi-range, splined): where the selection is locally constant the derivative is the
   selected piece's *)
Theorem c07_piecewise : forall (f g : R -> R) r l, locally r (fun x => f x = g x) -> is_derive g r l -> is_derive f r l.
Proof. exact derive_locally_equal. Qed.

(* multi-range potentials: away from the range starts (selection locally constant) the offered derivatives
   are those of the selected range's potential *)
Theorem c07_multirange : forall (select : R -> option nat) cs r i,
  locally r (fun x => select x = Some i) -> analytic_at (nth i cs zero_callable) r -> analytic_at (c_multi select cs) r.
Proof. exact multi_analytic. Qed.
Print Assumptions c07_multirange.

(* non-vacuity: a depth-2 expression over concrete forms satisfies the hypotheses at r = 2 *)
Example c07_example :
  let bk := {| cf := fun r => buck_call r 1000 (3 / 10) 32; cd := Some (fun r => buck_deriv r 1000 (3 / 10) 32);
               cd2 := Some (fun r => buck_deriv2 r 1000 (3 / 10) 32) |} in
  let ms := {| cf := fun r => morse_call r 2 1 (1 / 2); cd := Some (fun r => morse_deriv r 2 1 (1 / 2));
               cd2 := Some (fun r => morse_deriv2 r 2 1 (1 / 2)) |} in
  okat (Plus (Product (Leaf bk) (Leaf ms)) (Trans (Leaf bk) 1)) 2.
Proof.
  cbn [okat]. repeat split; unfold analytic_at; cbn [cf cd cd2]; eexists; eexists;
  (split; [reflexivity|split; [reflexivity|split; [first [apply buck_d|apply morse_d]|first [apply buck_d2|apply morse_d2]]]]); lra.
Qed.
