(* C02 -- DL_POLY TABLE: header, 4-per-record layout, energies and -r dU/dr faithful.
   `dlpoly_file pots cutoff ngrid` (model/PairTables.v) is compared byte for byte with DLPoly_PairTabulation.write,
   writePotentials('DL_POLY', ..) and potable (targets DL_POLY / DLPOLY) on every run. *)
From Coq Require Import Reals Qreals.
From V Require Import lib.Common lib.Layout lib.RLib gen.GridArith gen.Combinators model.PairTables model.Callable
                      proof.LayoutLemmas proof.C01 proof.C02.
From V Require Import model.NumFormat proof.NumFormatProofs.
Local Open Scope Q_scope.

(* header: delpot = cutoff/(ngrid-4), cutpot = cutoff, ngrid; then one block per potential in order *)
Theorem c02_header : forall pots cutoff ngrid, (ngrid mod 4 = 0)%Z ->
  dlpoly_file pots cutoff ngrid =
  Some ([ILit L_blank80; nl; IQ F_158e (dlpoly_mesh cutoff ngrid); IQ F_158e cutoff; IInt F_10d ngrid; nl]
        ++ dlpoly_blocks (dlpoly_mesh cutoff ngrid) (Z.to_nat ngrid) 0 0 pots).
Proof. exact dlpoly_accept. Qed.
Theorem c02_delpot : forall cutoff ngrid, dlpoly_mesh cutoff ngrid = cutoff / (inject_Z ngrid - (4 # 1)).
Proof. reflexivity. Qed.

(* the k-th sample position, accumulated by repeated addition, is k * delpot (and the (ngrid-4)-th is the cutoff) *)
Theorem c02_accumulate : forall mesh k, dl_r mesh k == inject_Z (Z.of_nat k) * mesh.
Proof. exact dl_r_linear. Qed.
Theorem c02_cutoff_row : forall mesh cutoff ngrid, (4 < ngrid)%Z -> mesh = dlpoly_mesh cutoff ngrid ->
  dl_r mesh (Z.to_nat (ngrid - 4)) == cutoff.
Proof. exact dl_last. Qed.

(* each block: the 8+8 character label line, then exactly ngrid energies, then exactly ngrid force values,
   all of the SAME potential at the SAME positions r_k; four values per record *)
Theorem c02_block : forall mesh ngrid base i p,
  dlpoly_block mesh ngrid base i p =
  [IStr F_8s (p_a p); IStr F_8s (p_b p); nl]
  ++ dl_value_items (fun k => IVal F_147e (energy_evs i (dl_r mesh k)) (fun _ => SPlain)) ngrid
  ++ dl_value_items (fun k => IVal F_147e (force_evs i (p_hasd p) (dl_r mesh k))
                                   (fun _ => if p_hasd p then SArgNeg else SArgNegNum (base + (k - 1)))) ngrid.
Proof. reflexivity. Qed.
Theorem c02_counts : forall mk n, (forall k, is_val (mk k) = true) -> (forall k, is_nl (mk k) = false) ->
  length (filter is_val (dl_value_items mk (4 * n))) = (4 * n)%nat /\
  length (filter is_nl (dl_value_items mk (4 * n))) = n.
Proof. intros mk n H1 H2. split; [apply dl_items_vals, H1|rewrite dl_items_records by exact H2; apply count_mult4]. Qed.
Theorem c02_block_trace : forall mesh ngrid base i p,
  flat_map item_evs (dlpoly_block mesh ngrid base i p) =
  flat_map (fun k => energy_evs i (dl_r mesh k)) (seq 1 ngrid) ++
  flat_map (fun k => force_evs i (p_hasd p) (dl_r mesh k)) (seq 1 ngrid).
Proof. exact dlpoly_block_trace. Qed.
Print Assumptions c02_counts.

(* the k-th force value is r_k * Potential.force(r_k) = - r dV/dr for the same function V (C07 for force) *)
Theorem c02_force_cell : forall (c : callable) (i : nat) (r : Q) (jr : nat) (aj : nat -> R),
  let evs := force_evs i (has_d c) r in
  let v := fun j => perform c (nth j evs (mkev (FPair i) KCall 0)) in
  let a := fun j => if Nat.eqb j jr then Q2R r else Q2R (e_arg (nth j evs (mkev (FPair i) KCall 0))) in
  (has_d c = false -> (2 <= jr)%nat) ->
  sem_scale (if has_d c then SArgNeg else SArgNegNum jr) v a 0 =
  ((if has_d c then Q2R r else a jr) * force (Q2R force_h) c (Q2R r))%R.
Proof. exact dl_force_cell. Qed.
Print Assumptions c02_force_cell.

(* a row count not divisible by four is rejected before anything is written *)
Theorem c02_reject : forall pots cutoff ngrid, pots <> [] -> (ngrid mod 4 <> 0)%Z -> dlpoly_file pots cutoff ngrid = None.
Proof. exact dlpoly_reject. Qed.
Print Assumptions c02_reject.

(* what the printed cells mean.  Energies and forces are printed with "% 14.7e"; the text of a cell reads back as a mantissa
   of 8 digits and a decimal exponent: for a non-zero value the first digit is not zero and mantissa * 10^(exponent - 7) is the binary
   floating-point value (-1)^neg * m * 2^e the writer held, rounded at the last printed digit, ties to even (a mantissa that rounds up
   to 10^8 is printed as 1.0...0 with the next exponent) *)
Theorem c02_cell_text : forall neg m e t, (0 <= m)%Z -> fmt_float F_147e neg m e = Some t ->
  read_number t = Some (let '(M, x) := sci_parts 7 m e in mkp neg M 7 x).
Proof. intros neg m e t Hm H. inversion H. apply (fmt_reads true 6 true 14 neg m e Hm). Qed.
Theorem c02_cell_value : forall m e, (0 < m)%Z -> let '(n, q) := frac m e in let '(M, x) := sci_parts 7 m e in
  (10 ^ 7 <= M < 10 ^ (7 + 1))%Z /\
  exists s M0, ((M, x) = (M0, 7 - s)%Z \/ (M0 = 10 ^ (7 + 1) /\ M = 10 ^ 7 /\ x = 7 - s + 1)%Z) /\
    (Z.abs (2 * M0 * (q * 10 ^ Z.max 0 (- s)) - 2 * (n * 10 ^ Z.max 0 s)) <= q * 10 ^ Z.max 0 (- s))%Z.
Proof. exact (sci_parts_spec 7). Qed.
Print Assumptions c02_cell_value.

(* the header's point count is printed with "%10d": its text reads back as that number *)
Theorem c02_ngrid_text : forall n t, fmt_int F_10d n = Some t -> read_number t = Some (mkp (n <? 0)%Z (Z.abs n) 0 0).
Proof. exact (fmt_int_reads F_10d). Qed.

Example c02_example :
  let pots := [{| p_a := 0; p_b := 1; p_hasd := false |}] in
  (8 mod 4 = 0)%Z /\ option_map (fun f => length (trace f)) (dlpoly_file pots (2 # 1) 8) = Some (8 + 16)%nat /\
  dlpoly_file pots (2 # 1) 6 = None.
Proof. split; [reflexivity|]. split; vm_compute; reflexivity. Qed.
