(* C06 -- built-in potential forms evaluate their documented formula, with parameters bound in the
   documented order.  `<form>_call` is REGENERATED from potentialfunctions.py on every run (and the
   translator refuses when a signature differs from the documented parameter order); `spec_<form>` is
   the documented closed form (spec/Forms.v).  Floats are modelled as reals. *)
From Coq Require Import Reals List Lra.
From V Require Import lib.Common lib.RLib gen.PotFuncs spec.Forms model.Routes proof.TTIdeal proof.C06 proof.C07TT.
Import ListNotations.
Local Open Scope R_scope.

Theorem c06_bornmayer : forall r A rho, r <> 0 -> bornmayer_call r A rho = spec_bornmayer r A rho.
Proof. exact bornmayer_ok. Qed.
Theorem c06_buck : forall r A rho C, buck_call r A rho C = spec_buck r A rho C.
Proof. exact buck_ok. Qed.
Theorem c06_constant : forall r C, constant_call r C = spec_constant r C.
Proof. exact constant_ok. Qed.
Theorem c06_coul : forall r qi qj, r <> 0 -> coul_call r qi qj = spec_coul r qi qj.
Proof. exact coul_ok. Qed.
Theorem c06_exponential : forall r A n, exponential_call r A n = spec_exponential r A n.
Proof. exact exponential_ok. Qed.
Theorem c06_exp_spline : forall r B0 B1 B2 B3 B4 B5 C,
  exp_spline_call r B0 B1 B2 B3 B4 B5 C = spec_exp_spline r B0 B1 B2 B3 B4 B5 C.
Proof. exact exp_spline_ok. Qed.
Theorem c06_hbnd : forall r A B, hbnd_call r A B = spec_hbnd r A B.
Proof. exact hbnd_ok. Qed.
Theorem c06_lj : forall r epsilon sigma, lj_call r epsilon sigma = spec_lj r epsilon sigma.
Proof. exact lj_ok. Qed.
Theorem c06_morse : forall r gamma r_star D, morse_call r gamma r_star D = spec_morse r gamma r_star D.
Proof. exact morse_ok. Qed.
(* every order, any coefficient list *)
Theorem c06_polynomial : forall r coefs, polynomial_call r coefs = spec_polynomial r coefs.
Proof. exact polynomial_ok. Qed.
Theorem c06_sqrt : forall r G, sqrt_call r G = spec_sqrt r G.
Proof. exact sqrt_ok. Qed.
Theorem c06_zero : forall r, zero_call r = spec_zero r.
Proof. exact zero_ok. Qed.
Theorem c06_zbl : forall r z1 z2, r <> 0 -> 0 < z1 -> 0 < z2 -> zbl_call r z1 z2 = spec_zbl r z1 z2.
Proof. exact zbl_ok. Qed.
Print Assumptions c06_zbl.

(* Tang-Toennies: the code is a pre-expanded expression with 15 long decimal literals.  With the ideal
   constants it IS the documented formula, and each literal is within 1e-13 (relative) of its ideal. *)
Theorem c06_tang_toennies_exact : forall r A b C6 C8 C10, r <> 0 ->
  tt_call_I r A b C6 C8 C10 = spec_tang_toennies r A b C6 C8 C10.
Proof. exact tt_exact. Qed.
Theorem c06_tang_toennies_constants : Forall2 lit_close tang_toennies_call_lits tang_toennies_call_ideal.
Proof. exact (proj1 tt_constants). Qed.
Print Assumptions c06_tang_toennies_exact.
Print Assumptions c06_tang_toennies_constants.

(* the four access routes bind parameters after r and agree; wrong arity is a configuration error *)
Theorem c06_routes : forall (V : Type) (func : list V -> V) (n_params : option nat) (r : V) (params : list V),
  arity_ok n_params (length params) false = true ->
  factory V func params r = func (r :: params) /\
  (exists g, potable_form V func n_params params = Ok g /\ g r = func (r :: params)) /\
  potable_call V func n_params (r :: params) = Ok (func (r :: params)).
Proof. exact routes_agree. Qed.
Theorem c06_routes_wrong_arity : forall (V : Type) (func : list V -> V) (n_params : option nat) params,
  arity_ok n_params (length params) false = false -> potable_form V func n_params params = CfgErr.
Proof. exact routes_wrong_arity. Qed.
Print Assumptions c06_routes.

(* hypotheses are satisfiable; the polynomial statement is about a non-trivial list *)
Example c06_example : spec_polynomial 2 [1; 0; 3] = 13 /\ (2 <> 0 /\ 0 < 14 /\ 0 < 8).
Proof. split; [unfold spec_polynomial; cbn; ring|repeat split; lra]. Qed.
