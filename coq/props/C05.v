(* C05 -- DL_POLY TABEAM: declared function count, block headers and values are faithful.
   `tabeam_file` (model/EamTables.v) is compared byte for byte with writeTABEAM, writeTABEAMFinnisSinclair, the TABEAM
   tabulation classes and potable (DL_POLY_EAM, DL_POLY_EAM_fs).  The count expressions are REGENERATED from the source. *)
From V Require Import lib.Common lib.Layout lib.Sorting gen.GridArith model.PairTables model.EamTables proof.LayoutLemmas proof.C05.
From V Require Import model.NumFormat proof.NumFormatProofs.
Local Open Scope Z_scope.

(* number of blocks written = pair blocks (one per unordered element pair) + n embe + n (or n^2) dens *)
Theorem c05_blocks : forall fs els pairs nrho drho nr dr,
  count_blocks (tabeam_file fs els pairs nrho drho nr dr) =
  (length (all_pair_keys els) + length els + (if fs then length els * length els else length els))%nat.
Proof. exact tabeam_block_count. Qed.
Theorem c05_pair_keys : forall els, (2 * length (all_pair_keys els) = length els * (length els + 1))%nat.
Proof. intro els. unfold all_pair_keys. rewrite tri_keys_length, sorted_species_length. reflexivity. Qed.

(* the declared number (second line of the file) equals the number of blocks, for every number of elements *)
Theorem c05_count_eam : forall els pairs nrho drho nr dr,
  (tabeam_count (Z.of_nat (length els)) == inject_Z (Z.of_nat (count_blocks (tabeam_file false els pairs nrho drho nr dr))))%Q.
Proof.
  intros. rewrite c05_blocks. apply declared_eam. apply c05_pair_keys.
Qed.
Theorem c05_count_eeam : forall els pairs nrho drho nr dr,
  (tabeam_count_fs (Z.of_nat (length els)) == inject_Z (Z.of_nat (count_blocks (tabeam_file true els pairs nrho drho nr dr))))%Q.
Proof.
  intros. rewrite c05_blocks. apply declared_fs. apply c05_pair_keys.
Qed.
Print Assumptions c05_count_eam.
Print Assumptions c05_count_eeam.

(* exactly one pair block per unordered pair: zero-filled when undeclared, found whichever way round it was declared *)
Theorem c05_pairs : forall els pairs nr dr,
  tabeam_pairs els pairs nr dr =
  flat_map (fun k =>
    match last_with k (indexed pairs) None with
    | Some i => let p := nth i pairs {| p_a := 0; p_b := 0; p_hasd := false |} in
                [ILit L_pair; IStr F_s (p_a p); sp; IStr F_s (p_b p); sp; IInt F_d nr; ILit L_zero_sp; IQ F_f (tabeam_end nr dr); nl]
                ++ tab_fn (FPair i) nr dr
    | None => [ILit L_pair; IStr F_s (fst k); sp; IStr F_s (snd k); sp; IInt F_d nr; ILit L_zero_sp; IQ F_f (tabeam_end nr dr); nl]
              ++ tab_zero nr
    end) (all_pair_keys els).
Proof. reflexivity. Qed.

(* block headers: species, n, start 0.0, end (n-1)*step; followed by exactly n values at i*step, four per row *)
Theorem c05_headers : forall n step, tabeam_end n step = (inject_Z (n - 1) * step)%Q.
Proof. reflexivity. Qed.
Theorem c05_values : forall fn n step,
  flat_map item_evs (tab_fn fn n step) = map (fun i => mkev fn KCall (tabeam_sample i step)) (zseq 0 (Z.to_nat n))
  /\ (forall i, tabeam_sample i step = (inject_Z i * step)%Q) /\ length (zseq 0 (Z.to_nat n)) = Z.to_nat n.
Proof. intros. split; [apply tab_fn_trace|]. split; [reflexivity|apply zseq_length]. Qed.
Theorem c05_rows_of_four : forall c1 c2 c3 c4 c5,
  rows_of_four [c1; c2; c3; c4; c5] 0 = [c1; sp; c2; sp; c3; sp; c4; nl; c5; nl].
Proof. reflexivity. Qed.
Print Assumptions c05_values.

(* what the printed cells mean.  TABEAM values are printed with "%f" (six decimals): the text reads back as the value rounded to
   six decimals, ties to even - within half a unit of the sixth decimal of the binary floating-point value the writer held *)
Theorem c05_cell_text : forall neg m e t, (0 <= m)%Z -> fmt_float F_f neg m e = Some t ->
  read_number t = Some (mkp neg (fixed_int 6 m e) 6 0).
Proof. intros neg m e t Hm H. inversion H. apply (fmt_reads false 5 false 0 neg m e Hm). Qed.
Theorem c05_cell_value : forall m e, (0 <= m)%Z -> let '(n, q) := frac m e in
  (Z.abs (2 * fixed_int 6 m e * q - 2 * (n * 10 ^ 6)) <= q)%Z.
Proof. exact (fixed_close 6). Qed.
Print Assumptions c05_cell_text.

(* the declared number of functions is printed with "%d": its text reads back as that number *)
Theorem c05_count_text : forall n t, fmt_int F_d n = Some t -> read_number t = Some (mkp (n <? 0)%Z (Z.abs n) 0 0).
Proof. exact (fmt_int_reads F_d). Qed.

(* a printed value contains no blank or line break: a line of a block splits at blanks into exactly its (at most four) values *)
Theorem c05_cell_no_blank : forall neg m e, (0 <= m)%Z -> Forall (fun c => cell_char c = true) (fixed 6 neg m e).
Proof. exact (fixed_chars 6). Qed.

Example c05_example :
  let els := [{| el_sp := 1; el_Z := 13; el_mass := 27; el_a0 := 0; el_lat := 5 |}; {| el_sp := 0; el_Z := 29; el_mass := 63; el_a0 := 0; el_lat := 5 |}] in
  count_blocks (tabeam_file true els [] 3 (1 # 2) 5 (1 # 10)) = 9%nat /\ Qeq_bool (tabeam_count_fs 2) (9 # 1) = true
  /\ count_blocks (tabeam_file false els [] 3 (1 # 2) 5 (1 # 10)) = 7%nat /\ Qeq_bool (tabeam_count 2) (7 # 1) = true.
Proof. repeat split; vm_compute; reflexivity. Qed.
