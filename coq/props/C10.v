(* C10 -- splined potentials keep their end potentials and join them with C2 continuity.
   model/Spline.v over the callables of model/Callable.v; the 6x6 and 10x10 systems (gen/Splines.v) are translated entry
   by entry from the np.array literals on every run; numpy.linalg.solve is modelled by its contract (the returned vector
   solves the system) -- the statements hold for EVERY solution, the implementation's solution is checked against the
   translated system and the join conditions by the correspondence run. *)
From Coq Require Import Reals List Bool Lra.
From Coquelicot Require Import Coquelicot.
From V Require Import lib.RLib spec.Forms gen.PotFuncs gen.Splines model.Callable model.Spline proof.C06 proof.C10.
Import ListNotations.
Local Open Scope R_scope.

(* --- the end potentials are kept (value, deriv, deriv2), the spline acts strictly in between *)
Theorem c10_keeps_start : forall d a spl r, has_d spl = true -> has_d2 spl = true -> r <= sp_r d ->
  let S := custom_spline d a spl in
  cf S r = cf (sp_fn d) r /\ dval S r = cf (gradient (sp_fn d)) r /\ d2val S r = cf (gradient (gradient (sp_fn d))) r.
Proof. intros d a spl r Hd Hd2 H. exact (custom_keeps_start d a spl Hd Hd2 r H). Qed.
Theorem c10_keeps_end : forall d a spl r, sp_r d < sp_r a -> has_d spl = true -> has_d2 spl = true -> sp_r a <= r ->
  let S := custom_spline d a spl in
  cf S r = cf (sp_fn a) r /\ dval S r = cf (gradient (sp_fn a)) r /\ d2val S r = cf (gradient (gradient (sp_fn a))) r.
Proof. intros d a spl r Hda Hd Hd2 H. exact (custom_keeps_end d a spl Hda Hd Hd2 r H). Qed.
Theorem c10_between : forall d a spl r, has_d spl = true -> has_d2 spl = true -> sp_r d < r -> r < sp_r a ->
  let S := custom_spline d a spl in cf S r = cf spl r /\ dval S r = dval spl r /\ d2val S r = d2val spl r.
Proof. intros d a spl r Hd Hd2 H1 H2. exact (custom_between d a spl Hd Hd2 r H1 H2). Qed.
Print Assumptions c10_keeps_end.

(* --- exponential spline: the advertised shape, and value / first / second derivative of the two points for every
       solution of the translated system (non-positive values shifted, the shift returned as C) *)
Theorem c10_exp_shape : forall B0 B1 B2 B3 B4 B5 C r,
  cf (exp_spline_callable [B0; B1; B2; B3; B4; B5] C) r = exp (B0 + B1 * r + B2 * r ^ 2 + B3 * r ^ 3 + B4 * r ^ 4 + B5 * r ^ 5) + C.
Proof. intros. exact (exp_spline_ok r B0 B1 B2 B3 B4 B5 C). Qed.
Theorem c10_exp_join : forall d a B C, exp_coeffs_ok d a B C ->
  let s := exp_spline_callable B C in
  cf s (sp_r d) = sp_v d /\ cf (gradient s) (sp_r d) = sp_d d /\ cf (gradient (gradient s)) (sp_r d) = sp_dd d /\
  cf s (sp_r a) = sp_v a /\ cf (gradient s) (sp_r a) = sp_d a /\ cf (gradient (gradient s)) (sp_r a) = sp_dd a.
Proof. exact exp_join. Qed.
(* C2: with end potentials whose deriv / deriv2 are their true derivatives at the joins (all built-in forms: C07), the
   splined potential has value v, is differentiable with derivative deriv = v', and deriv is differentiable with
   derivative deriv2 = v'' at detach and at attach; inside the region deriv / deriv2 are the true derivatives too *)
Theorem c10_exp_c2 : forall d a B C, sp_r d < sp_r a -> exp_coeffs_ok d a B C -> true_derivs d -> true_derivs a ->
  let S := custom_spline d a (exp_spline_callable B C) in
  c2_at S (sp_r d) (sp_v d) (sp_d d) (sp_dd d) /\ c2_at S (sp_r a) (sp_v a) (sp_d a) (sp_dd a) /\
  (forall r, sp_r d < r -> r < sp_r a -> is_derive (cf S) r (dval S r) /\ is_derive (dval S) r (d2val S r)).
Proof. exact exp_spline_c2. Qed.
Print Assumptions c10_exp_join.
Print Assumptions c10_exp_c2.

(* --- buck4 spline: fifth-order then third-order polynomial meeting at r_min with zero slope, for every solution *)
Theorem c10_buck4_shape : forall rmin x r,
  cf (buck4_spline_callable rmin x) r = (if Rlt_dec r rmin then polynomial_call r (firstn 6 x) else polynomial_call r (skipn 6 x)).
Proof. intros. apply buck4_callable_cf. Qed.
Theorem c10_buck4_join : forall d a r_min x, buck4_coeffs_ok d a r_min x ->
  let c5 := firstn 6 x in let c3 := skipn 6 x in
  (polynomial_call (sp_r d) c5 = sp_v d /\ polynomial_deriv (sp_r d) c5 = sp_d d /\ polynomial_deriv2 (sp_r d) c5 = sp_dd d) /\
  (polynomial_deriv r_min c5 = 0 /\ polynomial_deriv r_min c3 = 0 /\
   polynomial_call r_min c5 = polynomial_call r_min c3 /\ polynomial_deriv2 r_min c5 = polynomial_deriv2 r_min c3) /\
  (polynomial_call (sp_r a) c3 = sp_v a /\ polynomial_deriv (sp_r a) c3 = sp_d a /\ polynomial_deriv2 (sp_r a) c3 = sp_dd a).
Proof. exact buck4_join. Qed.
Theorem c10_buck4_c2 : forall d a rmin x, sp_r d < rmin < sp_r a -> buck4_coeffs_ok d a rmin x -> true_derivs d -> true_derivs a ->
  let S := custom_spline d a (buck4_spline_callable rmin x) in
  c2_at S (sp_r d) (sp_v d) (sp_d d) (sp_dd d) /\ c2_at S (sp_r a) (sp_v a) (sp_d a) (sp_dd a) /\
  (forall r, sp_r d < r -> r < sp_r a -> is_derive (cf S) r (dval S r) /\ is_derive (dval S) r (d2val S r)) /\
  is_derive (cf S) rmin 0.
Proof. exact buck4_spline_c2. Qed.
Print Assumptions c10_buck4_join.
Print Assumptions c10_buck4_c2.

(* --- the three routes: the classes and the spline() modifier build custom_spline over the same Spline_Points (asserted
       on the AST); as.buck4 and its documented expansion are the same callable, with the same linear system *)
Theorem c10_buck4_routes : forall A rho C rd rm ra x,
  buck4_expansion A rho C rd rm ra x = buck4_form A rho C rd rm ra x /\
  (buck4_coeffs_ok {| sp_fn := buck_c A rho 0; sp_r := rd |} {| sp_fn := buck_c 0 1 C; sp_r := ra |} rm x <->
   buck4_coeffs_ok {| sp_fn := bornmayer_c A rho; sp_r := rd |} {| sp_fn := buck_c 0 1 C; sp_r := ra |} rm x).
Proof. intros. split; [apply buck4_routes|apply buck4_routes_system]. Qed.

(* non-vacuity: a concrete solution of each system *)
Definition one_c : callable := {| cf := fun _ => 1; cd := Some (fun _ => 0); cd2 := Some (fun _ => 0) |}.
Example c10_example_exp :
  let d := {| sp_fn := one_c; sp_r := 0 |} in let a := {| sp_fn := one_c; sp_r := 1 |} in
  exp_coeffs_ok d a [0; 0; 0; 0; 0; 0] 0 /\ sp_r d < sp_r a /\ true_derivs d /\ true_derivs a.
Proof.
  cbn zeta. assert (Hi : exp_inter 1 1 = 0) by (unfold exp_inter; destruct (Rle_dec 1 0); [lra|reflexivity]).
  split; [|split; [cbn; lra|split; split; cbn; apply @is_derive_const]].
  unfold exp_coeffs_ok, sp_v, sp_d, sp_dd. cbn [sp_fn sp_r one_c cf cd cd2 sp_dc sp_d2c gradient gradient_h]. rewrite Hi.
  split; [lra|split; [reflexivity|]]. unfold solves, exp_A, exp_rhs. cbn [map dot]. replace (1 + 0) with 1 by lra. rewrite ln_1.
  repeat (apply f_equal2; [try ring; field; lra|]). reflexivity.
Qed.
Definition zero_c : callable := {| cf := fun _ => 0; cd := Some (fun _ => 0); cd2 := Some (fun _ => 0) |}.
Example c10_example_buck4 :
  let d := {| sp_fn := zero_c; sp_r := 1 |} in let a := {| sp_fn := zero_c; sp_r := 3 |} in
  buck4_coeffs_ok d a 2 [0; 0; 0; 0; 0; 0; 0; 0; 0; 0] /\ sp_r d < 2 < sp_r a.
Proof.
  cbn zeta. split; [|cbn; lra]. split; [reflexivity|]. unfold solves, buck4_M, buck4_V, sp_v, sp_d, sp_dd. cbn.
  repeat (apply f_equal2; [ring|]). reflexivity.
Qed.
