(* C03 -- setfl (eam/alloy): element blocks, grids, r*phi blocks, metadata are faithful.
   `write_setfl` / `setfl_tabulation` (model/EamTables.v) are compared byte for byte with writeSetFL,
   SetFL_EAMTabulation.write and potable (setfl, lammps_eam_alloy); `builder_order` / `metadata`
   (model/EamBuilder.v) with the tabulation built from potable files. *)
From Coq Require Import Sorted.
From V Require Import lib.Common lib.Layout gen.GridArith model.PairTables model.EamTables model.EamBuilder
                      proof.LayoutLemmas proof.C03.
From V Require Import model.NumFormat proof.NumFormatProofs.
Local Open Scope Z_scope.

(* element list of a potable EAM model: [EAM-Embed] order, then zero-filled species; each element once *)
Theorem c03_names_once : forall embed dens, NoDup (builder_order embed dens).
Proof. exact builder_order_nodup. Qed.
Theorem c03_names_complete : forall embed dens x, In x (builder_order embed dens) <-> In x embed \/ In x dens.
Proof. exact builder_order_complete. Qed.
Theorem c03_names_embed_first : forall embed dens, exists rest, builder_order embed dens = dedup embed [] ++ rest.
Proof. exact builder_order_prefix. Qed.
Print Assumptions c03_names_once.

(* header: three comment lines, "ntypes name1 .. nameN" (every element of the list, in order), "Nrho drho Nr dr cutoff" *)
Theorem c03_header : forall comments els nrho drho nr dr cutoff,
  setfl_header comments els nrho drho nr dr cutoff =
  flat_map (fun c => [IStr F_s c; nl]) comments
  ++ [IInt F_d (Z.of_nat (length els))] ++ flat_map (fun e => [sp; IStr F_s (el_sp e)]) els ++ [nl]
  ++ [IInt F_d nrho; sp; sp; IQ F_2016e drho; sp; IInt F_d nr; sp; sp; IQ F_2016e dr; sp; sp; IQ F_2016e cutoff; nl].
Proof. reflexivity. Qed.

(* for each element in header order: "Z mass a0 lattice", then Nrho values F(i*drho), then Nr values rho(i*dr) *)
Theorem c03_element_block : forall nels nrho drho nr dr ix e,
  setfl_element_block false nels nrho drho nr dr (ix, e) =
  [IInt F_d (el_Z e); sp; IQ F_2016e (el_mass e); sp; IQ F_2016e (el_a0 e); sp; IStr F_s (el_lat e); nl]
  ++ column (FEmbed ix) nrho drho SPlain ++ column (FDens ix) nr dr SPlain.
Proof. reflexivity. Qed.
Theorem c03_column : forall fn n step sc,
  flat_map item_evs (column fn n step sc) = map (fun i => mkev fn KCall (setfl_sample i step)) (zseq 0 (Z.to_nat n))
  /\ length (zseq 0 (Z.to_nat n)) = Z.to_nat n
  /\ (forall i, setfl_sample i step = (inject_Z i * step)%Q).
Proof. intros. split; [apply column_trace|]. split; [apply zseq_length|reflexivity]. Qed.
Print Assumptions c03_column.

(* pair blocks: for every element pair (i, j <= i) in header order, Nr values r*phi(r) of the potential declared
   for those two species in either order (the last such declaration), identically zero when none was declared *)
Theorem c03_pairs_order : forall els pairs nr dr,
  setfl_pairs FPair STimesArg els pairs nr dr =
  flat_map (fun i => flat_map (fun j =>
      match find_pair (el_sp (nth i els {| el_sp := 0; el_Z := 0; el_mass := 0; el_a0 := 0; el_lat := 0 |}))
                      (el_sp (nth j els {| el_sp := 0; el_Z := 0; el_mass := 0; el_a0 := 0; el_lat := 0 |})) pairs with
      | Some k => column (FPair k) nr dr STimesArg
      | None => zero_column nr
      end) (seq 0 (S i))) (seq 0 (length els)).
Proof. reflexivity. Qed.
Theorem c03_pair_either_order : forall a b pairs, find_pair a b pairs = find_pair b a pairs.
Proof. exact find_pair_sym. Qed.
Theorem c03_pair_found : forall a b pairs k, find_pair a b pairs = Some k ->
  exists p, In (k, p) (indexed pairs) /\ ((p_a p = a /\ p_b p = b) \/ (p_a p = b /\ p_b p = a)).
Proof.
  intros a b pairs k H. unfold find_pair in H. apply last_with_some in H. destruct H as (p & Hin & Hk).
  exists p. split; [exact Hin|]. unfold key_eqb, sorted_key in Hk.
  destruct (p_a p <=? p_b p) eqn:E1, (a <=? b) eqn:E2; cbn [fst snd] in Hk; lia.
Qed.
Theorem c03_pair_zero : forall a b pairs,
  (forall p, In p pairs -> ~ ((p_a p = a /\ p_b p = b) \/ (p_a p = b /\ p_b p = a))) -> find_pair a b pairs = None.
Proof.
  intros a b pairs H. destruct (find_pair a b pairs) as [k|] eqn:E; [|reflexivity].
  apply c03_pair_found in E. destruct E as (p & Hin & Hp). exfalso. apply (H p); [|exact Hp].
  unfold indexed in Hin. apply in_combine_r in Hin. exact Hin.
Qed.
Theorem c03_zero_column : forall n, flat_map item_evs (zero_column n) = [].
Proof. exact zero_column_trace. Qed.
Print Assumptions c03_pair_zero.

(* the header's Nrho, drho, Nr, dr are the tabulation grid *)
Theorem c03_grid : forall fs els pairs cutoff nr cutoff_rho nrho blank,
  setfl_tabulation fs els pairs cutoff nr cutoff_rho nrho blank =
  setfl_body fs [blank; blank; blank] els pairs nrho (cutoff_rho / inject_Z (nrho - 1))%Q nr (cutoff / inject_Z (nr - 1))%Q
             (inject_Z nr * (cutoff / inject_Z (nr - 1)))%Q.
Proof. reflexivity. Qed.

(* per-element metadata: [Species] override, else built-in element table, else the documented default *)
Theorem c03_metadata_precedence : forall (V : Type) (s b d : V),
  metadata (Some s) (Some b) (Some d) = Ok s /\ metadata (Some s) None None = Ok s /\
  metadata None (Some b) (Some d) = Ok b /\ metadata None None (Some d) = Ok d /\ @metadata V None None None = CfgErr.
Proof. intros. repeat split. Qed.

(* what the printed cells mean.  Function values are printed with "% 20.16e" (17 significant digits: enough to identify the double); the text of a cell reads back as a mantissa
   of 17 digits and a decimal exponent: for a non-zero value the first digit is not zero and mantissa * 10^(exponent - 16) is the binary
   floating-point value (-1)^neg * m * 2^e the writer held, rounded at the last printed digit, ties to even (a mantissa that rounds up
   to 10^17 is printed as 1.0...0 with the next exponent) *)
Theorem c03_cell_text : forall neg m e t, (0 <= m)%Z -> fmt_float F_s2016e neg m e = Some t ->
  read_number t = Some (let '(M, x) := sci_parts 16 m e in mkp neg M 16 x).
Proof. intros neg m e t Hm H. inversion H. apply (fmt_reads true 15 true 20 neg m e Hm). Qed.
Theorem c03_cell_value : forall m e, (0 < m)%Z -> let '(n, q) := frac m e in let '(M, x) := sci_parts 16 m e in
  (10 ^ 16 <= M < 10 ^ (16 + 1))%Z /\
  exists s M0, ((M, x) = (M0, 16 - s)%Z \/ (M0 = 10 ^ (16 + 1) /\ M = 10 ^ 16 /\ x = 16 - s + 1)%Z) /\
    (Z.abs (2 * M0 * (q * 10 ^ Z.max 0 (- s)) - 2 * (n * 10 ^ Z.max 0 s)) <= q * 10 ^ Z.max 0 (- s))%Z.
Proof. exact (sci_parts_spec 16). Qed.
Print Assumptions c03_cell_value.

Example c03_example :
  builder_order [2; 0; 2] [1; 0; 3] = [2; 0; 1; 3] /\
  find_pair 1 0 [{| p_a := 0; p_b := 1; p_hasd := false |}] = Some 0%nat.
Proof. split; vm_compute; reflexivity. Qed.
