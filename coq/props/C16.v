(* C16 -- malformed models give configuration errors; valid models are never rejected.
   model/Validate.v: potable models after lexing (definitions as trees of ranges, form instances and modifiers with labels
   resolved against the registered forms; target, sections, key styles, table-form states).  `validate` follows the
   implementation's checks (several asserted on the AST), `wf_model` is the declarative grammar of the reference manual.
   The model's outcome is compared with Configuration().read and the potable CLI on generated well-formed models and on
   every catalogue mutation of them; malformations below the lexical level of the model (non-numeric tokens, placeholders,
   text that is not an INI file, formula syntax) are checked by the oracle only. *)
From V Require Import lib.Common model.Validate proof.C16 model.Ini proof.IniProofs proof.IniFile model.DefnSyntax model.Lexer proof.C09Syntax proof.C09Lexer proof.C16Text model.Store model.ItemLabel proof.IniFile2 proof.C14Label proof.StoreText.
Local Open Scope Z_scope.

(* --- a table is written exactly for the well-formed models; every other model is a configuration error; no third outcome *)
Theorem c16_accepts_iff_wf : forall m, accepts m = true <-> wf_model m.
Proof. exact accepts_iff_wf. Qed.
Theorem c16_outcome : forall m, (wf_model m -> validate m = Ok tt) /\ (~ wf_model m -> validate m = CfgErr) /\ validate m <> Internal.
Proof. exact validate_spec. Qed.
Theorem c16_definitions : forall d, ok_defn d = true <-> wf_defn d.
Proof. exact accepts_defn_iff. Qed.
Print Assumptions c16_outcome.

(* --- the catalogue: each malformation makes the enclosing piece invalid ... *)
Theorem c16_instances : forall c n ps,
  (length ps <> n -> ok_part (PInst {| i_label := LForm c (Fixed n); i_params := ps |}) = false) /\
  ok_part (PInst {| i_label := LUnknown; i_params := ps |}) = false /\
  ok_part (PInst {| i_label := LExpSpline; i_params := ps |}) = false /\
  ok_part (PInst {| i_label := LBuck4Spline; i_params := ps |}) = false.
Proof. intros. split; [apply bad_arity|apply bad_label]. Qed.
Theorem c16_modifiers : forall args a b parts s1 p1 s2 p2 s3 p3,
  ok_part (PMod MUnknownMod args) = false /\
  (length args <> 2%nat -> ok_part (PMod MTrans args) = false) /\
  (is_shift b = false -> ok_part (PMod MTrans [a; b]) = false) /\
  (length args <> 1%nat -> ok_part (PMod MSpline args) = false) /\
  (length parts <> 3%nat -> ok_part (PMod MSpline [Defn parts]) = false) /\
  (ok_spline_mid s2 s3 p2 = false -> ok_part (PMod MSpline [Defn [(s1, p1); (s2, p2); (s3, p3)]]) = false) /\
  (s2 <= s1 \/ s3 <= s2 -> ok_part (PMod MSpline [Defn [(s1, p1); (s2, p2); (s3, p3)]]) = false).
Proof.
  intros. refine (conj _ (conj _ (conj _ (conj _ (conj _ (conj _ _)))))); [apply bad_modifier|apply bad_trans_count|apply bad_trans_shift|apply bad_spline_arg_count|apply bad_spline_part_count|apply bad_spline_mid|apply bad_spline_order].
Qed.
Theorem c16_spline_middle : forall s2 s3,
  (forall ps, ps <> [] -> ok_spline_mid s2 s3 (PInst {| i_label := LExpSpline; i_params := ps |}) = false) /\
  (forall ps, length ps <> 1%nat -> ok_spline_mid s2 s3 (PInst {| i_label := LBuck4Spline; i_params := ps |}) = false) /\
  (forall rmin, rmin <= s2 \/ s3 <= rmin -> ok_spline_mid s2 s3 (PInst {| i_label := LBuck4Spline; i_params := [rmin] |}) = false) /\
  (forall c a ps, ok_spline_mid s2 s3 (PInst {| i_label := LForm c a; i_params := ps |}) = false) /\
  (forall m args, ok_spline_mid s2 s3 (PMod m args) = false).
Proof. exact spline_mid_cases. Qed.
(* ... an invalid piece invalidates whatever contains it, at any depth ... *)
Theorem c16_containment :
  (forall parts, ok_defn (Defn parts) = true -> forall s p, In (s, p) parts -> ok_part p = true) /\
  (forall m args, (m = MSum \/ m = MProduct \/ m = MPow) -> ok_part (PMod m args) = true -> forall d, In d args -> ok_defn d = true) /\
  (forall a b, ok_part (PMod MTrans [a; b]) = true -> ok_defn a = true /\ is_shift b = true) /\
  (forall s1 p1 s2 p2 s3 p3, ok_part (PMod MSpline [Defn [(s1, p1); (s2, p2); (s3, p3)]]) = true ->
     s1 < s2 /\ s2 < s3 /\ ok_spline_mid s2 s3 p2 = true /\ ok_part p1 = true /\ ok_part p3 = true).
Proof. refine (conj _ (conj _ (conj _ _))); [exact ok_defn_parts|exact ok_reduce_args|exact ok_trans_first|exact ok_spline_parts]. Qed.
(* ... and an invalid entry, a missing section, a key of the wrong style, an unusable table form or an unknown target
       makes the model a configuration error *)
Theorem c16_entries : forall m, accepts m = true -> exists l, m_pair m = Some l /\ forall k d, In (k, d) l -> k = true /\ ok_defn d = true.
Proof. exact accepts_entries. Qed.
Theorem c16_sections : forall m,
  (m_target m = Some TUnknown -> validate m = CfgErr) /\
  (m_pair m = None -> validate m = CfgErr) /\
  (In TabBadData (m_tables m) \/ In TabBadInterp (m_tables m) -> validate m = CfgErr) /\
  ((m_target m = Some TEam \/ m_target m = Some TFs \/ m_target m = Some TAdp) -> (m_embed m = None \/ m_density m = None) -> validate m = CfgErr) /\
  (m_target m = Some TAdp -> (m_dipole m = None \/ m_quadrupole m = None) -> validate m = CfgErr).
Proof.
  intro m. refine (conj _ (conj _ (conj _ (conj _ _)))); [apply refused_unknown_target|apply refused_no_pair|apply refused_bad_table|apply refused_eam_sections|apply refused_adp_sections].
Qed.
Theorem c16_density_keys : forall m l k d, In (k, d) l -> m_density m = Some l ->
  (m_target m = Some TEam /\ k <> KPlain) \/ (m_target m = Some TFs /\ k <> KArrow) \/ (m_target m = Some TAdp /\ k <> KPlain) -> validate m = CfgErr.
Proof. exact refused_density_key_style. Qed.
Print Assumptions c16_containment.
Print Assumptions c16_sections.

(* non-vacuity: a well-formed model with a spline of a sum onto a Buckingham term, and a mutation of it *)
Definition ex_buck (c : Z) := PInst {| i_label := LForm false (Fixed 3); i_params := [1000; 3; c] |}.
Definition ex_defn : defn :=
  Defn [(0, PMod MSpline [Defn [(0, PMod MSum [Defn [(0, ex_buck 0)]; Defn [(0, PInst {| i_label := LForm true (Fixed 1); i_params := [5] |})]]);
                                (10, PInst {| i_label := LBuck4Spline; i_params := [15] |});
                                (20, ex_buck 32)]])].
Definition ex_model (d : defn) : model :=
  {| m_target := Some TPair; m_pair := Some [(true, d)]; m_embed := None; m_density := None; m_dipole := None; m_quadrupole := None; m_tables := [TabOk] |}.
Definition ex_bad : defn :=
  Defn [(0, PMod MSpline [Defn [(0, ex_buck 0); (10, PInst {| i_label := LBuck4Spline; i_params := [20] |}); (20, ex_buck 32)]])].
Example c16_example : validate (ex_model ex_defn) = Ok tt /\ wf_model (ex_model ex_defn) /\ validate (ex_model ex_bad) = CfgErr.
Proof. split; [reflexivity|split; [apply accepts_iff_wf; reflexivity|reflexivity]]. Qed.

(* --- definitions as text (proof/C16Text.v over the lexer and parser of C09): whether the text of a definition is accepted depends
       only on the tree it spells.  Every rendering of a tree d -- any spelling of its labels and numbers, any admissible whitespace,
       continuation lines -- is accepted exactly when the resolved tree is well formed in the sense of the manual (wf_defn); changing
       a run of whitespace never changes the verdict; a text that spells no tree at all is refused *)
Theorem c16_text_spelling : forall reg mreg z0 idn numv d cts sp tr, map (abs_tok idn numv) cts = print_defn d -> forallb tok_ok cts = true ->
  seps_ok false cts sp = true -> forallb is_ws tr = true ->
  (accept_text reg mreg z0 idn numv (render cts sp tr) = true <-> wf_defn (resolve reg mreg z0 d)).
Proof. intros. rewrite (accept_spelling reg mreg z0 idn numv d cts sp tr) by assumption. apply accepts_defn_iff. Qed.
Theorem c16_text_whitespace : forall reg mreg z0 idn numv a w1 w2 b, forallb is_ws w1 = true -> forallb is_ws w2 = true -> w1 <> [] -> w2 <> [] ->
  accept_text reg mreg z0 idn numv (a ++ w1 ++ b) = accept_text reg mreg z0 idn numv (a ++ w2 ++ b).
Proof. exact accept_ws. Qed.
Theorem c16_text_unreadable : forall reg mreg z0 idn numv text, read_value idn numv text = None -> accept_text reg mreg z0 idn numv text = false.
Proof. exact reject_unreadable. Qed.
Print Assumptions c16_text_spelling.

(* --- species keys as text (model/ItemLabel.v: pair_key / fs_key restate _pair_species_func and the species_func of the
       Finnis-Sinclair densities): the blank-free text of a pair key A-B / of a density key A->B names its two species whatever
       the labels are; a key without the separator, with two of them, or with a species missing is refused (fix fdfc609) *)
Theorem c16_species_keys : forall (ltext : nat -> list Z), (forall n, label_ok (ltext n)) -> forall a b,
  pair_key (canon ltext (KPair a b)) = Some (ltext a, ltext b) /\ fs_key (canon ltext (KFS a b)) = Some (ltext a, ltext b).
Proof. intros ltext L a b. split; [apply pair_key_canon, L|apply fs_key_canon, L]. Qed.
Theorem c16_bad_species_keys : forall k a b c, without 45%Z k -> without 45%Z a -> all_sp a ->
  pair_key k = None /\ fs_key k = None /\ pair_key (k ++ 45%Z :: b ++ 45%Z :: c) = None /\ pair_key (a ++ 45%Z :: b) = None /\ pair_key (k ++ 45%Z :: a) = None.
Proof.
  intros k a b c Hk Ha Hs. split; [apply pair_key_no_dash, Hk|]. split; [apply fs_key_no_arrow, Hk|]. split; [apply pair_key_two_dashes, Hk|].
  destruct (pair_key_missing_species a Ha Hs b) as [A _]. destruct (pair_key_missing_species a Ha Hs k) as [_ B]. split; [exact A|exact (B Hk)].
Qed.
(* ... and [Potential-Form] signatures (sig_key restates _parse_potential_form_signature and its pattern): the blank-free text of
   NAME(r, p1, .., pn) -- whatever blanks and tabs it was written with, c20_key_spellings -- gives the label NAME and the
   parameters r, p1, .., pn when the labels are identifiers; a key that goes on after the closing bracket is refused (fix 9a3d831) *)
Theorem c16_signature_keys : forall (ltext : nat -> list Z), (forall n, label_ok (ltext n)) -> (forall m, ident_word (ltext m) = true) ->
  forall n ps, sig_key (canon ltext (KSig n ps)) = Some (ltext n, [114%Z] :: map ltext ps).
Proof. intros ltext L I n ps. apply sig_key_canon; assumption. Qed.
Theorem c16_signature_trailing_text : forall k c, is_sp c = false -> c <> 41%Z -> c <> 40%Z -> sig_key (k ++ [c]) = None.
Proof. exact sig_key_trailing. Qed.
Print Assumptions c16_species_keys.

(* --- text that is not an INI file (model/Ini.v, the line parser of configparser as the repository configures it): when the
       first line that is neither blank nor a comment is not a section header the parse fails -- ConfigParser turns every
       configparser.Error into a configuration error (asserted on the AST of _init_config_parser) *)
Theorem c16_not_ini_text : forall pre l rest, Forall skipped pre -> is_comment l = false -> strip l <> [] -> header_of (strip l) = None ->
  parse_ini (pre ++ l :: rest) = None.
Proof. exact missing_header. Qed.
Print Assumptions c16_not_ini_text.
