(* C04 -- Finnis-Sinclair densities land in the slot the consumer reads for that pair.
   FDensFS a b stands for EAMPotential(a).electronDensityFunction[b] : "central species a, neighbouring species b".
   The writer models (model/EamTables.v, ExcelTables.v) are compared byte for byte with the implementation; the
   consumers' indexing rules are spec/Consumers.v (assumed, from the formats' definitions). *)
From V Require Import lib.Common lib.Layout lib.Sorting gen.GridArith model.PairTables model.EamTables model.ExcelTables
                      spec.Consumers proof.LayoutLemmas proof.C03 proof.C05 proof.C04.
Local Open Scope Z_scope.

(* LAMMPS eam/fs: the block of element ix holds, in file order, the arrays setfl_fs_block nels ix ... *)
Theorem c04_setfl_fs_block : forall nels ix nr dr,
  flat_map item_evs (setfl_density true nels ix nr dr) =
  flat_map (fun fn => map (fun i => mkev fn KCall (setfl_sample i dr)) (zseq 0 (Z.to_nat nr))) (setfl_fs_block nels ix).
Proof. exact setfl_fs_density_trace. Qed.
(* ... so the consumer, reading "site alpha, neighbour beta" from the alpha-th array of element beta's block,
   gets the function declared for central alpha / neighbour beta *)
Theorem c04_lammps_fs : forall nels alpha beta, (alpha < nels)%nat ->
  consumer_lammps (setfl_fs_block nels) alpha beta = Some (declared_density alpha beta).
Proof. exact lammps_reads_declared. Qed.
Theorem c04_transposed_would_differ :
  consumer_lammps (fun b => map (fun o => FDensFS b o) (seq 0 2)) 0 1 <> Some (declared_density 0 1).
Proof. exact lammps_transposed_differs. Qed.
Print Assumptions c04_lammps_fs.

(* DL_POLY EEAM: the block headed "dens A B" holds the function of central element A and of the element whose
   species is B *)
Theorem c04_tabeam_fs : forall els pairs nrho drho nr dr,
  tabeam_file true els pairs nrho drho nr dr =
  [ILit L_title100; nl; IQ F_d (tabeam_count_fs (Z.of_nat (length els))); nl]
  ++ tabeam_pairs els pairs nr dr
  ++ flat_map (tabeam_embed nrho drho) (indexed els)
  ++ flat_map (fun ia =>
       flat_map (fun b =>
         match find (fun jb => (el_sp (snd jb) =? b)) (indexed els) with
         | Some jb => [ILit L_dens; IStr F_s (el_sp (snd ia)); sp; IStr F_s b; sp; IInt F_d nr; ILit L_zero_sp; IQ F_f (tabeam_end nr dr); nl]
                      ++ tab_fn (FDensFS (fst ia) (fst jb)) nr dr
         | None => []
         end) (sorted_species els)) (indexed els).
Proof. reflexivity. Qed.
Theorem c04_tabeam_fs_lookup : forall els b jb,
  find (fun jb => (el_sp (snd jb) =? b)) (indexed els) = Some jb -> In jb (indexed els) /\ el_sp (snd jb) = b.
Proof. intros els b jb H. apply find_some in H. destruct H as [H1 H2]. split; [exact H1|]. apply Z.eqb_eq. exact H2. Qed.
Theorem c04_labelled : forall nels alpha beta, (alpha < nels)%nat -> (beta < nels)%nat ->
  consumer_labelled (tabeam_fs_labelled nels) alpha beta = Some (declared_density alpha beta).
Proof. exact labelled_reads_declared. Qed.

(* Excel: column "A->B" of the EAM-Density sheet *)
Theorem c04_excel_fs : forall els,
  excel_density_cols true els =
  flat_map (fun a => map (fun b => ([IStr F_s (fst a); ILit L_arrow; IStr F_s (fst b)], FDensFS (Z.to_nat (snd a)) (Z.to_nat (snd b))))
                         (sorted_elements els)) (sorted_elements els).
Proof. reflexivity. Qed.

(* equivalently: the embedding density of every atom of a cluster computed from the file by the consumer's rule
   equals the one computed directly from the model *)
Theorem c04_cluster : forall lookup value site neighbours,
  (forall beta, In beta (map fst neighbours) -> lookup site beta = Some (declared_density site beta)) ->
  atom_density lookup value site neighbours = atom_density (fun a b => Some (declared_density a b)) value site neighbours.
Proof. exact cluster_density_equal. Qed.
Print Assumptions c04_cluster.

Example c04_example :
  consumer_lammps (setfl_fs_block 3) 2 0 = Some (FDensFS 2 0) /\ consumer_labelled (tabeam_fs_labelled 3) 0 2 = Some (FDensFS 0 2).
Proof. split; reflexivity. Qed.
