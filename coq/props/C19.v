(* C19 -- GULP, ADP, funcfl and Excel targets carry the same functions on the same grids.
   The models (model/PairTables.v, EamTables.v, ExcelTables.v) are compared byte for byte (workbooks: cell by cell)
   with GULP_PairTabulation, ADP_EAMTabulation, writeFuncFL and the Excel tabulation classes, API and potable. *)
From Coq Require Import Reals Qreals.
From V Require Import lib.Common lib.Layout lib.Sorting gen.GridArith model.PairTables model.EamTables model.ExcelTables
                      proof.LayoutLemmas proof.C01 proof.C03 proof.C19.
From V Require Import model.NumFormat proof.NumFormatProofs.
Local Open Scope Q_scope.

(* GULP: per potential "spline cubic", "A B cutoff", then exactly nr rows "energy separation" at r_i = i*cutoff/(nr-1) *)
Theorem c19_gulp_block : forall cutoff nr i p,
  gulp_block cutoff nr (i, p) =
  [ILit L_spline; IStr F_s (p_a p); sp; IStr F_s (p_b p); sp; IQ F_repr cutoff; nl]
  ++ flat_map (fun n => let r := r_value cutoff nr n in
                        [IVal F_10f (energy_evs i r) (fun _ => SPlain); sp; IQ F_10f r; nl]) (zseq 0 (Z.to_nat nr)).
Proof. reflexivity. Qed.
Theorem c19_gulp_rows : forall cutoff nr i p,
  flat_map item_evs (gulp_block cutoff nr (i, p)) = map (fun n => mkev (FPair i) KCall (r_value cutoff nr n)) (zseq 0 (Z.to_nat nr))
  /\ length (zseq 0 (Z.to_nat nr)) = Z.to_nat nr.
Proof. intros. split; [apply gulp_block_trace|apply zseq_length]. Qed.
Theorem c19_gulp_grid : forall cutoff nr n, (2 <= nr)%Z -> r_value cutoff nr n == inject_Z n * (cutoff / inject_Z (nr - 1)).
Proof. exact r_value_grid. Qed.
Theorem c19_gulp_file : forall pots cutoff nr, gulp_file pots cutoff nr = flat_map (gulp_block cutoff nr) (indexed pots).
Proof. reflexivity. Qed.
Print Assumptions c19_gulp_grid.

(* ADP: the setfl file of the same model, then the dipole and then the quadrupole functions, unscaled, for every
   element pair (i, j <= i) in header order, zero where undeclared, found in either declaration order *)
Theorem c19_adp : forall els pairs dips quads cutoff nr cutoff_rho nrho blank,
  adp_tabulation els pairs dips quads cutoff nr cutoff_rho nrho blank =
  setfl_tabulation false els pairs cutoff nr cutoff_rho nrho blank
  ++ setfl_pairs FDip SPlain els dips nr (pair_dr cutoff nr)
  ++ setfl_pairs FQuad SPlain els quads nr (pair_dr cutoff nr).
Proof. reflexivity. Qed.
Theorem c19_adp_blocks : forall mkfn sc els fns nr dr,
  setfl_pairs mkfn sc els fns nr dr =
  flat_map (fun i => flat_map (fun j =>
      match find_pair (el_sp (nth i els {| el_sp := 0; el_Z := 0; el_mass := 0; el_a0 := 0; el_lat := 0 |}))
                      (el_sp (nth j els {| el_sp := 0; el_Z := 0; el_mass := 0; el_a0 := 0; el_lat := 0 |})) fns with
      | Some k => column (mkfn k) nr dr sc
      | None => zero_column nr
      end) (seq 0 (S i))) (seq 0 (length els)).
Proof. reflexivity. Qed.
Theorem c19_adp_either_order : forall a b fns, find_pair a b fns = find_pair b a fns.
Proof. exact find_pair_sym. Qed.

(* funcfl: header declares the grid actually tabulated; the effective-charge column squared and converted back
   (x 27.2 x 0.529 / r) returns the pair potential *)
Theorem c19_funcfl_header : forall dr nr, funcfl_cutoff dr nr = dr * inject_Z (nr - 1).
Proof. reflexivity. Qed.
Theorem c19_funcfl_roundtrip : forall phi r : R, (0 < r)%R -> (0 <= phi * r)%R ->
  ((sqrt (phi * r * 1 / (272 / 10) * 1 / (529 / 1000))) ^ 2 * (272 / 10) * (529 / 1000) / r = phi)%R.
Proof. exact funcfl_roundtrip. Qed.
Theorem c19_funcfl_charge_cell : forall v a : nat -> R, forall j,
  sem_scale SFuncfl v a j = sqrt (v j * a j * 1 / (272 / 10) * 1 / (529 / 1000)).
Proof. reflexivity. Qed.
Print Assumptions c19_funcfl_roundtrip.

(* Excel: first column r (or rho) on the tabulation grid; every other cell is the labelled function at that row's argument *)
Theorem c19_excel_sheet : forall name head cols xs,
  fn_sheet name head cols xs =
  [ILit L_sheet; ILit name; nl; ILit head] ++ flat_map (fun c => ILit L_tab :: fst c) cols ++ [nl]
  ++ flat_map (fun x => [IQ F_repr x] ++ flat_map (fun c => [ILit L_tab; IVal F_repr [mkev (snd c) KCall x] (fun _ => SPlain)]) cols ++ [nl]) xs.
Proof. reflexivity. Qed.
Theorem c19_excel_grids : forall cutoff nr cutoff_rho nrho n, (2 <= nr)%Z -> (2 <= nrho)%Z ->
  r_value cutoff nr n == inject_Z n * pair_dr cutoff nr /\ rho_value cutoff_rho nrho n == inject_Z n * eam_drho cutoff_rho nrho.
Proof. intros. split; [apply r_value_grid|apply rho_value_grid]; assumption. Qed.

(* what the printed cells mean.  GULP rows are printed with "{:.10f}": the text reads back as the value rounded to ten decimals *)
Theorem c19_gulp_cell_text : forall neg m e t, (0 <= m)%Z -> fmt_float F_10f neg m e = Some t ->
  read_number t = Some (mkp neg (fixed_int 10 m e) 10 0).
Proof. intros neg m e t Hm H. inversion H. apply (fmt_reads false 9 false 0 neg m e Hm). Qed.
Theorem c19_gulp_cell_value : forall m e, (0 <= m)%Z -> let '(n, q) := frac m e in
  (Z.abs (2 * fixed_int 10 m e * q - 2 * (n * 10 ^ 10)) <= q)%Z.
Proof. exact (fixed_close 10). Qed.

Theorem c19_gulp_cell_no_blank : forall neg m e, (0 <= m)%Z -> Forall (fun c => cell_char c = true) (fixed 10 neg m e).
Proof. exact (fixed_chars 10). Qed.

Example c19_example :
  let pots := [{| p_a := 0; p_b := 1; p_hasd := false |}] in
  length (trace (gulp_file pots (3 # 1) 4)) = 4%nat /\ Qeq_bool (r_value (3 # 1) 4 3) (3 # 1) = true.
Proof. split; vm_compute; reflexivity. Qed.
