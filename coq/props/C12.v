(* C12 -- tabulation is deterministic; evaluation is pure.
   model/Evaluator.v: custom potential forms with ONE mutable symbol table each, re-bound on every call (the body of
   _Cexptrk_Potential_Function.__call__ is asserted on the AST).  model/History.v: several tabulation objects with lazy
   caches and objects shared through default arguments, under arbitrary build / write / evaluate histories.
   model/EamBuilder.v: element order of under-specified EAM models.
   Process-level facts (hash seed of a FRESH process, the C writers of cexprtk / openpyxl) are outside any model: they are
   exercised by the correspondence runs only (subprocesses with several PYTHONHASHSEED values); see DESIGN.md. *)
From Coq Require Import QArith List ZArith.
From V Require Import lib.Common model.Evaluator model.History model.EamBuilder proof.C12.
Import ListNotations.

(* --- the energy of a potential is a function of its definition and its arguments alone: for every set of non-recursive
       form definitions, every form (sub-forms shared with different arguments included), every argument list and
       EVERY contents of the symbol tables left behind by earlier evaluations *)
Theorem c12_forms_pure : forall bodies, wf_bodies bodies ->
  forall j c d, nth_error (build_calls bodies) j = Some c -> nth_error (build_pure bodies) j = Some d ->
  forall vals s, length s = length bodies -> fst (c vals s) = d vals /\ length (snd (c vals s)) = length bodies.
Proof. exact forms_pure. Qed.
(* any order and interleaving of evaluations *)
Theorem c12_history_pure : forall bodies, wf_bodies bodies ->
  forall h s, length s = length bodies -> Forall (fun jv => (fst jv < length bodies)%nat) h ->
  fst (Evaluator.run (build_calls bodies) h s) =
    map (fun jv => match nth_error (build_pure bodies) (fst jv) with Some d => d (snd jv) | None => 0%Q end) h.
Proof. exact history_pure. Qed.
Print Assumptions c12_history_pure.

(* --- every observation (bytes written, energies) of every history of build / write / evaluate operations on one or
       several models equals what the same operation shows on a freshly built object: caches, symbol tables and
       shared default objects never leak *)
Theorem c12_history_deterministic : forall (out shared : Type) (render : shared -> wf_model -> out) (shared0 : shared) h,
  History.run wf_model out Q (list Q) shared state render ev_energy ev_init (History.init wf_model out shared state shared0) h =
  History.spec_run wf_model out Q (list Q) shared render ev_pure shared0 [] h.
Proof. exact history_evaluator. Qed.
Print Assumptions c12_history_deterministic.

(* --- zero-filled species are listed in an order that does not depend on set iteration order (hash seed) *)
Theorem c12_element_order : forall embed dens dens', (forall y, In y dens <-> In y dens') ->
  builder_order embed dens = builder_order embed dens'.
Proof. exact builder_order_set_independent. Qed.
Print Assumptions c12_element_order.

(* non-vacuity: g(r, a) = r*a + 1; f(r, a) = g(r, a) + g(r, a + a) * a -- the shared sub-form g is called with different
   arguments; a history interleaving f and g from dirty tables *)
Definition ex_bodies : list expr :=
  [Add (Mul (Var 0) (Var 1)) (Const 1);
   Add (Call 0 (ECons (Var 0) (ECons (Var 1) ENil))) (Mul (Call 0 (ECons (Var 0) (ECons (Add (Var 1) (Var 1)) ENil))) (Var 1))].
Example c12_example :
  wf_bodies ex_bodies /\
  fst (Evaluator.run (build_calls ex_bodies) [(1%nat, [2; 3]); (0%nat, [5; 5]); (1%nat, [2; 3])] [[9; 9]; [7; 7]]) = [46; 26; 46]%Q /\
  builder_order [3; 1]%Z [2; 5; 1; 0]%Z = builder_order [3; 1]%Z [0; 1; 5; 2; 5]%Z.
Proof. split; [cbn; repeat split; lia|split; vm_compute; reflexivity]. Qed.
