(* Stable insertion sort over a boolean "less-or-equal" test: the model of Python's
   list.sort / sorted with a key (or cmp_to_key) function.  Python's sort is stable and, for a
   total preorder, the stable sorted permutation of a list is unique, so any stable sort is a
   model of it (checked against the implementation by the correspondence runs). *)
From Coq Require Import List Bool Permutation Sorted Relations.
Import ListNotations.

Section Sort.
  Variable A : Type.
  Variable leb : A -> A -> bool.

  Fixpoint insert (x : A) (l : list A) : list A :=
    match l with
    | [] => [x]
    | y :: l' => if leb x y then x :: y :: l' else y :: insert x l'
    end.

  (* sort (x :: l) inserts x in front of the first element it is <= to: stable *)
  Fixpoint sort (l : list A) : list A :=
    match l with
    | [] => []
    | x :: l' => insert x (sort l')
    end.

  Lemma insert_perm x l : Permutation (x :: l) (insert x l).
  Proof.
    induction l as [|y l IH]; cbn [insert]; [reflexivity|].
    destruct (leb x y); [reflexivity|].
    eapply perm_trans; [apply perm_swap|]. constructor. exact IH.
  Qed.

  Lemma sort_perm l : Permutation l (sort l).
  Proof.
    induction l as [|x l IH]; cbn [sort]; [constructor|].
    eapply perm_trans; [|apply insert_perm]. constructor. exact IH.
  Qed.

  Lemma sort_In x l : In x (sort l) <-> In x l.
  Proof.
    split; intro H.
    - eapply Permutation_in; [apply Permutation_sym, sort_perm|exact H].
    - eapply Permutation_in; [apply sort_perm|exact H].
  Qed.

  Lemma sort_length l : length (sort l) = length l.
  Proof. symmetry. apply Permutation_length, sort_perm. Qed.

  Hypothesis leb_total : forall x y, leb x y = true \/ leb y x = true.
  Hypothesis leb_trans : forall x y z, leb x y = true -> leb y z = true -> leb x z = true.

  Definition le (x y : A) : Prop := leb x y = true.

  Lemma insert_sorted x l : StronglySorted le l -> StronglySorted le (insert x l).
  Proof.
    induction l as [|y l IH]; intro Hs; cbn [insert].
    - constructor; constructor.
    - inversion Hs as [|? ? Hs' Hall]; subst.
      destruct (leb x y) eqn:Hxy.
      + constructor; [exact Hs|]. constructor; [exact Hxy|].
        eapply Forall_impl; [|exact Hall]. intros z Hz. eapply leb_trans; eassumption.
      + constructor; [apply IH; exact Hs'|].
        assert (Hyx : le y x) by (destruct (leb_total x y) as [H|H]; [congruence|exact H]).
        eapply Permutation_Forall; [apply insert_perm|]. constructor; assumption.
  Qed.

  Lemma sort_sorted l : StronglySorted le (sort l).
  Proof. induction l as [|x l IH]; cbn [sort]; [constructor|apply insert_sorted, IH]. Qed.

  (* Uniqueness when no two elements of the list are equivalent (le both ways): the sorted
     permutation is unique, so the result of sorting does not depend on the input order. *)
  Definition equivb (x y : A) : bool := leb x y && leb y x.

  Lemma sorted_perm_unique l1 l2 :
    StronglySorted le l1 -> StronglySorted le l2 -> Permutation l1 l2 ->
    (forall x y, In x l1 -> In y l1 -> le x y -> le y x -> x = y) ->
    l1 = l2.
  Proof.
    revert l2. induction l1 as [|x l1 IH]; intros l2 H1 H2 Hp Hanti.
    - apply Permutation_nil in Hp. now subst.
    - destruct l2 as [|y l2]; [apply Permutation_sym, Permutation_nil in Hp; discriminate|].
      inversion H1 as [|? ? H1' Hall1]; subst. inversion H2 as [|? ? H2' Hall2]; subst.
      assert (Hxy : x = y).
      { assert (Hx : In x (y :: l2)) by (eapply Permutation_in; [exact Hp|left; reflexivity]).
        assert (Hy : In y (x :: l1)) by (eapply Permutation_in; [apply Permutation_sym, Hp|left; reflexivity]).
        destruct Hx as [Hx|Hx]; [now subst|]. destruct Hy as [Hy|Hy]; [now subst|].
        apply Hanti; [left; reflexivity|right; exact Hy| |].
        - rewrite Forall_forall in Hall1. apply Hall1, Hy.
        - rewrite Forall_forall in Hall2. apply Hall2, Hx. }
      subst y. f_equal. apply IH; [exact H1'|exact H2'|eapply Permutation_cons_inv; exact Hp|].
      intros a b Ha Hb. apply Hanti; right; assumption.
  Qed.

  Lemma sort_order_independent l l' :
    Permutation l l' ->
    (forall x y, In x l -> In y l -> le x y -> le y x -> x = y) ->
    sort l = sort l'.
  Proof.
    intros Hp Hanti. apply sorted_perm_unique; try apply sort_sorted.
    - eapply perm_trans; [apply Permutation_sym, sort_perm|].
      eapply perm_trans; [exact Hp|apply sort_perm].
    - intros x y Hx Hy. apply Hanti; apply sort_In; assumption.
  Qed.
End Sort.

Arguments insert {A} leb x l.
Arguments sort {A} leb l.
