(* Real-number helpers shared by the generated expression kernels. *)
From Coq Require Export Reals List.
Export ListNotations.
Local Open Scope R_scope.

(* sum over the elements of index >= k of f i c_i : the model of
   sum([EXPR for (i, c) in enumerate(coefs)][k:])  (Python's left-to-right float sum is a real sum here) *)
Fixpoint isum_aux (f : nat -> R -> R) (i : nat) (l : list R) : R :=
  match l with
  | [] => 0
  | c :: l' => f i c + isum_aux f (S i) l'
  end.
Definition isum (k : nat) (f : nat -> R -> R) (l : list R) : R := isum_aux f k (skipn k l).

(* central difference of _util.num_deriv, kept here so that generated and hand-written files agree on it *)
Definition central_diff (f : R -> R) (h r : R) : R :=
  (f (r + h / 2) - f (r - h / 2)) / ((r + h / 2) - (r - h / 2)).

(* a decimal literal of the source is a rounding of an ideal (closed-form) constant: within 1e-13 relative *)
Definition lit_close (lit ideal : R) : Prop := Rabs (lit - ideal) <= Rabs ideal / 10 ^ 13.
