(* Tactics shared by the derivative proofs. *)
From Coq Require Export Reals Lra.
From Coquelicot Require Export Coquelicot.
Local Open Scope R_scope.

Ltac pos := repeat (apply Rmult_lt_0_compat || apply Rinv_0_lt_compat || apply exp_pos || apply pow_lt
                    || apply Rplus_lt_0_compat || apply sqrt_lt_R0); try lra.
Ltac nz :=
  match goal with
  | |- _ <> 0 => assumption
  | |- _ <> 0 => lra
  | |- _ * _ <> 0 => apply Rmult_integral_contrapositive_currified; nz
  | |- _ ^ _ <> 0 => apply pow_nonzero; nz
  | |- / _ <> 0 => apply Rinv_neq_0_compat; nz
  | |- _ <> 0 => apply Rgt_not_eq; pos
  end.
Ltac dside := repeat split; try exact I; try assumption; try nz.

(* make syntactically different but ring-equal arguments of exp identical *)
Ltac exp_eq :=
  repeat match goal with
  | |- context [exp ?a] =>
    match goal with
    | |- context [exp ?b] =>
      lazymatch a with b => fail | _ => replace (exp a) with (exp b) by (f_equal; unfold Rminus, Rdiv; ring) end
    end
  end.

(* rewrite every exp whose argument is field-equal to `arg` (after `unf`) into exp arg *)
Ltac exp_canon unf arg :=
  repeat match goal with
  | |- context [exp ?x] =>
    lazymatch x with arg => fail | _ => idtac end;
    replace x with arg by (unf; unfold Rdiv; field; dside)
  end.
