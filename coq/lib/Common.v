(* Shared small definitions used by generated and hand-written models. *)
From Coq Require Export List Bool ZArith Lia.
Export ListNotations.

Definition is_nil {A} (l : list A) : bool := match l with [] => true | _ => false end.
Definition is_some {A} (o : option A) : bool := match o with Some _ => true | None => false end.

(* Outcome classes of a run of the implementation: a value, a configuration error (an instance of
   atsim.potentials.config.ConfigurationException, which potable reports as
   "configuration error - ..."), or any other exception escaping (an internal error). *)
Inductive result (A : Type) : Type :=
| Ok (a : A)
| CfgErr
| Internal.
Arguments Ok {A} a.
Arguments CfgErr {A}.
Arguments Internal {A}.

(* indices of the cases on which model and implementation disagree *)
Fixpoint failing_from {A B} (agree : A -> B -> bool) (i : nat) (xs : list A) (ys : list B) : list nat :=
  match xs, ys with
  | x :: xs', y :: ys' => if agree x y then failing_from agree (S i) xs' ys' else i :: failing_from agree (S i) xs' ys'
  | [], [] => []
  | _, _ => [i]
  end.
Definition failing {A B} (agree : A -> B -> bool) := @failing_from A B agree 0.

(* robust case-splitting for proofs about generated code: split one `if`/`match` scrutinee at a time *)
Ltac split_if :=
  match goal with
  | |- context [if ?c then _ else _] => let E := fresh "E" in destruct c eqn:E
  | H : context [if ?c then _ else _] |- _ => let E := fresh "E" in destruct c eqn:E
  end.
Ltac split_match :=
  match goal with
  | |- context [match ?c with _ => _ end] => let E := fresh "E" in destruct c eqn:E
  | H : context [match ?c with _ => _ end] |- _ => let E := fresh "E" in destruct c eqn:E
  end.
