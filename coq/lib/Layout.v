(* Symbolic table layouts.  A writer model produces a list of `item`s in file order: fixed text, labels,
   integers, numbers computed from the grid (exact rationals) and function-value cells.  A value cell
   performs evaluations of user callables (in order) and prints a number derived from their results.
   `number` assigns every evaluation its position in the run's evaluation trace; `encode_*` flatten tokens
   and trace to `list Z` so that the harness can read them, render the tokens with the values the recording
   callables really returned (using Python's own formatting) and compare the text with the file written. *)
From Coq Require Export QArith ZArith List Bool.
From V Require Import lib.Common.
Export ListNotations.

Inductive fnid :=
| FPair (i : nat)        (* energy callable of the i-th declared pair potential *)
| FDip (i : nat) | FQuad (i : nat)      (* i-th declared ADP dipole / quadrupole function *)
| FEmbed (e : nat)       (* embedding function of element e (index in the element list) *)
| FDens (e : nat)        (* density function of element e *)
| FDensFS (a b : nat)    (* Finnis-Sinclair: EAMPotential(a).electronDensityFunction[b] *).

Inductive evkind := KCall | KDeriv.     (* f(x)  /  f.deriv(x) *)
Record ev := mkev { e_fn : fnid; e_kind : evkind; e_arg : Q }.

(* how the printed number derives from the evaluation results v_j, v_{j+1} and their arguments a_j *)
Inductive scale :=
| SPlain                 (* v_j *)
| STimesArg              (* v_j * a_j                      (setfl r*phi) *)
| SNeg                   (* - v_j                          (force, analytic derivative) *)
| SNegNum                (* - ((v_j - v_{j+1}) / (a_j - a_{j+1}))     (force, central difference) *)
| SArgNeg                (* a_j * (- v_j)                  (DL_POLY -r dU/dr, analytic) *)
| SArgNegNum (jr : nat)  (* a_jr * (- ((v_j - v_{j+1}) / (a_j - a_{j+1})))   (DL_POLY, central difference) *)
| SFuncfl.               (* sqrt(v_j * a_j * 1.0/27.2 * 1.0/0.529) *)

Inductive item :=
| ILit (c : Z)                       (* fixed text, by code (table in harness/layout.py) *)
| IStr (f : Z) (sid : Z)             (* species label sid printed with format f *)
| IInt (f : Z) (n : Z)
| IQ (f : Z) (q : Q)                 (* a number computed from the grid parameters *)
| IVal (f : Z) (evs : list ev) (mk : nat -> scale)    (* evaluations performed here; value printed *)
| IDo (evs : list ev)                 (* evaluations performed here, nothing printed (values are printed later) *)
| IRef (f : Z) (j : nat) (s : scale). (* prints a value derived from evaluation j of the trace, performed earlier *)

Inductive tok :=
| TLit (c : Z) | TStr (f sid : Z) | TInt (f n : Z) | TQ (f : Z) (q : Q) | TVal (f : Z) (j : nat) (s : scale).

Fixpoint number (items : list item) (next : nat) : list tok * list ev :=
  match items with
  | [] => ([], [])
  | ILit c :: rest => let '(ts, es) := number rest next in (TLit c :: ts, es)
  | IStr f s :: rest => let '(ts, es) := number rest next in (TStr f s :: ts, es)
  | IInt f n :: rest => let '(ts, es) := number rest next in (TInt f n :: ts, es)
  | IQ f q :: rest => let '(ts, es) := number rest next in (TQ f q :: ts, es)
  | IVal f evs mk :: rest =>
      let '(ts, es) := number rest (next + length evs) in (TVal f next (mk next) :: ts, evs ++ es)
  | IDo evs :: rest => let '(ts, es) := number rest (next + length evs) in (ts, evs ++ es)
  | IRef f j s :: rest => let '(ts, es) := number rest next in (TVal f j s :: ts, es)
  end.

Definition trace (items : list item) : list ev := snd (number items 0).
Definition tokens (items : list item) : list tok := fst (number items 0).

(* all evaluations performed by a list of items, in order *)
Definition item_evs (i : item) : list ev := match i with IVal _ evs _ => evs | IDo evs => evs | _ => [] end.
Lemma number_trace items : forall n, snd (number items n) = flat_map item_evs items.
Proof.
  induction items as [|i items IH]; intro n; [reflexivity|].
  destruct i; cbn [number flat_map item_evs app];
  try (specialize (IH n); destruct (number items n); cbn in *; exact IH).
  - specialize (IH (n + length evs)%nat). destruct (number items (n + length evs)). cbn in *. rewrite IH. reflexivity.
  - specialize (IH (n + length evs)%nat). destruct (number items (n + length evs)). cbn in *. rewrite IH. reflexivity.
Qed.
Lemma trace_flat_map items : trace items = flat_map item_evs items.
Proof. apply number_trace. Qed.

(* ---- flat encodings read by the harness ---- *)
Definition enc_fn (f : fnid) : list Z :=
  match f with
  | FPair i => [0; Z.of_nat i; 0] | FDip i => [1; Z.of_nat i; 0] | FQuad i => [2; Z.of_nat i; 0]
  | FEmbed e => [3; Z.of_nat e; 0] | FDens e => [4; Z.of_nat e; 0] | FDensFS a b => [5; Z.of_nat a; Z.of_nat b]
  end%Z.
Definition enc_ev (e : ev) : list Z :=
  enc_fn (e_fn e) ++ [match e_kind e with KCall => 0 | KDeriv => 1 end; Qnum (Qred (e_arg e)); Zpos (Qden (Qred (e_arg e)))]%Z.
Definition enc_scale (s : scale) : list Z :=
  match s with
  | SPlain => [0; 0] | STimesArg => [1; 0] | SNeg => [2; 0] | SNegNum => [3; 0] | SArgNeg => [4; 0]
  | SArgNegNum jr => [5; Z.of_nat jr] | SFuncfl => [6; 0]
  end%Z.
Definition enc_tok (t : tok) : list Z :=
  match t with
  | TLit c => [0; c; 0; 0; 0]
  | TStr f s => [1; f; s; 0; 0]
  | TInt f n => [2; f; n; 0; 0]
  | TQ f q => [3; f; Qnum (Qred q); Zpos (Qden (Qred q)); 0]
  | TVal f j s => [4; f; Z.of_nat j] ++ enc_scale s
  end%Z.
Definition encode_tokens (items : list item) : list Z := flat_map enc_tok (tokens items).
Definition encode_trace (items : list item) : list Z := flat_map enc_ev (trace items).

(* format codes (harness/layout.py FMT) *)
Definition F_s : Z := 1.      (* %s *)
Definition F_d : Z := 2.      (* %d *)
Definition F_8f : Z := 3.     (* %.8f *)
Definition F_147e : Z := 4.   (* % 14.7e *)
Definition F_158e : Z := 5.   (* %15.8e *)
Definition F_10d : Z := 6.    (* %10d *)
Definition F_8s : Z := 7.     (* %8s *)
Definition F_s2016e : Z := 8. (* % 20.16e *)
Definition F_2016e : Z := 9.  (* %20.16e *)
Definition F_f : Z := 10.     (* %f *)
Definition F_10f : Z := 11.   (* {:.10f} *)
Definition F_repr : Z := 12.  (* {} of a float *)
(* literal codes (harness/layout.py LIT) *)
Definition L_nl : Z := 0.  Definition L_sp : Z := 1.  Definition L_dash : Z := 2.
Definition L_N : Z := 3.   (* "N " *)   Definition L_R : Z := 4.  (* " R " *)
Definition L_spline : Z := 5. (* "spline cubic\n" *)
Definition L_pair : Z := 6. (* "pair " *) Definition L_embe : Z := 7. Definition L_dens : Z := 8.
Definition L_zero_sp : Z := 9. (* " 0.0 " *)
Definition L_blank80 : Z := 10. (* 80 spaces *)
Definition L_title100 : Z := 11. (* the 100-character padded (empty) title *)
Definition L_sheet : Z := 12. (* "#sheet " : harness rendering of a workbook *)
Definition L_tab : Z := 13.

Definition nl := ILit L_nl.
Definition sp := ILit L_sp.

(* sequences of integers *)
Fixpoint zseq (start : Z) (len : nat) : list Z :=
  match len with O => [] | S l => start :: zseq (start + 1) l end.
Lemma zseq_length s l : length (zseq s l) = l.
Proof. revert s; induction l; intro s; cbn; [reflexivity|rewrite IHl; reflexivity]. Qed.
Lemma zseq_In s l x : In x (zseq s l) <-> (s <= x < s + Z.of_nat l)%Z.
Proof.
  revert s; induction l as [|l IH]; intro s; cbn [zseq In]; [lia|].
  rewrite IH. lia.
Qed.
Lemma zseq_nth s l k d : (k < l)%nat -> nth k (zseq s l) d = (s + Z.of_nat k)%Z.
Proof.
  revert s k; induction l as [|l IH]; intros s k H; [lia|]. destruct k as [|k]; cbn [zseq nth]; [lia|].
  rewrite IH by lia. lia.
Qed.
