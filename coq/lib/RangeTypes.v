(* Types of the multi-range potential model (atsim/potentials/_multi_range_potential_form.py).
   Range starts and the separation r are only ever compared by the code (the translator's type
   `Ord` admits nothing but comparisons), so they are represented by integers: any finite set of
   non-NaN floats, -inf included, is order-isomorphic to a set of integers, and the correspondence
   harness maps each float of a case to its rank. *)
From V Require Import lib.Common.

Inductive rtype := GE | GT.      (* '>=' and '>' *)
Definition rtype_eqb (a b : rtype) : bool :=
  match a, b with GE, GE => true | GT, GT => true | _, _ => false end.

Record rdef := { r_type : rtype; r_start : Z; r_id : nat }.   (* r_id: which sub-potential *)
