(* Effects of a tabulation write(): evaluations of user functions and writes that reach the caller's file
   object (writes into local StringIO buffers are not effects).  A fault at evaluation k stops the run there. *)
From V Require Import lib.Common lib.Layout.

Inductive event := EvEval (e : ev) | EvWrite (ntoks : nat).   (* a write carrying that many tokens of the table *)

(* the prefix of the run that happens when the k-th evaluation (0-based) raises: everything before it *)
Fixpoint run_until_fault (evs : list event) (k : nat) : list event :=
  match evs with
  | [] => []
  | EvEval e :: rest => match k with O => [] | S k' => EvEval e :: run_until_fault rest k' end
  | EvWrite n :: rest => EvWrite n :: run_until_fault rest k
  end.

Definition tokens_written (evs : list event) : nat :=
  fold_left (fun acc e => match e with EvWrite n => (acc + n)%nat | _ => acc end) evs 0%nat.

(* a writer that builds the whole table in memory and writes it once *)
Definition atomic_events (items : list item) : list event :=
  map EvEval (trace items) ++ [EvWrite (length (tokens items))].

(* a writer that writes piece by piece: each piece is evaluated, then written (GULP and ADP before their repair) *)
Definition piecewise_events (pieces : list (list item)) : list event :=
  flat_map (fun p => map EvEval (trace p) ++ [EvWrite (length (tokens p))]) pieces.

Lemma run_until_fault_evals (es : list ev) (rest : list event) (k : nat) :
  (k < length es)%nat -> run_until_fault (map EvEval es ++ rest) k = map EvEval (firstn k es).
Proof.
  revert k. induction es as [|e es IH]; intros k H; [cbn in H; lia|].
  destruct k as [|k]; [reflexivity|]. cbn [map app run_until_fault firstn]. rewrite IH by (cbn in H; lia). reflexivity.
Qed.

Lemma tokens_written_evals (es : list ev) : tokens_written (map EvEval es) = 0%nat.
Proof.
  unfold tokens_written. generalize 0%nat. induction es as [|e es IH]; intro a; [reflexivity|]. cbn. apply IH.
Qed.

(* nothing of the table reaches the file before the last evaluation has succeeded *)
Theorem atomic_nothing_written (items : list item) (k : nat) :
  (k < length (trace items))%nat -> tokens_written (run_until_fault (atomic_events items) k) = 0%nat.
Proof.
  intro H. unfold atomic_events. rewrite run_until_fault_evals by exact H. apply tokens_written_evals.
Qed.

Theorem atomic_complete (items : list item) :
  tokens_written (atomic_events items) = length (tokens items).
Proof.
  unfold atomic_events, tokens_written. rewrite fold_left_app. cbn [fold_left].
  pose proof (tokens_written_evals (trace items)) as H. unfold tokens_written in H. rewrite H. reflexivity.
Qed.
