(* C09: printing a definition and parsing the tokens gives the definition back. *)
From V Require Import lib.Common model.DefnSyntax.
Local Open Scope Z_scope.

Section RInd.
  Variables (P : rdefn -> Prop) (Q : rpart -> Prop).
  Hypothesis HD : forall first p rest, Q p -> Forall (fun sq => Q (snd sq)) rest -> P (RDefn first p rest).
  Hypothesis HI : forall l ps, Q (RInst l ps).
  Hypothesis HM : forall n a args, P a -> Forall P args -> Q (RMod n a args).
  Fixpoint rdefn_ind' (d : rdefn) : P d :=
    match d with
    | RDefn first p rest => HD first p rest (rpart_ind' p)
        ((fix f (l : list (rstart * rpart)) : Forall (fun sq => Q (snd sq)) l :=
            match l with [] => Forall_nil _ | sq :: r => Forall_cons sq (rpart_ind' (snd sq)) (f r) end) rest)
    end
  with rpart_ind' (p : rpart) : Q p :=
    match p with
    | RInst l ps => HI l ps
    | RMod n a args => HM n a args (rdefn_ind' a)
        ((fix f (l : list rdefn) : Forall P l := match l with [] => Forall_nil _ | d :: r => Forall_cons d (rdefn_ind' d) (f r) end) args)
    end.
End RInd.

(* what may follow a part / a definition inside a well-formed value *)
Definition follow_part (rest : list tok) : Prop :=
  match rest with [] | TComma :: _ | TRp :: _ | TGt :: TNum _ :: _ | TGe :: TNum _ :: _ => True | _ => False end.
Definition follow_defn (rest : list tok) : Prop :=
  match rest with [] | TComma :: _ | TRp :: _ => True | _ => False end.

(* the printer's two inner loops, named *)
Definition print_rest (l : list (rstart * rpart)) : list tok :=
  (fix pr (l : list (rstart * rpart)) : list tok := match l with [] => [] | (s, q) :: r => print_start s ++ print_part q ++ pr r end) l.
Definition print_args (l : list rdefn) : list tok :=
  (fix pr (l : list rdefn) : list tok := match l with [] => [] | d :: r => TComma :: print_defn d ++ pr r end) l.
Lemma print_rest_cons s q r : print_rest ((s, q) :: r) = print_start s ++ print_part q ++ print_rest r. Proof. reflexivity. Qed.
Lemma print_args_cons d r : print_args (d :: r) = TComma :: print_defn d ++ print_args r. Proof. reflexivity. Qed.
Lemma print_defn_eq first p rest : print_defn (RDefn first p rest) = match first with Some s => print_start s | None => [] end ++ print_part p ++ print_rest rest.
Proof. reflexivity. Qed.
Lemma print_mod_eq n a args : print_part (RMod n a args) = TId n :: TLp :: print_defn a ++ print_args args ++ [TRp].
Proof. reflexivity. Qed.

(* recursion depth needed *)
Fixpoint need_d (d : rdefn) : nat :=
  match d with
  | RDefn _ p rest => S (Nat.max (need_p p) ((fix nr (l : list (rstart * rpart)) : nat := match l with [] => 1%nat | (_, q) :: r => S (Nat.max (need_p q) (nr r)) end) rest))
  end
with need_p (p : rpart) : nat :=
  match p with
  | RInst _ _ => 1%nat
  | RMod _ a args => S (Nat.max (need_d a) ((fix na (l : list rdefn) : nat := match l with [] => 1%nat | d :: r => S (Nat.max (need_d d) (na r)) end) args))
  end.
Definition need_rest (l : list (rstart * rpart)) : nat :=
  (fix nr (l : list (rstart * rpart)) : nat := match l with [] => 1%nat | (_, q) :: r => S (Nat.max (need_p q) (nr r)) end) l.
Definition need_args (l : list rdefn) : nat :=
  (fix na (l : list rdefn) : nat := match l with [] => 1%nat | d :: r => S (Nat.max (need_d d) (na r)) end) l.

Lemma take_nums_print ps rest : match rest with TNum _ :: _ => False | _ => True end -> take_nums (map TNum ps ++ rest) = (ps, rest).
Proof.
  intro H. induction ps as [|z ps IH]; cbn [map app take_nums].
  - destruct rest as [|[] ?]; try reflexivity. destruct H.
  - rewrite IH. reflexivity.
Qed.
Lemma parse_start_print s rest : parse_start (print_start s ++ rest) = Some (s, rest).
Proof. destruct s as [[|] z]; reflexivity. Qed.
Lemma parse_start_follow rest : follow_defn rest -> parse_start rest = None.
Proof. destruct rest as [|[] ?]; cbn; intro H; try reflexivity; destruct H. Qed.

Definition Pd (d : rdefn) : Prop := forall f rest, (need_d d <= f)%nat -> follow_defn rest -> parse_defn f (print_defn d ++ rest) = Some (d, rest).
Definition Qp (p : rpart) : Prop := forall f rest, (need_p p <= f)%nat -> follow_part rest -> parse_part f (print_part p ++ rest) = Some (p, rest).

Lemma follow_defn_part rest : follow_defn rest -> follow_part rest.
Proof. destruct rest as [|[] ?]; cbn; tauto. Qed.
Lemma follow_part_start s q rest : follow_part (print_start s ++ q ++ rest).
Proof. destruct s as [[|] z]; cbn; exact I. Qed.
Lemma part_not_start p rest : parse_start (print_part p ++ rest) = None.
Proof. destruct p; reflexivity. Qed.

Lemma rest_ok rest : Forall (fun sq => Qp (snd sq)) rest -> forall f tail, (need_rest rest <= f)%nat -> follow_defn tail ->
  parse_rest f (print_rest rest ++ tail) = Some (rest, tail).
Proof.
  induction 1 as [|[s q] r Hq _ IH]; intros f tail Hf Ht.
  - destruct f as [|f]; [cbn in Hf; lia|]. cbn [print_rest app parse_rest]. rewrite (parse_start_follow tail Ht). reflexivity.
  - destruct f as [|f]; [cbn in Hf; lia|]. rewrite print_rest_cons, <- !app_assoc. cbn [parse_rest]. rewrite parse_start_print.
    cbn [snd] in Hq. change (need_rest ((s, q) :: r)) with (S (Nat.max (need_p q) (need_rest r))) in Hf.
    rewrite (Hq f (print_rest r ++ tail)); [|lia|].
    + rewrite (IH f tail) by (lia || assumption). reflexivity.
    + destruct r as [|[s' q'] r']; [cbn [print_rest app]; apply follow_defn_part, Ht|rewrite print_rest_cons, <- !app_assoc; apply follow_part_start].
Qed.
Lemma args_ok args : Forall Pd args -> forall f tail, (need_args args <= f)%nat -> parse_args f (print_args args ++ TRp :: tail) = Some (args, TRp :: tail).
Proof.
  induction 1 as [|d r Hd _ IH]; intros f tail Hf.
  - destruct f as [|f]; [cbn in Hf; lia|]. reflexivity.
  - destruct f as [|f]; [cbn in Hf; lia|]. rewrite print_args_cons. cbn [app parse_args]. rewrite <- app_assoc.
    change (need_args (d :: r)) with (S (Nat.max (need_d d) (need_args r))) in Hf.
    rewrite (Hd f (print_args r ++ TRp :: tail)); [|lia|].
    + rewrite (IH f tail) by lia. reflexivity.
    + destruct r as [|d' r']; cbn; exact I.
Qed.

Lemma case_defn first p rest : Qp p -> Forall (fun sq => Qp (snd sq)) rest -> Pd (RDefn first p rest).
Proof.
  intros Hp Hrest f tail Hf Ht. destruct f as [|f]; [cbn in Hf; lia|].
  change (need_d (RDefn first p rest)) with (S (Nat.max (need_p p) (need_rest rest))) in Hf.
  rewrite print_defn_eq, <- !app_assoc. cbn [parse_defn].
  assert (Hfp : follow_part (print_rest rest ++ tail)).
  { destruct rest as [|[s q] r]; [cbn [print_rest app]; apply follow_defn_part, Ht|rewrite print_rest_cons, <- !app_assoc; apply follow_part_start]. }
  destruct first as [s|].
  - rewrite parse_start_print. rewrite (Hp f _ ltac:(lia) Hfp). rewrite (rest_ok rest Hrest f tail ltac:(lia) Ht). reflexivity.
  - cbn [app]. rewrite part_not_start. rewrite (Hp f _ ltac:(lia) Hfp). rewrite (rest_ok rest Hrest f tail ltac:(lia) Ht). reflexivity.
Qed.
Lemma case_inst l ps : Qp (RInst l ps).
Proof.
  intros f tail Hf Ht. destruct f as [|f]; [cbn in Hf; lia|]. cbn [print_part app parse_part].
  assert (Hn : match tail with TNum _ :: _ => False | _ => True end) by (destruct tail as [|[] ?]; cbn in Ht |- *; auto).
  pose proof (take_nums_print ps tail Hn) as Htn.
  destruct ps as [|z ps].
  - cbn [map app] in *. destruct tail as [|t0 ts0]; [reflexivity|]. destruct t0; cbn in Ht; try destruct Ht; rewrite Htn; reflexivity.
  - cbn [map app] in *. rewrite Htn. reflexivity.
Qed.
Lemma case_mod n a args : Pd a -> Forall Pd args -> Qp (RMod n a args).
Proof.
  intros Ha Hargs f tail Hf Ht. destruct f as [|f]; [cbn in Hf; lia|].
  change (need_p (RMod n a args)) with (S (Nat.max (need_d a) (need_args args))) in Hf.
  rewrite print_mod_eq. cbn [app parse_part]. rewrite <- !app_assoc. cbn [app].
  rewrite (Ha f (print_args args ++ TRp :: tail)); [|lia|destruct args; cbn; exact I].
  rewrite (args_ok args Hargs f tail ltac:(lia)). reflexivity.
Qed.
Theorem roundtrip_defn d : Pd d.
Proof. apply (rdefn_ind' Pd Qp); [exact case_defn|exact case_inst|exact case_mod]. Qed.
Theorem roundtrip_part p : Qp p.
Proof. apply (rpart_ind' Pd Qp); [exact case_defn|exact case_inst|exact case_mod]. Qed.

(* the fuel of parse_value suffices *)
Definition Bd (d : rdefn) : Prop := (need_d d <= 2 * length (print_defn d) + 1)%nat.
Definition Bp (p : rpart) : Prop := (need_p p <= 2 * length (print_part p))%nat /\ (1 <= length (print_part p))%nat.
Lemma bound_rest rest : Forall (fun sq => Bp (snd sq)) rest -> (need_rest rest <= 2 * length (print_rest rest) + 1)%nat.
Proof.
  induction 1 as [|[s q] r [Hq _] _ IH]; [cbn; lia|]. rewrite print_rest_cons, !app_length.
  change (need_rest ((s, q) :: r)) with (S (Nat.max (need_p q) (need_rest r))). cbn [snd] in Hq.
  assert (length (print_start s) = 2%nat) by (destruct s as [[|] ?]; reflexivity). lia.
Qed.
Lemma bound_args args : Forall Bd args -> (need_args args <= 2 * length (print_args args) + 1)%nat.
Proof.
  induction 1 as [|d r Hd _ IH]; [cbn; lia|]. rewrite print_args_cons. cbn [length]. rewrite app_length.
  change (need_args (d :: r)) with (S (Nat.max (need_d d) (need_args r))). unfold Bd in Hd. lia.
Qed.
Lemma bounds : (forall d, Bd d) /\ (forall p, Bp p).
Proof.
  assert (HD : forall first p rest, Bp p -> Forall (fun sq => Bp (snd sq)) rest -> Bd (RDefn first p rest)).
  { intros first p rest [Hp Hp1] Hrest. unfold Bd. rewrite print_defn_eq, !app_length.
    change (need_d (RDefn first p rest)) with (S (Nat.max (need_p p) (need_rest rest))). pose proof (bound_rest rest Hrest). lia. }
  assert (HI : forall l ps, Bp (RInst l ps)) by (intros; split; cbn; lia).
  assert (HM : forall n a args, Bd a -> Forall Bd args -> Bp (RMod n a args)).
  { intros n a args Ha Hargs. unfold Bp. rewrite print_mod_eq. cbn [length]. rewrite !app_length. cbn [length].
    change (need_p (RMod n a args)) with (S (Nat.max (need_d a) (need_args args))). pose proof (bound_args args Hargs). unfold Bd in Ha. lia. }
  split; [intro d; apply (rdefn_ind' Bd Bp)|intro p; apply (rpart_ind' Bd Bp)]; assumption.
Qed.

(* every definition, printed with or without an explicit first range, parses back to itself *)
Theorem parse_print d : parse_value (print_defn d) = Some d.
Proof.
  unfold parse_value. pose proof (roundtrip_defn d (S (4 * length (print_defn d))) []) as H. rewrite app_nil_r in H.
  rewrite H; [reflexivity| |exact I]. pose proof (proj1 bounds d) as B. unfold Bd in B. lia.
Qed.
(* the parser only accepts what the printer can produce: parsing is the inverse of printing on its whole domain *)
Lemma take_nums_sound ts ps rest : take_nums ts = (ps, rest) -> ts = map TNum ps ++ rest.
Proof.
  revert ps rest. induction ts as [|t ts IH]; intros ps rest H; cbn [take_nums] in H.
  - injection H as <- <-. reflexivity.
  - destruct t; try (injection H as <- <-; reflexivity).
    destruct (take_nums ts) as [zs r'] eqn:E. injection H as <- <-. cbn [map app]. rewrite (IH zs r' eq_refl). reflexivity.
Qed.
Lemma parse_start_sound ts s rest : parse_start ts = Some (s, rest) -> ts = print_start s ++ rest.
Proof.
  destruct ts as [|[] [|[] ?]]; cbn; intro H; try discriminate; injection H as <- <-; reflexivity.
Qed.
Lemma parser_sound f :
  (forall ts d rest, parse_defn f ts = Some (d, rest) -> ts = print_defn d ++ rest) /\
  (forall ts p rest, parse_part f ts = Some (p, rest) -> ts = print_part p ++ rest) /\
  (forall ts r rest, parse_rest f ts = Some (r, rest) -> ts = print_rest r ++ rest) /\
  (forall ts a rest, parse_args f ts = Some (a, rest) -> ts = print_args a ++ rest).
Proof.
  induction f as [|f (IHd & IHp & IHr & IHa)]; [repeat split; intros; discriminate|].
  refine (conj _ (conj _ (conj _ _))).
  - intros ts d rest H. cbn [parse_defn] in H.
    destruct (parse_start ts) as [[s r0]|] eqn:Es.
    + destruct (parse_part f r0) as [[p ts2]|] eqn:Ep; [|discriminate]. destruct (parse_rest f ts2) as [[rr ts3]|] eqn:Er; [|discriminate].
      injection H as <- <-. rewrite print_defn_eq, <- !app_assoc.
      rewrite (parse_start_sound _ _ _ Es), (IHp _ _ _ Ep), (IHr _ _ _ Er). reflexivity.
    + destruct (parse_part f ts) as [[p ts2]|] eqn:Ep; [|discriminate]. destruct (parse_rest f ts2) as [[rr ts3]|] eqn:Er; [|discriminate].
      injection H as <- <-. rewrite print_defn_eq, <- !app_assoc. cbn [app]. rewrite (IHp _ _ _ Ep), (IHr _ _ _ Er). reflexivity.
  - intros ts p rest H. cbn [parse_part] in H. destruct ts as [|t ts1]; [discriminate|]. destruct t; try discriminate.
    destruct ts1 as [|t1 ts2].
    + cbn in H. injection H as <- <-. reflexivity.
    + destruct t1.
      all: try (destruct (take_nums _) as [ps r2] eqn:Et; injection H as <- <-; cbn [print_part app]; rewrite (take_nums_sound _ _ _ Et); reflexivity).
      destruct (parse_defn f ts2) as [[a ts3]|] eqn:Ed; [|discriminate]. destruct (parse_args f ts3) as [[args ts4]|] eqn:Ea; [|discriminate].
      destruct ts4 as [|t4 ts5]; [discriminate|]. destruct t4; try discriminate. injection H as <- <-.
      rewrite print_mod_eq. cbn [app]. rewrite <- !app_assoc. cbn [app]. rewrite (IHd _ _ _ Ed), (IHa _ _ _ Ea). reflexivity.
  - intros ts r rest H. cbn [parse_rest] in H. destruct (parse_start ts) as [[s r0]|] eqn:Es.
    + destruct (parse_part f r0) as [[q ts2]|] eqn:Ep; [|discriminate]. destruct (parse_rest f ts2) as [[rr ts3]|] eqn:Er; [|discriminate].
      injection H as <- <-. rewrite print_rest_cons, <- !app_assoc. rewrite (parse_start_sound _ _ _ Es), (IHp _ _ _ Ep), (IHr _ _ _ Er). reflexivity.
    + injection H as <- <-. reflexivity.
  - intros ts a rest H. cbn [parse_args] in H. destruct ts as [|t ts1]; [injection H as <- <-; reflexivity|].
    destruct t; try (injection H as <- <-; reflexivity).
    destruct (parse_defn f ts1) as [[d ts2]|] eqn:Ed; [|discriminate]. destruct (parse_args f ts2) as [[ds ts3]|] eqn:Ea; [|discriminate].
    injection H as <- <-. rewrite print_args_cons. cbn [app]. rewrite <- app_assoc, (IHd _ _ _ Ed), (IHa _ _ _ Ea). reflexivity.
Qed.
Theorem parse_sound ts d : parse_value ts = Some d -> ts = print_defn d.
Proof.
  unfold parse_value. destruct (parse_defn _ ts) as [[d' [|? ?]]|] eqn:E; try discriminate. intro H. injection H as <-.
  rewrite (proj1 (parser_sound _) _ _ _ E). apply app_nil_r.
Qed.
