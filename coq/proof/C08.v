From Coq Require Import Permutation Sorted ZifyBool.
From V Require Import lib.Common lib.RangeTypes lib.Sorting gen.GenC08 model.MultiRange.
Local Open Scope Z_scope.

(* ---------- the comparison is a total preorder on (start, GE before GT) ---------- *)
Lemma key_leb_spec a b :
  key_leb a b = true <->
  (r_start a < r_start b \/ (r_start a = r_start b /\ (r_type a = GE \/ r_type b = GT))).
Proof.
  unfold key_leb, range_defn_cmp. destruct a as [[|] sa ia], b as [[|] sb ib]; cbn [r_type r_start rtype_eqb andb];
  repeat split_if; split; intros; try lia; try (right; split; [lia|auto]; fail);
  repeat match goal with H : _ \/ _ |- _ => destruct H | H : _ /\ _ |- _ => destruct H end; try lia; try discriminate.
Qed.

Ltac break_or := repeat match goal with H : _ \/ _ |- _ => destruct H | H : _ /\ _ |- _ => destruct H end.

Lemma key_leb_total a b : key_leb a b = true \/ key_leb b a = true.
Proof.
  rewrite !key_leb_spec.
  destruct (Z.lt_trichotomy (r_start a) (r_start b)) as [H|[H|H]]; [left; left; exact H| |right; left; exact H].
  destruct (r_type a) eqn:Ta; [left; right; split; [exact H|left; reflexivity]|].
  destruct (r_type b) eqn:Tb; [right; right; split; [symmetry; exact H|left; reflexivity]|].
  left; right; split; [exact H|right; reflexivity].
Qed.

Lemma key_leb_trans a b c : key_leb a b = true -> key_leb b c = true -> key_leb a c = true.
Proof.
  rewrite !key_leb_spec. destruct (r_type a), (r_type b), (r_type c); intros H1 H2;
  repeat match goal with H : _ \/ _ |- _ => destruct H | H : _ /\ _ |- _ => destruct H end;
  try discriminate; try (left; lia); try (right; split; [lia|auto]).
Qed.

Lemma key_leb_antisym a b : key_leb a b = true -> key_leb b a = true -> rkey a = rkey b.
Proof.
  rewrite !key_leb_spec. unfold rkey. destruct (r_type a), (r_type b); intros H1 H2;
  repeat match goal with H : _ \/ _ |- _ => destruct H | H : _ /\ _ |- _ => destruct H end;
  try lia; try discriminate; f_equal; lia.
Qed.

Notation ksorted := (StronglySorted (le rdef key_leb)).

Lemma sorted_ranges_sorted rs : ksorted (sorted_ranges rs).
Proof. apply sort_sorted; [apply key_leb_total|apply key_leb_trans]. Qed.

(* ---------- what _range_search computes on a sorted list ---------- *)
Definition at_start_ge (r : Z) (d : rdef) : bool := rtype_eqb (r_type d) GE && (r_start d =? r).
Definition below (r : Z) (d : rdef) : bool := (r_start d <? r).

Definition spec_search (l : list rdef) (r : Z) : option rdef :=
  match find (at_start_ge r) l with
  | Some d => Some d
  | None => last_such (below r) l None
  end.

Lemma last_such_none_acc {A} (p : A -> bool) l acc :
  Forall (fun x => p x = false) l -> last_such p l acc = acc.
Proof. revert acc; induction l as [|x l IH]; intros acc H; cbn; [reflexivity|]. inversion H; subst. rewrite H2. apply IH; assumption. Qed.

Lemma find_none_forall {A} (p : A -> bool) l : Forall (fun x => p x = false) l -> find p l = None.
Proof. induction 1 as [|x l Hx _ IH]; cbn; [reflexivity|]. rewrite Hx. exact IH. Qed.

(* elements after a "blocking" element t (start >= r, not an inclusive range at r) are neither at r inclusive nor below r *)
Lemma after_block r t l :
  Forall (le rdef key_leb t) l -> r <= r_start t -> at_start_ge r t = false ->
  Forall (fun d => at_start_ge r d = false) l /\ Forall (fun d => below r d = false) l.
Proof.
  intros Hall Hr Ht. split; eapply Forall_impl; try exact Hall; intros d Hd; unfold le in Hd; rewrite key_leb_spec in Hd;
  unfold at_start_ge, below in *; destruct (r_type t), (r_type d); cbn [rtype_eqb andb] in *; break_or; try discriminate; lia.
Qed.

Lemma loop_spec r : forall l last,
  ksorted l ->
  (forall l0, last = Some l0 -> r_start l0 < r) ->
  (last = None -> match l with [] => True | d0 :: _ => r_start d0 < r \/ at_start_ge r d0 = true end) ->
  range_search_loop1 r l last =
    match find (at_start_ge r) l with Some d => Some d | None => last_such (below r) l last end.
Proof.
  induction l as [|t l IH]; intros last Hs Hl Hn.
  - cbn. destruct last as [l0|]; [|reflexivity]. specialize (Hl l0 eq_refl).
    replace (r_start l0 <? r) with true by lia. reflexivity.
  - inversion Hs as [|? ? Hs' Hall]; subst.
    cbn [range_search_loop1 find last_such].
    replace ((r =? r_start t) && rtype_eqb (r_type t) GE) with (at_start_ge r t)
      by (unfold at_start_ge; destruct (r_type t); cbn [rtype_eqb andb]; lia).
    destruct (at_start_ge r t) eqn:Hat; [reflexivity|].
    destruct last as [l0|].
    + specialize (Hl l0 eq_refl).
      destruct ((r <=? r_start t) && (r_start l0 <? r)) eqn:Hc.
      * assert (Hrt : r <= r_start t) by lia.
        destruct (after_block r t l Hall Hrt Hat) as [H1 H2].
        assert (Hb : below r t = false) by (unfold below; lia).
        rewrite (find_none_forall _ _ H1), Hb, (last_such_none_acc _ _ _ H2). reflexivity.
      * assert (Hrt : r_start t < r) by lia.
        assert (Hb : below r t = true) by (unfold below; lia).
        rewrite IH; [|exact Hs'|intros ? [= <-]; exact Hrt|discriminate]. rewrite Hb. reflexivity.
    + assert (Hrt : r_start t < r) by (destruct (Hn eq_refl) as [H|H]; [exact H|congruence]).
      assert (Hb : below r t = true) by (unfold below; lia).
      rewrite IH; [|exact Hs'|intros ? [= <-]; exact Hrt|discriminate]. rewrite Hb. reflexivity.
Qed.

Theorem search_spec l r : ksorted l -> range_search l r = spec_search l r.
Proof.
  intros Hs. unfold range_search, spec_search. destruct l as [|d0 l]; [reflexivity|].
  cbn [is_nil negb orb].
  destruct ((r <? r_start d0) || ((r =? r_start d0) && rtype_eqb (r_type d0) GT)) eqn:Hg.
  - inversion Hs as [|? ? Hs' Hall]; subst.
    assert (Hat : at_start_ge r d0 = false) by (unfold at_start_ge; destruct (r_type d0); cbn [rtype_eqb andb] in *; lia).
    assert (Hr : r <= r_start d0) by (destruct (r_type d0); cbn [rtype_eqb andb] in *; lia).
    destruct (after_block r d0 l Hall Hr Hat) as [H1 H2].
    assert (Hb : below r d0 = false) by (unfold below; lia).
    cbn [find last_such]. rewrite Hat, (find_none_forall _ _ H1), Hb, (last_such_none_acc _ _ _ H2). reflexivity.
  - apply loop_spec; [exact Hs|discriminate|].
    intros _. unfold at_start_ge. destruct (r_type d0); cbn [rtype_eqb andb] in *; lia.
Qed.

(* ---------- consequences, for every list of ranges ---------- *)
Lemma last_such_some {A} (p : A -> bool) l acc d :
  last_such p l acc = Some d -> (In d l /\ p d = true) \/ acc = Some d.
Proof.
  revert acc; induction l as [|x l IH]; intros acc H; cbn in H; [right; exact H|].
  apply IH in H. destruct H as [[H1 H2]|H]; [left; split; [right; exact H1|exact H2]|].
  destruct (p x) eqn:Hp; [injection H as <-; left; split; [left; reflexivity|exact Hp]|right; exact H].
Qed.

Lemma last_such_none {A} (p : A -> bool) l : last_such p l None = None -> Forall (fun x => p x = false) l.
Proof.
  assert (G : forall acc, last_such p l acc = None -> acc = None /\ Forall (fun x => p x = false) l).
  { induction l as [|x l IH]; intros acc H; cbn in H; [split; [exact H|constructor]|].
    apply IH in H. destruct H as [H1 H2]. destruct (p x) eqn:Hp; [discriminate|]. split; [exact H1|constructor; assumption]. }
  intro H. apply G in H. apply H.
Qed.

(* the element found by last_such is the last: everything after it fails p *)
Lemma last_such_split {A} (p : A -> bool) l d :
  last_such p l None = Some d -> exists l1 l2, l = l1 ++ d :: l2 /\ p d = true /\ Forall (fun x => p x = false) l2.
Proof.
  assert (G : forall acc, last_such p l acc = Some d ->
             (exists l1 l2, l = l1 ++ d :: l2 /\ p d = true /\ Forall (fun x => p x = false) l2)
             \/ (acc = Some d /\ Forall (fun x => p x = false) l)).
  { induction l as [|x l IH]; intros acc H; cbn in H; [right; split; [exact H|constructor]|].
    apply IH in H. destruct H as [(l1 & l2 & -> & H2 & H3)|[H1 H2]].
    - left. exists (x :: l1), l2. repeat split; assumption.
    - destruct (p x) eqn:Hp.
      + injection H1 as <-. left. exists [], l. repeat split; assumption.
      + right. split; [exact H1|constructor; assumption]. }
  intro H. apply G in H. destruct H as [H|[H _]]; [exact H|discriminate].
Qed.

Lemma spec_some_in l r d : spec_search l r = Some d -> In d l /\ contains d r = true.
Proof.
  unfold spec_search. destruct (find (at_start_ge r) l) eqn:Hf.
  - intros [= <-]. apply find_some in Hf. destruct Hf as [Hi Ha]. split; [exact Hi|].
    unfold at_start_ge, contains in *. destruct (r_type r0); cbn [rtype_eqb andb] in *; lia.
  - intro H. apply last_such_some in H. destruct H as [[Hi Hb]|H]; [|discriminate]. split; [exact Hi|].
    unfold below, contains in *. destruct (r_type d); lia.
Qed.

Lemma sorted_app_le l1 d l2 x : ksorted (l1 ++ d :: l2) -> In x l1 -> key_leb x d = true.
Proof.
  induction l1 as [|y l1 IH]; intros Hs Hx; [destruct Hx|].
  inversion Hs as [|? ? Hs' Hall]; subst. destruct Hx as [->|Hx]; [|apply IH; assumption].
  rewrite Forall_forall in Hall. apply Hall. apply in_or_app. right. left. reflexivity.
Qed.

Lemma spec_greatest l r d d' :
  ksorted l -> spec_search l r = Some d -> In d' l -> contains d' r = true -> r_start d' <= r_start d.
Proof.
  intros Hs H Hi Hc. unfold spec_search in H. destruct (find (at_start_ge r) l) eqn:Hf.
  - injection H as <-. apply find_some in Hf. destruct Hf as [_ Ha].
    unfold at_start_ge, contains in *. destruct (r_type r0), (r_type d'); cbn [rtype_eqb andb] in *; lia.
  - assert (Hd' : below r d' = true).
    { pose proof (find_none _ _ Hf _ Hi) as Hn. unfold at_start_ge, below, contains in *.
      destruct (r_type d'); cbn [rtype_eqb andb] in *; lia. }
    apply last_such_split in H. destruct H as (l1 & l2 & -> & Hb & Hall).
    apply in_app_or in Hi. destruct Hi as [Hi|[<-|Hi]].
    + pose proof (sorted_app_le _ _ _ _ Hs Hi) as Hk. rewrite key_leb_spec in Hk. lia.
    + lia.
    + rewrite Forall_forall in Hall. rewrite (Hall _ Hi) in Hd'. discriminate.
Qed.

Lemma spec_inclusive l r :
  (exists d', In d' l /\ r_type d' = GE /\ r_start d' = r) ->
  exists d, spec_search l r = Some d /\ r_type d = GE /\ r_start d = r.
Proof.
  intros (d' & Hi & Ht & Hst). unfold spec_search.
  destruct (find (at_start_ge r) l) eqn:Hf.
  - exists r0. apply find_some in Hf. destruct Hf as [_ Ha]. unfold at_start_ge in Ha.
    destruct (r_type r0); cbn [rtype_eqb andb] in *; repeat split; try lia; discriminate.
  - pose proof (find_none _ _ Hf _ Hi) as Hn. unfold at_start_ge in Hn. rewrite Ht in Hn. cbn [rtype_eqb andb] in Hn. lia.
Qed.

Lemma spec_none l r : spec_search l r = None <-> (forall d, In d l -> contains d r = false).
Proof.
  unfold spec_search. split.
  - destruct (find (at_start_ge r) l) eqn:Hf; [discriminate|]. intros H d Hi.
    apply last_such_none in H. rewrite Forall_forall in H. specialize (H _ Hi).
    pose proof (find_none _ _ Hf _ Hi) as Hn. unfold at_start_ge, below, contains in *.
    destruct (r_type d); cbn [rtype_eqb andb] in *; lia.
  - intro H. destruct (find (at_start_ge r) l) eqn:Hf.
    + apply find_some in Hf. destruct Hf as [Hi Ha]. specialize (H _ Hi).
      unfold at_start_ge, contains in *. destruct (r_type r0); cbn [rtype_eqb andb] in *; lia.
    + apply last_such_none_acc. rewrite Forall_forall. intros d Hi. specialize (H _ Hi).
      unfold below, contains in *. destruct (r_type d); lia.
Qed.

(* ---------- distinct keys: the selected range is the last containing one in key order ---------- *)
Lemma nodup_key_eq l x y : NoDup (map rkey l) -> In x l -> In y l -> rkey x = rkey y -> x = y.
Proof.
  induction l as [|z l IH]; intros Hn Hx Hy Hk; [destruct Hx|].
  cbn in Hn. inversion Hn as [|? ? Hni Hn']; subst.
  destruct Hx as [->|Hx], Hy as [->|Hy]; try reflexivity.
  - exfalso. apply Hni. rewrite Hk. apply in_map, Hy.
  - exfalso. apply Hni. rewrite <- Hk. apply in_map, Hx.
  - apply IH; assumption.
Qed.

Lemma spec_last_containing l r :
  ksorted l -> NoDup (map rkey l) -> spec_search l r = last_containing l r.
Proof.
  intros Hs Hn. destruct (last_containing l r) as [c|] eqn:Hc.
  - unfold last_containing in Hc. apply last_such_split in Hc. destruct Hc as (l1 & l2 & -> & Hcc & Hall).
    destruct (spec_search (l1 ++ c :: l2) r) as [d|] eqn:Hd.
    + destruct (spec_some_in _ _ _ Hd) as [Hi Hdc]. f_equal.
      apply in_app_or in Hi. destruct Hi as [Hi|[->|Hi]]; [|reflexivity|].
      * (* d before c: both contain r; d has the greatest start, so same start; then keys ordered d <= c *)
        assert (H1 : r_start c <= r_start d) by (eapply spec_greatest; eauto; apply in_or_app; right; left; reflexivity).
        pose proof (sorted_app_le _ _ _ _ Hs Hi) as Hk. rewrite key_leb_spec in Hk.
        assert (Hst : r_start d = r_start c) by lia.
        (* if types differ, d = GE and c = GT at the same start: then r > start, and spec picks last below ... which is c-or-later *)
        apply (nodup_key_eq (l1 ++ c :: l2)); [exact Hn|apply in_or_app; left; exact Hi|apply in_or_app; right; left; reflexivity|].
        unfold rkey. f_equal; [exact Hst|].
        destruct (r_type d) eqn:Td, (r_type c) eqn:Tc; try reflexivity; [|destruct Hk as [Hk|[_ [Hk|Hk]]]; [lia|discriminate|discriminate]].
        (* d GE, c GT, same start s, c contains r so s < r : spec_search cannot have returned d via find (start d = r needed), so via last_such below: but c is below r and later *)
        exfalso. unfold spec_search in Hd. destruct (find (at_start_ge r) (l1 ++ c :: l2)) eqn:Hf.
        -- injection Hd as ->. apply find_some in Hf. destruct Hf as [_ Ha]. unfold at_start_ge, contains in *.
           rewrite Tc in Hcc. rewrite Td in Ha. cbn [rtype_eqb andb] in Ha. lia.
        -- apply last_such_split in Hd. destruct Hd as (m1 & m2 & Heq & _ & Hm2).
           assert (Hcb : below r c = true) by (unfold below, contains in *; rewrite Tc in Hcc; lia).
           (* c occurs after d in the list, hence in m2 *)
           assert (Hcm : In c m2).
           { apply in_split in Hi. destruct Hi as (a1 & a2 & ->).
             assert (Hnd : NoDup ((a1 ++ d :: a2) ++ c :: l2)) by (eapply NoDup_map_inv; exact Hn).
             rewrite <- app_assoc in Heq. cbn in Heq.
             rewrite <- app_assoc in Hnd. cbn in Hnd.
             assert (Hdm : ~ In d a1) by (intro; eapply NoDup_remove_2; [exact Hnd|apply in_or_app; left; assumption]).
             (* positions of d agree *)
             revert Heq Hdm. clear -Hnd. revert m1. induction a1 as [|z a1 IHa]; intros m1 Heq Hdm.
             - destruct m1 as [|z m1]; cbn in Heq.
               + injection Heq as <-. apply in_or_app. right. left. reflexivity.
               + injection Heq as <- Heq. exfalso. cbn in Hnd. inversion Hnd; subst. apply H1. rewrite Heq. apply in_or_app. right. left. reflexivity.
             - destruct m1 as [|z' m1]; cbn in Heq.
               + injection Heq as -> _. exfalso. apply Hdm. left. reflexivity.
               + injection Heq as <- Heq. cbn in Hnd. inversion Hnd; subst. apply (IHa H2 m1 Heq). intro. apply Hdm. right. assumption. }
           rewrite Forall_forall in Hm2. rewrite (Hm2 _ Hcm) in Hcb. discriminate.
      * rewrite Forall_forall in Hall. rewrite (Hall _ Hi) in Hdc. discriminate.
    + rewrite spec_none in Hd. rewrite Hd in Hcc; [discriminate|apply in_or_app; right; left; reflexivity].
  - apply spec_none. intros d Hi. unfold last_containing in Hc. apply last_such_none in Hc.
    rewrite Forall_forall in Hc. apply Hc, Hi.
Qed.

(* ---- the selection depends on r only through the set of ranges containing it: it is constant as long as r crosses no start *)
Lemma last_such_ext {A} (p q : A -> bool) l acc : (forall x, In x l -> p x = q x) -> last_such p l acc = last_such q l acc.
Proof.
  revert acc. induction l as [|x l IH]; intros acc H; [reflexivity|]. cbn [last_such].
  rewrite (H x (or_introl eq_refl)). destruct (q x); apply IH; intros y Hy; apply H; right; exact Hy.
Qed.
Lemma select_locally_constant rs r r' : NoDup (map rkey rs) ->
  (forall d, In d rs -> contains d r = contains d r') -> mr_select rs r = mr_select rs r'.
Proof.
  intros Hn H. unfold mr_select. rewrite !search_spec by apply sorted_ranges_sorted.
  assert (Hn' : NoDup (map rkey (sorted_ranges rs))) by (eapply Permutation_NoDup; [apply Permutation_map, sort_perm|exact Hn]).
  rewrite !(spec_last_containing _ _ (sorted_ranges_sorted rs) Hn'). unfold last_containing.
  apply last_such_ext. intros d Hd. apply H. apply (sort_In _ key_leb). exact Hd.
Qed.
(* no start strictly between r and r', and neither of them is itself a start: the same ranges contain both *)
Lemma no_start_between rs r r' : r <= r' ->
  (forall d, In d rs -> r_start d < r \/ r' < r_start d) -> forall d, In d rs -> contains d r = contains d r'.
Proof.
  intros Hle H d Hd. specialize (H d Hd). unfold contains. destruct (r_type d).
  - destruct (r_start d <=? r) eqn:E1; destruct (r_start d <=? r') eqn:E2; try reflexivity;
      [apply Z.leb_le in E1; apply Z.leb_gt in E2; lia|apply Z.leb_gt in E1; apply Z.leb_le in E2; lia].
  - destruct (r_start d <? r) eqn:E1; destruct (r_start d <? r') eqn:E2; try reflexivity;
      [apply Z.ltb_lt in E1; apply Z.ltb_ge in E2; lia|apply Z.ltb_ge in E1; apply Z.ltb_lt in E2; lia].
Qed.
