(* C11: cutoff with dr, cutoff a whole multiple k of dr, gives exactly k + 1 rows (binary64, Flocq). *)
From Coq Require Import ZArith Reals Lra Lia Psatz.
From Flocq Require Import Core Relative BinarySingleNaN.
From Interval Require Import Tactic.
From V Require Import lib.Common model.TabCutoff.
Local Open Scope R_scope.

Definition emin := (-1074)%Z.
Definition RN := round radix2 (FLT_exp emin prec) ZnearestE.
Definition u := / 2 * bpow radix2 (- prec + 1).

Lemma RN_rel x : bpow radix2 (-1022) <= Rabs x -> exists e, Rabs e <= u /\ RN x = x * (1 + e).
Proof.
  intros Hx. apply (relative_error_N_FLT_ex radix2 emin prec Hprec (fun x => negb (Z.even x))).
  replace (emin + prec - 1)%Z with (-1022)%Z by (unfold emin, prec; lia). exact Hx.
Qed.
Lemma u_val : u = / 9007199254740992.
Proof. unfold u, prec. simpl. lra. Qed.
Lemma ratio_bound e1 e2 e3 : Rabs e1 <= u -> Rabs e2 <= u -> Rabs e3 <= u ->
  Rabs ((1 + e1) * (1 + e3) / (1 + e2) - 1) <= 4 * u.
Proof. rewrite u_val. intros H1 H2 H3. apply Rabs_le_inv in H1, H2, H3. interval with (i_prec 120). Qed.

(* real-number core: three roundings keep the quotient within 1/2 of k *)
Lemma core (k : Z) (delta : R) :
  (1 <= k <= 2^40)%Z -> bpow radix2 (-1022) <= delta ->
  let c := RN (IZR k * delta) in let d := RN delta in let q := RN (c / d) in
  Rabs (q - IZR k) < / 2 /\ 0 < d.
Proof.
  intros Hk Hd c d q.
  assert (Hd0 : 0 < delta) by (pose proof (bpow_gt_0 radix2 (-1022)); lra).
  assert (Hk1 : 1 <= IZR k) by (apply IZR_le; lia).
  assert (Hk2 : IZR k <= 1099511627776) by (apply IZR_le; lia).
  destruct (RN_rel delta) as [e2 [He2 Hde]]. { rewrite Rabs_pos_eq; lra. }
  destruct (RN_rel (IZR k * delta)) as [e1 [He1 Hce]]. { rewrite Rabs_pos_eq by nra. nra. }
  fold d in Hde. fold c in Hce.
  assert (Hu : u = / 9007199254740992) by apply u_val.
  assert (He2' := He2). apply Rabs_le_inv in He2'. assert (He1' := He1). apply Rabs_le_inv in He1'.
  assert (Hdpos : 0 < d) by (rewrite Hde; rewrite Hu in He2'; nra).
  assert (Hcd : c / d = IZR k * ((1 + e1) / (1 + e2))). { rewrite Hce, Hde. field. split; lra. }
  destruct (RN_rel (c / d)) as [e3 [He3 Hqe]].
  { rewrite Hcd. rewrite Rabs_pos_eq.
    - assert (/2 <= (1 + e1) / (1 + e2)). { rewrite Hu in He1', He2'. interval. }
      pose proof (bpow_le radix2 (-1022) (-1)). simpl (bpow radix2 (-1)) in H0.
      assert (bpow radix2 (-1022) <= /2) by (apply H0; lia). nra.
    - apply Rmult_le_pos; [lra|]. rewrite Hu in He1', He2'. interval. }
  fold q in Hqe.
  assert (Hq : q - IZR k = IZR k * ((1 + e1) * (1 + e3) / (1 + e2) - 1)). { rewrite Hqe, Hcd. field. lra. }
  split; [|exact Hdpos].
  rewrite Hq, Rabs_mult, (Rabs_pos_eq (IZR k)) by lra.
  pose proof (ratio_bound e1 e2 e3 He1 He2 He3) as Hb.
  assert (0 <= Rabs ((1 + e1) * (1 + e3) / (1 + e2) - 1)) by apply Rabs_pos.
  rewrite Hu in Hb. nra.
Qed.

(* rounding to an integer format is the integer rounding function *)
Lemma round_FIX0 rnd x : round radix2 (FIX_exp 0) rnd x = IZR (rnd x).
Proof.
  unfold round, F2R, scaled_mantissa, cexp, FIX_exp. simpl. rewrite !Rmult_1_r. reflexivity.
Qed.

Lemma py_round_correct (x : b64) : is_finite x = true -> py_round x = Some (ZnearestE (B2R x)).
Proof.
  intro Hf. unfold py_round. rewrite Hf. f_equal.
  destruct (Bnearbyint_correct prec emax Hmax mode_NE x) as [H1 _].
  apply eq_IZR. rewrite (Btrunc_correct prec emax Hmax), H1. simpl round_mode. rewrite !round_FIX0, Ztrunc_IZR. reflexivity.
Qed.

(* the statement on the binary64 functions the code computes with *)
Theorem rows_commensurate (k : Z) (delta : R) (c d : b64) :
  (1 <= k <= 2^40)%Z -> bpow radix2 (-1022) <= delta ->
  is_finite c = true -> is_finite d = true ->
  B2R c = RN (IZR k * delta) -> B2R d = RN delta ->
  nr_of c d = Some (k + 1)%Z.
Proof.
  intros Hk Hdelta Hfc Hfd Hc Hd.
  destruct (core k delta Hk Hdelta) as [Hq Hdpos]. cbv zeta in Hq, Hdpos. rewrite <- Hc, <- Hd in Hq. rewrite <- Hd in Hdpos.
  assert (Hdnz : B2R d <> 0) by lra.
  pose proof (Bdiv_correct prec emax Hprec Hmax mode_NE c d Hdnz) as HB.
  simpl round_mode in HB. change (round radix2 (SpecFloat.fexp prec emax) ZnearestE) with RN in HB.
  assert (Hk2 : IZR k <= 1099511627776) by (apply IZR_le; lia).
  assert (Hk1 : 1 <= IZR k) by (apply IZR_le; lia).
  assert (Hlt : Rabs (RN (B2R c / B2R d)) < bpow radix2 emax).
  { apply Rabs_def2 in Hq. apply Rabs_def1.
    - apply Rlt_le_trans with (bpow radix2 41); [simpl; lra|apply bpow_le; unfold emax; lia].
    - apply Rlt_le_trans with 0; [|lra]. apply Ropp_lt_gt_0_contravar. apply bpow_gt_0. }
  rewrite (Rlt_bool_true _ _ Hlt) in HB. destruct HB as (HB1 & HB2 & _).
  unfold nr_of. rewrite py_round_correct by (rewrite HB2; exact Hfc). cbn [option_map]. f_equal. f_equal.
  rewrite HB1. apply Znearest_imp. exact Hq.
Qed.

(* the expression before the repair loses a row: cutoff 0.3, dr 0.1 *)
Theorem rows_old_refuted :
  let c := of_Z2 5404319552844595 (-54) in let d := of_Z2 7205759403792794 (-56) in
  nr_of_old c d = 3%Z /\ nr_of c d = Some 4%Z.
Proof. split; vm_compute; reflexivity. Qed.

(* ---- the decision tree ---- *)
Lemma all_three_rejected n d c : init_cutoff (Some n) (Some d) (Some c) = CfgErr.
Proof. unfold init_cutoff. destruct (check_positive _ _ _); reflexivity. Qed.
Lemma step_alone_rejected d : init_cutoff None (Some d) None = CfgErr.
Proof. unfold init_cutoff. destruct (check_positive _ _ _); reflexivity. Qed.
Lemma nonpositive_nr_rejected n dr cutoff : (n <= 1)%Z -> init_cutoff (Some n) dr cutoff = CfgErr.
Proof. intro H. unfold init_cutoff, check_positive. replace (n <=? 1)%Z with true by (symmetry; apply Z.leb_le; exact H). reflexivity. Qed.
Lemma nonpositive_dr_rejected nr d cutoff : le0 d = true -> init_cutoff nr (Some d) cutoff = CfgErr.
Proof. intro H. unfold init_cutoff, check_positive. rewrite H. destruct nr as [n|]; [destruct (n <=? 1)%Z|]; reflexivity. Qed.
Lemma nonpositive_cutoff_rejected nr dr c : le0 c = true -> init_cutoff nr dr (Some c) = CfgErr.
Proof.
  intro H. unfold init_cutoff, check_positive. rewrite H.
  destruct nr as [n|]; [destruct (n <=? 1)%Z|]; destruct dr as [d|]; try destruct (le0 d); reflexivity.
Qed.
Lemma nr_dr_gives_cutoff n d : (1 < n)%Z -> le0 d = false -> le0 (cutoff_of n d) = false ->
  init_cutoff (Some n) (Some d) None = Ok (Some n, Some (cutoff_of n d)).
Proof.
  intros Hn Hd Hc. unfold init_cutoff, check_positive. replace (n <=? 1)%Z with false by (symmetry; apply Z.leb_gt; exact Hn).
  rewrite Hd, Hc. reflexivity.
Qed.
Lemma cutoff_nr_kept n c : (1 < n)%Z -> le0 c = false -> init_cutoff (Some n) None (Some c) = Ok (Some n, Some c).
Proof.
  intros Hn Hc. unfold init_cutoff, check_positive. replace (n <=? 1)%Z with false by (symmetry; apply Z.leb_gt; exact Hn).
  rewrite Hc. reflexivity.
Qed.
Lemma cutoff_dr_gives_nr c d n : le0 c = false -> le0 d = false -> nr_of c d = Some n -> (1 < n)%Z ->
  init_cutoff None (Some d) (Some c) = Ok (Some n, Some c).
Proof.
  intros Hc Hd Hn Hpos. unfold init_cutoff. unfold check_positive at 1. rewrite Hd, Hc. cbn [orb]. rewrite Hn.
  unfold check_positive. replace (n <=? 1)%Z with false by (symmetry; apply Z.leb_gt; exact Hpos). rewrite Hd, Hc. reflexivity.
Qed.
Lemma absent_values_pass : init_cutoff None None None = Ok (None, None).
Proof. reflexivity. Qed.

(* ---- non-finite values: nan and the infinities fail the positivity test, so they are configuration errors wherever given;
        conversely a value that passes is finite and strictly positive *)
Lemma le0_nonfinite : le0 (B754_nan : b64) = true /\ le0 (B754_infinity false : b64) = true /\ le0 (B754_infinity true : b64) = true /\ le0 bzero = true.
Proof. repeat split; reflexivity. Qed.
Lemma le0_false_finite_pos (x : b64) : le0 x = false -> is_finite x = true /\ (0 < B2R x)%R.
Proof.
  unfold le0. intro H. apply Bool.negb_false_iff, Bool.andb_true_iff in H. destruct H as [H1 H2].
  destruct x as [s|s| |s m e He]; try (destruct s; discriminate); try discriminate.
  split; [reflexivity|]. destruct s; [discriminate|]. unfold B2R. apply Float_prop.F2R_gt_0. simpl. lia.
Qed.
Lemma nonfinite_rejected nr dr cutoff s :
  init_cutoff nr (Some (B754_nan : b64)) cutoff = CfgErr /\ init_cutoff nr (Some (B754_infinity s : b64)) cutoff = CfgErr /\
  init_cutoff nr dr (Some (B754_nan : b64)) = CfgErr /\ init_cutoff nr dr (Some (B754_infinity s : b64)) = CfgErr.
Proof.
  repeat split; [apply nonpositive_dr_rejected|apply nonpositive_dr_rejected|apply nonpositive_cutoff_rejected|apply nonpositive_cutoff_rejected];
    try reflexivity; destruct s; reflexivity.
Qed.
